(** C13 — lemmas: the recogniser is exactly the grammar. *)
From Coq Require Import NArith String Ascii List Bool Lia.
From PV Require Import Cmd.Model Cmd.Spec.
Import ListNotations.
Open Scope N_scope.

Ltac nb :=
  repeat match goal with
  | H : (_ && _) = true |- _ => apply andb_true_iff in H; destruct H
  | H : (_ && _) = false |- _ => apply andb_false_iff in H; destruct H
  | H : (_ <=? _) = true |- _ => apply N.leb_le in H
  | H : (_ <=? _) = false |- _ => apply N.leb_gt in H
  | H : (_ <? _) = true |- _ => apply N.ltb_lt in H
  | H : (_ <? _) = false |- _ => apply N.ltb_ge in H
  | H : (_ =? _) = true |- _ => apply N.eqb_eq in H
  | H : (_ =? _) = false |- _ => apply N.eqb_neq in H
  end.

(* ------------------------------------------------------------------ characters *)
Lemma lower_cases : forall b, (65 <= b <= 90 /\ lower b = b + 32) \/ (~ (65 <= b <= 90) /\ lower b = b).
Proof.
  intros b. unfold lower, is_upper.
  destruct (65 <=? b) eqn:E1; destruct (b <=? 90) eqn:E2; cbn [andb]; nb; [left | right | right | right]; split; auto; lia.
Qed.

Lemma upper_cases : forall b, (97 <= b <= 122 /\ upper b = b - 32) \/ (~ (97 <= b <= 122) /\ upper b = b).
Proof.
  intros b. unfold upper, is_lower.
  destruct (97 <=? b) eqn:E1; destruct (b <=? 122) eqn:E2; cbn [andb]; nb; [left | right | right | right]; split; auto; lia.
Qed.

Lemma strip_prefix_app : forall p r, strip_prefix p (p ++ r) = Some r.
Proof. induction p; intros; cbn [strip_prefix app]; auto. rewrite N.eqb_refl. auto. Qed.

Lemma strip_prefix_sound : forall p s r, strip_prefix p s = Some r -> s = p ++ r.
Proof.
  induction p; intros s r H; cbn [strip_prefix] in H.
  - inversion H; auto.
  - destruct s; [discriminate|]. destruct (a =? n) eqn:E; [|discriminate]. nb. subst. cbn [app]. f_equal. auto.
Qed.

Lemma lower_eq_ci : forall b c, lower b = lower c -> ci_char c [b].
Proof.
  intros b c H.
  destruct (lower_cases b) as [[Hb Eb]|[Hb Eb]]; destruct (lower_cases c) as [[Hc Ec]|[Hc Ec]]; rewrite Eb, Ec in H.
  - assert (b = c) by lia. subst. constructor.
  - assert (Hx : b = c - 32) by lia. rewrite Hx. apply ci_to_upper. lia.
  - subst b. apply ci_to_lower. lia.
  - subst. constructor.
Qed.

Lemma eat_char_sound : forall c s w r, eat_char c s = Some (w, r) -> s = w ++ r /\ ci_char c w.
Proof.
  intros c s w r H. unfold eat_char in H. destruct s as [|b s']; [discriminate|].
  destruct (lower b =? lower c) eqn:E; [|discriminate].
  inversion H; subst. nb. split; auto. apply lower_eq_ci; auto.
Qed.

Lemma eat_char_complete : forall c w r, ci_char c w -> eat_char c (w ++ r) = Some (w, r).
Proof.
  intros c w r H. inversion H; subst; cbn [app]; unfold eat_char.
  - rewrite N.eqb_refl. auto.
  - replace (lower (c + 32) =? lower c) with true; auto. symmetry. apply N.eqb_eq.
    destruct (lower_cases (c + 32)) as [[? E]|[? E]]; destruct (lower_cases c) as [[? E']|[? E']]; rewrite E, E'; lia.
  - replace (lower (c - 32) =? lower c) with true; auto. symmetry. apply N.eqb_eq.
    destruct (lower_cases (c - 32)) as [[? E]|[? E]]; destruct (lower_cases c) as [[? E']|[? E']]; rewrite E, E'; lia.
Qed.

Lemma match_kw_sound : forall kw s w r, match_kw kw s = Some (w, r) -> s = w ++ r /\ ci_str kw w.
Proof.
  induction kw as [|c kw IH]; intros s w r H; cbn [match_kw] in H.
  - inversion H; subst. split; auto. constructor.
  - destruct (eat_char c s) as [[w1 r1]|] eqn:E; [|discriminate].
    destruct (match_kw kw r1) as [[w2 r2]|] eqn:M; [|discriminate]. inversion H; subst.
    apply eat_char_sound in E. destruct E as [-> C]. apply IH in M. destruct M as [-> S].
    split; [rewrite app_assoc; auto | constructor; auto].
Qed.

Lemma match_kw_complete : forall kw w r, ci_str kw w -> match_kw kw (w ++ r) = Some (w, r).
Proof.
  intros kw w r H. revert r. induction H; intros r; cbn [match_kw]; auto.
  rewrite <- app_assoc. rewrite eat_char_complete by auto. rewrite IHci_str. auto.
Qed.

(* ---- two different literals cannot both match at the same place ---- *)
Fixpoint first_diff (k1 k2 : list N) : bool :=
  match k1, k2 with
  | c1 :: r1, c2 :: r2 => if lower c1 =? lower c2 then first_diff r1 r2 else true
  | _, _ => false
  end.

Definition ascii_word (w : list N) : bool := forallb (fun b => b <? 128) w.

Lemma lower_ascii : forall c, c < 128 -> lower c < 128.
Proof. intros c H. destruct (lower_cases c) as [[? E]|[? E]]; rewrite E; lia. Qed.

Lemma eat_char_det : forall c1 c2 s x y,
  eat_char c1 s = Some x -> eat_char c2 s = Some y -> lower c1 = lower c2.
Proof.
  intros c1 c2 s x y H1 H2. unfold eat_char in *. destruct s as [|b s']; [discriminate|].
  destruct (lower b =? lower c1) eqn:E1; [|discriminate]. destruct (lower b =? lower c2) eqn:E2; [|discriminate].
  nb. congruence.
Qed.

Lemma eat_char_lower : forall c1 c2 s, lower c1 = lower c2 -> eat_char c1 s = eat_char c2 s.
Proof. intros. unfold eat_char. rewrite H. auto. Qed.

Lemma match_kw_incompat : forall k1 k2 s x y,
  ascii_word k1 = true -> ascii_word k2 = true -> first_diff k1 k2 = true ->
  match_kw k1 s = Some x -> match_kw k2 s = Some y -> False.
Proof.
  induction k1 as [|c1 k1 IH]; intros k2 s x y A1 A2 D H1 H2; [discriminate|].
  destruct k2 as [|c2 k2]; [discriminate|].
  cbn [first_diff] in D. cbn [ascii_word forallb] in A1, A2.
  apply andb_true_iff in A1, A2. destruct A1 as [B1 A1], A2 as [B2 A2]. apply N.ltb_lt in B1, B2.
  cbn [match_kw] in H1, H2.
  destruct (eat_char c1 s) as [[w1 r1]|] eqn:E1; [|discriminate].
  destruct (eat_char c2 s) as [[w2 r2]|] eqn:E2; [|discriminate].
  pose proof (eat_char_det _ _ _ _ _ E1 E2) as L.
  rewrite (eat_char_lower _ _ s L) in E1. rewrite E1 in E2. inversion E2; subst.
  apply N.eqb_eq in L. rewrite L in D.
  destruct (match_kw k1 r2) eqn:M1; [|discriminate]. destruct (match_kw k2 r2) eqn:M2; [|discriminate].
  eapply IH; eauto.
Qed.

(* ------------------------------------------------------------------ spaces, digits, tail *)
Definition head_is (P : N -> Prop) (l : list N) : Prop := match l with [] => True | b :: _ => P b end.

Lemma skip_sp_spec : forall s, exists sp, spaces sp /\ s = sp ++ skip_sp s /\ head_is (fun b => b <> 32) (skip_sp s).
Proof.
  induction s as [|b s IH]; cbn [skip_sp].
  - exists []. repeat split; constructor.
  - unfold is_space. destruct (b =? 32) eqn:E; nb.
    + destruct IH as (sp & S & Eq & Hd). exists (b :: sp). repeat split; auto.
      * constructor; auto.
      * cbn [app]. f_equal. auto.
    + exists []. repeat split; auto. constructor.
Qed.

Lemma skip_sp_id : forall r, head_is (fun b => b <> 32) r -> skip_sp r = r.
Proof. destruct r; cbn; auto. intros H. unfold is_space. apply N.eqb_neq in H. rewrite H. auto. Qed.

Lemma skip_sp_app : forall sp r, spaces sp -> head_is (fun b => b <> 32) r -> skip_sp (sp ++ r) = r.
Proof.
  induction sp; intros r S H; cbn [app]. - apply skip_sp_id; auto.
  - inversion S; subst. cbn [skip_sp is_space]. unfold is_space. rewrite N.eqb_refl. auto.
Qed.

Lemma skip_sp_spaces : forall l, spaces l -> skip_sp l = [].
Proof. intros l S. rewrite <- (app_nil_r l). apply skip_sp_app; cbn; auto. Qed.

Lemma skip_sp_nil : forall l, skip_sp l = [] -> spaces l.
Proof. intros l H. destruct (skip_sp_spec l) as (sp & S & Eq & _). rewrite H, app_nil_r in Eq. subst; auto. Qed.

Lemma tail_ok_sound : forall s, tail_ok s = true -> Tail s.
Proof.
  intros s H. unfold tail_ok in H. destruct (skip_sp_spec s) as (sp & S & Eq & Hd).
  destruct (skip_sp s) as [|b r] eqn:K.
  - exists sp, [], []. rewrite app_nil_r in *. repeat split; auto. constructor.
  - assert (Hs : forall t, skip_sp t = [] -> spaces t) by apply skip_sp_nil.
    destruct (N.eq_dec b 59) as [->|N59].
    + destruct (skip_sp r) eqn:R; [|discriminate]. apply Hs in R.
      exists sp, [59], r. repeat split; auto.
    + assert (skip_sp (b :: r) = []).
      { destruct b as [|p]; [destruct (skip_sp (0 :: r)); auto; discriminate|].
        repeat (destruct p as [p|p|]; try (destruct (skip_sp (_ :: r)); auto; discriminate)). lia. }
      apply Hs in H0. inversion H0; subst. cbn in Hd. lia.
Qed.

Lemma tail_ok_complete : forall s, Tail s -> tail_ok s = true.
Proof.
  intros s (sp1 & semi & sp2 & -> & S1 & [->| ->] & S2); unfold tail_ok.
  - cbn [app]. rewrite (skip_sp_spaces (sp1 ++ sp2)). + cbn. auto. + apply Forall_app; auto.
  - rewrite (skip_sp_app sp1 ([59] ++ sp2)); auto. + cbn [app]. rewrite skip_sp_spaces; auto. + cbn. lia.
Qed.

Lemma Tail_head : forall tl, Tail tl -> head_is (fun b => b = 32 \/ b = 59) tl.
Proof.
  intros tl (sp1 & semi & sp2 & -> & S1 & Hs & S2).
  destruct sp1; cbn [app]. - destruct Hs as [->| ->]; cbn; auto. destruct sp2; cbn; auto. inversion S2; auto.
  - inversion S1; cbn; auto.
Qed.

Definition digitP (b : N) : Prop := 48 <= b <= 57.
Lemma is_digit_iff : forall b, is_digit b = true <-> digitP b.
Proof. intros. unfold is_digit, digitP. rewrite andb_true_iff, N.leb_le, N.leb_le. tauto. Qed.

Lemma take_digits_spec : forall s d r, take_digits s = (d, r) ->
  s = d ++ r /\ Forall digitP d /\ head_is (fun b => ~ digitP b) r.
Proof.
  induction s as [|b s IH]; intros d r H; cbn [take_digits] in H.
  - inversion H; subst. repeat split; cbn; auto.
  - destruct (is_digit b) eqn:E.
    + destruct (take_digits s) as [d' t'] eqn:T. inversion H; subst.
      destruct (IH _ _ eq_refl) as (-> & F & Hd). repeat split; auto. constructor; auto. apply is_digit_iff; auto.
    + inversion H; subst. repeat split; cbn; auto. intros D. apply is_digit_iff in D. congruence.
Qed.

Lemma take_digits_app : forall d r, Forall digitP d -> head_is (fun b => ~ digitP b) r -> take_digits (d ++ r) = (d, r).
Proof.
  induction d; intros r F H; cbn [app].
  - destruct r; cbn [take_digits]; auto. cbn in H. destruct (is_digit n) eqn:E; auto. apply is_digit_iff in E. tauto.
  - inversion F; subst. cbn [take_digits]. apply is_digit_iff in H2. rewrite H2. rewrite IHd; auto.
Qed.

(* ------------------------------------------------------------------ arguments *)
Definition arg_spec (k : argkind) (a : list N) : Prop :=
  match k with ADigits => digits1 a | AWord w => ci_str w a end.
Definition ArgOk (ks : list argkind) (a : list N) : Prop := exists k, In k ks /\ arg_spec k a.

Lemma match_arg_sound : forall k s a r, match_arg k s = Some (a, r) -> s = a ++ r /\ arg_spec k a.
Proof.
  intros [|w] s a r H; cbn [match_arg] in H.
  - destruct (take_digits s) as [d t] eqn:T. destruct d; [discriminate|]. inversion H; subst.
    apply take_digits_spec in T. destruct T as (-> & F & _). split; auto. split; [discriminate|auto].
  - apply match_kw_sound in H. auto.
Qed.

Lemma first_arg_sound : forall ks s a r, first_arg ks s = Some (a, r) -> s = a ++ r /\ ArgOk ks a.
Proof.
  induction ks as [|k ks IH]; intros s a r H; cbn [first_arg] in H; [discriminate|].
  destruct (match_arg k s) as [[a' r']|] eqn:M.
  - inversion H; subst. apply match_arg_sound in M. destruct M. split; auto. exists k; split; [left|]; auto.
  - apply IH in H. destruct H as (? & k' & ? & ?). split; auto. exists k'; split; [right|]; auto.
Qed.

Definition head_letter (w : list N) : bool := match w with c :: _ => is_letter c | [] => false end.
Definition word_ok (w : list N) : bool := ascii_word w && head_letter w.
Definition arg_ok (k : argkind) : bool := match k with ADigits => true | AWord w => word_ok w end.
Definition arg_incompat (k1 k2 : argkind) : bool :=
  match k1, k2 with
  | ADigits, ADigits => false
  | AWord a, AWord b => first_diff a b
  | _, _ => true
  end.
Fixpoint pairwise {A} (p : A -> A -> bool) (l : list A) : bool :=
  match l with [] => true | x :: r => forallb (p x) r && pairwise p r end.

(* first byte of a word's spelling: a letter *)
Definition wordhead (b : N) : Prop := 65 <= b <= 90 \/ 97 <= b <= 122.

Lemma is_letter_iff : forall c, is_letter c = true -> 65 <= c <= 90 \/ 97 <= c <= 122.
Proof.
  intros c H. unfold is_letter, is_lower in H. nb.
  destruct (lower_cases c) as [[? E]|[? E]]; rewrite E in *; lia.
Qed.

Lemma ci_char_head : forall c w, is_letter c = true -> ci_char c w -> exists b t, w = b :: t /\ wordhead b.
Proof.
  intros c w L H. apply is_letter_iff in L. unfold wordhead.
  inversion H; subst; eexists; eexists; (split; [reflexivity|]); lia.
Qed.

Lemma word_head : forall w a, word_ok w = true -> ci_str w a -> exists b t, a = b :: t /\ wordhead b.
Proof.
  intros w a H C. unfold word_ok in H. apply andb_true_iff in H. destruct H as [_ HL].
  destruct w as [|c w]; [discriminate|]. cbn [head_letter] in HL.
  inversion C as [|c' cs w' ws Hc Hs]; subst. destruct (ci_char_head _ _ HL Hc) as (b & t & -> & Hb). exists b, (t ++ ws). auto.
Qed.

Lemma arg_head : forall k a, arg_ok k = true -> arg_spec k a ->
  exists b t, a = b :: t /\ (digitP b \/ wordhead b).
Proof.
  intros [|w] a H S; cbn in *.
  - destruct S as [NE F]. destruct a as [|b t]; [congruence|]. inversion F; subst. exists b, t; auto.
  - destruct (word_head _ _ H S) as (b & t & -> & Hb). exists b, t; auto.
Qed.

Lemma match_kw_head_none : forall w b t, word_ok w = true -> digitP b -> match_kw w (b :: t) = None.
Proof.
  intros w b t H D. unfold word_ok in H. apply andb_true_iff in H. destruct H as [_ H0].
  destruct w as [|c w]; [discriminate|]. cbn [head_letter] in H0.
  cbn [match_kw]. replace (eat_char c (b :: t)) with (@None (list N * list N)); auto. symmetry.
  unfold eat_char. unfold digitP in D. apply is_letter_iff in H0.
  destruct (lower b =? lower c) eqn:E; nb; auto.
  destruct (lower_cases b) as [[? Eb]|[? Eb]]; destruct (lower_cases c) as [[? Ec]|[? Ec]]; rewrite Eb, Ec in E; lia.
Qed.

Lemma match_arg_complete : forall k a r, arg_spec k a -> (k = ADigits -> head_is (fun b => ~ digitP b) r) ->
  match_arg k (a ++ r) = Some (a, r).
Proof.
  intros [|w] a r S H; cbn [match_arg].
  - destruct S as [NE F]. rewrite take_digits_app; auto. destruct a; congruence.
  - apply match_kw_complete; auto.
Qed.

Lemma match_arg_other_none : forall k0 k a r, arg_ok k0 = true -> arg_ok k = true -> arg_incompat k0 k = true ->
  arg_spec k a -> match_arg k0 (a ++ r) = None.
Proof.
  intros k0 k a r O0 O I S.
  destruct k0 as [|w0]; destruct k as [|w]; cbn [arg_incompat] in I; try discriminate.
  - (* digits tried on a word *)
    destruct (word_head _ _ O S) as (b & t & -> & Hb). cbn [app match_arg take_digits].
    destruct (is_digit b) eqn:E; auto. apply is_digit_iff in E. unfold digitP, wordhead in *. lia.
  - (* word tried on digits *)
    destruct S as [NE F]. destruct a as [|b t]; [congruence|]. inversion F; subst. cbn [app match_arg].
    apply match_kw_head_none; auto.
  - cbn [match_arg]. destruct (match_kw w0 (a ++ r)) eqn:M; auto. exfalso.
    cbn in O0, O. unfold word_ok in *. nb.
    eapply match_kw_incompat with (k1 := w0) (k2 := w); eauto. apply match_kw_complete; auto.
Qed.

Lemma first_arg_complete : forall ks a r,
  forallb arg_ok ks = true -> pairwise arg_incompat ks = true ->
  ArgOk ks a -> head_is (fun b => ~ digitP b) r ->
  first_arg ks (a ++ r) = Some (a, r).
Proof.
  induction ks as [|k0 ks IH]; intros a r O P (k & I & S) H; [destruct I|].
  cbn [forallb pairwise] in O, P. apply andb_true_iff in O, P. destruct O as [O0 O], P as [P0 P].
  cbn [first_arg]. destruct I as [->|I].
  - rewrite match_arg_complete; auto.
  - rewrite (match_arg_other_none k0 k); auto.
    + apply IH; auto. exists k; auto.
    + rewrite forallb_forall in O. auto.
    + rewrite forallb_forall in P0. auto.
Qed.

(* ------------------------------------------------------------------ one form *)
Definition LangF (f : form) (a s : list N) : Prop :=
  exists sp kw tl, spaces sp /\ ci_str (f_kw f) kw /\ Tail tl /\
    match f_q f with
    | QNoArg => a = [] /\ s = sp ++ kw ++ tl
    | QOpt => exists q1 q2, optq q1 /\ optq q2 /\ ArgOk (f_args f) a /\ s = sp ++ kw ++ q1 ++ a ++ q2 ++ tl
    | QMand => ArgOk (f_args f) a /\ s = sp ++ kw ++ [39] ++ a ++ [39] ++ tl
    end.

Definition form_wf (f : form) : bool :=
  word_ok (f_kw f) && forallb arg_ok (f_args f) && pairwise arg_incompat (f_args f).

Lemma opt_quote_spec : forall r, exists q, optq q /\ r = q ++ opt_quote r.
Proof.
  intros r. destruct r as [|b r]. - exists []; split; [left|]; auto.
  - destruct (N.eq_dec b 39) as [->|NE].
    + exists [39]. split; [right|]; auto.
    + exists []. split; [left; auto|]. cbn [app]. unfold opt_quote.
      destruct b as [|p]; auto. repeat (destruct p as [p|p|]; auto). lia.
Qed.

Lemma opt_quote_id : forall r, head_is (fun b => b <> 39) r -> opt_quote r = r.
Proof.
  destruct r as [|b r]; cbn [head_is]; auto. intros NE. unfold opt_quote.
  destruct b as [|p]; auto. repeat (destruct p as [p|p|]; auto). lia.
Qed.

Lemma recog_sound : forall f s a, recog f s = Some a -> LangF f a s.
Proof.
  intros f s a H. unfold recog in H.
  destruct (skip_sp_spec s) as (sp & S & Eq & _).
  destruct (match_kw (f_kw f) (skip_sp s)) as [[kw r]|] eqn:M; [|discriminate].
  apply match_kw_sound in M. destruct M as [Eq2 C]. rewrite Eq2 in Eq.
  unfold LangF. destruct (f_q f).
  - destruct (tail_ok r) eqn:T; [|discriminate]. inversion H; subst a.
    exists sp, kw, r. repeat split; auto. apply tail_ok_sound; auto.
  - destruct (opt_quote_spec r) as (q1 & Q1 & E1).
    destruct (first_arg (f_args f) (opt_quote r)) as [[a' r2]|] eqn:F; [|discriminate].
    destruct (tail_ok (opt_quote r2)) eqn:T; [|discriminate]. inversion H; subst a'.
    apply first_arg_sound in F. destruct F as [E2 AO].
    destruct (opt_quote_spec r2) as (q2 & Q2 & E3).
    exists sp, kw, (opt_quote r2). repeat split; auto. { apply tail_ok_sound; auto. }
    exists q1, q2. repeat split; auto. rewrite Eq, E1, E2, E3 at 1. reflexivity.
  - destruct r as [|b r1]; [discriminate|].
    destruct (N.eq_dec b 39) as [->|NE].
    2:{ exfalso. destruct b as [|p]; [discriminate|]. repeat (destruct p as [p|p|]; try discriminate). lia. }
    destruct (first_arg (f_args f) r1) as [[a' r2]|] eqn:F; [|discriminate].
    destruct r2 as [|b2 r2]; [discriminate|].
    destruct (N.eq_dec b2 39) as [->|NE].
    2:{ exfalso. destruct b2 as [|p]; [discriminate|]. repeat (destruct p as [p|p|]; try discriminate). lia. }
    destruct (tail_ok r2) eqn:T; [|discriminate]. inversion H; subst a'.
    apply first_arg_sound in F. destruct F as [E2 AO].
    exists sp, kw, r2. repeat split; auto. { apply tail_ok_sound; auto. }
    rewrite Eq, E2. reflexivity.
Qed.

Lemma wordhead_not_space : forall b, wordhead b -> b <> 32.
Proof. unfold wordhead. intros. lia. Qed.

Lemma ArgOk_head : forall ks a, forallb arg_ok ks = true -> ArgOk ks a ->
  exists b t, a = b :: t /\ (digitP b \/ wordhead b).
Proof.
  intros ks a O (k & I & S). rewrite forallb_forall in O. apply (arg_head k); auto.
Qed.

Lemma recog_complete : forall f s a, form_wf f = true -> LangF f a s -> recog f s = Some a.
Proof.
  intros f s a W (sp & kw & tl & S & C & T & H). unfold form_wf in W. nb.
  destruct (word_head _ _ H0 C) as (b & t & Ekw & Hb).
  pose proof (Tail_head _ T) as TH.
  unfold recog. destruct (f_q f).
  - destruct H as [-> ->]. rewrite skip_sp_app; auto.
    2:{ rewrite Ekw. cbn. apply wordhead_not_space; auto. }
    rewrite match_kw_complete; auto. rewrite tail_ok_complete; auto.
  - destruct H as (q1 & q2 & Q1 & Q2 & AO & ->). rewrite skip_sp_app; auto.
    2:{ rewrite Ekw. cbn. apply wordhead_not_space; auto. }
    rewrite match_kw_complete; auto.
    destruct (ArgOk_head _ _ H2 AO) as (b' & t' & Ea & Hb').
    assert (E1 : opt_quote (q1 ++ a ++ q2 ++ tl) = a ++ q2 ++ tl).
    { destruct Q1 as [->| ->]; cbn [app]; auto. apply opt_quote_id. rewrite Ea. cbn. unfold digitP, wordhead in Hb'. lia. }
    rewrite E1.
    assert (Hd : head_is (fun b => ~ digitP b) (q2 ++ tl)).
    { destruct Q2 as [->| ->]; cbn [app head_is]. - destruct tl; cbn in *; auto. unfold digitP. lia. - unfold digitP. lia. }
    rewrite first_arg_complete; auto.
    assert (E2 : opt_quote (q2 ++ tl) = tl).
    { destruct Q2 as [->| ->]; cbn [app]; auto. apply opt_quote_id. destruct tl; cbn in *; auto. lia. }
    rewrite E2. rewrite tail_ok_complete; auto.
  - destruct H as (AO & ->). rewrite skip_sp_app; auto.
    2:{ rewrite Ekw. cbn. apply wordhead_not_space; auto. }
    rewrite match_kw_complete; auto. cbn [app].
    change (a ++ 39 :: tl) with (a ++ (39 :: tl)).
    rewrite first_arg_complete; auto.
    + rewrite tail_ok_complete; auto.
    + cbn. unfold digitP. lia.
Qed.

Lemma recog_incompat : forall f g s a b,
  word_ok (f_kw f) = true -> word_ok (f_kw g) = true -> first_diff (f_kw f) (f_kw g) = true ->
  recog f s = Some a -> recog g s = Some b -> False.
Proof.
  intros f g s a b Wf Wg D H1 H2. unfold recog in *. unfold word_ok in *. nb.
  destruct (match_kw (f_kw f) (skip_sp s)) eqn:M1; [|discriminate].
  destruct (match_kw (f_kw g) (skip_sp s)) eqn:M2; [|discriminate].
  eapply match_kw_incompat with (k1 := f_kw f) (k2 := f_kw g); eauto.
Qed.

(* ------------------------------------------------------------------ the set of matches *)
Definition forms_wf (fs : list form) : bool :=
  forallb form_wf fs && pairwise (fun f g => first_diff (f_kw f) (f_kw g)) fs.

Lemma matches_of_in : forall fs s c a,
  In (c, a) (matches_of fs s) <-> exists f, In f fs /\ f_cmd f = c /\ recog f s = Some a.
Proof.
  induction fs as [|f fs IH]; intros s c a; cbn [matches_of].
  - split; [intros []|intros (f & [] & _)].
  - destruct (recog f s) as [a'|] eqn:R.
    + cbn [In]. rewrite IH. split.
      * intros [E|(g & I & Hc & Hr)].
        { inversion E; subst. exists f. repeat split; auto; left; auto. }
        exists g. repeat split; auto; right; auto.
      * intros (g & [->|I] & Hc & Hr). { left. congruence. } right. exists g; repeat split; auto.
    + rewrite IH. split.
      * intros (g & I & Hc & Hr). exists g. repeat split; auto; right; auto.
      * intros (g & [->|I] & Hc & Hr). { congruence. } exists g; repeat split; auto.
Qed.

Lemma matches_of_none : forall fs f s a, forallb form_wf fs = true -> word_ok (f_kw f) = true ->
  forallb (fun g => first_diff (f_kw f) (f_kw g)) fs = true -> recog f s = Some a -> matches_of fs s = [].
Proof.
  induction fs as [|g fs IH]; intros f s a W Wf D R; cbn [matches_of]; auto.
  cbn [forallb] in W, D. nb. destruct (recog g s) eqn:Rg.
  - exfalso. unfold form_wf in H1. nb. eapply recog_incompat with (f := f) (g := g); eauto.
  - eapply IH; eauto.
Qed.

Lemma matches_of_le1 : forall fs s, forms_wf fs = true -> (length (matches_of fs s) <= 1)%nat.
Proof.
  induction fs as [|f fs IH]; intros s W; cbn [matches_of]; auto.
  unfold forms_wf in W. cbn [forallb pairwise] in W. nb.
  destruct (recog f s) eqn:R.
  - rewrite (matches_of_none fs f s l); auto. unfold form_wf in H. nb; auto.
  - apply IH. unfold forms_wf. rewrite H2, H1. auto.
Qed.

Lemma forms_ok : forms_wf forms = true.
Proof. vm_compute. reflexivity. Qed.

Lemma classify_iff : forall s c a,
  classify s = Some (c, a) <-> exists f, In f forms /\ f_cmd f = c /\ recog f s = Some a.
Proof.
  intros s c a. rewrite <- matches_of_in. unfold classify.
  pose proof (matches_of_le1 forms s forms_ok) as L.
  destruct (matches_of forms s) as [|x [|y l]]; cbn [length] in L; try lia.
  - split; [discriminate|intros []].
  - split. + intros E; inversion E; left; auto. + intros [->|[]]; auto.
Qed.

Lemma forms_all_wf : forall f, In f forms -> form_wf f = true.
Proof.
  pose proof forms_ok as W. unfold forms_wf in W. nb. rewrite forallb_forall in H. auto.
Qed.

Lemma classify_LangF : forall s c a,
  classify s = Some (c, a) <-> exists f, In f forms /\ f_cmd f = c /\ LangF f a s.
Proof.
  intros. rewrite classify_iff. split; intros (f & I & Hc & H); exists f; repeat split; auto.
  - apply recog_sound; auto.
  - apply recog_complete; auto. apply forms_all_wf; auto.
Qed.

(* ------------------------------------------------------------------ the grammar of Spec.v *)
Lemma in_forms : forall f, In f forms ->
  f = mkForm SetShardingKey (B "SET SHARDING KEY TO ") QOpt [ADigits] \/
  f = mkForm SetShard (B "SET SHARD TO ") QOpt [ADigits; AWord (B "ANY")] \/
  f = mkForm ShowShard (B "SHOW SHARD") QNoArg [] \/
  f = mkForm SetServerRole (B "SET SERVER ROLE TO ") QMand
        [AWord (B "PRIMARY"); AWord (B "REPLICA"); AWord (B "ANY"); AWord (B "AUTO"); AWord (B "DEFAULT")] \/
  f = mkForm ShowServerRole (B "SHOW SERVER ROLE") QNoArg [] \/
  f = mkForm SetPrimaryReads (B "SET PRIMARY READS TO ") QOpt [AWord (B "on"); AWord (B "off"); AWord (B "default")] \/
  f = mkForm ShowPrimaryReads (B "SHOW PRIMARY READS") QNoArg [].
Proof.
  intros f H. unfold forms in H. cbn [In] in H.
  repeat (destruct H as [H|H]; [subst; auto 10|]). destruct H.
Qed.

Lemma Lang_to_forms : forall c a s, Lang c a s -> exists f, In f forms /\ f_cmd f = c /\ LangF f a s.
Proof.
  intros c a s H. inversion H; subst.
  - exists (mkForm SetShardingKey (B "SET SHARDING KEY TO ") QOpt [ADigits]).
    split; [unfold forms; cbn [In]; auto 10|]. split; [reflexivity|].
    exists sp, kw, tl. repeat split; auto. cbn [f_q]. exists q1, q2. repeat split; auto.
    exists ADigits. split; [left; auto|]. auto.
  - exists (mkForm SetShard (B "SET SHARD TO ") QOpt [ADigits; AWord (B "ANY")]).
    split; [unfold forms; cbn [In]; auto 10|]. split; [reflexivity|].
    exists sp, kw, tl. repeat split; auto. cbn [f_q]. exists q1, q2. repeat split; auto.
    destruct H3 as [D|W]; [exists ADigits | exists (AWord (B "ANY"))]; (split; [cbn [In f_args]; auto|auto]).
  - exists (mkForm ShowShard (B "SHOW SHARD") QNoArg []).
    split; [unfold forms; cbn [In]; auto 10|]. split; [reflexivity|].
    exists sp, kw, tl. repeat split; auto.
  - exists (mkForm SetServerRole (B "SET SERVER ROLE TO ") QMand
        [AWord (B "PRIMARY"); AWord (B "REPLICA"); AWord (B "ANY"); AWord (B "AUTO"); AWord (B "DEFAULT")]).
    split; [unfold forms; cbn [In]; auto 10|]. split; [reflexivity|].
    exists sp, kw, tl. repeat split; auto. cbn [f_q f_args].
    destruct H2 as [W|[W|[W|[W|W]]]];
      [exists (AWord (B "PRIMARY")) | exists (AWord (B "REPLICA")) | exists (AWord (B "ANY"))
       | exists (AWord (B "AUTO")) | exists (AWord (B "DEFAULT"))]; (split; [cbn [In]; auto 10|auto]).
  - exists (mkForm ShowServerRole (B "SHOW SERVER ROLE") QNoArg []).
    split; [unfold forms; cbn [In]; auto 10|]. split; [reflexivity|].
    exists sp, kw, tl. repeat split; auto.
  - exists (mkForm SetPrimaryReads (B "SET PRIMARY READS TO ") QOpt [AWord (B "on"); AWord (B "off"); AWord (B "default")]).
    split; [unfold forms; cbn [In]; auto 10|]. split; [reflexivity|].
    exists sp, kw, tl. repeat split; auto. cbn [f_q]. exists q1, q2. repeat split; auto. cbn [f_args].
    destruct H3 as [W|[W|W]];
      [exists (AWord (B "on")) | exists (AWord (B "off")) | exists (AWord (B "default"))]; (split; [cbn [In]; auto 10|auto]).
  - exists (mkForm ShowPrimaryReads (B "SHOW PRIMARY READS") QNoArg []).
    split; [unfold forms; cbn [In]; auto 10|]. split; [reflexivity|].
    exists sp, kw, tl. repeat split; auto.
Qed.

Lemma forms_to_Lang : forall f a s, In f forms -> LangF f a s -> Lang (f_cmd f) a s.
Proof.
  intros f a s I (sp & kw & tl & S & C & T & H). apply in_forms in I.
  destruct I as [->|[->|[->|[->|[->|[->| ->]]]]]]; cbn [f_q f_kw f_args f_cmd] in *.
  - destruct H as (q1 & q2 & Q1 & Q2 & (k & I & A) & ->). cbn [In] in I. destruct I as [<-|[]].
    apply L_set_sharding_key; auto.
  - destruct H as (q1 & q2 & Q1 & Q2 & (k & I & A) & ->). cbn [In] in I.
    apply L_set_shard; auto. destruct I as [<-|[<-|[]]]; cbn [arg_spec] in A; auto.
  - destruct H as [-> ->]. apply L_show_shard; auto.
  - destruct H as ((k & I & A) & ->). cbn [In] in I. apply L_set_server_role; auto.
    destruct I as [<-|[<-|[<-|[<-|[<-|[]]]]]]; cbn [arg_spec] in A; auto 10.
  - destruct H as [-> ->]. apply L_show_server_role; auto.
  - destruct H as (q1 & q2 & Q1 & Q2 & (k & I & A) & ->). cbn [In] in I.
    apply L_set_primary_reads; auto. destruct I as [<-|[<-|[<-|[]]]]; cbn [arg_spec] in A; auto.
  - destruct H as [-> ->]. apply L_show_primary_reads; auto.
Qed.

(** classify decides exactly the grammar *)
Lemma classify_exact : forall s c a, classify s = Some (c, a) <-> Lang c a s.
Proof.
  intros. rewrite classify_LangF. split.
  - intros (f & I & <- & H). apply forms_to_Lang; auto.
  - apply Lang_to_forms.
Qed.

Lemma lang_unambiguous : forall s c a c' a', Lang c a s -> Lang c' a' s -> c = c' /\ a = a'.
Proof.
  intros s c a c' a' H1 H2. apply classify_exact in H1, H2. rewrite H1 in H2. inversion H2; auto.
Qed.

(** "exactly one regex matches" is the same as "some regex matches" *)
Lemma one_match_rule : forall s, matches_of forms s = [] \/ exists x, matches_of forms s = [x].
Proof.
  intros s. pose proof (matches_of_le1 forms s forms_ok) as L.
  destruct (matches_of forms s) as [|x [|y l]]; cbn [length] in L; try lia; eauto.
Qed.

Lemma classify_not_invalid : forall s a, classify s <> Some (InvalidShardingKey, a).
Proof. intros s a H. apply classify_exact in H. inversion H. Qed.

Lemma is_ascii_app : forall x y, is_ascii (x ++ y) = is_ascii x && is_ascii y.
Proof. intros. unfold is_ascii. apply forallb_app. Qed.

Lemma ci_str_refl : forall w, ci_str w w.
Proof. induction w; [constructor|]. change (a :: w) with ([a] ++ w). constructor; auto. constructor. Qed.

(* ------------------------------------------------------------------ arguments as the code reads them *)
Definition ArgP (c : cmd) (a : list N) : Prop :=
  match c with
  | SetShardingKey => digits1 a
  | SetShard => digits1 a \/ ci_str (B "ANY") a
  | SetServerRole => ci_str (B "PRIMARY") a \/ ci_str (B "REPLICA") a \/ ci_str (B "ANY") a \/
                     ci_str (B "AUTO") a \/ ci_str (B "DEFAULT") a
  | SetPrimaryReads => ci_str (B "on") a \/ ci_str (B "off") a \/ ci_str (B "default") a
  | InvalidShardingKey => False
  | _ => a = []
  end.

Lemma Lang_ArgP : forall c a s, Lang c a s -> ArgP c a.
Proof. intros c a s H. inversion H; subst; cbn [ArgP]; auto. Qed.

Lemma lower_idem : forall c, lower (lower c) = lower c.
Proof. intros c. destruct (lower_cases c) as [[? E]|[? E]]; rewrite E; auto. destruct (lower_cases (c + 32)) as [[? E']|[? E']]; rewrite E'; lia. Qed.

Lemma ci_char_lower : forall c w, ci_char c w -> map lower w = [lower c].
Proof.
  intros c w H. inversion H; subst; cbn [map]; auto.
  - f_equal. destruct (lower_cases (c + 32)) as [[? E]|[? E]]; destruct (lower_cases c) as [[? E']|[? E']]; rewrite E, E'; lia.
  - f_equal. destruct (lower_cases (c - 32)) as [[? E]|[? E]]; destruct (lower_cases c) as [[? E']|[? E']]; rewrite E, E'; lia.
Qed.

Lemma ci_str_lower : forall w a, ci_str w a -> map lower a = map lower w.
Proof.
  intros w a H. induction H; auto.
  rewrite map_app. cbn [map]. rewrite (ci_char_lower c w); auto. cbn [app]. f_equal. auto.
Qed.

Lemma upper_lower : forall c, upper (lower c) = upper c.
Proof.
  intros c. destruct (lower_cases c) as [[? E]|[? E]]; rewrite E; auto.
  destruct (upper_cases (c + 32)) as [[? E1]|[? E1]]; destruct (upper_cases c) as [[? E2]|[? E2]]; rewrite E1, E2; lia.
Qed.

Lemma map_upper_lower : forall a, map upper (map lower a) = map upper a.
Proof. induction a; cbn [map]; auto. rewrite upper_lower. f_equal; auto. Qed.

Lemma ci_str_upper : forall w a, ci_str w a -> map upper a = map upper w.
Proof. intros w a H. rewrite <- (map_upper_lower a), <- (map_upper_lower w). f_equal. apply ci_str_lower; auto. Qed.

Lemma list_eqb_eq : forall a b, list_eqb a b = true <-> a = b.
Proof.
  induction a as [|x a IH]; destruct b as [|y b]; cbn [list_eqb]; split; intros H; try discriminate; auto.
  - apply andb_true_iff in H. destruct H as [H1 H2]. apply N.eqb_eq in H1. apply IH in H2. congruence.
  - inversion H; subst. rewrite N.eqb_refl. cbn. apply IH; auto.
Qed.
Lemma list_eqb_refl : forall a, list_eqb a a = true.
Proof. intros. apply list_eqb_eq; auto. Qed.

Lemma digits_not_any : forall a, digits1 a -> list_eqb (map upper a) (B "ANY") = false /\ ci_eqb a (B "any") = false.
Proof.
  intros a [NE F]. destruct a as [|b t]; [congruence|]. inversion F; subst.
  unfold ci_eqb. change (B "ANY") with [65; 78; 89]. change (map lower (B "any")) with [97; 110; 121].
  cbn [map list_eqb]. split; apply andb_false_iff; left; apply N.eqb_neq.
  - destruct (upper_cases b) as [[? E]|[? E]]; rewrite E; lia.
  - destruct (lower_cases b) as [[? E]|[? E]]; rewrite E; lia.
Qed.

(* ------------------------------------------------------------------ refinement to the abstract record *)
Definition concr (e : env) (x : astate) : rstate :=
  mkSt (a_shard x)
       (match a_role x with RS_primary => Some Primary | RS_replica => Some Replica
                          | RS_any | RS_auto => None | RS_default => e_default_role e end)
       (match a_role x with RS_primary | RS_replica | RS_any => Some false | RS_auto => Some true | RS_default => None end)
       (match a_preads x with T_on => Some true | T_off => Some false | T_default => None end).

Lemma concr_init : forall e, concr e ainit = init e.
Proof. reflexivity. Qed.

Ltac word_facts W w :=
  let L := fresh "L" in let U := fresh "U" in
  pose proof (ci_str_lower w _ W) as L;
  pose proof (ci_str_upper w _ W) as U.

Lemma handle_refines : forall e x c a o,
  wf_env e -> ArgP c a -> o < e_shards e ->
  fst (handle e (concr e x) c a o) = concr e (aexec e x c a o).
Proof.
  intros e x c a o [W1 W2] A O. destruct c; cbn [ArgP] in A; try contradiction.
  - (* SET SHARDING KEY *)
    unfold handle, texec, parse_i64, aexec. destruct (num_of a <=? i64_max); reflexivity.
  - (* SET SHARD *)
    unfold handle, texec, aexec. destruct A as [D|W].
    + destruct (digits_not_any a D) as [E1 E2]. rewrite E1, E2. cbn [st_shard set_shard fst].
      unfold parse_usize_or_max. destruct x as [sh r p].
      destruct (num_of a <=? usize_max) eqn:Q; destruct (num_of a <? e_shards e) eqn:R; nb.
      * replace (e_shards e <=? num_of a) with false by (symmetry; apply N.leb_gt; lia). reflexivity.
      * replace (e_shards e <=? num_of a) with true by (symmetry; apply N.leb_le; lia). reflexivity.
      * lia.
      * replace (e_shards e <=? usize_max) with true by (symmetry; apply N.leb_le; lia). reflexivity.
    + word_facts W (B "ANY").
      replace (list_eqb (map upper a) (B "ANY")) with true by (rewrite U; reflexivity).
      unfold ci_eqb. replace (list_eqb (map lower a) (map lower (B "any"))) with true by (rewrite L; reflexivity).
      cbn [st_shard set_shard fst].
      replace (e_shards e <=? o) with false by (symmetry; apply N.leb_gt; lia). reflexivity.
  - subst. reflexivity.
  - (* SET SERVER ROLE *)
    unfold handle, texec, aexec, role_of_arg, role_setting_of, ci_eqb.
    destruct A as [W|[W|[W|[W|W]]]];
      [word_facts W (B "PRIMARY") | word_facts W (B "REPLICA") | word_facts W (B "ANY")
       | word_facts W (B "AUTO") | word_facts W (B "DEFAULT")]; rewrite L; destruct x; reflexivity.
  - subst. reflexivity.
  - (* SET PRIMARY READS *)
    unfold handle, texec, aexec, preads_of_arg, tri_of, ci_eqb.
    destruct A as [W|[W|W]];
      [word_facts W (B "on") | word_facts W (B "off") | word_facts W (B "default")];
      rewrite L; destruct x; reflexivity.
  - subst. reflexivity.
Qed.

Definition recognised (i : input) : Prop := exists s, classify s = Some (fst (fst i), snd (fst i)).
Lemma rec_by : forall (i : input) s, classify s = Some (fst (fst i), snd (fst i)) -> recognised i.
Proof. intros i s H. exists s. exact H. Qed.

Definition input_ok (e : env) (i : input) : Prop :=
  recognised i /\ snd i < e_shards e.

Lemma run_refines : forall e l x, wf_env e -> Forall (input_ok e) l ->
  fst (run e (concr e x) l) = concr e (arun e x l).
Proof.
  intros e l. induction l as [|[[c a] o] l IH]; intros x W F; [reflexivity|].
  inversion F as [|i l' [[s R] O] F']; subst. cbn [fst snd] in *.
  cbn [run]. destruct (handle e (concr e x) c a o) as [st1 r] eqn:H.
  destruct (run e st1 l) as [st2 rs] eqn:Rn. cbn [fst].
  assert (E : st1 = concr e (aexec e x c a o)).
  { rewrite <- handle_refines; auto. - rewrite H; auto. - apply classify_exact in R. eapply Lang_ArgP; eauto. }
  subst st1. unfold arun. cbn [fold_left fst snd]. fold (arun e (aexec e x c a o) l).
  rewrite <- IH; auto. rewrite Rn. auto.
Qed.

Lemma show_renders : forall e x,
  handle e (concr e x) ShowShard [] 0 = (concr e x, RShow (B "shard") (render_shard x)) /\
  handle e (concr e x) ShowServerRole [] 0 = (concr e x, RShow (B "server role") (render_role e x)) /\
  handle e (concr e x) ShowPrimaryReads [] 0 = (concr e x, RShow (B "primary reads") (render_preads e x)).
Proof.
  intros e [sh r p]. repeat split.
  - destruct r, (e_default_role e), (e_parser e); reflexivity.
  - destruct p, (e_preads e); reflexivity.
Qed.

Lemma show_reflects_sets : forall e l, wf_env e -> Forall (input_ok e) l ->
  let st := fst (run e (init e) l) in
  let x := arun e ainit l in
  handle e st ShowShard [] 0 = (st, RShow (B "shard") (render_shard x)) /\
  handle e st ShowServerRole [] 0 = (st, RShow (B "server role") (render_role e x)) /\
  handle e st ShowPrimaryReads [] 0 = (st, RShow (B "primary reads") (render_preads e x)).
Proof.
  intros e l W F st x. subst st x. rewrite <- concr_init. rewrite run_refines; auto. apply show_renders.
Qed.

(* ------------------------------------------------------------------ numbers of any length *)
Lemma Tail_nil : Tail [].
Proof. exists [], [], []. repeat split; auto; constructor. Qed.

Lemma digits_commands_recognised : forall d, digits1 d ->
  classify (B "SET SHARDING KEY TO " ++ d) = Some (SetShardingKey, d) /\
  classify (B "SET SHARD TO " ++ d) = Some (SetShard, d).
Proof.
  intros d D. split; apply classify_exact.
  - pose proof (L_set_sharding_key [] (B "SET SHARDING KEY TO ") [] d [] []) as H.
    cbn [app] in H. rewrite app_nil_r in H. apply H; [constructor | apply ci_str_refl | left; auto | auto | left; auto | apply Tail_nil].
  - pose proof (L_set_shard [] (B "SET SHARD TO ") [] d [] []) as H.
    cbn [app] in H. rewrite app_nil_r in H. apply H; [constructor | apply ci_str_refl | left; auto | auto | left; auto | apply Tail_nil].
Qed.

Lemma big_key_rejected : forall e st d o, i64_max < num_of d ->
  handle e st SetShardingKey d o = (st, RErr (msg_bad_key d)).
Proof.
  intros. unfold handle, texec, parse_i64.
  replace (num_of d <=? i64_max) with false by (symmetry; apply N.leb_gt; auto). reflexivity.
Qed.

Lemma big_shard_rejected : forall e st d o, digits1 d -> e_shards e <= usize_max -> e_shards e <= num_of d ->
  handle e st SetShard d o = (st, RErr (msg_bad_shard (parse_usize_or_max d) (e_shards e) (st_shard st))).
Proof.
  intros e st d o D W H. unfold handle, texec. destruct (digits_not_any d D) as [E _]. rewrite E.
  cbn [st_shard set_shard].
  replace (e_shards e <=? parse_usize_or_max d) with true.
  - destruct st; reflexivity.
  - symmetry. apply N.leb_le. unfold parse_usize_or_max. destruct (num_of d <=? usize_max); lia.
Qed.

(* ------------------------------------------------------------------ a whole query *)
Lemma handled_iff_command : forall e st q o,
  (exists r, snd (on_query e st q o) = Some r) <-> (exists c a, Lang c a q).
Proof.
  intros. unfold on_query. split.
  - intros [r H]. destruct (classify q) as [[c a]|] eqn:C; [|discriminate]. exists c, a. apply classify_exact; auto.
  - intros (c & a & H). apply classify_exact in H. rewrite H. destruct (handle e st c a o). eexists; reflexivity.
Qed.

Lemma other_untouched : forall e st q o, (forall c a, ~ Lang c a q) -> on_query e st q o = (st, None).
Proof.
  intros e st q o H. unfold on_query. destruct (classify q) as [[c a]|] eqn:C; auto.
  apply classify_exact in C. destruct (H _ _ C).
Qed.

(* ------------------------------------------------------------------ nothing follows the ';' *)
Definition no59 (l : list N) : Prop := ~ In 59 l.
Definition no59b (l : list N) : bool := forallb (fun c => negb (c =? 59)) l.
Lemma no59b_ok : forall l, no59b l = true -> no59 l.
Proof.
  intros l H I. unfold no59b in H. rewrite forallb_forall in H. apply H in I. vm_compute in I. discriminate.
Qed.
Lemma no59_app : forall a b, no59 a -> no59 b -> no59 (a ++ b).
Proof. intros a b Ha Hb I. apply in_app_or in I. unfold no59 in *. tauto. Qed.
Lemma spaces_no59 : forall l, spaces l -> no59 l.
Proof. intros l S I. unfold spaces in S. rewrite Forall_forall in S. apply S in I. discriminate. Qed.
Lemma optq_no59 : forall l, optq l -> no59 l.
Proof. intros l [->| ->] I; cbn in I; [auto|]. destruct I as [I|[]]. discriminate. Qed.
Lemma digits_no59 : forall l, Forall digitP l -> no59 l.
Proof. intros l F I. rewrite Forall_forall in F. apply F in I. unfold digitP in I. lia. Qed.

Lemma ci_char_no59 : forall c w, c <> 59 -> ci_char c w -> no59 w.
Proof.
  intros c w NE H I. inversion H; subst; cbn [In] in I;
    repeat (destruct I as [I|I]; [try lia; try discriminate|]); auto.
Qed.
Lemma ci_str_no59 : forall k w, no59 k -> ci_str k w -> no59 w.
Proof.
  intros k w N H. induction H. - intros [].
  - apply no59_app. + eapply ci_char_no59; eauto. intros ->. apply N. left; auto.
    + apply IHci_str. intros I. apply N. right; auto.
Qed.

Definition arg_no59 (k : argkind) : bool := match k with ADigits => true | AWord w => no59b w end.
Definition form_no59 (f : form) : bool := no59b (f_kw f) && forallb arg_no59 (f_args f).

Lemma ArgOk_no59 : forall ks a, forallb arg_no59 ks = true -> ArgOk ks a -> no59 a.
Proof.
  intros ks a F (k & I & S). rewrite forallb_forall in F. apply F in I. destruct k; cbn in *.
  - destruct S. apply digits_no59; auto.
  - eapply ci_str_no59; eauto. apply no59b_ok; auto.
Qed.

Lemma LangF_shape : forall f a s, form_no59 f = true -> LangF f a s ->
  exists P semi sp2, s = P ++ semi ++ sp2 /\ no59 P /\ (semi = [] \/ semi = [59]) /\ spaces sp2.
Proof.
  intros f a s W (sp & kw & tl & S & C & (sp1 & semi & sp2 & -> & S1 & Hs & S2) & H).
  unfold form_no59 in W. apply andb_true_iff in W. destruct W as [Wk Wa].
  assert (Nk : no59 kw) by (eapply ci_str_no59; eauto; apply no59b_ok; auto).
  pose proof (spaces_no59 _ S) as Ns. pose proof (spaces_no59 _ S1) as N1.
  destruct (f_q f).
  - destruct H as [-> ->]. exists (sp ++ kw ++ sp1), semi, sp2. repeat split; auto.
    + repeat rewrite <- app_assoc. reflexivity.
    + repeat apply no59_app; auto.
  - destruct H as (q1 & q2 & Q1 & Q2 & AO & ->). exists (sp ++ kw ++ q1 ++ a ++ q2 ++ sp1), semi, sp2. repeat split; auto.
    + repeat rewrite <- app_assoc. reflexivity.
    + repeat apply no59_app; auto using optq_no59. eapply ArgOk_no59; eauto.
  - destruct H as (AO & ->). exists (sp ++ kw ++ [39] ++ a ++ [39] ++ sp1), semi, sp2. repeat split; auto.
    + repeat rewrite <- app_assoc. reflexivity.
    + repeat apply no59_app; auto; try (apply no59b_ok; reflexivity). eapply ArgOk_no59; eauto.
Qed.

Lemma split_unique : forall (b : N) x y p q, ~ In b p -> ~ In b q -> x ++ b :: y = p ++ b :: q -> y = q.
Proof.
  intros b x. induction x as [|c x IH]; intros y p q Hp Hq E.
  - destruct p as [|d p]; cbn [app] in E.
    + inversion E; auto.
    + inversion E; subst. exfalso. apply Hp. left; auto.
  - destruct p as [|d p]; cbn [app] in E.
    + inversion E as [[Ec Eq]]. exfalso. apply Hq. rewrite <- Eq. apply in_or_app. right. left. auto.
    + inversion E; subst. apply (IH y p q); auto. intros I. apply Hp. right; auto.
Qed.

Lemma forms_no59 : forallb form_no59 forms = true.
Proof. vm_compute. reflexivity. Qed.

(** whatever follows a ';' in a command is blank: two statements in one message, or a
    command followed by anything else, are never a command *)
Lemma after_semicolon_blank : forall c a x y, Lang c a (x ++ [59] ++ y) -> spaces y.
Proof.
  intros c a x y H. apply Lang_to_forms in H. destruct H as (f & I & _ & H).
  pose proof forms_no59 as W. rewrite forallb_forall in W. apply W in I.
  destruct (LangF_shape _ _ _ I H) as (P & semi & sp2 & E & NP & Hs & S2).
  destruct Hs as [->| ->].
  - exfalso. cbn [app] in E. assert (In 59 (P ++ sp2)) by (rewrite <- E; apply in_or_app; right; left; auto).
    apply in_app_or in H0. destruct H0; [auto|]. apply (spaces_no59 _ S2); auto.
  - cbn [app] in E. apply split_unique in E; auto. + subst; auto. + apply spaces_no59; auto.
Qed.

(* ------------------------------------------------------------------ commands are pure ASCII *)
Lemma ci_char_ascii : forall c w, ci_char c w -> c < 128 -> is_ascii w = true.
Proof.
  intros c w H A. inversion H; subst; unfold is_ascii; cbn [forallb]; rewrite andb_true_r; apply N.ltb_lt; lia.
Qed.
Lemma ci_str_ascii : forall k w, ci_str k w -> is_ascii k = true -> is_ascii w = true.
Proof.
  induction 1; intros A; auto. unfold is_ascii in A. cbn [forallb] in A. apply andb_true_iff in A. destruct A as [A1 A2].
  rewrite is_ascii_app. apply andb_true_iff. split.
  - eapply ci_char_ascii; eauto. apply N.ltb_lt; auto.
  - apply IHci_str. exact A2.
Qed.
Lemma spaces_ascii : forall l, spaces l -> is_ascii l = true.
Proof. intros l S. unfold is_ascii. apply forallb_forall. intros x I. unfold spaces in S. rewrite Forall_forall in S. rewrite (S x I). reflexivity. Qed.
Lemma optq_ascii : forall l, optq l -> is_ascii l = true.
Proof. intros l [->| ->]; reflexivity. Qed.
Lemma digits_ascii : forall l, digits1 l -> is_ascii l = true.
Proof. intros l [_ F]. unfold is_ascii. apply forallb_forall. intros x I. rewrite Forall_forall in F. apply F in I. apply N.ltb_lt. lia. Qed.
Lemma Tail_ascii : forall l, Tail l -> is_ascii l = true.
Proof.
  intros l (a & b & c & -> & Sa & Hb & Sc). repeat rewrite is_ascii_app.
  rewrite (spaces_ascii a), (spaces_ascii c) by auto. destruct Hb as [->| ->]; reflexivity.
Qed.

Ltac asc :=
  repeat rewrite is_ascii_app; repeat (apply andb_true_iff; split);
  auto using spaces_ascii, optq_ascii, digits_ascii, Tail_ascii; try reflexivity;
  try (eapply ci_str_ascii; [eassumption|reflexivity]);
  intuition (auto using digits_ascii; try (eapply ci_str_ascii; [eassumption|reflexivity])).

Lemma Lang_ascii : forall c a s, Lang c a s -> is_ascii s = true.
Proof. intros c a s H. inversion H; subst; asc. Qed.

(* regression (former D2): the long s / Kelvin sign spellings are not commands *)
Lemma non_ascii_never_command : forall s, is_ascii s = false -> classify s = None.
Proof.
  intros s H. destruct (classify s) as [[c a]|] eqn:C; auto.
  apply classify_exact in C. apply Lang_ascii in C. congruence.
Qed.

Lemma LangF_arg_len : forall f a s, LangF f a s -> (length a <= length s)%nat.
Proof.
  intros f a s (sp & kw & tl & _ & _ & _ & H). destruct (f_q f).
  - destruct H as [-> _]. cbn. lia.
  - destruct H as (q1 & q2 & _ & _ & _ & ->). repeat rewrite app_length. lia.
  - destruct H as (_ & ->). repeat rewrite app_length. lia.
Qed.

Lemma Lang_arg_len : forall c a s, Lang c a s -> (length a <= length s)%nat.
Proof. intros c a s H. apply Lang_to_forms in H. destruct H as (f & _ & _ & H). eapply LangF_arg_len; eauto. Qed.

(* ------------------------------------------------------------------ what is not a SET changes nothing *)
Lemma other_is_noop : forall e e' st l, run_ev e st (EvOther e' :: l) = run_ev e' st l.
Proof. reflexivity. Qed.

Definition same_env (e : env) (l : list event) : Prop :=
  Forall (fun ev => match ev with EvOther e' => e' = e | EvCmd _ _ _ => True end) l.

Lemma run_ev_same_env : forall e l st, same_env e l ->
  run_ev e st l = (e, fst (run e st (cmds_of l)), snd (run e st (cmds_of l))).
Proof.
  intros e l. induction l as [|ev l IH]; intros st S; [reflexivity|].
  inversion S as [|x y Hx Hl]; subst. destruct ev as [c a o|e'].
  - cbn [run_ev cmds_of run]. destruct (handle e st c a o) as [st1 r]. rewrite IH by auto.
    destruct (run e st1 (cmds_of l)) as [st2 rs]. reflexivity.
  - subst e'. cbn [run_ev cmds_of]. apply IH; auto.
Qed.

(* whatever settings a RELOAD brings, SHOW keeps reporting every explicit SET *)
Lemma explicit_sets_survive : forall e e' st,
  snd (handle e st ShowShard [] 0) = snd (handle e' st ShowShard [] 0) /\
  (st_role st <> None \/ st_parser st <> None ->
   snd (handle e st ShowServerRole [] 0) = snd (handle e' st ShowServerRole [] 0)) /\
  (st_preads st <> None -> snd (handle e st ShowPrimaryReads [] 0) = snd (handle e' st ShowPrimaryReads [] 0)).
Proof.
  intros e e' [sh r p pr]. repeat split.
  - cbn. intros [H|H]; destruct r as [r|]; try reflexivity; destruct p; try reflexivity; congruence.
  - cbn. intros H. destruct pr; try reflexivity; congruence.
Qed.
