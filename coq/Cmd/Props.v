(** C13 — property theorems only.  Each is closed by [exact <lemma>] and audited with
    [Print Assumptions]; the [Example]s validate the specification and show that the
    hypotheses are satisfiable. *)
From Coq Require Import NArith String Ascii List Bool.
From PV Require Import Cmd.Model Cmd.Spec Cmd.Proofs Cmd.WireProofs.
Import ListNotations.
Open Scope N_scope.

(** The recogniser (the seven regexes + the "exactly one matches" rule) accepts exactly the
    grammar of Spec.v, with exactly its capture.  Recognition is a property of the WHOLE text. *)
Theorem c13_exact : forall s c a, classify s = Some (c, a) <-> Lang c a s.
Proof. exact classify_exact. Qed.
Print Assumptions c13_exact.

Theorem c13_unambiguous : forall s c a c' a', Lang c a s -> Lang c' a' s -> c = c' /\ a = a'.
Proof. exact lang_unambiguous. Qed.
Print Assumptions c13_unambiguous.

(** matches.len() != 1  is the same test as  matches.is_empty() : never two regexes at once *)
Theorem c13_one_match_rule : forall s, matches_of forms s = [] \/ exists x, matches_of forms s = [x].
Proof. exact one_match_rule. Qed.
Print Assumptions c13_one_match_rule.

(** Commands are pure ASCII: a query containing any non-ASCII byte (U+017F, U+212A, invalid
    UTF-8, ...) is never a command (the regexes carry (?i-u)). *)
Theorem c13_commands_are_ascii : forall c a s, Lang c a s -> is_ascii s = true.
Proof. exact Lang_ascii. Qed.
Print Assumptions c13_commands_are_ascii.

Theorem c13_non_ascii_never_command : forall s, is_ascii s = false -> classify s = None.
Proof. exact non_ascii_never_command. Qed.
Print Assumptions c13_non_ascii_never_command.

(** A query is answered by the pooler iff it is a command; anything else is left alone
    (state unchanged, nothing written, the message goes on to the server as it is). *)
Theorem c13_handled_iff_command : forall e st q o,
  (exists r, snd (on_query e st q o) = Some r) <-> (exists c a, Lang c a q).
Proof. exact handled_iff_command. Qed.
Print Assumptions c13_handled_iff_command.

Theorem c13_other_untouched : forall e st q o, (forall c a, ~ Lang c a q) -> on_query e st q o = (st, None).
Proof. exact other_untouched. Qed.
Print Assumptions c13_other_untouched.

(** Every command, whatever its argument (digit strings of any length included), gets a
    reply that a client parses back into exactly the intended messages, ending in
    ReadyForQuery('I'); the router state stays within usize. *)
Theorem c13_never_forwarded_always_answered : forall e st q o,
  wf_env e -> st_ok st -> o < e_shards e -> len32 q < qlimit -> (exists c a, Lang c a q) ->
  exists r, snd (on_query e st q o) = Some r /\
            decode_reply (encode r) = Some r /\ ends_with_rfq (encode r) = true /\
            st_ok (fst (on_query e st q o)).
Proof. exact command_answered. Qed.
Print Assumptions c13_never_forwarded_always_answered.

Theorem c13_session_answered : forall e l st, wf_env e -> st_ok st -> Forall (input_sane e) l ->
  Forall reply_ok (snd (run e st l)) /\ st_ok (fst (run e st l)).
Proof. exact run_answers. Qed.
Print Assumptions c13_session_answered.

(** The three encoders, for EVERY NUL-free string below 2^30 bytes: frames, length fields,
    field layout and the closing ReadyForQuery are right. *)
Theorem c13_replies_wellformed : forall r, reply_ok r ->
  decode_reply (encode r) = Some r /\ ends_with_rfq (encode r) = true.
Proof. exact replies_wellformed. Qed.
Print Assumptions c13_replies_wellformed.

(** SHOW reports what the preceding SETs established, after ANY sequence of commands. *)
Theorem c13_show_reflects_sets : forall e l, wf_env e -> Forall (input_ok e) l ->
  let st := fst (run e (init e) l) in
  let x := arun e ainit l in
  handle e st ShowShard [] 0 = (st, RShow (B "shard") (render_shard x)) /\
  handle e st ShowServerRole [] 0 = (st, RShow (B "server role") (render_role e x)) /\
  handle e st ShowPrimaryReads [] 0 = (st, RShow (B "primary reads") (render_preads e x)).
Proof. exact show_reflects_sets. Qed.
Print Assumptions c13_show_reflects_sets.

(** What is not a SET changes nothing: an ordinary statement, a transaction, RELOAD, PAUSE /
    RESUME or a refused checkout between two commands is a no-op on the session's command
    state; with unchanged settings the replies are those of the commands alone (so
    c13_show_reflects_sets holds across them) ... *)
Theorem c13_other_events_are_noops : forall e l st, same_env e l ->
  run_ev e st l = (e, fst (run e st (cmds_of l)), snd (run e st (cmds_of l))).
Proof. exact run_ev_same_env. Qed.
Print Assumptions c13_other_events_are_noops.

(** ... and whatever settings a RELOAD that rebuilt the pool brings (pool size, default role,
    shard count, sharding function), SHOW keeps reporting every explicit SET: the selected
    shard (even one the new configuration no longer has), a role / parser choice, primary reads. *)
Theorem c13_explicit_sets_survive_reload : forall e e' st,
  snd (handle e st ShowShard [] 0) = snd (handle e' st ShowShard [] 0) /\
  (st_role st <> None \/ st_parser st <> None ->
   snd (handle e st ShowServerRole [] 0) = snd (handle e' st ShowServerRole [] 0)) /\
  (st_preads st <> None -> snd (handle e st ShowPrimaryReads [] 0) = snd (handle e' st ShowPrimaryReads [] 0)).
Proof. exact explicit_sets_survive. Qed.
Print Assumptions c13_explicit_sets_survive_reload.

(** Numbers of any length: recognised, and when they do not fit they are refused with an
    error reply and the state is exactly what it was. *)
Theorem c13_any_digits_recognised : forall d, digits1 d ->
  classify (B "SET SHARDING KEY TO " ++ d) = Some (SetShardingKey, d) /\
  classify (B "SET SHARD TO " ++ d) = Some (SetShard, d).
Proof. exact digits_commands_recognised. Qed.
Print Assumptions c13_any_digits_recognised.

Theorem c13_big_key_refused : forall e st d o, i64_max < num_of d ->
  handle e st SetShardingKey d o = (st, RErr (msg_bad_key d)).
Proof. exact big_key_rejected. Qed.
Print Assumptions c13_big_key_refused.

Theorem c13_big_shard_refused : forall e st d o, digits1 d -> e_shards e <= usize_max -> e_shards e <= num_of d ->
  handle e st SetShard d o = (st, RErr (msg_bad_shard (parse_usize_or_max d) (e_shards e) (st_shard st))).
Proof. exact big_shard_rejected. Qed.
Print Assumptions c13_big_shard_refused.

(** Text after the ';' of a command is blank: two statements in one message, or a command
    embedded in front of something else, are never commands. *)
Theorem c13_after_semicolon_blank : forall c a x y, Lang c a (x ++ [59] ++ y) -> spaces y.
Proof. exact after_semicolon_blank. Qed.
Print Assumptions c13_after_semicolon_blank.

Theorem c13_never_invalid : forall s a, classify s <> Some (InvalidShardingKey, a).
Proof. exact classify_not_invalid. Qed.
Print Assumptions c13_never_invalid.

(* ------------------------------------------------------------------ validation / non-vacuity *)

(** The table the recogniser runs on IS the seven literals of query_router.rs:30-38
    (also compared with the literals extracted from the source on every run). *)
Example forms_are_the_regexes : map render_form forms =
  [ B "(?i-u)^ *SET SHARDING KEY TO '?([0-9]+)'? *;? *$";
    B "(?i-u)^ *SET SHARD TO '?([0-9]+|ANY)'? *;? *$";
    B "(?i-u)^ *SHOW SHARD *;? *$";
    B "(?i-u)^ *SET SERVER ROLE TO '(PRIMARY|REPLICA|ANY|AUTO|DEFAULT)' *;? *$";
    B "(?i-u)^ *SHOW SERVER ROLE *;? *$";
    B "(?i-u)^ *SET PRIMARY READS TO '?(on|off|default)'? *;? *$";
    B "(?i-u)^ *SHOW PRIMARY READS *;? *$" ].
Proof. vm_compute. reflexivity. Qed.

Example accepted_spellings :
  map classify
    [ B "SET SHARDING KEY TO '1234'"; B "set sharding key to 1234;"; B "   SeT ShArDiNg KeY tO '007  ;   ";
      B "SET SHARD TO 3"; B "SET SHARD TO 'any'"; B "SET SHARD TO 1'";
      B "SHOW SHARD"; B "show shard ; ";
      B "SET SERVER ROLE TO 'primary'"; B "SET SERVER ROLE TO 'Auto';";
      B "SHOW SERVER ROLE"; B "SET PRIMARY READS TO on"; B "SET PRIMARY READS TO 'Default'"; B "SHOW PRIMARY READS;" ]
  = [ Some (SetShardingKey, B "1234"); Some (SetShardingKey, B "1234"); Some (SetShardingKey, B "007");
      Some (SetShard, B "3"); Some (SetShard, B "any"); Some (SetShard, B "1");
      Some (ShowShard, []); Some (ShowShard, []);
      Some (SetServerRole, B "primary"); Some (SetServerRole, B "Auto");
      Some (ShowServerRole, []); Some (SetPrimaryReads, B "on"); Some (SetPrimaryReads, B "Default");
      Some (ShowPrimaryReads, []) ].
Proof. vm_compute. reflexivity. Qed.

(** near misses, embedded and multi-statement texts are not commands *)
Example rejected_texts :
  map classify
    [ B "SET SHARD TO 1; SELECT 1"; B "SELECT 1; SET SHARD TO 1"; B "SET SHARD TO 1; SET SHARD TO 2";
      B "/* x */ SET SHARD TO 1"; B "SET SHARD TO 1 -- c"; B "SET  SHARD TO 1"; B "SET SHARD TO  1";
      B "SET SHARD TO"; B "SET SHARD TO ''"; B "SET SHARD TO -1"; B "SET SHARD TO 1.0"; B "SET SHARD TO ''1''";
      B "SET SHARD 1"; B "SET SHARDS TO 1"; B "SHOW SHARDS"; B "SHOW SHARD;;"; B "SHOW  SHARD";
      B "SET SERVER ROLE TO primary"; B "SET SERVER ROLE TO 'primary"; B "SET SERVER ROLE TO 'master'";
      B "SET PRIMARY READS TO yes"; B "SET PRIMARY READS TO 1"; B "SELECT 'SET SHARD TO 1'";
      [83; 72; 79; 87; 9; 83; 72; 65; 82; 68];          (* SHOW<TAB>SHARD *)
      B "SHOW SHARD" ++ [10];                           (* trailing newline *)
      [10] ++ B "SHOW SHARD"; B "" ]
  = repeat None 27.
Proof. vm_compute. reflexivity. Qed.

Example lang_member : Lang SetShard (B "any") (B " set shard to 'any ;").
Proof. apply c13_exact. vm_compute. reflexivity. Qed.
Example lang_nonmember : forall c a, ~ Lang c a (B "SET SHARD TO 1; SELECT 1").
Proof. intros c a H. apply c13_exact in H. vm_compute in H. discriminate. Qed.
(* regression (former D2): U+017F for S, U+212A for K *)
Example fold_nonmember :
  classify ([197; 191] ++ B "ET SHARD TO 1") = None /\
  classify (B "SET SHARDING " ++ [226; 132; 170] ++ B "EY TO 5") = None.
Proof. vm_compute. split; reflexivity. Qed.

Definition e5 : env := mkEnv 5 None false true.

(** a session exercising every command; the hypotheses of c13_show_reflects_sets hold for it *)
Definition session : list input :=
  [ (SetShard, B "3", 0); (SetShard, B "7", 0); (SetShard, B "99999999999999999999999", 0); (SetShard, B "aNy", 4);
    (SetShardingKey, B "12", 2); (SetShardingKey, B "9223372036854775808", 1);
    (SetServerRole, B "Replica", 0); (SetServerRole, B "AUTO", 0); (SetPrimaryReads, B "OFF", 0); (ShowShard, [], 0) ].

Ltac ok_by s := split; [apply (rec_by _ (B s)); vm_compute; reflexivity | vm_compute; reflexivity].

Example session_hypotheses : wf_env e5 /\ Forall (input_ok e5) session.
Proof.
  split; [split; vm_compute; congruence|]. unfold session.
  apply Forall_cons; [ok_by "SET SHARD TO 3"%string|].
  apply Forall_cons; [ok_by "SET SHARD TO 7"%string|].
  apply Forall_cons; [ok_by "SET SHARD TO 99999999999999999999999"%string|].
  apply Forall_cons; [ok_by "SET SHARD TO aNy"%string|].
  apply Forall_cons; [ok_by "SET SHARDING KEY TO 12"%string|].
  apply Forall_cons; [ok_by "SET SHARDING KEY TO 9223372036854775808"%string|].
  apply Forall_cons; [ok_by "SET SERVER ROLE TO 'Replica'"%string|].
  apply Forall_cons; [ok_by "SET SERVER ROLE TO 'AUTO'"%string|].
  apply Forall_cons; [ok_by "SET PRIMARY READS TO OFF"%string|].
  apply Forall_cons; [ok_by "SHOW SHARD"%string|]. apply Forall_nil.
Qed.

Example session_result :
  snd (run e5 (init e5) session) =
  [ ROk (B "SET SHARD");
    RErr (B "shard 7 is not configured 5, staying on shard Some(3) (shard numbers start at 0)");
    RErr (B "shard 18446744073709551615 is not configured 5, staying on shard Some(3) (shard numbers start at 0)");
    ROk (B "SET SHARD"); ROk (B "SET SHARDING KEY");
    RErr (B "sharding key 9223372036854775808 is out of range for bigint");
    ROk (B "SET SERVER ROLE"); ROk (B "SET SERVER ROLE"); ROk (B "SET PRIMARY READS");
    RShow (B "shard") (B "2") ] /\
  fst (run e5 (init e5) session) = mkSt (Some 2) None (Some true) (Some false) /\
  arun e5 ainit session = mkA (Some 2) RS_auto T_off.
Proof. vm_compute. repeat split. Qed.

(* regression (former D1): any capitalisation of the argument takes effect and SHOW reports it *)
Example primary_reads_any_case :
  snd (run (mkEnv 1 None false true) (init (mkEnv 1 None false true))
         [(SetPrimaryReads, B "OFF", 0); (ShowPrimaryReads, [], 0); (SetPrimaryReads, B "On", 0); (ShowPrimaryReads, [], 0);
          (SetPrimaryReads, B "OFF", 0); (SetPrimaryReads, B "DeFaUlT", 0); (ShowPrimaryReads, [], 0)]) =
  [ ROk (B "SET PRIMARY READS"); RShow (B "primary reads") (B "off"); ROk (B "SET PRIMARY READS"); RShow (B "primary reads") (B "on");
    ROk (B "SET PRIMARY READS"); ROk (B "SET PRIMARY READS"); RShow (B "primary reads") (B "on") ].
Proof. vm_compute. reflexivity. Qed.

(** the exact bytes of the three reply kinds *)
Example bytes_ok : encode (ROk (B "SET SHARD")) =
  [67; 0; 0; 0; 14; 83; 69; 84; 32; 83; 72; 65; 82; 68; 0;  90; 0; 0; 0; 5; 73].
Proof. vm_compute. reflexivity. Qed.
Example bytes_show : encode (RShow (B "shard") (B "3")) =
  [84; 0; 0; 0; 30; 0; 1; 115; 104; 97; 114; 100; 0; 0; 0; 0; 0; 0; 0; 0; 0; 0; 25; 255; 255; 255; 255; 255; 255; 0; 0;
   68; 0; 0; 0; 11; 0; 1; 0; 0; 0; 1; 51;
   67; 0; 0; 0; 13; 83; 69; 76; 69; 67; 84; 32; 49; 0;
   90; 0; 0; 0; 5; 73].
Proof. vm_compute. reflexivity. Qed.
Example bytes_err : encode (RErr (B "x")) =
  [69; 0; 0; 0; 29; 83; 70; 65; 84; 65; 76; 0; 86; 70; 65; 84; 65; 76; 0; 67; 53; 56; 48; 48; 48; 0; 77; 120; 0; 0;
   90; 0; 0; 0; 5; 73].
Proof. vm_compute. reflexivity. Qed.

(** the frame reader is not trivially accepting: damaged replies do not parse *)
Example reader_rejects :
  decode_reply (removelast (encode (ROk (B "SET SHARD")))) = None /\
  decode_reply (encode (ROk (B "SET SHARD")) ++ [0]) = None /\
  decode_reply [67; 0; 0; 0; 13; 83; 69; 84; 32; 83; 72; 65; 82; 68; 0; 90; 0; 0; 0; 5; 73] = None /\
  decode_reply (encode (ROk (B "a" ++ [0] ++ B "b"))) <> Some (ROk (B "a" ++ [0] ++ B "b")).
Proof. vm_compute. repeat split; congruence. Qed.

(** the Query message: text ends at the first NUL; a body without NUL loses its last byte;
    an empty body panics (messages.rs:752) *)
Example message_level :
  classify_msg 81 (B "SHOW SHARD" ++ [0]) = Ok (Some (ShowShard, [])) /\
  classify_msg 81 (B "SHOW SHARD" ++ [0] ++ B " junk" ++ [0]) = Ok (Some (ShowShard, [])) /\
  classify_msg 81 (B "SHOW SHARDx") = Ok (Some (ShowShard, [])) /\
  classify_msg 80 (B "SHOW SHARD" ++ [0]) = Ok None /\
  classify_msg 81 [] = Panic.
Proof. vm_compute. repeat split. Qed.
