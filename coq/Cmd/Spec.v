(** C13 — specification: the documented command language, written as an explicit
    grammar (no recogniser, no control flow), and the abstract meaning of the commands.

    [Lang c a s]: the byte string [s] is the command [c] with captured argument [a].
    Letters are compared with plain ASCII case-insensitivity (the regexes carry (?i-u)). *)
From Coq Require Import NArith String Ascii List Bool.
From PV Require Import Cmd.Model.
Import ListNotations.
Open Scope N_scope.

(* one literal character, case-insensitively: the byte that may stand for it *)
Inductive ci_char : N -> list N -> Prop :=
| ci_same c : ci_char c [c]
| ci_to_lower c : 65 <= c <= 90 -> ci_char c [c + 32]
| ci_to_upper c : 97 <= c <= 122 -> ci_char c [c - 32].

Inductive ci_str : list N -> list N -> Prop :=
| ci_nil : ci_str [] []
| ci_cons c cs w ws : ci_char c w -> ci_str cs ws -> ci_str (c :: cs) (w ++ ws).

Definition spaces (l : list N) : Prop := Forall (fun b => b = 32) l.                 (*  *   *)
Definition optq (l : list N) : Prop := l = [] \/ l = [39].                           (*  '?  *)
Definition digits1 (l : list N) : Prop := l <> [] /\ Forall (fun b => 48 <= b <= 57) l.   (* [0-9]+ *)
Definition Tail (l : list N) : Prop :=                                               (*  *;? *$ *)
  exists sp1 semi sp2, l = sp1 ++ semi ++ sp2 /\ spaces sp1 /\ (semi = [] \/ semi = [59]) /\ spaces sp2.

Inductive Lang : cmd -> list N -> list N -> Prop :=
(* (?i-u)^ *SET SHARDING KEY TO '?([0-9]+)'? *;? *$ *)
| L_set_sharding_key sp kw q1 a q2 tl :
    spaces sp -> ci_str (B "SET SHARDING KEY TO ") kw -> optq q1 -> digits1 a -> optq q2 -> Tail tl ->
    Lang SetShardingKey a (sp ++ kw ++ q1 ++ a ++ q2 ++ tl)
(* (?i-u)^ *SET SHARD TO '?([0-9]+|ANY)'? *;? *$ *)
| L_set_shard sp kw q1 a q2 tl :
    spaces sp -> ci_str (B "SET SHARD TO ") kw -> optq q1 ->
    (digits1 a \/ ci_str (B "ANY") a) -> optq q2 -> Tail tl ->
    Lang SetShard a (sp ++ kw ++ q1 ++ a ++ q2 ++ tl)
(* (?i-u)^ *SHOW SHARD *;? *$ *)
| L_show_shard sp kw tl :
    spaces sp -> ci_str (B "SHOW SHARD") kw -> Tail tl ->
    Lang ShowShard [] (sp ++ kw ++ tl)
(* (?i-u)^ *SET SERVER ROLE TO '(PRIMARY|REPLICA|ANY|AUTO|DEFAULT)' *;? *$ *)
| L_set_server_role sp kw a tl :
    spaces sp -> ci_str (B "SET SERVER ROLE TO ") kw ->
    (ci_str (B "PRIMARY") a \/ ci_str (B "REPLICA") a \/ ci_str (B "ANY") a \/
     ci_str (B "AUTO") a \/ ci_str (B "DEFAULT") a) -> Tail tl ->
    Lang SetServerRole a (sp ++ kw ++ [39] ++ a ++ [39] ++ tl)
(* (?i-u)^ *SHOW SERVER ROLE *;? *$ *)
| L_show_server_role sp kw tl :
    spaces sp -> ci_str (B "SHOW SERVER ROLE") kw -> Tail tl ->
    Lang ShowServerRole [] (sp ++ kw ++ tl)
(* (?i-u)^ *SET PRIMARY READS TO '?(on|off|default)'? *;? *$ *)
| L_set_primary_reads sp kw q1 a q2 tl :
    spaces sp -> ci_str (B "SET PRIMARY READS TO ") kw -> optq q1 ->
    (ci_str (B "on") a \/ ci_str (B "off") a \/ ci_str (B "default") a) -> optq q2 -> Tail tl ->
    Lang SetPrimaryReads a (sp ++ kw ++ q1 ++ a ++ q2 ++ tl)
(* (?i-u)^ *SHOW PRIMARY READS *;? *$ *)
| L_show_primary_reads sp kw tl :
    spaces sp -> ci_str (B "SHOW PRIMARY READS") kw -> Tail tl ->
    Lang ShowPrimaryReads [] (sp ++ kw ++ tl).

Definition is_ascii (s : list N) : bool := forallb (fun b => b <? 128) s.

(* ------------------------------------------------------------------ abstract meaning *)
Inductive role_setting := RS_primary | RS_replica | RS_any | RS_auto | RS_default.
Inductive tri := T_on | T_off | T_default.
(* what the SETs of a session have established *)
Record astate := mkA { a_shard : option N; a_role : role_setting; a_preads : tri }.
Definition ainit : astate := mkA None RS_default T_default.

Definition ci_eqb (a w : list N) : bool := list_eqb (map lower a) (map lower w).

Definition role_setting_of (a : list N) : option role_setting :=
  if ci_eqb a (B "primary") then Some RS_primary
  else if ci_eqb a (B "replica") then Some RS_replica
  else if ci_eqb a (B "any") then Some RS_any
  else if ci_eqb a (B "auto") then Some RS_auto
  else if ci_eqb a (B "default") then Some RS_default
  else None.

(* documented: the argument words are case-insensitive *)
Definition tri_of (a : list N) : option tri :=
  if ci_eqb a (B "on") then Some T_on
  else if ci_eqb a (B "off") then Some T_off
  else if ci_eqb a (B "default") then Some T_default
  else None.

Definition aexec (e : env) (x : astate) (c : cmd) (a : list N) (oracle : N) : astate :=
  match c with
  | SetShardingKey =>      (* a bigint key selects the shard the sharder computes; anything else is refused *)
      if num_of a <=? i64_max then mkA (Some oracle) (a_role x) (a_preads x) else x
  | SetShard =>            (* ANY: a shard chosen by the pooler; a configured shard number; anything else is refused *)
      if ci_eqb a (B "any") then mkA (Some oracle) (a_role x) (a_preads x)
      else if num_of a <? e_shards e then mkA (Some (num_of a)) (a_role x) (a_preads x)
      else x
  | SetServerRole =>
      match role_setting_of a with Some r => mkA (a_shard x) r (a_preads x) | None => x end
  | SetPrimaryReads =>
      match tri_of a with Some t => mkA (a_shard x) (a_role x) t | None => x end
  | _ => x
  end.

Definition arun (e : env) (x : astate) (l : list input) : astate :=
  fold_left (fun x i => aexec e x (fst (fst i)) (snd (fst i)) (snd i)) l x.

Definition render_shard (x : astate) : list N :=
  match a_shard x with None => B "unset" | Some n => dec n end.
Definition render_role (e : env) (x : astate) : list N :=
  match a_role x with
  | RS_primary => B "primary" | RS_replica => B "replica" | RS_any => B "any" | RS_auto => B "auto"
  | RS_default => match e_default_role e with
                  | Some r => role_name r
                  | None => if e_parser e then B "auto" else B "any"
                  end
  end.
Definition render_preads (e : env) (x : astate) : list N :=
  match a_preads x with
  | T_on => B "on" | T_off => B "off"
  | T_default => if e_preads e then B "on" else B "off"
  end.

Definition wf_env (e : env) : Prop := 1 <= e_shards e /\ e_shards e <= usize_max.
