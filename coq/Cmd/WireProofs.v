(** C13 — lemmas about the reply bytes: every reply the pooler writes parses back, with an
    independent frame reader, into exactly the intended messages. *)
From Coq Require Import ZArith NArith String Ascii List Bool Lia.
From PV Require Import Cmd.Model Cmd.Spec Cmd.Proofs.
Import ListNotations.
Open Scope N_scope.

Ltac Zify.zify_post_hook ::= Z.to_euclidean_division_equations.

Definition no_nul (l : list N) : Prop := Forall (fun b => b <> 0) l.
Definition small (l : list N) : Prop := len32 l < 1073741824.     (* 2^30 *)

Definition reply_ok (r : reply) : Prop :=
  match r with
  | ROk t => no_nul t /\ small t
  | RShow n v => no_nul n /\ small n /\ small v
  | RErr m => no_nul m /\ small m
  | RNoReply => False
  end.

Lemma len32_app : forall a b, len32 (a ++ b) = len32 a + len32 b.
Proof. intros. unfold len32. rewrite app_length, Nat2N.inj_add. auto. Qed.
Lemma len32_cons : forall a b, len32 (a :: b) = 1 + len32 b.
Proof. intros. change (a :: b) with ([a] ++ b). rewrite len32_app. reflexivity. Qed.

Lemma dec32_be32 : forall n, n < 4294967296 ->
  dec32 ((n / 16777216) mod 256) ((n / 65536) mod 256) ((n / 256) mod 256) (n mod 256) = n.
Proof.
  intros n H. unfold dec32.
  replace (n / 65536) with (n / 256 / 256) by (rewrite N.div_div by lia; reflexivity).
  replace (n / 16777216) with (n / 256 / 256 / 256) by (repeat rewrite N.div_div by lia; reflexivity).
  pose proof (N.div_mod n 256). pose proof (N.div_mod (n / 256) 256). pose proof (N.div_mod (n / 256 / 256) 256).
  pose proof (N.mod_lt n 256). pose proof (N.mod_lt (n / 256) 256). pose proof (N.mod_lt (n / 256 / 256) 256).
  assert (n / 256 / 256 / 256 < 256).
  { apply N.div_lt_upper_bound; [lia|]. apply N.div_lt_upper_bound; [lia|]. apply N.div_lt_upper_bound; lia. }
  rewrite (N.mod_small (n / 256 / 256 / 256)) by auto.
  set (q1 := n / 256) in *. set (q2 := q1 / 256) in *. set (q3 := q2 / 256) in *.
  set (r0 := n mod 256) in *. set (r1 := q1 mod 256) in *. set (r2 := q2 mod 256) in *.
  lia.
Qed.

Lemma body_scan : forall done t body acc, body <> [] ->
  fold_left pstep body (PBody done t (len32 body) acc) = PHdr (done ++ [(t, rev acc ++ body)]) [].
Proof.
  intros done t body. induction body as [|b body IH]; intros acc NE; [congruence|].
  cbn [fold_left]. rewrite len32_cons. destruct body as [|b' body'].
  - change (len32 []) with 0. cbn [pstep fold_left rev]. reflexivity.
  - cbn [pstep]. rewrite len32_cons.
    replace (1 + (1 + len32 body') =? 0) with false by (symmetry; apply N.eqb_neq; lia).
    replace (1 + (1 + len32 body') =? 1) with false by (symmetry; apply N.eqb_neq; lia).
    replace (1 + (1 + len32 body') - 1) with (len32 (b' :: body')) by (rewrite len32_cons; lia).
    rewrite (IH (b :: acc)) by discriminate. cbn [rev]. rewrite <- app_assoc. reflexivity.
Qed.

Lemma frame_scan : forall done t body, len32 body + 4 < 4294967296 ->
  fold_left pstep (frame t body) (PHdr done []) = PHdr (done ++ [(t, body)]) [].
Proof.
  intros done t body H. unfold frame, be32.
  set (L := len32 body + 4) in *.
  set (x3 := (L / 16777216) mod 256). set (x2 := (L / 65536) mod 256). set (x1 := (L / 256) mod 256). set (x0 := L mod 256).
  cbn [app fold_left]. cbn [pstep]. unfold x3, x2, x1, x0. rewrite dec32_be32 by auto.
  replace (L <? 4) with false by (symmetry; apply N.ltb_ge; unfold L; lia).
  destruct body as [|b body].
  - replace (L =? 4) with true by (symmetry; apply N.eqb_eq; reflexivity). reflexivity.
  - replace (L =? 4) with false by (symmetry; apply N.eqb_neq; unfold L; rewrite len32_cons; lia).
    replace (L - 4) with (len32 (b :: body)) by (unfold L; lia).
    rewrite body_scan by discriminate. reflexivity.
Qed.

Lemma split_nul_app : forall s r, no_nul s -> split_nul (s ++ 0 :: r) = Some (s, r).
Proof.
  induction s as [|b s IH]; intros r H; cbn [app split_nul]. - reflexivity.
  - inversion H; subst. replace (b =? 0) with false by (symmetry; apply N.eqb_neq; auto). rewrite IH; auto.
Qed.

Lemma dec_cstr_only_ok : forall s, no_nul s -> dec_cstr_only (s ++ [0]) = Some s.
Proof. intros. unfold dec_cstr_only. rewrite split_nul_app; auto. Qed.

Lemma dec_rowdesc_ok : forall name, no_nul name ->
  dec_rowdesc (be16 1 ++ name ++ [0] ++ rowdesc_fixed) = Some name.
Proof.
  intros. unfold dec_rowdesc. rewrite strip_prefix_app. cbn [app]. rewrite split_nul_app by auto.
  rewrite list_eqb_refl. auto.
Qed.

Lemma dec_datarow_ok : forall v, len32 v < 4294967296 -> dec_datarow (be16 1 ++ be32 (len32 v) ++ v) = Some v.
Proof.
  intros v H. unfold dec_datarow. rewrite strip_prefix_app. unfold be32. cbn [app].
  rewrite dec32_be32 by auto. rewrite N.eqb_refl. auto.
Qed.

Lemma dec_err_ok : forall m, no_nul m -> dec_err (err_fixed ++ m ++ [0; 0]) = Some m.
Proof.
  intros. unfold dec_err. rewrite strip_prefix_app. change (m ++ [0; 0]) with (m ++ 0 :: [0]).
  rewrite split_nul_app; auto.
Qed.

Ltac lenB :=
  repeat match goal with
  | |- context [len32 (B ?s)] => let x := eval vm_compute in (len32 (B s)) in change (len32 (B s)) with x
  | H : context [len32 (B ?s)] |- _ => let x := eval vm_compute in (len32 (B s)) in change (len32 (B s)) with x in H
  end.

Lemma parse_ok : forall t, small t ->
  parse_frames (encode (ROk t)) = Some [(67, t ++ [0]); (90, [73])].
Proof.
  intros t S. unfold small in S. unfold parse_frames, encode, enc_cc, enc_rfq.
  rewrite fold_left_app. rewrite frame_scan.
  - rewrite frame_scan; [reflexivity|vm_compute; reflexivity].
  - rewrite len32_app. change (len32 [0]) with 1. lia.
Qed.

Lemma parse_show : forall n v, small n -> small v ->
  parse_frames (encode (RShow n v)) =
  Some [(84, be16 1 ++ n ++ [0] ++ rowdesc_fixed); (68, be16 1 ++ be32 (len32 v) ++ v); (67, B "SELECT 1" ++ [0]); (90, [73])].
Proof.
  intros n v Sn Sv. unfold small in *. unfold parse_frames, encode, enc_rowdesc, enc_datarow, enc_cc, enc_rfq.
  repeat rewrite fold_left_app. rewrite frame_scan.
  - rewrite frame_scan.
    + rewrite frame_scan; [|vm_compute; reflexivity]. rewrite frame_scan; [reflexivity|vm_compute; reflexivity].
    + repeat rewrite len32_app. change (len32 (be16 1)) with 2. change (len32 (be32 (len32 v))) with 4. lia.
  - repeat rewrite len32_app. change (len32 (be16 1)) with 2. change (len32 [0]) with 1.
    change (len32 rowdesc_fixed) with 18. lia.
Qed.

Lemma parse_err : forall m, small m ->
  parse_frames (encode (RErr m)) = Some [(69, err_fixed ++ m ++ [0; 0]); (90, [73])].
Proof.
  intros m S. unfold small in S. unfold parse_frames, encode, enc_err, enc_rfq.
  rewrite fold_left_app. rewrite frame_scan.
  - rewrite frame_scan; [reflexivity|vm_compute; reflexivity].
  - repeat rewrite len32_app. change (len32 err_fixed) with 22. change (len32 [0; 0]) with 2. lia.
Qed.

(** decode (encode r) = r : messages, their order, every length field, the final ReadyForQuery *)
Lemma reply_roundtrip : forall r, reply_ok r -> decode_reply (encode r) = Some r.
Proof.
  intros [t|n v|m|] H; cbn [reply_ok] in H; try contradiction; unfold decode_reply.
  - destruct H as [NN S]. rewrite parse_ok by auto. rewrite dec_cstr_only_ok; auto.
  - destruct H as (NN & Sn & Sv). rewrite parse_show by auto.
    rewrite dec_rowdesc_ok by auto. rewrite dec_datarow_ok by (unfold small in Sv; lia).
    rewrite dec_cstr_only_ok by (vm_compute; repeat constructor; discriminate). rewrite list_eqb_refl. auto.
  - destruct H as [NN S]. rewrite parse_err by auto. rewrite dec_err_ok; auto.
Qed.

Lemma reply_ends_rfq : forall r, reply_ok r -> ends_with_rfq (encode r) = true.
Proof.
  intros [t|n v|m|] H; cbn [reply_ok] in H; try contradiction; unfold ends_with_rfq.
  - destruct H as [NN S]. rewrite parse_ok by auto. reflexivity.
  - destruct H as (NN & Sn & Sv). rewrite parse_show by auto. reflexivity.
  - destruct H as [NN S]. rewrite parse_err by auto. reflexivity.
Qed.

(* ------------------------------------------------------------------ every recognised command is answered *)
Definition two64 : N := 18446744073709551616.
Definition st_ok (st : rstate) : Prop := match st_shard st with Some x => x < two64 | None => True end.

Definition no_nulb (l : list N) : bool := forallb (fun b => negb (b =? 0)) l.
Lemma no_nulb_ok : forall l, no_nulb l = true -> no_nul l.
Proof.
  intros l H. unfold no_nulb in H. rewrite forallb_forall in H. apply Forall_forall. intros x I.
  apply H in I. apply negb_true_iff in I. apply N.eqb_neq in I. auto.
Qed.
Lemma no_nul_app : forall a b, no_nul a -> no_nul b -> no_nul (a ++ b).
Proof. intros. apply Forall_app; auto. Qed.

Lemma dec_aux_len : forall f n, (length (dec_aux f n) <= f)%nat.
Proof.
  induction f; intros n; cbn [dec_aux]; auto. destruct (n <? 10); cbn [length]; [lia|].
  rewrite app_length. cbn [length]. specialize (IHf (n / 10)). lia.
Qed.

Lemma dec_aux_no_nul : forall f n, no_nul (dec_aux f n).
Proof.
  induction f; intros n; cbn [dec_aux]; [constructor|]. destruct (n <? 10).
  - constructor; [lia|constructor].
  - apply no_nul_app; auto. constructor; [lia|constructor].
Qed.

Lemma dec_no_nul : forall n, no_nul (dec n).
Proof. intros. apply dec_aux_no_nul. Qed.

Lemma dec_len : forall n, n < two64 -> len32 (dec n) <= 64.
Proof.
  intros n H. unfold dec, len32. pose proof (dec_aux_len (S (N.to_nat (N.log2 n))) n) as L.
  assert (N.log2 n < 64).
  { destruct (N.eq_dec n 0) as [->|NZ]; [vm_compute; reflexivity|]. apply N.log2_lt_pow2; [lia|]. exact H. }
  lia.
Qed.

Lemma dbg_opt_ok : forall o, match o with Some x => x < two64 | None => True end ->
  no_nul (dbg_opt o) /\ len32 (dbg_opt o) <= 70.
Proof.
  intros [x|] H; unfold dbg_opt.
  - split. + repeat apply no_nul_app; try (apply no_nulb_ok; reflexivity). apply dec_no_nul.
    + repeat rewrite len32_app. lenB. pose proof (dec_len x H). lia.
  - split; [apply no_nulb_ok; reflexivity|vm_compute; discriminate].
Qed.

Lemma digits_no_nul : forall a, Forall digitP a -> no_nul a.
Proof. intros a F. eapply Forall_impl; [|exact F]. unfold digitP. intros. lia. Qed.

Lemma role_of_arg_shard : forall e st a, st_shard (role_of_arg e st a) = st_shard st.
Proof.
  intros. unfold role_of_arg.
  repeat match goal with |- context [if ?b then _ else _] => destruct b end; reflexivity.
Qed.
Lemma preads_of_arg_shard : forall st a, st_shard (preads_of_arg st a) = st_shard st.
Proof.
  intros. unfold preads_of_arg.
  repeat match goal with |- context [if ?b then _ else _] => destruct b end; reflexivity.
Qed.

Ltac constB := split; [apply no_nulb_ok; reflexivity | unfold small; vm_compute; reflexivity].

Lemma handle_answers : forall e st c a o,
  wf_env e -> st_ok st -> o < e_shards e -> ArgP c a -> len32 a < 536870912 ->
  reply_ok (snd (handle e st c a o)) /\ st_ok (fst (handle e st c a o)).
Proof.
  intros e st c a o [W1 W2] OK O A LA. unfold usize_max in W2.
  assert (Hcur := dbg_opt_ok (st_shard st) OK).
  destruct c; cbn [ArgP] in A; try contradiction.
  - (* SET SHARDING KEY *)
    unfold handle, texec. destruct (parse_i64 a); cbn [fst snd reply_ok].
    + split; [constB|]. unfold st_ok, two64. cbn. lia.
    + split; auto. unfold msg_bad_key. destruct A as [_ F]. split.
      * repeat apply no_nul_app; try (apply no_nulb_ok; reflexivity). apply digits_no_nul; auto.
      * unfold small. repeat rewrite len32_app. lenB. lia.
  - (* SET SHARD *)
    unfold handle, texec.
    assert (Hsel : forall sel, sel < two64 ->
       reply_ok (snd (if e_shards e <=? sel
                      then (set_shard (set_shard st (Some sel)) (st_shard st), RErr (msg_bad_shard sel (e_shards e) (st_shard st)))
                      else (set_shard st (Some sel), ROk (B "SET SHARD")))) /\
       st_ok (fst (if e_shards e <=? sel
                      then (set_shard (set_shard st (Some sel)) (st_shard st), RErr (msg_bad_shard sel (e_shards e) (st_shard st)))
                      else (set_shard st (Some sel), ROk (B "SET SHARD"))))).
    { intros sel Hs. destruct (e_shards e <=? sel) eqn:Q; cbn [fst snd reply_ok].
      - split; [|exact OK]. unfold msg_bad_shard. destruct Hcur as [C1 C2].
        assert (e_shards e < two64) by (unfold two64; lia).
        pose proof (dec_len sel Hs). pose proof (dec_len (e_shards e) H). split.
        + repeat apply no_nul_app; try (apply no_nulb_ok; reflexivity); auto using dec_no_nul.
        + unfold small. repeat rewrite len32_app. lenB. lia.
      - split; [constB|]. unfold st_ok. cbn. auto. }
    destruct (list_eqb (map upper a) (B "ANY")); cbn [st_shard set_shard].
    + apply Hsel. unfold two64. lia.
    + apply Hsel. unfold parse_usize_or_max, usize_max, two64. destruct (num_of a <=? 18446744073709551615) eqn:Q; nb; lia.
  - (* SHOW SHARD *)
    unfold handle, texec. cbn [fst snd reply_ok]. split; auto. split; [apply no_nulb_ok; reflexivity|].
    split; [unfold small; vm_compute; reflexivity|]. unfold st_ok in OK. destruct (st_shard st).
    + pose proof (dec_len n OK). unfold small. lia.
    + unfold small. vm_compute. reflexivity.
  - (* SET SERVER ROLE *)
    unfold handle, texec. cbn [fst snd reply_ok]. split; [constB|]. unfold st_ok. rewrite role_of_arg_shard. exact OK.
  - (* SHOW SERVER ROLE *)
    unfold handle, texec. cbn [fst snd reply_ok]. split; auto. split; [apply no_nulb_ok; reflexivity|].
    split; [unfold small; vm_compute; reflexivity|].
    destruct (st_role st) as [[| |]|]; [| | |destruct (parser_enabled e st)]; unfold small; vm_compute; reflexivity.
  - (* SET PRIMARY READS *)
    unfold handle, texec. cbn [fst snd reply_ok]. split; [constB|]. unfold st_ok. rewrite preads_of_arg_shard. exact OK.
  - (* SHOW PRIMARY READS *)
    unfold handle, texec. cbn [fst snd reply_ok]. split; auto. split; [apply no_nulb_ok; reflexivity|].
    split; [unfold small; vm_compute; reflexivity|]. destruct (preads_enabled e st); unfold small; vm_compute; reflexivity.
Qed.

Definition qlimit : N := 536870912.     (* 2^29; a Query message length is an i32 *)

Lemma command_answered : forall e st q o,
  wf_env e -> st_ok st -> o < e_shards e -> len32 q < qlimit -> (exists c a, Lang c a q) ->
  exists r, snd (on_query e st q o) = Some r /\
            decode_reply (encode r) = Some r /\ ends_with_rfq (encode r) = true /\
            st_ok (fst (on_query e st q o)).
Proof.
  intros e st q o W OK O LQ (c & a & H). pose proof (Lang_arg_len _ _ _ H) as LA.
  pose proof (Lang_ArgP _ _ _ H) as AP. apply classify_exact in H.
  unfold on_query. rewrite H.
  assert (len32 a < 536870912) by (unfold len32, qlimit in *; lia).
  destruct (handle_answers e st c a o W OK O AP H0) as [R S].
  destruct (handle e st c a o) as [st1 r]. cbn [fst snd] in *.
  exists r. repeat split; auto using reply_roundtrip, reply_ends_rfq.
Qed.

Definition input_sane (e : env) (i : input) : Prop :=
  recognised i /\ snd i < e_shards e /\ len32 (snd (fst i)) < qlimit.

Lemma run_answers : forall e l st, wf_env e -> st_ok st -> Forall (input_sane e) l ->
  Forall reply_ok (snd (run e st l)) /\ st_ok (fst (run e st l)).
Proof.
  intros e l. induction l as [|[[c a] o] l IH]; intros st W OK F; cbn [run].
  - split; [constructor|exact OK].
  - inversion F as [|i l' [[s R] [O LA]] F']; subst. cbn [fst snd] in *.
    apply classify_exact in R. pose proof (Lang_ArgP _ _ _ R) as AP.
    destruct (handle_answers e st c a o W OK O AP LA) as [Rk S].
    destruct (handle e st c a o) as [st1 r]. cbn [fst snd] in *.
    destruct (IH st1 W S F') as [Rs S2]. destruct (run e st1 l) as [st2 rs]. cbn [fst snd] in *.
    split; auto.
Qed.

Lemma init_ok : forall e, st_ok (init e).
Proof. intros. exact I. Qed.

Lemma replies_wellformed : forall r, reply_ok r ->
  decode_reply (encode r) = Some r /\ ends_with_rfq (encode r) = true.
Proof. intros r H. split; [exact (reply_roundtrip r H) | exact (reply_ends_rfq r H)]. Qed.
