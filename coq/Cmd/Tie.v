(** C13 — T1 tie: the hand-written model uses exactly the literals that stand in /repo's
    source NOW (coq/Gen/CmdGen.v is regenerated from src/query_router.rs and src/client.rs
    on every run by translate/c13_consts.py). *)
From Coq Require Import NArith String Ascii List Bool.
From PV Require Import Cmd.Model Gen.CmdGen.
Import ListNotations.
Open Scope N_scope.

(** the recogniser's table renders to the seven regex literals of CUSTOM_SQL_REGEXES, in order *)
Theorem c13_tie_regexes : map render_form forms = regex_literals.
Proof. vm_compute. reflexivity. Qed.
Print Assumptions c13_tie_regexes.

(** RegexSet index -> Command (query_router.rs `match matches[0]`), and the `!= 1` rule *)
Theorem c13_tie_index_map : map f_cmd forms = cmd_order /\ exactly_one_rule = true.
Proof. vm_compute. split; reflexivity. Qed.
Print Assumptions c13_tie_index_map.

Fixpoint fill (pieces args : list (list N)) : list N :=
  match pieces, args with
  | p :: ps, a :: rest => p ++ a ++ fill ps rest
  | p :: _, [] => p
  | [], _ => []
  end.

Definition te : env := mkEnv 5 None false true.
Definition ts : rstate := mkSt (Some 3) (Some Replica) None None.

(** which reply each arm of handle_custom_protocol sends, and its text *)
Theorem c13_tie_replies :
  snd (handle te ts SetShard (B "1") 0) = ROk gen_SetShard_ok /\
  snd (handle te ts SetShard (B "7") 0) = RErr (fill gen_SetShard_err [B "7"; B "5"; B "Some(3)"]) /\
  snd (handle te (init te) SetShard (B "7") 0) = RErr (fill gen_SetShard_err [B "7"; B "5"; B "None"]) /\
  snd (handle te ts SetPrimaryReads (B "on") 0) = ROk gen_SetPrimaryReads_ok /\
  snd (handle te ts SetShardingKey (B "1") 0) = ROk gen_SetShardingKey_ok /\
  snd (handle te ts SetShardingKey (B "99999999999999999999") 0)
    = RErr (fill gen_InvalidShardingKey_err [B "99999999999999999999"]) /\
  snd (handle te ts SetServerRole (B "any") 0) = ROk gen_SetServerRole_ok /\
  snd (handle te ts ShowServerRole [] 0) = RShow gen_ShowServerRole_show (B "replica") /\
  snd (handle te ts ShowShard [] 0) = RShow gen_ShowShard_show (B "3") /\
  snd (handle te ts ShowPrimaryReads [] 0) = RShow gen_ShowPrimaryReads_show (B "on").
Proof. vm_compute. repeat split. Qed.
Print Assumptions c13_tie_replies.
