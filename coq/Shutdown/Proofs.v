(** C17 — lemmas about the shutdown model (coq/Shutdown/Model.v). *)
From Coq Require Import ZArith List Bool Arith Lia.
From PV Require Import Shutdown.Model.
Import ListNotations.
Open Scope Z_scope.

(** * Lists *)

Lemma nth_error_upd_same : forall (A : Type) (l : list A) n v x,
  nth_error l n = Some x -> nth_error (upd_nth l n v) n = Some v.
Proof. induction l; destruct n; simpl; intros; try discriminate; eauto. Qed.

Lemma nth_error_upd_other : forall (A : Type) (l : list A) n m v, n <> m ->
  nth_error (upd_nth l n v) m = nth_error l m.
Proof. induction l; destruct n, m; simpl; intros; try congruence; auto. Qed.

Lemma length_upd_nth : forall (A : Type) (l : list A) n v, length (upd_nth l n v) = length l.
Proof. induction l; destruct n; simpl; intros; auto. Qed.

Lemma Forall_upd_nth : forall (A : Type) (P : A -> Prop) l n v, Forall P l -> P v -> Forall P (upd_nth l n v).
Proof.
  induction l; destruct n; simpl; intros; auto; inversion H; subst; constructor; auto.
Qed.

Lemma Forall_nth_error : forall (A : Type) (P : A -> Prop) l n x, Forall P l -> nth_error l n = Some x -> P x.
Proof. intros. rewrite Forall_forall in H. apply H. eapply nth_error_In; eauto. Qed.

Lemma qsum_app : forall a b, qsum (a ++ b) = qsum a + qsum b.
Proof. induction a; simpl; intros; [lia | rewrite IHa; lia]. Qed.

Definition b2z (b : bool) : Z := if b then 1 else 0.

Lemma ncounted_app : forall a b, ncounted (a ++ b) = ncounted a + ncounted b.
Proof. induction a; simpl; intros; [lia | rewrite IHa; lia]. Qed.

Lemma ncounted_upd : forall l n c v, nth_error l n = Some c ->
  ncounted (upd_nth l n v) = ncounted l - b2z (counted c) + b2z (counted v).
Proof.
  induction l; destruct n; simpl; intros; try discriminate.
  - inversion H; subst. unfold b2z. destruct (counted c), (counted v); lia.
  - rewrite (IHl _ _ _ H). lia.
Qed.

Lemma ncounted_set_pend : forall l b, ncounted (map (fun c => set_pend c b) l) = ncounted l.
Proof. induction l; simpl; intros; auto. rewrite IHl. reflexivity. Qed.

Lemma app_one_not_nil : forall (A : Type) (l : list A) x, l ++ [x] <> [].
Proof. destruct l; simpl; congruence. Qed.

Lemma no_pos_app : forall a b, no_pos (a ++ b) = no_pos a && no_pos b.
Proof. unfold no_pos. intros. apply forallb_app. Qed.

Lemma no_pos_qsum : forall q, no_pos q = true -> qsum q <= 0.
Proof.
  induction q; simpl; intros; [lia |].
  apply andb_true_iff in H. destruct H as [H1 H2]. apply Z.leb_le in H1. specialize (IHq H2). lia.
Qed.

(** * Runs *)

Lemma run_app : forall tr1 tr2 st, run st (tr1 ++ tr2) =
  match run st tr1 with Some st' => run st' tr2 | None => None end.
Proof. induction tr1; simpl; intros; auto. destruct (step st a); auto. Qed.

Lemma run_snoc : forall tr e st st', run st tr = Some st' -> run st (tr ++ [e]) = step st' e.
Proof. intros. rewrite run_app, H. simpl. destruct (step st' e); auto. Qed.

Lemma reachable_init : forall tz cap b, reachable (init tz cap b).
Proof. intros. exists tz, cap, b, []. reflexivity. Qed.

Lemma reachable_step : forall st e st', reachable st -> step st e = Some st' -> reachable st'.
Proof. intros st e st' (tz & cap & b & tr & H) Hs. exists tz, cap, b, (tr ++ [e]). rewrite (run_snoc _ _ _ _ H). exact Hs. Qed.

Lemma reachable_run : forall tr st st', reachable st -> run st tr = Some st' -> reachable st'.
Proof.
  induction tr; simpl; intros. { inversion H0; subst; auto. }
  destruct (step st a) eqn:E; try discriminate. eapply IHtr; [eapply reachable_step; eauto | eauto].
Qed.

(** an invariant of [step] that holds initially holds in every reachable state *)
Lemma reachable_ind : forall (P : state -> Prop),
  (forall tz cap b, P (init tz cap b)) -> (forall st e st', P st -> step st e = Some st' -> P st') ->
  forall st, reachable st -> P st.
Proof.
  intros P H0 Hs st (tz & cap & b & tr & H). revert st H.
  induction tr using rev_ind; intros.
  - simpl in H. inversion H; subst. apply H0.
  - rewrite run_app in H. destruct (run (init tz cap b) tr) eqn:E; try discriminate.
    simpl in H. destruct (step s x) eqn:E2; try discriminate. inversion H; subst.
    apply (Hs s x st); [apply IHtr; reflexivity | exact E2].
Qed.

Lemma step_exited_none : forall st e st', step st e = Some st' -> exited st = None.
Proof. intros. unfold step in H. destruct (exited st); [discriminate | reflexivity]. Qed.

(** * Per-client invariant *)

Definition cl_ok (ao : bool) (c : client) : Prop :=
  (counted c = true -> live_phase (cphase c) = true /\ ckind c <> Admin) /\
  (ckind c = Normal -> live_phase (cphase c) = true -> counted c = true /\ gate c = false) /\
  (ao = true -> ckind c = Normal -> gate c = false -> pend c = true) /\
  (ao = false -> gate c = false /\ pend c = false) /\
  (ckind c = Canc -> cphase c = Starting \/ cphase c = Authed \/ cphase c = InTxn \/ cphase c = Gone) /\
  (ckind c = Admin -> cphase c = Starting \/ cphase c = Authed \/ cphase c = Idle \/ cphase c = Gone) /\
  (ckind c = Normal -> cphase c = Authed -> gate c = false).

Definition clients_ok (st : state) : Prop := Forall (cl_ok (admin_only st)) (clients st).

Ltac brk H :=
  repeat match type of H with
         | context [match ?x with _ => _ end] => destruct x eqn:?; try discriminate H
         end.

Ltac fin H := inversion H; subst; clear H.

(** destruct every field of a client record and decide [cl_ok] by computation *)
Ltac crush_cl :=
  unfold cl_ok, set_phase, set_counted, set_pend in *; simpl in *;
  repeat match goal with
         | c : client |- _ => destruct c as [? ? ? ? ? ?]; simpl in *
         end;
  subst; simpl in *;
  repeat match goal with
         | H : _ /\ _ |- _ => destruct H
         end;
  repeat split; intros; try discriminate; try congruence; auto;
  repeat match goal with
         | k : kind |- _ => destruct k
         | p : phase |- _ => destruct p
         | b : bool |- _ => destruct b
         end; simpl in *; try discriminate; try congruence; auto;
  try (match goal with H : ?x = ?x -> _ |- _ => specialize (H eq_refl) end);
  intuition (try discriminate; try congruence).

Lemma cl_ok_put : forall st i v, clients_ok st -> cl_ok (admin_only st) v ->
  clients_ok (put st i v).
Proof. unfold clients_ok, put. simpl. intros. apply Forall_upd_nth; auto. Qed.

Ltac unf :=
  unfold clients_ok, with_log, send, with_queue, put, with_clients, depart, with_leak, with_exit in *;
  cbn [admin_only total tmr exit_q wedged exited queue clients tzero qcap leaked zero_sends log mid_sigint blk] in *.

Ltac upd_ok Hok Hc := unf; apply Forall_upd_nth; [exact Hok |]; revert Hc; match goal with |- context [admin_only ?s] => generalize (admin_only s) end; intros ao Hc.

Lemma clients_ok_step : forall st e st', clients_ok st -> step st e = Some st' -> clients_ok st'.
Proof.
  intros st e st' Hok Hs. unfold step in Hs.
  destruct (exited st); try discriminate.
  destruct e.
  - (* Sigint *)
    destruct (negb (main_ok st)); try discriminate.
    destruct (admin_only st) eqn:Ea. { fin Hs. exact Hok. }
    fin Hs; unfold clients_ok in *; cbn [admin_only clients]; rewrite Ea in Hok;
      apply Forall_forall; intros x Hx; apply in_map_iff in Hx; destruct Hx as (c & <- & Hc);
      rewrite Forall_forall in Hok; specialize (Hok _ Hc); clear Hc; crush_cl.
  - destruct (negb (main_ok st)); try discriminate. fin Hs. exact Hok.
  - destruct (negb (main_ok st)); try discriminate. fin Hs. unf.
    apply Forall_app. split; auto. constructor; auto.
    generalize (admin_only st). intros ao. destruct ao, k; unfold cl_ok; cbn;
      repeat split; intros; try discriminate; try congruence; auto.
  - (* AuthDone *)
    destruct (nth_error (clients st) c) eqn:En; try discriminate.
    pose proof (Forall_nth_error _ _ _ _ _ Hok En) as Hc.
    destruct (cphase c0) eqn:Ep; try discriminate.
    destruct (ckind c0) eqn:Ek.
    + destruct (gate c0) eqn:Eg; [| destruct ok]; fin Hs; upd_ok Hok Hc;
        clear - Hc Ep Ek Eg; destruct ao; crush_cl.
    + destruct ok; fin Hs; upd_ok Hok Hc; clear - Hc Ep Ek; destruct ao; crush_cl.
    + destruct ok; fin Hs; upd_ok Hok Hc; clear - Hc Ep Ek; destruct ao; crush_cl.
  - (* TxnStart *)
    destruct (nth_error (clients st) c) eqn:En; try discriminate.
    pose proof (Forall_nth_error _ _ _ _ _ Hok En) as Hc.
    destruct (ckind c0) eqn:Ek; try discriminate.
    destruct (cphase c0) eqn:Ep; try discriminate; fin Hs; upd_ok Hok Hc;
      clear - Hc Ep Ek; destruct ao; crush_cl.
  - (* Stmt *)
    destruct (nth_error (clients st) c) eqn:En; try discriminate.
    destruct (ckind c0); try discriminate; destruct (cphase c0); try discriminate; fin Hs; exact Hok.
  - (* TxnEnd *)
    destruct (nth_error (clients st) c) eqn:En; try discriminate.
    pose proof (Forall_nth_error _ _ _ _ _ Hok En) as Hc.
    destruct (ckind c0) eqn:Ek; try discriminate.
    destruct (cphase c0) eqn:Ep; try discriminate. fin Hs. upd_ok Hok Hc.
    clear - Hc Ep Ek. destruct ao; destruct (cmode c0) eqn:Em; crush_cl.
  - (* Poll *)
    destruct (nth_error (clients st) c) eqn:En; try discriminate.
    pose proof (Forall_nth_error _ _ _ _ _ Hok En) as Hc.
    destruct (cphase c0) eqn:Ep; try discriminate.
    destruct (pend c0) eqn:Epd; try discriminate.
    destruct (ckind c0) eqn:Ek; fin Hs; unfold depart; try (destruct (counted c0) eqn:Ec); upd_ok Hok Hc;
      clear - Hc Ep Ek Epd; destruct ao; crush_cl.
  - (* Leave *)
    destruct (nth_error (clients st) c) eqn:En; try discriminate.
    pose proof (Forall_nth_error _ _ _ _ _ Hok En) as Hc.
    destruct (live_phase (cphase c0)) eqn:Ep; try discriminate. fin Hs.
    unfold depart. destruct (counted c0) eqn:Ec; [destruct h |]; upd_ok Hok Hc;
      clear - Hc Ep; destruct ao; crush_cl.
  - (* DrainDeliver *)
    destruct (negb (main_ok st)); try discriminate.
    destruct (queue st); try discriminate.
    destruct ((total st + z =? 0) && admin_only st); [destruct (exit_q st) |]; fin Hs; exact Hok.
  - destruct (tmr st); try discriminate. destruct (exit_q st); fin Hs; exact Hok.
  - destruct (negb (main_ok st)); try discriminate. destruct (exit_q st); try discriminate. fin Hs. exact Hok.
  - destruct (negb (mid_sigint st) || wedged st); try discriminate. destruct (qcap st <=? length (queue st))%nat; [destruct (blk st) |]; fin Hs; exact Hok.
  - (* Enter *)
    destruct (nth_error (clients st) c) eqn:En; try discriminate.
    pose proof (Forall_nth_error _ _ _ _ _ Hok En) as Hc.
    destruct (cphase c0) eqn:Ep; try discriminate.
    destruct (ckind c0) eqn:Ek; fin Hs; upd_ok Hok Hc; clear - Hc Ep Ek; destruct ao; crush_cl.
Qed.

(** * The counter *)

Definition counter_ok (st : state) : Prop :=
  total st + qsum (queue st) = ncounted (clients st) + leaked st /\ 0 <= leaked st.

Lemma counted_false_of_starting : forall ao c, cl_ok ao c -> cphase c = Starting -> counted c = false.
Proof.
  intros ao c H Hp. destruct H as (H1 & _). destruct (counted c); auto.
  destruct (H1 eq_refl) as (Hl & _). rewrite Hp in Hl. discriminate.
Qed.

Lemma counted_false_of_authed : forall ao c, cl_ok ao c -> cphase c = Authed -> counted c = false.
Proof.
  intros ao c H Hp. destruct H as (H1 & _). destruct (counted c); auto.
  destruct (H1 eq_refl) as (Hl & _). rewrite Hp in Hl. discriminate.
Qed.

Lemma counter_ok_step : forall st e st', clients_ok st -> counter_ok st -> step st e = Some st' -> counter_ok st'.
Proof.
  intros st e st' Hok (Hc & Hl) Hs. unfold step in Hs.
  destruct (exited st); try discriminate.
  destruct e.
  - destruct (negb (main_ok st)); try discriminate.
    destruct (admin_only st). { fin Hs. split; auto. }
    fin Hs; unfold counter_ok; simpl; rewrite ncounted_set_pend; simpl; split; lia.
  - destruct (negb (main_ok st)); try discriminate. fin Hs. split; auto.
  - destruct (negb (main_ok st)); try discriminate. fin Hs. unfold counter_ok. simpl.
    rewrite ncounted_app. simpl. split; lia.
  - destruct (nth_error (clients st) c) eqn:En; try discriminate.
    pose proof (Forall_nth_error _ _ _ _ _ Hok En) as Hcl.
    destruct (cphase c0) eqn:Ep; try discriminate.
    pose proof (counted_false_of_starting _ _ Hcl Ep) as Hcf.
    destruct (ckind c0); [destruct (gate c0); [| destruct ok] | destruct ok | destruct ok]; fin Hs;
      unfold counter_ok, with_log, send, with_queue, put, with_clients; simpl;
      rewrite ?qsum_app, (ncounted_upd _ _ _ _ En); simpl; rewrite Hcf; unfold b2z; simpl; split; lia.
  - destruct (nth_error (clients st) c) eqn:En; try discriminate.
    destruct (ckind c0); try discriminate. destruct (cphase c0); try discriminate; fin Hs;
      unfold counter_ok, put, with_clients; simpl; rewrite (ncounted_upd _ _ _ _ En); simpl; split; lia.
  - destruct (nth_error (clients st) c) eqn:En; try discriminate.
    destruct (ckind c0); try discriminate; destruct (cphase c0); try discriminate; fin Hs; split; auto.
  - destruct (nth_error (clients st) c) eqn:En; try discriminate.
    destruct (ckind c0); try discriminate. destruct (cphase c0); try discriminate. fin Hs.
    unfold counter_ok, with_log, put, with_clients; simpl. rewrite (ncounted_upd _ _ _ _ En); simpl. split; lia.
  - destruct (nth_error (clients st) c) eqn:En; try discriminate.
    destruct (cphase c0); try discriminate. destruct (pend c0); try discriminate.
    destruct (ckind c0); fin Hs; unfold counter_ok, with_log, depart, put, send, with_queue, with_leak, with_clients; simpl;
      try (destruct (counted c0) eqn:Ec; simpl); rewrite ?qsum_app, (ncounted_upd _ _ _ _ En); simpl;
      rewrite ?Ec; unfold b2z; simpl; try (destruct (counted c0)); split; lia.
  - destruct (nth_error (clients st) c) eqn:En; try discriminate.
    destruct (live_phase (cphase c0)); try discriminate. fin Hs.
    unfold counter_ok, with_log, depart, put, send, with_queue, with_leak, with_clients; simpl.
    destruct (counted c0) eqn:Ec; [destruct h |]; simpl; rewrite ?qsum_app, (ncounted_upd _ _ _ _ En); simpl;
      rewrite Ec; unfold b2z; simpl; split; lia.
  - destruct (negb (main_ok st)); try discriminate.
    destruct (queue st) eqn:Eq; try discriminate. simpl in Hc.
    destruct ((total st + z =? 0) && admin_only st); [destruct (exit_q st) |]; fin Hs;
      unfold counter_ok; simpl; split; lia.
  - destruct (tmr st); try discriminate. destruct (exit_q st); fin Hs; split; auto.
  - destruct (negb (main_ok st)); try discriminate. destruct (exit_q st); try discriminate. fin Hs. split; auto.
  - destruct (negb (mid_sigint st) || wedged st); try discriminate. destruct (qcap st <=? length (queue st))%nat; [destruct (blk st) |]; fin Hs; unfold counter_ok; simpl; rewrite ?qsum_app; simpl; split; lia.
  - destruct (nth_error (clients st) c) eqn:En; try discriminate.
    pose proof (Forall_nth_error _ _ _ _ _ Hok En) as Hcl.
    destruct (cphase c0) eqn:Ep; try discriminate.
    pose proof (counted_false_of_authed _ _ Hcl Ep) as Hcf.
    destruct (ckind c0); fin Hs;
      unfold counter_ok, with_log, send, with_queue, put, with_clients; simpl;
      rewrite ?qsum_app, (ncounted_upd _ _ _ _ En); simpl; rewrite Hcf; unfold b2z; simpl; split; lia.
Qed.

(** * Control state: timer, exit channel, wedge *)

Definition ctl_ok (st : state) : Prop :=
  ((tmr st <> TNone -> admin_only st = true) /\
   (admin_only st = true -> tmr st <> TNone \/ wedged st = true \/ mid_sigint st = true)) /\
  (tmr st = TSent <-> exit_q st = Some ByTimer) /\
  (tmr st = TBlocked -> exit_q st = Some ByZero) /\
  (exit_q st <> Some ByTerm) /\
  (exit_q st <> None -> admin_only st = true) /\
  (wedged st = true -> admin_only st = true) /\
  (exit_q st = Some ByZero <-> (0 < zero_sends st)%nat) /\
  (forall x, exited st = Some x -> x = ByTerm \/ exit_q st = Some x) /\
  (admin_only st = true -> wedged st = false -> mid_sigint st = false -> (0 < qcap st)%nat -> queue st = [] -> total st = 0 -> exit_q st <> None) /\
  (tzero st = true -> tmr st = TNone \/ tmr st = TDead) /\
  (tzero st = false -> tmr st <> TDead) /\
  (mid_sigint st = true -> admin_only st = true /\ tmr st = TNone /\ exit_q st = None /\ wedged st = false) /\
  (blk st = false -> wedged st = false).

(** client events leave the control state alone and at most append to the queue *)
Definition is_client_event (e : event) : bool :=
  match e with
  | AuthDone _ _ | TxnStart _ | Stmt _ | TxnEnd _ | Poll _ | Leave _ _ | Enter _ => true
  | _ => false
  end.

Definition ctl (st : state) := (admin_only st, total st, tmr st, exit_q st, wedged st, exited st, tzero st, zero_sends st, mid_sigint st, blk st, qcap st).

Lemma client_event_ctl : forall st e st', is_client_event e = true -> step st e = Some st' ->
  ctl st' = ctl st /\ (queue st' = queue st \/ exists m, queue st' = queue st ++ [m]).
Proof.
  intros st e st' He Hs. unfold step in Hs. destruct (exited st) eqn:Ex; try discriminate.
  destruct e; try discriminate He.
  - destruct (nth_error (clients st) c); try discriminate. destruct (cphase c0); try discriminate.
    destruct (ckind c0); [destruct (gate c0); [| destruct ok] | destruct ok | destruct ok]; fin Hs;
      unfold ctl; simpl; rewrite ?Ex; split; auto.
  - destruct (nth_error (clients st) c); try discriminate. destruct (ckind c0); try discriminate.
    destruct (cphase c0); try discriminate; fin Hs; unfold ctl; simpl; rewrite ?Ex; auto.
  - destruct (nth_error (clients st) c); try discriminate.
    destruct (ckind c0); try discriminate; destruct (cphase c0); try discriminate; fin Hs; unfold ctl; simpl; rewrite ?Ex; auto.
  - destruct (nth_error (clients st) c); try discriminate. destruct (ckind c0); try discriminate.
    destruct (cphase c0); try discriminate; fin Hs; unfold ctl; simpl; rewrite ?Ex; auto.
  - destruct (nth_error (clients st) c); try discriminate. destruct (cphase c0); try discriminate.
    destruct (pend c0); try discriminate.
    destruct (ckind c0); fin Hs; unfold ctl, depart; simpl; try (destruct (counted c0)); simpl; rewrite ?Ex;
      split; auto; right; eexists; reflexivity.
  - destruct (nth_error (clients st) c); try discriminate. destruct (live_phase (cphase c0)); try discriminate.
    fin Hs. unfold ctl, depart; simpl. destruct (counted c0); [destruct h |]; simpl; rewrite ?Ex; split; auto;
      right; eexists; reflexivity.
  - destruct (nth_error (clients st) c); try discriminate. destruct (cphase c0); try discriminate.
    destruct (ckind c0); fin Hs; unfold ctl; simpl; rewrite ?Ex; split; auto; right; eexists; reflexivity.
Qed.

Ltac cfields := cbn [admin_only total tmr exit_q wedged exited queue clients tzero qcap leaked zero_sends log mid_sigint blk] in *.

Ltac fin_ctl :=
  repeat split; intros; subst; try discriminate; try congruence; try tauto; try lia;
  try (intuition (try discriminate; try congruence; try lia); fail).

Lemma main_ok_true : forall st, negb (main_ok st) = false -> wedged st = false /\ mid_sigint st = false.
Proof. unfold main_ok. intros st H. destruct (wedged st), (mid_sigint st); simpl in H; try discriminate; auto. Qed.

Lemma ctl_ok_step : forall st e st', ctl_ok st -> step st e = Some st' -> ctl_ok st'.
Proof.
  intros st e st' H Hs.
  destruct (is_client_event e) eqn:He.
  - destruct (client_event_ctl _ _ _ He Hs) as (Hc & Hq). unfold ctl in Hc. inversion Hc; clear Hc.
    unfold ctl_ok in *. destruct H as ((A1 & A2) & B & C & D & E & F & G & I & J & K & L & M & N).
    repeat match goal with X : _ st' = _ st |- _ => rewrite X; clear X end.
    repeat split; try tauto.
    intros Ha Hw Hm Hc0 Hqe Ht. destruct Hq as [Hq | (m & Hq)]; rewrite Hq in Hqe; [auto |].
    exfalso. eapply app_one_not_nil; eauto.
  - unfold step in Hs. destruct (exited st) eqn:Ex; try discriminate.
    destruct H as ((A1 & A2) & B & C & D & E & F & G & I & J & K & L & M & N).
    destruct e; try discriminate He.
    + (* Sigint *)
      destruct (negb (main_ok st)) eqn:Em; try discriminate.
      destruct (main_ok_true _ Em) as (Hw & Hm).
      destruct (admin_only st) eqn:Ea.
      { fin Hs. unfold ctl_ok. rewrite ?Ea, ?Ex, ?Hw, ?Hm. fin_ctl. }
      assert (Hq : exit_q st = None). { destruct (exit_q st) eqn:Eq; auto. assert (false = true) by (apply E; congruence). discriminate. }
      assert (Ht : tmr st = TNone). { destruct (tmr st) eqn:Et; auto; assert (false = true) by (apply A1; congruence); discriminate. }
      assert (Hz : zero_sends st = 0%nat). { destruct (zero_sends st) eqn:Ez; auto. assert (None = Some ByZero) by (rewrite <- Hq; apply G; lia). discriminate. }
      fin Hs. unfold ctl_ok. cfields. rewrite ?Hq, ?Ht, ?Ex, ?Hz, ?Hw. fin_ctl.
    + (* Sigterm *)
      destruct (negb (main_ok st)); try discriminate. fin Hs. unfold ctl_ok, with_exit. cfields.
      repeat split; try tauto. intros x Hx. inversion Hx. auto.
    + (* Accept *)
      destruct (negb (main_ok st)); try discriminate. fin Hs. unfold ctl_ok, with_clients. cfields. rewrite ?Ex.
      repeat split; try tauto; try discriminate.
    + (* DrainDeliver *)
      destruct (negb (main_ok st)) eqn:Em; try discriminate.
      destruct (main_ok_true _ Em) as (Hw & Hm).
      destruct (queue st) eqn:Eq; try discriminate.
      destruct ((total st + z =? 0) && admin_only st) eqn:Ez.
      * apply andb_true_iff in Ez. destruct Ez as (Ez & Ea). apply Z.eqb_eq in Ez.
        destruct (exit_q st) eqn:Eq2.
        -- fin Hs. unfold ctl_ok. cfields. rewrite ?Eq2, ?Ex, ?Hm. destruct (blk st) eqn:Eb; fin_ctl.
        -- fin Hs. unfold ctl_ok. cfields. rewrite ?Ex, ?Hm.
           assert (Ht : tmr st <> TSent) by (intro X; apply B in X; discriminate).
           assert (Ht2 : tmr st <> TBlocked) by (intro X; apply C in X; discriminate).
           assert (Hz : zero_sends st = 0%nat). { destruct (zero_sends st) eqn:Ezs; auto. assert (None = Some ByZero) by (apply G; lia). discriminate. }
           rewrite Hw in *. rewrite Hm in *. fin_ctl.
      * fin Hs. unfold ctl_ok. cfields. rewrite ?Ex.
        repeat split; try tauto; try discriminate.
        intros Ha Hw' Hm' Hc0 Hq Ht. rewrite Ha in Ez. rewrite andb_true_r in Ez. apply Z.eqb_neq in Ez. contradiction.
    + (* TimerFire *)
      destruct (tmr st) eqn:Et; try discriminate.
      assert (Ha : admin_only st = true) by (apply A1; congruence).
      assert (Htz : tzero st = false). { destruct (tzero st) eqn:Etz; auto. destruct (K eq_refl); congruence. }
      assert (Hm : mid_sigint st = false). { destruct (mid_sigint st) eqn:Em; auto. destruct (M eq_refl) as (_ & X & _). discriminate. }
      destruct (exit_q st) eqn:Eq.
      * assert (Hc : c = ByZero). { destruct c; auto. - exfalso; apply D; auto. - assert (TArmed = TSent) by (apply B; auto). discriminate. }
        subst c. fin Hs. unfold ctl_ok. cfields. rewrite ?Eq, ?Ex, ?Htz, ?Hm. fin_ctl.
      * fin Hs. unfold ctl_ok. cfields. rewrite ?Ex, ?Htz, ?Hm.
        assert (Hz : zero_sends st = 0%nat). { destruct (zero_sends st) eqn:Ezs; auto. assert (None = Some ByZero) by (apply G; lia). discriminate. }
        rewrite Hz. fin_ctl.
    + (* ExitDeliver *)
      destruct (negb (main_ok st)); try discriminate. destruct (exit_q st) eqn:Eq; try discriminate.
      fin Hs. unfold ctl_ok, with_exit. cfields. rewrite ?Eq.
      repeat split; try tauto; try discriminate.
      all: try (intros x Hx; inversion Hx; auto).
    + (* SigintQ *)
      destruct (mid_sigint st) eqn:Em; simpl in Hs; try discriminate.
      destruct (M eq_refl) as (Ha & Ht & Hq & Hw). rewrite Hw in Hs.
      assert (Hz : zero_sends st = 0%nat). { destruct (zero_sends st) eqn:Ez; auto. assert (None = Some ByZero) by (rewrite <- Hq; apply G; lia). discriminate. }
      destruct (qcap st <=? length (queue st))%nat eqn:Ec.
      * apply Nat.leb_le in Ec.
        destruct (blk st) eqn:Eb.
        -- fin Hs. unfold ctl_ok. cfields. rewrite ?Hq, ?Ht, ?Ex, ?Hz, ?Ha. fin_ctl.
        -- fin Hs. unfold ctl_ok. cfields. rewrite ?Hq, ?Hw, ?Ex, ?Hz, ?Ha.
           destruct (tzero st) eqn:Etz; fin_ctl;
             try (match goal with X : queue _ = [] |- _ => rewrite X in Ec; simpl in Ec; lia end).
      * fin Hs. unfold ctl_ok. cfields. rewrite ?Hq, ?Hw, ?Ex, ?Hz, ?Ha.
        destruct (tzero st) eqn:Etz; fin_ctl; try (exfalso; eapply app_one_not_nil; eauto; fail).
Qed.

(** * The invariant *)

Definition Inv (st : state) : Prop := clients_ok st /\ counter_ok st /\ ctl_ok st.

Lemma Inv_init : forall tz cap b, Inv (init tz cap b).
Proof.
  intros. unfold Inv, clients_ok, counter_ok, ctl_ok, init. simpl.
  split; [constructor |]. split; [lia |].
  repeat split; intros; try discriminate; try congruence; auto; try lia.
  all: try (destruct tz; auto).
Qed.

Lemma Inv_step : forall st e st', Inv st -> step st e = Some st' -> Inv st'.
Proof.
  intros st e st' (A & B & C) Hs. split; [| split].
  - eapply clients_ok_step; eauto.
  - eapply counter_ok_step; eauto.
  - eapply ctl_ok_step; eauto.
Qed.

Lemma reachable_Inv : forall st, reachable st -> Inv st.
Proof. apply reachable_ind. apply Inv_init. apply Inv_step. Qed.

Lemma counter_eq : forall st, reachable st ->
  total st = ncounted (clients st) + leaked st - qsum (queue st).
Proof. intros st H. destruct (reachable_Inv _ H) as (_ & (Hc & _) & _). lia. Qed.

(** * Frame: a step that is not the client's own leaves the client alone *)

Definition actor (e : event) : option nat :=
  match e with
  | AuthDone i _ | TxnStart i | Stmt i | TxnEnd i | Poll i | Leave i _ | Enter i => Some i
  | _ => None
  end.

Definition same_but_pend (c c' : client) : Prop :=
  ckind c' = ckind c /\ cmode c' = cmode c /\ gate c' = gate c /\ cphase c' = cphase c /\ counted c' = counted c.

Lemma same_but_pend_refl : forall c, same_but_pend c c.
Proof. unfold same_but_pend; auto. Qed.

Lemma nth_error_upd_frame : forall l i j (c v : client), nth_error l i = Some c -> j <> i ->
  exists c', nth_error (upd_nth l j v) i = Some c' /\ same_but_pend c c'.
Proof. intros. exists c. rewrite nth_error_upd_other; auto using same_but_pend_refl. Qed.

Lemma step_frame : forall st e st' i c, step st e = Some st' -> nth_error (clients st) i = Some c ->
  actor e <> Some i -> exists c', nth_error (clients st') i = Some c' /\ same_but_pend c c'.
Proof.
  intros st e st' i c Hs Hn Ha. unfold step in Hs. destruct (exited st); try discriminate.
  destruct e; simpl in Ha.
  - destruct (negb (main_ok st)); try discriminate. destruct (admin_only st).
    { fin Hs. eauto using same_but_pend_refl. }
    fin Hs; cbn [clients]; exists (set_pend c true); (split;
      [rewrite nth_error_map, Hn; reflexivity | unfold same_but_pend; simpl; auto]).
  - destruct (negb (main_ok st)); try discriminate. fin Hs. eauto using same_but_pend_refl.
  - destruct (negb (main_ok st)); try discriminate. fin Hs. unf. exists c. split; auto using same_but_pend_refl.
    rewrite nth_error_app1; auto. apply nth_error_Some. congruence.
  - assert (c0 <> i) by congruence.
    destruct (nth_error (clients st) c0); try discriminate. destruct (cphase c1); try discriminate.
    destruct (ckind c1); [destruct (gate c1); [| destruct ok] | destruct ok | destruct ok]; fin Hs; unf;
      apply nth_error_upd_frame; auto.
  - assert (c0 <> i) by congruence.
    destruct (nth_error (clients st) c0); try discriminate. destruct (ckind c1); try discriminate.
    destruct (cphase c1); try discriminate; fin Hs; unf; apply nth_error_upd_frame; auto.
  - destruct (nth_error (clients st) c0); try discriminate.
    destruct (ckind c1); try discriminate; destruct (cphase c1); try discriminate; fin Hs; unf; eauto using same_but_pend_refl.
  - assert (c0 <> i) by congruence.
    destruct (nth_error (clients st) c0); try discriminate. destruct (ckind c1); try discriminate.
    destruct (cphase c1); try discriminate; fin Hs; unf; apply nth_error_upd_frame; auto.
  - assert (c0 <> i) by congruence.
    destruct (nth_error (clients st) c0); try discriminate. destruct (cphase c1); try discriminate.
    destruct (pend c1); try discriminate.
    destruct (ckind c1); fin Hs; unfold depart; try (destruct (counted c1)); unf; apply nth_error_upd_frame; auto.
  - assert (c0 <> i) by congruence.
    destruct (nth_error (clients st) c0); try discriminate. destruct (live_phase (cphase c1)); try discriminate.
    fin Hs. unfold depart. destruct (counted c1); [destruct h |]; unf; apply nth_error_upd_frame; auto.
  - destruct (negb (main_ok st)); try discriminate. destruct (queue st); try discriminate.
    destruct ((total st + z =? 0) && admin_only st); [destruct (exit_q st) |]; fin Hs; eauto using same_but_pend_refl.
  - destruct (tmr st); try discriminate. destruct (exit_q st); fin Hs; eauto using same_but_pend_refl.
  - destruct (negb (main_ok st)); try discriminate. destruct (exit_q st); try discriminate. fin Hs.
    eauto using same_but_pend_refl.
  - destruct (negb (mid_sigint st) || wedged st); try discriminate. destruct (qcap st <=? length (queue st))%nat; [destruct (blk st) |]; fin Hs; eauto using same_but_pend_refl.
  - assert (c0 <> i) by congruence.
    destruct (nth_error (clients st) c0); try discriminate. destruct (cphase c1); try discriminate.
    destruct (ckind c1); fin Hs; unf; apply nth_error_upd_frame; auto.
Qed.

(** the log grows by at most one entry per step, and the entry is about the acting client *)
Definition obs_client (o : obs) : option nat :=
  match o with
  | ORefused j | OAdmitted j | OAuthFail j | OKicked j | OServed j | OLeft j _ => Some j
  | OExit _ => None
  end.

Lemma log_step : forall st e st', step st e = Some st' ->
  log st' = log st \/ exists o, log st' = o :: log st /\ obs_client o = actor e.
Proof.
  intros st e st' Hs. unfold step in Hs. destruct (exited st); try discriminate.
  destruct e.
  - destruct (negb (main_ok st)); try discriminate. destruct (admin_only st); fin Hs; auto.
  - destruct (negb (main_ok st)); try discriminate. fin Hs. right. eexists. split; reflexivity.
  - destruct (negb (main_ok st)); try discriminate. fin Hs. auto.
  - destruct (nth_error (clients st) c); try discriminate. destruct (cphase c0); try discriminate.
    destruct (ckind c0); [destruct (gate c0); [| destruct ok] | destruct ok | destruct ok]; fin Hs; unf; eauto.
  - destruct (nth_error (clients st) c); try discriminate. destruct (ckind c0); try discriminate.
    destruct (cphase c0); try discriminate; fin Hs; unf; auto.
  - destruct (nth_error (clients st) c); try discriminate.
    destruct (ckind c0); try discriminate; destruct (cphase c0); try discriminate; fin Hs; unf; eauto.
  - destruct (nth_error (clients st) c); try discriminate. destruct (ckind c0); try discriminate.
    destruct (cphase c0); try discriminate; fin Hs; unf; eauto.
  - destruct (nth_error (clients st) c); try discriminate. destruct (cphase c0); try discriminate.
    destruct (pend c0); try discriminate.
    destruct (ckind c0); fin Hs; unfold depart; try (destruct (counted c0)); unf; eauto.
  - destruct (nth_error (clients st) c); try discriminate. destruct (live_phase (cphase c0)); try discriminate.
    fin Hs. unfold depart. destruct (counted c0); [destruct h |]; unf; eauto.
  - destruct (negb (main_ok st)); try discriminate. destruct (queue st); try discriminate.
    destruct ((total st + z =? 0) && admin_only st); [destruct (exit_q st) |]; fin Hs; auto.
  - destruct (tmr st); try discriminate. destruct (exit_q st); fin Hs; auto.
  - destruct (negb (main_ok st)); try discriminate. destruct (exit_q st); try discriminate. fin Hs.
    right. eexists. split; reflexivity.
  - destruct (negb (mid_sigint st) || wedged st); try discriminate. destruct (qcap st <=? length (queue st))%nat; [destruct (blk st) |]; fin Hs; auto.
  - destruct (nth_error (clients st) c); try discriminate. destruct (cphase c0); try discriminate.
    destruct (ckind c0); fin Hs; unf; auto.
Qed.

(** * c17_refuse_new *)

Definition refused_forever (i : nat) (st : state) : Prop :=
  exists c, nth_error (clients st) i = Some c /\ ckind c = Normal /\ gate c = true /\ counted c = false /\
            (cphase c = Starting \/ cphase c = Gone).

(** observations that would mean the client got anything but the refusal *)
Definition good_for (i : nat) (o : obs) : bool :=
  match o with
  | OAdmitted j | OServed j | OKicked j | OLeft j _ | OAuthFail j => Nat.eqb i j
  | _ => false
  end.

Lemma good_for_other : forall i o, obs_client o <> Some i -> good_for i o = false.
Proof.
  intros i o H. destruct o; simpl in *; auto; apply Nat.eqb_neq; congruence.
Qed.

Lemma refused_step : forall st e st' i, refused_forever i st -> step st e = Some st' ->
  refused_forever i st' /\
  (log st' = log st \/ exists o, log st' = o :: log st /\ good_for i o = false) /\
  (actor e = Some i -> exists ok, e = AuthDone i ok /\ log st' = ORefused i :: log st /\
                                  queue st' = queue st /\ total st' = total st).
Proof.
  intros st e st' i (c & Hn & Hk & Hg & Hc & Hp) Hs.
  assert (Hdec : actor e = Some i \/ actor e <> Some i).
  { destruct (actor e) as [j |]; [destruct (Nat.eq_dec j i); [left | right]; congruence | right; congruence]. }
  destruct Hdec as [Ha | Ha].
  - (* the client's own events: only AuthDone is enabled, and it refuses *)
    unfold step in Hs. destruct (exited st); try discriminate.
    destruct e; simpl in Ha; try discriminate Ha; inversion Ha; subst c0; rewrite Hn in Hs.
    + assert (Hst : cphase c = Starting) by (destruct Hp as [Hp | Hp]; auto; rewrite Hp in Hs; discriminate).
      rewrite Hst, Hk, Hg in Hs. fin Hs. unf. split; [| split].
      * exists (set_phase c Gone). split; [apply (nth_error_upd_same _ _ _ _ _ Hn) |]. simpl. auto 10.
      * right. eexists. split; reflexivity.
      * intros _. exists ok. auto.
    + rewrite Hk in Hs. destruct Hp as [Hp | Hp]; rewrite Hp in Hs; discriminate.
    + rewrite Hk in Hs. destruct Hp as [Hp | Hp]; rewrite Hp in Hs; discriminate.
    + rewrite Hk in Hs. destruct Hp as [Hp | Hp]; rewrite Hp in Hs; discriminate.
    + destruct Hp as [Hp | Hp]; rewrite Hp in Hs; discriminate.
    + destruct Hp as [Hp | Hp]; rewrite Hp in Hs; simpl in Hs; discriminate.
    + destruct Hp as [Hp | Hp]; rewrite Hp in Hs; discriminate.
  - destruct (step_frame _ _ _ _ _ Hs Hn Ha) as (c' & Hn' & (E1 & E2 & E3 & E4 & E5)).
    split; [| split].
    + exists c'. rewrite E1, E3, E4, E5. auto.
    + destruct (log_step _ _ _ Hs) as [Hl | (o & Hl & Ho)]; auto.
      right. exists o. split; auto. apply good_for_other. congruence.
    + intros X. contradiction.
Qed.

Lemma refused_run : forall tr st st' i, refused_forever i st -> run st tr = Some st' ->
  refused_forever i st' /\ exists new, log st' = new ++ log st /\ forallb (fun o => negb (good_for i o)) new = true.
Proof.
  induction tr; simpl; intros.
  - fin H0. split; auto. exists []. auto.
  - destruct (step st a) eqn:Es; try discriminate.
    destruct (refused_step _ _ _ _ H Es) as (Hr & Hl & _).
    destruct (IHtr _ _ _ Hr H0) as (Hr' & new & Hn & Hf). split; auto.
    destruct Hl as [Hl | (o & Hl & Ho)].
    + exists new. rewrite Hn, Hl. auto.
    + exists (new ++ [o]). rewrite Hn, Hl, <- app_assoc. split; auto.
      rewrite forallb_app, Hf. simpl. rewrite Ho. reflexivity.
Qed.

Lemma refuse_new : forall st m st1, admin_only st = true -> step st (Accept Normal m) = Some st1 ->
  refused_forever (length (clients st)) st1.
Proof.
  intros st m st1 Ha Hs. unfold step in Hs. destruct (exited st); try discriminate.
  destruct (negb (main_ok st)); try discriminate. fin Hs. unfold refused_forever. unf.
  eexists. split. { rewrite nth_error_app2, Nat.sub_diag; [reflexivity | lia]. }
  rewrite Ha. simpl. auto.
Qed.

(** the refusal does not depend on the password: whatever [ok] is *)
Lemma refuse_new_full : forall st m st1, admin_only st = true -> step st (Accept Normal m) = Some st1 ->
  let i := length (clients st) in
  (forall tr st2, run st1 tr = Some st2 ->
     refused_forever i st2 /\
     (exists new, log st2 = new ++ log st1 /\ forallb (fun o => negb (good_for i o)) new = true) /\
     (forall e st3, step st2 e = Some st3 -> actor e = Some i ->
        exists ok, e = AuthDone i ok /\ log st3 = ORefused i :: log st2 /\ queue st3 = queue st2 /\ total st3 = total st2)).
Proof.
  intros st m st1 Ha Hs i tr st2 Hr.
  pose proof (refuse_new _ _ _ Ha Hs) as H0.
  destruct (refused_run _ _ _ _ H0 Hr) as (H1 & H2). split; auto. split; auto.
  intros e st3 He Hact. destruct (refused_step _ _ _ _ H1 He) as (_ & _ & H3). auto.
Qed.

(** admin clients are still admitted and served in admin-only mode *)
Lemma admin_admitted : forall st m st1, exited st = None -> main_ok st = true ->
  step st (Accept Admin m) = Some st1 ->
  let i := length (clients st) in
  exists st2, step st1 (AuthDone i true) = Some st2 /\ log st2 = OAdmitted i :: log st1 /\
    exists st2', step st2 (Enter i) = Some st2' /\ log st2' = log st2 /\ queue st2' = queue st2 /\
    exists st3, step st2' (Stmt i) = Some st3 /\ log st3 = OServed i :: log st2'.
Proof.
  intros st m st1 Hx Hw Hs i. unfold step in Hs. rewrite Hx, Hw in Hs.
  simpl in Hs. fin Hs.
  assert (Hn : nth_error (clients st ++ [mkC Admin m (admin_only st) Starting false false]) i
               = Some (mkC Admin m (admin_only st) Starting false false)).
  { unfold i. rewrite nth_error_app2, Nat.sub_diag; [reflexivity | lia]. }
  eexists. split.
  { unfold step. unf. rewrite Hx, Hn. simpl. reflexivity. }
  unf. split; auto.
  pose proof (nth_error_upd_same _ _ _ (set_phase (mkC Admin m (admin_only st) Starting false false) Authed) _ Hn) as Hn2.
  eexists. split.
  { unfold step. unf. rewrite ?Hx. rewrite Hn2. simpl. reflexivity. }
  unf. split; auto. split; auto.
  eexists. split.
  { unfold step. unf. rewrite ?Hx.
    match goal with |- context [nth_error (upd_nth ?l i ?v) i] =>
      rewrite (nth_error_upd_same _ l i v _ Hn2) end. simpl. reflexivity. }
  reflexivity.
Qed.

(** * c17_idle_kicked *)

Lemma idle_kicked : forall st i c, Inv st -> exited st = None -> admin_only st = true ->
  nth_error (clients st) i = Some c -> ckind c = Normal -> cphase c = Idle ->
  exists st', step st (Poll i) = Some st' /\ log st' = OKicked i :: log st /\
              queue st' = queue st ++ [-1] /\ total st' = total st /\
              exists c', nth_error (clients st') i = Some c' /\ cphase c' = Gone /\ counted c' = false.
Proof.
  intros st i c (Hok & _ & _) Hx Ha Hn Hk Hp.
  pose proof (Forall_nth_error _ _ _ _ _ Hok Hn) as (_ & H2 & H3 & _).
  assert (Hl : live_phase (cphase c) = true) by (rewrite Hp; reflexivity).
  destruct (H2 Hk Hl) as (Hc & Hg). pose proof (H3 Ha Hk Hg) as Hpd.
  eexists. split.
  { unfold step. rewrite Hx, Hn, Hp, Hpd, Hk. reflexivity. }
  unfold depart. rewrite Hc. unf. repeat split; auto.
  eexists. split; [apply (nth_error_upd_same _ _ _ _ _ Hn) |]. simpl. auto.
Qed.

(** no client is told to go before SIGINT *)
Lemma no_kick_before_sigint : forall st i, Inv st -> admin_only st = false -> step st (Poll i) = None.
Proof.
  intros st i (Hok & _ & _) Ha. unfold step. destruct (exited st); auto.
  destruct (nth_error (clients st) i) eqn:Hn; auto.
  pose proof (Forall_nth_error _ _ _ _ _ Hok Hn) as (_ & _ & _ & H4 & _).
  destruct (H4 Ha) as (_ & Hp). rewrite Hp. destruct (cphase c); auto.
Qed.

(** a kick is always the answer to a poll of an idle non-admin client in admin-only mode *)
Lemma kicked_only_idle : forall st e st' i, Inv st -> step st e = Some st' -> log st' = OKicked i :: log st ->
  e = Poll i /\ admin_only st = true /\
  exists c, nth_error (clients st) i = Some c /\ cphase c = Idle /\ ckind c <> Admin.
Proof.
  intros st e st' i (Hok & _ & _) Hs Hl. unfold step in Hs. destruct (exited st); try discriminate.
  assert (Hne : forall (l : list obs), l <> OKicked i :: l).
  { intros l H. assert (length l = length (OKicked i :: l)) by congruence. simpl in H0. lia. }
  destruct e.
  - destruct (negb (main_ok st)); try discriminate. destruct (admin_only st); fin Hs; cbn [log] in Hl;
      exfalso; eapply Hne; eauto.
  - destruct (negb (main_ok st)); try discriminate. fin Hs. unf. inversion Hl.
  - destruct (negb (main_ok st)); try discriminate. fin Hs. unf. exfalso; eapply Hne; eauto.
  - destruct (nth_error (clients st) c); try discriminate. destruct (cphase c0); try discriminate.
    destruct (ckind c0); [destruct (gate c0); [| destruct ok] | destruct ok | destruct ok]; fin Hs; unf;
      try (inversion Hl; fail); exfalso; eapply Hne; eauto.
  - destruct (nth_error (clients st) c); try discriminate. destruct (ckind c0); try discriminate.
    destruct (cphase c0); try discriminate; fin Hs; unf; exfalso; eapply Hne; eauto.
  - destruct (nth_error (clients st) c); try discriminate.
    destruct (ckind c0); try discriminate; destruct (cphase c0); try discriminate; fin Hs; unf; inversion Hl.
  - destruct (nth_error (clients st) c); try discriminate. destruct (ckind c0); try discriminate.
    destruct (cphase c0); try discriminate; fin Hs; unf; inversion Hl.
  - destruct (nth_error (clients st) c) eqn:Hn; try discriminate. destruct (cphase c0) eqn:Hp; try discriminate.
    destruct (pend c0) eqn:Hpd; try discriminate.
    pose proof (Forall_nth_error _ _ _ _ _ Hok Hn) as (_ & _ & _ & H4 & _).
    assert (Ha : admin_only st = true).
    { destruct (admin_only st); auto. destruct (H4 eq_refl) as (_ & X). congruence. }
    destruct (ckind c0) eqn:Hk; fin Hs; unfold depart in Hl; try (destruct (counted c0)); unf.
    all: try (exfalso; eapply Hne; eauto; fail).
    all: inversion Hl; subst; split; auto; split; auto; exists c0; repeat split; auto; congruence.
  - destruct (nth_error (clients st) c); try discriminate. destruct (live_phase (cphase c0)); try discriminate.
    fin Hs. unfold depart in Hl. destruct (counted c0); [destruct h |]; unf; inversion Hl.
  - destruct (negb (main_ok st)); try discriminate. destruct (queue st); try discriminate.
    destruct ((total st + z =? 0) && admin_only st); [destruct (exit_q st) |]; fin Hs; cbn [log] in Hl;
      exfalso; eapply Hne; eauto.
  - destruct (tmr st); try discriminate. destruct (exit_q st); fin Hs; cbn [log] in Hl; exfalso; eapply Hne; eauto.
  - destruct (negb (main_ok st)); try discriminate. destruct (exit_q st); try discriminate. fin Hs. unf. inversion Hl.
  - destruct (negb (mid_sigint st) || wedged st); try discriminate. destruct (qcap st <=? length (queue st))%nat; [destruct (blk st) |]; fin Hs; cbn [log] in Hl; exfalso; eapply Hne; eauto.
  - destruct (nth_error (clients st) c); try discriminate. destruct (cphase c0); try discriminate.
    destruct (ckind c0); fin Hs; unf; exfalso; eapply Hne; eauto.
Qed.

(** * c17_txn_finishes *)

Definition in_txn_phase (p : phase) : Prop := p = InTxn \/ p = SessionHeld.

Lemma txn_not_polled : forall st i c, nth_error (clients st) i = Some c -> in_txn_phase (cphase c) ->
  step st (Poll i) = None.
Proof.
  intros st i c Hn Hp. unfold step. destruct (exited st); auto. rewrite Hn.
  destruct Hp as [Hp | Hp]; rewrite Hp; reflexivity.
Qed.

Lemma txn_served : forall st i c, exited st = None -> nth_error (clients st) i = Some c -> ckind c = Normal ->
  in_txn_phase (cphase c) -> step st (Stmt i) = Some (with_log st (OServed i)).
Proof.
  intros st i c Hx Hn Hk Hp. unfold step. rewrite Hx, Hn, Hk.
  destruct Hp as [Hp | Hp]; rewrite Hp; reflexivity.
Qed.

Lemma txn_commit_served : forall st i c, exited st = None -> nth_error (clients st) i = Some c ->
  ckind c = Normal -> cphase c = InTxn ->
  exists st', step st (TxnEnd i) = Some st' /\ log st' = OServed i :: log st /\ queue st' = queue st.
Proof.
  intros st i c Hx Hn Hk Hp. eexists. split.
  { unfold step. rewrite Hx, Hn, Hk, Hp. reflexivity. }
  unf. auto.
Qed.

(** whatever else happens (SIGINT, other clients, drain, timer), a client inside a transaction stays
    there until ITS OWN TxnEnd or Leave — or the process is gone *)
Lemma txn_undisturbed : forall st e st' i c, step st e = Some st' -> nth_error (clients st) i = Some c ->
  cphase c = InTxn ->
  (exists c', nth_error (clients st') i = Some c' /\ cphase c' = InTxn /\ counted c' = counted c) \/
  e = TxnEnd i \/ (exists h, e = Leave i h).
Proof.
  intros st e st' i c Hs Hn Hp.
  assert (Hdec : actor e = Some i \/ actor e <> Some i).
  { destruct (actor e) as [j |]; [destruct (Nat.eq_dec j i); [left | right]; congruence | right; congruence]. }
  destruct Hdec as [Ha | Ha].
  - destruct e; simpl in Ha; try discriminate Ha; inversion Ha; subst c0; eauto.
    + unfold step in Hs. destruct (exited st); try discriminate. rewrite Hn, Hp in Hs. discriminate.
    + unfold step in Hs. destruct (exited st); try discriminate. rewrite Hn, Hp in Hs.
      destruct (ckind c); discriminate.
    + unfold step in Hs. destruct (exited st); try discriminate. rewrite Hn, Hp in Hs.
      destruct (ckind c); try discriminate; fin Hs; unf; left; exists c; auto.
    + unfold step in Hs. destruct (exited st); try discriminate. rewrite Hn, Hp in Hs. discriminate.
    + unfold step in Hs. destruct (exited st); try discriminate. rewrite Hn, Hp in Hs. discriminate.
  - left. destruct (step_frame _ _ _ _ _ Hs Hn Ha) as (c' & Hn' & (_ & _ & _ & E4 & E5)).
    exists c'. rewrite E4, E5. auto.
Qed.

(** * Exit: what makes the process leave *)

Lemma exit_step : forall st e st' x, step st e = Some st' -> exited st' = Some x ->
  (e = Sigterm /\ x = ByTerm) \/ (e = ExitDeliver /\ exit_q st = Some x).
Proof.
  intros st e st' x Hs Hx. pose proof (step_exited_none _ _ _ Hs) as H0.
  destruct (is_client_event e) eqn:He.
  { destruct (client_event_ctl _ _ _ He Hs) as (Hc & _). unfold ctl in Hc. inversion Hc. congruence. }
  unfold step in Hs. rewrite H0 in Hs.
  destruct e; try discriminate He.
  - destruct (negb (main_ok st)); try discriminate. destruct (admin_only st); fin Hs; cbn [exited] in Hx; congruence.
  - destruct (negb (main_ok st)); try discriminate. fin Hs. unf. inversion Hx. auto.
  - destruct (negb (main_ok st)); try discriminate. fin Hs. unf. congruence.
  - destruct (negb (main_ok st)); try discriminate. destruct (queue st); try discriminate.
    destruct ((total st + z =? 0) && admin_only st); [destruct (exit_q st) |]; fin Hs; cbn [exited] in Hx; congruence.
  - destruct (tmr st); try discriminate. destruct (exit_q st); fin Hs; cbn [exited] in Hx; congruence.
  - destruct (negb (main_ok st)); try discriminate. destruct (exit_q st) eqn:Eq; try discriminate. fin Hs.
    unf. inversion Hx. auto.
  - destruct (negb (mid_sigint st) || wedged st); try discriminate. destruct (qcap st <=? length (queue st))%nat; [destruct (blk st) |]; fin Hs; cbn [exited] in Hx; congruence.
Qed.

Lemma exitq_step : forall st e st' x, step st e = Some st' -> exit_q st = None -> exit_q st' = Some x ->
  (e = DrainDeliver /\ x = ByZero /\ admin_only st' = true /\ total st' = 0) \/
  (e = TimerFire /\ x = ByTimer /\ tmr st = TArmed).
Proof.
  intros st e st' x Hs H0 Hx.
  destruct (is_client_event e) eqn:He.
  { destruct (client_event_ctl _ _ _ He Hs) as (Hc & _). unfold ctl in Hc. inversion Hc. congruence. }
  unfold step in Hs. destruct (exited st); try discriminate.
  destruct e; try discriminate He.
  - destruct (negb (main_ok st)); try discriminate. destruct (admin_only st); fin Hs; cbn [exit_q] in Hx; congruence.
  - destruct (negb (main_ok st)); try discriminate. fin Hs. unf. congruence.
  - destruct (negb (main_ok st)); try discriminate. fin Hs. unf. congruence.
  - destruct (negb (main_ok st)); try discriminate. destruct (queue st); try discriminate.
    destruct ((total st + z =? 0) && admin_only st) eqn:Ez; [rewrite H0 in Hs |]; fin Hs; cbn [exit_q] in Hx; try congruence.
    apply andb_true_iff in Ez. destruct Ez as (Ez & Ea). apply Z.eqb_eq in Ez. inversion Hx.
    left. cbn. auto.
  - destruct (tmr st) eqn:Et; try discriminate. rewrite H0 in Hs. fin Hs. cbn [exit_q] in Hx. inversion Hx. auto.
  - destruct (negb (main_ok st)); try discriminate. rewrite H0 in Hs. discriminate.
  - destruct (negb (mid_sigint st) || wedged st); try discriminate. destruct (qcap st <=? length (queue st))%nat; [destruct (blk st) |]; fin Hs; cbn [exit_q] in Hx; congruence.
Qed.

Lemma exitq_mono : forall st e st' x, step st e = Some st' -> exit_q st = Some x -> exit_q st' = Some x.
Proof.
  intros st e st' x Hs H0.
  destruct (is_client_event e) eqn:He.
  { destruct (client_event_ctl _ _ _ He Hs) as (Hc & _). unfold ctl in Hc. inversion Hc. congruence. }
  unfold step in Hs. destruct (exited st); try discriminate.
  destruct e; try discriminate He.
  - destruct (negb (main_ok st)); try discriminate. destruct (admin_only st); fin Hs; auto.
  - destruct (negb (main_ok st)); try discriminate. fin Hs. auto.
  - destruct (negb (main_ok st)); try discriminate. fin Hs. auto.
  - destruct (negb (main_ok st)); try discriminate. destruct (queue st); try discriminate.
    destruct ((total st + z =? 0) && admin_only st); [rewrite H0 in Hs |]; fin Hs; auto.
  - destruct (tmr st); try discriminate. rewrite H0 in Hs. fin Hs. auto.
  - destruct (negb (main_ok st)); try discriminate. rewrite H0 in Hs. fin Hs. auto.
  - destruct (negb (mid_sigint st) || wedged st); try discriminate. destruct (qcap st <=? length (queue st))%nat; [destruct (blk st) |]; fin Hs; auto.
Qed.

Lemma admin_only_step : forall st e st', step st e = Some st' -> admin_only st' = true ->
  admin_only st = true \/ e = Sigint.
Proof.
  intros st e st' Hs Ha.
  destruct (is_client_event e) eqn:He.
  { destruct (client_event_ctl _ _ _ He Hs) as (Hc & _). unfold ctl in Hc. inversion Hc. left. congruence. }
  unfold step in Hs. destruct (exited st); try discriminate.
  destruct e; try discriminate He; auto.
  - destruct (negb (main_ok st)); try discriminate. fin Hs. auto.
  - destruct (negb (main_ok st)); try discriminate. fin Hs. auto.
  - destruct (negb (main_ok st)); try discriminate. destruct (queue st); try discriminate.
    destruct ((total st + z =? 0) && admin_only st); [destruct (exit_q st) |]; fin Hs; auto.
  - destruct (tmr st); try discriminate. destruct (exit_q st); fin Hs; auto.
  - destruct (negb (main_ok st)); try discriminate. destruct (exit_q st); try discriminate. fin Hs. auto.
  - destruct (negb (mid_sigint st) || wedged st); try discriminate. destruct (qcap st <=? length (queue st))%nat; [destruct (blk st) |]; fin Hs; auto.
Qed.

Lemma admin_only_needs_sigint : forall tz cap b tr st, run (init tz cap b) tr = Some st -> admin_only st = true -> In Sigint tr.
Proof.
  intros tz cap b tr. induction tr using rev_ind; intros st Hr Ha.
  - simpl in Hr. fin Hr. discriminate.
  - rewrite run_app in Hr. destruct (run (init tz cap b) tr) eqn:E; try discriminate. simpl in Hr.
    destruct (step s x) eqn:Es; try discriminate. fin Hr. apply in_or_app.
    destruct (admin_only_step _ _ _ Es Ha) as [H | H]; [left; eauto | right; subst; simpl; auto].
Qed.

(** where the message in the exit channel came from *)
Definition exitq_origin (tz : bool) (cap : nat) (b : bool) (tr : list event) (x : cause) : Prop :=
  match x with
  | ByTerm => False
  | ByZero => exists tr1 tr2 s1, tr = tr1 ++ DrainDeliver :: tr2 /\ run (init tz cap b) (tr1 ++ [DrainDeliver]) = Some s1 /\
                                 admin_only s1 = true /\ total s1 = 0
  | ByTimer => exists tr1 tr2, tr = tr1 ++ TimerFire :: tr2 /\ In Sigint tr1
  end.

Lemma exitq_origin_snoc : forall tz cap b tr x e, exitq_origin tz cap b tr x -> exitq_origin tz cap b (tr ++ [e]) x.
Proof.
  intros tz cap b tr x e H. destruct x; simpl in *; auto.
  - destruct H as (tr1 & tr2 & s1 & -> & H). exists tr1, (tr2 ++ [e]), s1. rewrite <- app_assoc. auto.
  - destruct H as (tr1 & tr2 & -> & H). exists tr1, (tr2 ++ [e]). rewrite <- app_assoc. auto.
Qed.

Lemma exitq_has_origin : forall tz cap b tr st x, run (init tz cap b) tr = Some st -> exit_q st = Some x -> exitq_origin tz cap b tr x.
Proof.
  intros tz cap b tr. induction tr using rev_ind; intros st y Hr Hq.
  - simpl in Hr. fin Hr. discriminate.
  - rewrite run_app in Hr. destruct (run (init tz cap b) tr) eqn:E; try discriminate. simpl in Hr.
    destruct (step s x) eqn:Es; try discriminate. fin Hr.
    destruct (exit_q s) eqn:Eq.
    + rewrite (exitq_mono _ _ _ _ Es Eq) in Hq. fin Hq. apply exitq_origin_snoc. eauto.
    + destruct (exitq_step _ _ _ _ Es Eq Hq) as [(-> & -> & Ha & Ht) | (-> & -> & Ht)].
      * simpl. exists tr, [], st. repeat split; auto. rewrite run_app, E. simpl. rewrite Es. reflexivity.
      * simpl. exists tr, []. split; auto. eapply admin_only_needs_sigint; eauto.
        destruct (reachable_Inv s) as (_ & _ & (A & _)). { exists tz, cap, b, tr; auto. } apply A. congruence.
Qed.

Definition exit_origin (tz : bool) (cap : nat) (b : bool) (tr : list event) (x : cause) : Prop :=
  match x with
  | ByTerm => In Sigterm tr
  | _ => In ExitDeliver tr /\ exitq_origin tz cap b tr x
  end.

Lemma exit_has_origin : forall tz cap b tr st x, run (init tz cap b) tr = Some st -> exited st = Some x -> exit_origin tz cap b tr x.
Proof.
  intros tz cap b tr. induction tr using rev_ind; intros st y Hr Hx.
  - simpl in Hr. fin Hr. discriminate.
  - rewrite run_app in Hr. destruct (run (init tz cap b) tr) eqn:E; try discriminate. simpl in Hr.
    destruct (step s x) eqn:Es; try discriminate. fin Hr.
    destruct (exit_step _ _ _ _ Es Hx) as [(-> & ->) | (-> & Hq)].
    + simpl. apply in_or_app. right. simpl. auto.
    + assert (Ho : exitq_origin tz cap b tr y) by (eapply exitq_has_origin; eauto).
      destruct y; simpl in *; try contradiction; (split; [apply in_or_app; right; simpl; auto |]).
      * destruct Ho as (tr1 & tr2 & s1 & -> & H). exists tr1, (tr2 ++ [ExitDeliver]), s1. rewrite <- app_assoc. auto.
      * destruct Ho as (tr1 & tr2 & -> & H). exists tr1, (tr2 ++ [ExitDeliver]). rewrite <- app_assoc. auto.
Qed.

(** ... and the converse directions *)

Lemma sigterm_immediate : forall st, exited st = None -> main_ok st = true ->
  step st Sigterm = Some (with_exit st ByTerm).
Proof. intros st Hx Hw. unfold step. rewrite Hx, Hw. reflexivity. Qed.

Lemma double_sigint_ignored : forall st, exited st = None -> main_ok st = true -> admin_only st = true ->
  step st Sigint = Some st.
Proof. intros st Hx Hw Ha. unfold step. rewrite Hx, Hw, Ha. reflexivity. Qed.

Lemma exit_deliver_enabled : forall st x, exited st = None -> main_ok st = true -> exit_q st = Some x ->
  step st ExitDeliver = Some (with_exit st x).
Proof. intros st x Hx Hw Hq. unfold step. rewrite Hx, Hw, Hq. reflexivity. Qed.

Lemma zero_observed_sends : forall st st', step st DrainDeliver = Some st' -> admin_only st = true ->
  total st' = 0 -> exit_q st' <> None.
Proof.
  intros st st' Hs Ha Ht. unfold step in Hs. destruct (exited st); try discriminate.
  destruct (negb (main_ok st)); try discriminate. destruct (queue st); try discriminate.
  destruct ((total st + z =? 0) && admin_only st) eqn:Ez.
  - destruct (exit_q st) eqn:Eq; fin Hs; cbn [exit_q]; congruence.
  - fin Hs. cbn [total] in Ht. rewrite Ha, andb_true_r in Ez. apply Z.eqb_neq in Ez. contradiction.
Qed.

Lemma main_ok_split : forall st, main_ok st = true <-> wedged st = false /\ mid_sigint st = false.
Proof. unfold main_ok. intros st. destruct (wedged st), (mid_sigint st); simpl; split; intros; try discriminate; auto; destruct H; discriminate. Qed.

Lemma timer_forces_exit : forall st, Inv st -> exited st = None -> main_ok st = true ->
  admin_only st = true -> tzero st = false ->
  exists tr st', (tr = [TimerFire; ExitDeliver] \/ tr = [ExitDeliver]) /\ run st tr = Some st' /\
                 exists x, exited st' = Some x /\ x <> ByTerm.
Proof.
  intros st (_ & _ & ((A1 & A2) & B & C & D & E & F & G & I & J & K & L & M & N)) Hx Hm Ha Htz.
  destruct (proj1 (main_ok_split st) Hm) as (Hw & Hmid).
  assert (Hex : forall s x, exited s = None -> main_ok s = true -> exit_q s = Some x -> x <> ByTerm ->
                exists st', run s [ExitDeliver] = Some st' /\ exists y, exited st' = Some y /\ y <> ByTerm).
  { intros s x H1 H2 H3 H4. simpl. rewrite (exit_deliver_enabled _ _ H1 H2 H3). eexists. split; eauto.
    unf. eauto. }
  destruct (tmr st) eqn:Et.
  - exfalso. destruct (A2 Ha) as [X | [X | X]]; congruence.
  - destruct (exit_q st) eqn:Eq.
    + destruct (Hex st c Hx Hm Eq) as (st' & Hr & Hy). { intro; subst; apply D; auto. }
      exists [ExitDeliver], st'. auto.
    + exists [TimerFire; ExitDeliver].
      set (s1 := mkS (admin_only st) (total st) TSent (Some ByTimer) (wedged st) (exited st) (queue st)
                     (clients st) (tzero st) (qcap st) (leaked st) (zero_sends st) (log st) (mid_sigint st) (blk st)).
      assert (Hs : step st TimerFire = Some s1).
      { unfold step. rewrite Et, Eq. rewrite Hx at 1. reflexivity. }
      destruct (Hex s1 ByTimer) as (st' & Hr & Hy); auto; try discriminate.
      exists st'. split; auto. split; auto. simpl. rewrite Hs. exact Hr.
  - assert (Eq : exit_q st = Some ByTimer) by (apply B; auto).
    destruct (Hex st ByTimer Hx Hm Eq) as (st' & Hr & Hy); try discriminate. exists [ExitDeliver], st'. auto.
  - assert (Eq : exit_q st = Some ByZero) by (apply C; auto).
    destruct (Hex st ByZero Hx Hm Eq) as (st' & Hr & Hy); try discriminate. exists [ExitDeliver], st'. auto.
  - exfalso. apply (L Htz). auto.
Qed.

Lemma ncounted_nonneg : forall l, 0 <= ncounted l.
Proof. induction l; simpl; [lia | destruct (counted a); lia]. Qed.

Lemma drain_enabled : forall st m q, exited st = None -> main_ok st = true -> queue st = m :: q ->
  exists st', step st DrainDeliver = Some st' /\ queue st' = q /\ clients st' = clients st /\ leaked st' = leaked st /\
              admin_only st' = admin_only st /\ exited st' = None /\ mid_sigint st' = mid_sigint st /\ qcap st' = qcap st.
Proof.
  intros st m q Hx Hw Hq. unfold step. rewrite Hx, Hw, Hq. simpl.
  destruct ((total st + m =? 0) && admin_only st); [destruct (exit_q st) |]; eexists; split; try reflexivity;
    cbn; auto 10.
Qed.

(** once every counted client has left (and none died in a panic) the main loop, by delivering what
    is still in the drain channel, gets its exit message — unless it wedges on the way *)
Lemma all_left_exits : forall n st, Inv st -> length (queue st) = n -> exited st = None -> main_ok st = true ->
  (0 < qcap st)%nat -> admin_only st = true -> ncounted (clients st) = 0 -> leaked st = 0 ->
  exists k st', (k <= n)%nat /\ run st (repeat DrainDeliver k) = Some st' /\
                (wedged st' = true \/
                 exists x st'', x <> ByTerm /\ step st' ExitDeliver = Some st'' /\ exited st'' = Some x).
Proof.
  induction n; intros st HI Hlen Hx Hm Hcap Ha Hn Hl.
  - destruct (queue st) eqn:Eq; try discriminate.
    exists 0%nat, st. split; auto. split; auto. right.
    destruct (proj1 (main_ok_split st) Hm) as (Hw & Hmid).
    destruct HI as (_ & (Hc & _) & ((A1 & A2) & B & C & D & E & F & G & I & J & K & L & M & N)).
    rewrite Eq in Hc. simpl in Hc.
    assert (Hq : exit_q st <> None) by (apply J; auto; lia).
    destruct (exit_q st) eqn:Eq2; try congruence.
    exists c. eexists. split. { intro; subst; apply D; auto. }
    rewrite (exit_deliver_enabled _ _ Hx Hm Eq2). split; eauto.
  - destruct (queue st) as [| m q] eqn:Eq; try discriminate.
    destruct (drain_enabled _ _ _ Hx Hm Eq) as (st1 & Hs & Hq1 & Hc1 & Hl1 & Ha1 & Hx1 & Hm1 & Hcap1).
    destruct (proj1 (main_ok_split st) Hm) as (Hw & Hmid).
    destruct (wedged st1) eqn:Hw1.
    + exists 1%nat, st1. split; [lia |]. simpl. rewrite Hs. auto.
    + destruct (IHn st1) as (k & st' & Hk & Hr & Hres); try congruence.
      * eapply Inv_step; eauto.
      * rewrite Hq1. simpl in Hlen. lia.
      * apply main_ok_split. split; congruence.
      * exists (S k), st'. split; [lia |]. simpl. rewrite Hs. auto.
Qed.

(** * The wedge *)

Lemma wedge_forever_step : forall st e st', wedged st = true -> step st e = Some st' ->
  wedged st' = true /\ exited st' = None.
Proof.
  intros st e st' Hw Hs. pose proof (step_exited_none _ _ _ Hs) as Hx.
  destruct (is_client_event e) eqn:He.
  { destruct (client_event_ctl _ _ _ He Hs) as (Hc & _). unfold ctl in Hc. inversion Hc. split; congruence. }
  unfold step, main_ok in Hs. rewrite Hx, Hw in Hs. simpl in Hs. rewrite ?orb_true_r in Hs.
  destruct e; try discriminate.
  destruct (tmr st); try discriminate. destruct (exit_q st); fin Hs; cbn; auto.
Qed.

Lemma wedge_forever : forall tr st st', wedged st = true -> exited st = None -> run st tr = Some st' ->
  wedged st' = true /\ exited st' = None.
Proof.
  induction tr; simpl; intros. { fin H1. auto. }
  destruct (step st a) eqn:Es; try discriminate.
  destruct (wedge_forever_step _ _ _ H Es). eauto.
Qed.

Lemma wedge_origin : forall st e st', step st e = Some st' -> wedged st = false -> wedged st' = true ->
  (e = DrainDeliver /\ exit_q st <> None /\ total st' = 0 /\ admin_only st = true) \/
  (e = SigintQ /\ mid_sigint st = true /\ (qcap st <= length (queue st))%nat).
Proof.
  intros st e st' Hs Hw Hw'.
  destruct (is_client_event e) eqn:He.
  { destruct (client_event_ctl _ _ _ He Hs) as (Hc & _). unfold ctl in Hc. inversion Hc. congruence. }
  unfold step in Hs. destruct (exited st); try discriminate.
  destruct e; try discriminate He.
  - destruct (negb (main_ok st)); try discriminate. destruct (admin_only st); fin Hs; cbn [wedged] in Hw'; congruence.
  - destruct (negb (main_ok st)); try discriminate. fin Hs. unf. congruence.
  - destruct (negb (main_ok st)); try discriminate. fin Hs. unf. congruence.
  - destruct (negb (main_ok st)); try discriminate. destruct (queue st); try discriminate.
    destruct ((total st + z =? 0) && admin_only st) eqn:Ez; [destruct (exit_q st) eqn:Eq |]; fin Hs;
      cbn [wedged] in Hw'; try congruence.
    apply andb_true_iff in Ez. destruct Ez as (Ez & Ea). apply Z.eqb_eq in Ez. left. cbn. repeat split; auto; congruence.
  - destruct (tmr st); try discriminate. destruct (exit_q st); fin Hs; cbn [wedged] in Hw'; congruence.
  - destruct (negb (main_ok st)); try discriminate. destruct (exit_q st); try discriminate. fin Hs. unf. congruence.
  - destruct (mid_sigint st) eqn:Em; simpl in Hs; try discriminate. rewrite Hw in Hs.
    destruct (qcap st <=? length (queue st))%nat eqn:Ec; fin Hs; cbn [wedged] in Hw'; try congruence.
    right. apply Nat.leb_le in Ec. auto.
Qed.

(** * Panic exits leak the counter *)

Lemma leak_no_zero : forall st st', Inv st -> 0 < leaked st -> no_pos (queue st) = true ->
  step st DrainDeliver = Some st' ->
  0 < total st' /\ exit_q st' = exit_q st /\ wedged st' = wedged st /\ zero_sends st' = zero_sends st.
Proof.
  intros st st' (_ & (Hc & _) & _) Hl Hnp Hs. unfold step in Hs. destruct (exited st); try discriminate.
  destruct (negb (main_ok st)); try discriminate. destruct (queue st) as [| m q] eqn:Eq; try discriminate.
  simpl in Hnp, Hc. apply andb_true_iff in Hnp. destruct Hnp as (Hm & Hq). apply Z.leb_le in Hm.
  pose proof (no_pos_qsum _ Hq). pose proof (ncounted_nonneg (clients st)).
  assert (Ht : 0 < total st + m) by lia.
  destruct ((total st + m =? 0) && admin_only st) eqn:Ez.
  - apply andb_true_iff in Ez. destruct Ez as (Ez & _). apply Z.eqb_eq in Ez. lia.
  - fin Hs. cbn. auto.
Qed.

Definition admits (e : event) : bool := match e with Enter _ => true | _ => false end.

Lemma leak_preserved : forall st e st', step st e = Some st' -> 0 < leaked st -> no_pos (queue st) = true ->
  admits e = false -> 0 < leaked st' /\ no_pos (queue st') = true.
Proof.
  intros st e st' Hs Hl Hnp He. unfold step in Hs. destruct (exited st); try discriminate.
  destruct e.
  - destruct (negb (main_ok st)); try discriminate. destruct (admin_only st); fin Hs; auto.
  - destruct (negb (main_ok st)); try discriminate. fin Hs. auto.
  - destruct (negb (main_ok st)); try discriminate. fin Hs. auto.
  - destruct (nth_error (clients st) c); try discriminate. destruct (cphase c0); try discriminate.
    destruct (ckind c0); [destruct (gate c0); [| destruct ok] | destruct ok | destruct ok]; fin Hs; unf; auto.
  - destruct (nth_error (clients st) c); try discriminate. destruct (ckind c0); try discriminate.
    destruct (cphase c0); try discriminate; fin Hs; unf; auto.
  - destruct (nth_error (clients st) c); try discriminate.
    destruct (ckind c0); try discriminate; destruct (cphase c0); try discriminate; fin Hs; unf; auto.
  - destruct (nth_error (clients st) c); try discriminate. destruct (ckind c0); try discriminate.
    destruct (cphase c0); try discriminate; fin Hs; unf; auto.
  - destruct (nth_error (clients st) c); try discriminate. destruct (cphase c0); try discriminate.
    destruct (pend c0); try discriminate.
    destruct (ckind c0); fin Hs; unfold depart; try (destruct (counted c0)); unf; rewrite ?no_pos_app, ?Hnp; auto.
  - destruct (nth_error (clients st) c); try discriminate. destruct (live_phase (cphase c0)); try discriminate.
    fin Hs. unfold depart. destruct (counted c0); [destruct h |]; unf; rewrite ?no_pos_app, ?Hnp; auto; split; auto; lia.
  - destruct (negb (main_ok st)); try discriminate. destruct (queue st); try discriminate.
    simpl in Hnp. apply andb_true_iff in Hnp. destruct Hnp as (_ & Hq).
    destruct ((total st + z =? 0) && admin_only st); [destruct (exit_q st) |]; fin Hs; cbn; auto.
  - destruct (tmr st); try discriminate. destruct (exit_q st); fin Hs; auto.
  - destruct (negb (main_ok st)); try discriminate. destruct (exit_q st); try discriminate. fin Hs. auto.
  - destruct (negb (mid_sigint st) || wedged st); try discriminate. destruct (qcap st <=? length (queue st))%nat; [destruct (blk st) |]; fin Hs; auto.
    cbn. rewrite no_pos_app, Hnp. auto.
  - discriminate He.
Qed.

Lemma zero_sends_step : forall st e st', step st e = Some st' -> e <> DrainDeliver -> zero_sends st' = zero_sends st.
Proof.
  intros st e st' Hs Hne.
  destruct (is_client_event e) eqn:He.
  { destruct (client_event_ctl _ _ _ He Hs) as (Hc & _). unfold ctl in Hc. inversion Hc. congruence. }
  unfold step in Hs. destruct (exited st); try discriminate.
  destruct e; try discriminate He; try congruence.
  - destruct (negb (main_ok st)); try discriminate. destruct (admin_only st); fin Hs; auto.
  - destruct (negb (main_ok st)); try discriminate. fin Hs. auto.
  - destruct (negb (main_ok st)); try discriminate. fin Hs. auto.
  - destruct (tmr st); try discriminate. destruct (exit_q st); fin Hs; auto.
  - destruct (negb (main_ok st)); try discriminate. destruct (exit_q st); try discriminate. fin Hs. auto.
  - destruct (negb (mid_sigint st) || wedged st); try discriminate. destruct (qcap st <=? length (queue st))%nat; [destruct (blk st) |]; fin Hs; auto.
Qed.

(** after a counted client died in a panic — and once every +1 has been delivered — the main loop
    never again sees the count at zero, whatever happens, as long as nobody new is admitted *)
Lemma panic_leaks_counter : forall tr st st', Inv st -> 0 < leaked st -> no_pos (queue st) = true ->
  forallb (fun e => negb (admits e)) tr = true -> run st tr = Some st' ->
  zero_sends st' = zero_sends st /\ 0 < leaked st' /\ (queue st' = [] -> 0 < total st').
Proof.
  induction tr; simpl; intros st st' HI Hl Hnp Hf Hr.
  - fin Hr. split; auto. split; auto. intros Hq.
    destruct HI as (_ & (Hc & _) & _). rewrite Hq in Hc. simpl in Hc.
    pose proof (ncounted_nonneg (clients st')). lia.
  - destruct (step st a) eqn:Es; try discriminate.
    apply andb_true_iff in Hf. destruct Hf as (Ha & Hf). apply negb_true_iff in Ha.
    destruct (leak_preserved _ _ _ Es Hl Hnp Ha) as (Hl1 & Hnp1).
    destruct (IHtr s st' (Inv_step _ _ _ HI Es) Hl1 Hnp1 Hf Hr) as (Hz & Hl' & Ht).
    split; [| split]; auto. rewrite Hz.
    assert (Hd : a = DrainDeliver \/ a <> DrainDeliver) by (destruct a; auto; right; discriminate).
    destruct Hd as [-> | Hd].
    + destruct (leak_no_zero _ _ HI Hl Hnp Es) as (_ & _ & _ & H). exact H.
    + eapply zero_sends_step; eauto.
Qed.

Lemma panic_leaks : forall st i c, exited st = None -> nth_error (clients st) i = Some c ->
  live_phase (cphase c) = true -> counted c = true ->
  exists st', step st (Leave i Panic) = Some st' /\ leaked st' = leaked st + 1 /\ queue st' = queue st.
Proof.
  intros st i c Hx Hn Hp Hc. eexists. split.
  { unfold step. rewrite Hx, Hn, Hp. reflexivity. }
  unfold depart. rewrite Hc. unf. auto.
Qed.

(** * shutdown_timeout = 0: the timer task dies at once *)

Lemma tzero_no_timer : forall st, Inv st -> tzero st = true -> step st TimerFire = None.
Proof.
  intros st (_ & _ & (A & B & C & D & E & F & G & I & J & K & L & M & N)) Htz. unfold step.
  destruct (exited st); auto. destruct (K Htz) as [H | H]; rewrite H; reflexivity.
Qed.

(** * Statements over reachable states (the forms exported by Props.v) *)

Lemma r_idle_kicked : forall st i c, reachable st -> exited st = None -> admin_only st = true ->
  nth_error (clients st) i = Some c -> ckind c = Normal -> cphase c = Idle ->
  exists st', step st (Poll i) = Some st' /\ log st' = OKicked i :: log st /\
              queue st' = queue st ++ [-1] /\ total st' = total st /\
              exists c', nth_error (clients st') i = Some c' /\ cphase c' = Gone /\ counted c' = false.
Proof. intros st i c H. apply idle_kicked. apply reachable_Inv. exact H. Qed.

Lemma r_no_kick_before_sigint : forall st i, reachable st -> admin_only st = false -> step st (Poll i) = None.
Proof. intros st i H. apply no_kick_before_sigint. apply reachable_Inv. exact H. Qed.

Lemma r_kicked_only_idle : forall st e st' i, reachable st -> step st e = Some st' ->
  log st' = OKicked i :: log st ->
  e = Poll i /\ admin_only st = true /\
  exists c, nth_error (clients st) i = Some c /\ cphase c = Idle /\ ckind c <> Admin.
Proof. intros st e st' i H. apply kicked_only_idle. apply reachable_Inv. exact H. Qed.

Lemma txn_finishes : forall st i c, nth_error (clients st) i = Some c -> ckind c = Normal -> cphase c = InTxn ->
  step st (Poll i) = None /\
  (exited st = None -> step st (Stmt i) = Some (with_log st (OServed i))) /\
  (exited st = None -> exists st', step st (TxnEnd i) = Some st' /\ log st' = OServed i :: log st /\ queue st' = queue st) /\
  (forall e st', step st e = Some st' ->
     (exists c', nth_error (clients st') i = Some c' /\ cphase c' = InTxn /\ counted c' = counted c) \/
     e = TxnEnd i \/ (exists h, e = Leave i h)).
Proof.
  intros st i c Hn Hk Hp. split; [| split; [| split]].
  - eapply txn_not_polled; eauto. left; auto.
  - intros Hx. eapply txn_served; eauto. left; auto.
  - intros Hx. eapply txn_commit_served; eauto.
  - intros e st' Hs. eapply txn_undisturbed; eauto.
Qed.

Lemma session_held_not_kicked : forall st i c, nth_error (clients st) i = Some c ->
  cphase c = SessionHeld -> step st (Poll i) = None.
Proof. intros. eapply txn_not_polled; eauto. right; auto. Qed.

Lemma exit_condition : forall tz cap b tr st x, run (init tz cap b) tr = Some st -> exited st = Some x ->
  match x with
  | ByTerm => In Sigterm tr
  | ByZero => In ExitDeliver tr /\
              exists tr1 tr2 s1, tr = tr1 ++ DrainDeliver :: tr2 /\ run (init tz cap b) (tr1 ++ [DrainDeliver]) = Some s1 /\
                                 admin_only s1 = true /\ total s1 = 0
  | ByTimer => In ExitDeliver tr /\ exists tr1 tr2, tr = tr1 ++ TimerFire :: tr2 /\ In Sigint tr1
  end.
Proof. intros tz cap b tr st x Hr Hx. pose proof (exit_has_origin _ _ _ _ _ _ Hr Hx) as H. destruct x; exact H. Qed.

Lemma r_all_left_exits : forall st, reachable st -> exited st = None -> main_ok st = true ->
  (0 < qcap st)%nat -> admin_only st = true -> ncounted (clients st) = 0 -> leaked st = 0 ->
  exists k st', (k <= length (queue st))%nat /\ run st (repeat DrainDeliver k) = Some st' /\
                (wedged st' = true \/
                 exists x st'', x <> ByTerm /\ step st' ExitDeliver = Some st'' /\ exited st'' = Some x).
Proof. intros st H. apply all_left_exits; auto. apply reachable_Inv. exact H. Qed.

Lemma r_timer_forces_exit : forall st, reachable st -> exited st = None -> main_ok st = true ->
  admin_only st = true -> tzero st = false ->
  exists tr st', (tr = [TimerFire; ExitDeliver] \/ tr = [ExitDeliver]) /\ run st tr = Some st' /\
                 exists x, exited st' = Some x /\ x <> ByTerm.
Proof. intros st H. apply timer_forces_exit. apply reachable_Inv. exact H. Qed.

Lemma r_panic_leaks_counter : forall tr st st', reachable st -> 0 < leaked st -> no_pos (queue st) = true ->
  forallb (fun e => negb (admits e)) tr = true -> run st tr = Some st' ->
  zero_sends st' = zero_sends st /\ 0 < leaked st' /\ (queue st' = [] -> 0 < total st').
Proof. intros tr st st' H. apply panic_leaks_counter. apply reachable_Inv. exact H. Qed.

Lemma r_tzero_no_timer : forall st, reachable st -> tzero st = true -> step st TimerFire = None.
Proof. intros st H. apply tzero_no_timer. apply reachable_Inv. exact H. Qed.

(** * The code as it is ([blk = false]): the main loop never waits on a channel it reads itself *)

Lemma blk_step : forall st e st', step st e = Some st' -> blk st' = blk st /\ tzero st' = tzero st.
Proof.
  intros st e st' Hs.
  destruct (is_client_event e) eqn:He.
  { destruct (client_event_ctl _ _ _ He Hs) as (Hc & _). unfold ctl in Hc. inversion Hc. auto. }
  unfold step in Hs. destruct (exited st); try discriminate.
  destruct e; try discriminate He.
  - destruct (negb (main_ok st)); try discriminate. destruct (admin_only st); fin Hs; auto.
  - destruct (negb (main_ok st)); try discriminate. fin Hs. auto.
  - destruct (negb (main_ok st)); try discriminate. fin Hs. auto.
  - destruct (negb (main_ok st)); try discriminate. destruct (queue st); try discriminate.
    destruct ((total st + z =? 0) && admin_only st); [destruct (exit_q st) |]; fin Hs; auto.
  - destruct (tmr st); try discriminate. destruct (exit_q st); fin Hs; auto.
  - destruct (negb (main_ok st)); try discriminate. destruct (exit_q st); try discriminate. fin Hs. auto.
  - destruct (negb (mid_sigint st) || wedged st); try discriminate.
    destruct (qcap st <=? length (queue st))%nat; [destruct (blk st) eqn:Eb |]; fin Hs; auto.
Qed.

Lemma blk_run : forall tr st st', run st tr = Some st' -> blk st' = blk st /\ tzero st' = tzero st.
Proof.
  induction tr; simpl; intros st st' H. { fin H. auto. }
  destruct (step st a) eqn:Es; try discriminate.
  destruct (blk_step _ _ _ Es) as (E1 & E2). destruct (IHtr _ _ H) as (E3 & E4). split; congruence.
Qed.

Lemma never_wedged : forall st, reachable st -> blk st = false -> wedged st = false.
Proof.
  intros st H Hb. destruct (reachable_Inv _ H) as (_ & _ & ((A1 & A2) & B & C & D & E & F & G & I & J & K & L & M & N)).
  auto.
Qed.

(** a second zero observation while an exit message is unread is dropped: the message stays, nothing blocks *)
Lemma second_zero_dropped : forall st st' x, step st DrainDeliver = Some st' -> blk st = false ->
  exit_q st = Some x -> exit_q st' = Some x /\ wedged st' = wedged st /\ main_ok st' = main_ok st.
Proof.
  intros st st' x Hs Hb Hq. unfold step in Hs. destruct (exited st); try discriminate.
  destruct (negb (main_ok st)) eqn:Em; try discriminate. destruct (main_ok_true _ Em) as (Hw & Hm).
  destruct (queue st); try discriminate.
  destruct ((total st + z =? 0) && admin_only st); [rewrite Hq in Hs |]; fin Hs; unfold main_ok; cbn;
    rewrite ?Hb, ?Hw, ?Hm; auto.
Qed.

(** SIGINT with a full drain channel: the 0 is dropped, the timer is armed, the loop goes on *)
Lemma sigint_full_goes_on : forall st, exited st = None -> mid_sigint st = true -> wedged st = false ->
  blk st = false -> (qcap st <= length (queue st))%nat ->
  exists st', step st SigintQ = Some st' /\ queue st' = queue st /\ main_ok st' = true /\
              tmr st' = (if tzero st then TDead else TArmed).
Proof.
  intros st Hx Hm Hw Hb Hc. apply Nat.leb_le in Hc. eexists. split.
  { unfold step. rewrite Hx, Hm, Hw, Hc, Hb. simpl. reflexivity. }
  unfold main_ok. cbn. rewrite ?Hw. auto.
Qed.

(** LIVENESS, unguarded: in admin-only mode the process can always get out — by the timer at the latest,
    whatever the clients do and wherever the main loop is *)
Lemma exit_liveness : forall st, reachable st -> blk st = false -> tzero st = false -> exited st = None ->
  admin_only st = true ->
  exists tr' st', run st tr' = Some st' /\ exists x, exited st' = Some x /\ x <> ByTerm.
Proof.
  intros st Hr Hb Htz Hx Ha.
  pose proof (never_wedged _ Hr Hb) as Hw.
  destruct (mid_sigint st) eqn:Hm.
  - assert (Hs : exists s1, step st SigintQ = Some s1 /\ exited s1 = None /\ admin_only s1 = true /\ mid_sigint s1 = false).
    { unfold step. rewrite Hx, Hm, Hw, Hb. simpl.
      destruct (qcap st <=? length (queue st))%nat; eexists; (split; [reflexivity |]); cbn; auto. }
    destruct Hs as (s1 & Hs & Hx1 & Ha1 & Hm1).
    pose proof (reachable_step _ _ _ Hr Hs) as Hr1.
    destruct (blk_step _ _ _ Hs) as (Hb1 & Htz1).
    assert (Hw1 : wedged s1 = false) by (apply never_wedged; auto; congruence).
    destruct (timer_forces_exit s1) as (tr & st' & _ & Hrun & Hy); auto.
    + apply reachable_Inv; auto.
    + apply main_ok_split; auto.
    + congruence.
    + exists (SigintQ :: tr), st'. split; auto. simpl. rewrite Hs. exact Hrun.
  - destruct (timer_forces_exit st) as (tr & st' & _ & Hrun & Hy); auto.
    + apply reachable_Inv; auto.
    + apply main_ok_split; auto.
    + eauto.
Qed.

(** ... and once every counted client has left (none died in a panic) delivering what is in flight IS the
    exit: no wedge alternative any more *)
Lemma all_left_exits_real : forall st, reachable st -> blk st = false -> exited st = None -> main_ok st = true ->
  (0 < qcap st)%nat -> admin_only st = true -> ncounted (clients st) = 0 -> leaked st = 0 ->
  exists k st' x st'', (k <= length (queue st))%nat /\ run st (repeat DrainDeliver k) = Some st' /\
                       x <> ByTerm /\ step st' ExitDeliver = Some st'' /\ exited st'' = Some x.
Proof.
  intros st Hr Hb Hx Hm Hc Ha Hn Hl.
  destruct (all_left_exits (length (queue st)) st) as (k & st' & Hk & Hrun & [Hw | (x & st'' & H1 & H2 & H3)]); auto.
  - apply reachable_Inv; auto.
  - exfalso. destruct (blk_run _ _ _ Hrun) as (Hb' & _).
    assert (wedged st' = false) by (apply never_wedged; [eapply reachable_run; eauto | congruence]). congruence.
  - exists k, st', x, st''. auto.
Qed.

(** * The wedge schedules: MUTANT [blk = true] = the code before commit 74943d0 *)

(** W1: a client's -1 is still in flight when SIGINT arrives; it brings the count to zero (exit
    message #1), then the queued 0 is delivered before the exit arm is polled. *)
Definition wedge_inflight : list event :=
  [Accept Normal TxnMode; AuthDone 0 true; Enter 0; DrainDeliver; Leave 0 Clean; Sigint; SigintQ; DrainDeliver; DrainDeliver; TimerFire].

(** W1': ONE idle client and nothing else.  SIGINT: the broadcast goes out, the client (on another
    worker thread) is told to go and sends its -1 before the SIGINT arm has queued its 0; -1 makes the
    count zero (exit message #1), the 0 is delivered before the exit arm is polled.  Reproduced on the
    real binary (about 1 run in 40 on a loaded machine). *)
Definition wedge_overtake : list event :=
  [Accept Normal TxnMode; AuthDone 0 true; Enter 0; DrainDeliver; Sigint; Poll 0; SigintQ; DrainDeliver; DrainDeliver; TimerFire].

(** W2: nobody connected; after the zero a cancel request (+1, -1) is delivered first. *)
Definition wedge_cancel : list event :=
  [Sigint; SigintQ; DrainDeliver; Accept Canc TxnMode; AuthDone 0 true; Enter 0; Leave 0 Clean; DrainDeliver; DrainDeliver; TimerFire].

Lemma wedge_witness : forall tr, (tr = wedge_inflight \/ tr = wedge_cancel \/ tr = wedge_overtake) ->
  exists st, run (init false 2048 true) tr = Some st /\ wedged st = true /\ all_gone st = true /\ tmr st = TBlocked /\
             total st = 0 /\ queue st = [] /\ exited st = None.
Proof.
  intros tr [-> | [-> | ->]]; (eexists; split; [vm_compute; reflexivity | vm_compute; repeat split; reflexivity]).
Qed.

Lemma exit_liveness_refuted : exists tr st, run (init false 2048 true) tr = Some st /\
  all_gone st = true /\ tmr st = TBlocked /\ total st = 0 /\ queue st = [] /\
  forall tr' st', run st tr' = Some st' -> exited st' = None.
Proof.
  destruct (wedge_witness wedge_overtake (or_intror (or_intror eq_refl))) as (st & Hr & Hw & Hg & Ht & H0 & Hq & Hx).
  exists wedge_overtake, st. repeat split; auto.
  intros tr' st' Hr'. destruct (wedge_forever _ _ _ Hw Hx Hr'). auto.
Qed.

(** W3: SIGINT on a full drain channel.  1024 cancel requests (or connect/disconnect pairs) whose
    +1/-1 the main loop has not received yet fill the 2048 slots ([qcap]); the SIGINT arm's own
    [drain_tx.send(0).await] then waits for a receiver that is the suspended loop itself.  The
    broadcast has been sent, the timer task has not been spawned: no timeout either. *)
Definition cancel_burst (n : nat) : list event :=
  flat_map (fun i => [Accept Canc TxnMode; AuthDone i true; Enter i; Leave i Clean]) (seq 0 n).

(* the witness is computed for a channel of 64 slots (32 requests); the schedule is the same for 2048 *)
Definition wedge_full_cap : nat := 64.
Definition wedge_full : list event := cancel_burst 32 ++ [Sigint; SigintQ].

Definition is_tnone (t : timer) : bool := match t with TNone => true | _ => false end.
Definition is_none {A : Type} (o : option A) : bool := match o with None => true | _ => false end.

Definition wedge_full_check : bool :=
  match run (init false wedge_full_cap true) wedge_full with
  | Some st => wedged st && all_gone st && is_tnone (tmr st) && admin_only st && is_none (exited st) &&
               Nat.eqb (length (queue st)) wedge_full_cap && is_none (step st TimerFire)
  | None => false
  end.

Lemma wedge_full_check_ok : wedge_full_check = true.
Proof. vm_compute. reflexivity. Qed.

Lemma wedge_full_witness : exists st, run (init false wedge_full_cap true) wedge_full = Some st /\ wedged st = true /\
  all_gone st = true /\ tmr st = TNone /\ admin_only st = true /\ exited st = None /\ length (queue st) = wedge_full_cap /\
  step st TimerFire = None.
Proof.
  pose proof wedge_full_check_ok as H. unfold wedge_full_check in H.
  destruct (run (init false wedge_full_cap true) wedge_full) as [st |]; try discriminate.
  exists st. split; auto.
  repeat (apply andb_true_iff in H; destruct H as (H & ?)).
  repeat split; auto.
  - destruct (tmr st); auto; discriminate.
  - destruct (exited st); auto; discriminate.
  - apply Nat.eqb_eq; auto.
  - destruct (step st TimerFire); auto; discriminate.
Qed.

Lemma wedged_no_timer_step : forall st e st', wedged st = true -> tmr st = TNone -> step st e = Some st' -> tmr st' = TNone.
Proof.
  intros st a s Hw Ht Es. unfold step, main_ok in Es. destruct (exited st); try discriminate. rewrite Hw in Es. simpl in Es.
  rewrite ?orb_true_r in Es.
  destruct a; try discriminate.
  * destruct (nth_error (clients st) c); try discriminate. destruct (cphase c0); try discriminate.
    destruct (ckind c0); [destruct (gate c0); [| destruct ok] | destruct ok | destruct ok]; fin Es; unf; auto.
  * destruct (nth_error (clients st) c); try discriminate. destruct (ckind c0); try discriminate.
    destruct (cphase c0); try discriminate; fin Es; unf; auto.
  * destruct (nth_error (clients st) c); try discriminate.
    destruct (ckind c0); try discriminate; destruct (cphase c0); try discriminate; fin Es; unf; auto.
  * destruct (nth_error (clients st) c); try discriminate. destruct (ckind c0); try discriminate.
    destruct (cphase c0); try discriminate; fin Es; unf; auto.
  * destruct (nth_error (clients st) c); try discriminate. destruct (cphase c0); try discriminate.
    destruct (pend c0); try discriminate.
    destruct (ckind c0); fin Es; unfold depart; try (destruct (counted c0)); unf; auto.
  * destruct (nth_error (clients st) c); try discriminate. destruct (live_phase (cphase c0)); try discriminate.
    fin Es. unfold depart. destruct (counted c0); [destruct h |]; unf; auto.
  * rewrite Ht in Es. discriminate.
  * destruct (nth_error (clients st) c); try discriminate. destruct (cphase c0); try discriminate.
    destruct (ckind c0); fin Es; unf; auto.
Qed.

Lemma wedged_no_timer : forall tr st st', wedged st = true -> tmr st = TNone -> run st tr = Some st' -> tmr st' = TNone.
Proof.
  induction tr; simpl; intros st st' Hw Ht H.
  - inversion H; subst; auto.
  - destruct (step st a) eqn:Es; try discriminate.
    destruct (wedge_forever_step _ _ _ Hw Es) as (Hw1 & _).
    apply (IHtr s st'); auto. apply (wedged_no_timer_step st a s Hw Ht Es).
Qed.

Lemma sigint_full_refuted : exists cap tr st, run (init false cap true) tr = Some st /\
  all_gone st = true /\ admin_only st = true /\ tmr st = TNone /\
  forall tr' st', run st tr' = Some st' -> exited st' = None /\ tmr st' = TNone.
Proof.
  destruct wedge_full_witness as (st & Hr & Hw & Hg & Ht & Ha & Hx & Hl & Hf).
  exists wedge_full_cap, wedge_full, st. split; auto. split; auto. split; auto. split; auto.
  intros tr' st' H. split.
  - destruct (wedge_forever _ _ _ Hw Hx H). auto.
  - eapply wedged_no_timer; eauto.
Qed.

(** E1: a client has its ReadyForQuery (it has been TOLD it is connected, and may already have sent
    BEGIN) but its task has not sent the +1 yet when SIGINT is handled: the 0 finds the count at zero and
    the process exits under it — at once, not at shutdown_timeout.  Reproduced on the real binary
    (connect, then SIGINT immediately: about 1 run in 20). *)
Definition exit_under_admitted : list event :=
  [Accept Normal TxnMode; AuthDone 0 true; Sigint; SigintQ; DrainDeliver; ExitDeliver].

Lemma exit_before_counted_refuted : exists tr st c, run init_real tr = Some st /\
  exited st = Some ByZero /\ In (OAdmitted 0) (log st) /\ ~ In (OKicked 0) (log st) /\
  nth_error (clients st) 0 = Some c /\ cphase c = Authed /\ ckind c = Normal /\ gate c = false /\ tmr st = TArmed.
Proof.
  exists exit_under_admitted. eexists. eexists. split; [vm_compute; reflexivity |].
  vm_compute. repeat split; auto. intros [H | H]; [discriminate | destruct H as [H | H]; [discriminate | exact H]].
Qed.
