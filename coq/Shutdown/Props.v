(** C17 — shutdown is graceful: property theorems only.  Each is closed by [exact <lemma>] and
    audited with [Print Assumptions]; [Example]s show non-vacuity and pin the model's behaviour on
    the schedules the property text talks about.

    All theorems quantify over EVERY reachable state = every finite sequence of events (signals,
    accepts, client actions of any number of normal / admin / cancel clients in transaction or
    session mode, channel deliveries in any lag, timer) that the model can execute from [init]. *)
From Coq Require Import ZArith List Bool Arith Lia.
From PV Require Import Shutdown.Model Shutdown.Proofs.
Import ListNotations.
Open Scope Z_scope.

(** The invariant, in particular the counter equation
      total_clients = #(counted live clients) + #(counted clients that died in a panic) - in-flight adjustments. *)
Theorem c17_invariant : forall st, reachable st -> Inv st.
Proof. exact reachable_Inv. Qed.
Print Assumptions c17_invariant.

Theorem c17_counter : forall st, reachable st ->
  total st = ncounted (clients st) + leaked st - qsum (queue st).
Proof. exact counter_eq. Qed.
Print Assumptions c17_counter.

(** After SIGINT (admin_only = true at accept time) a new non-admin client is refused: whatever it
    and everybody else does afterwards, it stays uncounted in Starting/Gone, the only enabled event of
    its own is the startup step, which answers with the administrator-command error WITHOUT touching
    the counter, and nothing else is ever logged for it (not admitted, not served, no auth verdict).
    A client accepted BEFORE SIGINT that authenticates after it carries gate = false: it is admitted
    (the property text speaks of "new" clients; admission is decided at accept) and then falls under
    [c17_idle_kicked] — see [ex_late_auth]. *)
Theorem c17_refuse_new : forall st m st1, admin_only st = true -> step st (Accept Normal m) = Some st1 ->
  let i := length (clients st) in
  forall tr st2, run st1 tr = Some st2 ->
     refused_forever i st2 /\
     (exists new, log st2 = new ++ log st1 /\ forallb (fun o => negb (good_for i o)) new = true) /\
     (forall e st3, step st2 e = Some st3 -> actor e = Some i ->
        exists ok, e = AuthDone i ok /\ log st3 = ORefused i :: log st2 /\ queue st3 = queue st2 /\ total st3 = total st2).
Proof. exact refuse_new_full. Qed.
Print Assumptions c17_refuse_new.

(** ... while an admin client is admitted and its commands are answered, in any live state. *)
Theorem c17_admin_admitted : forall st m st1, exited st = None -> main_ok st = true ->
  step st (Accept Admin m) = Some st1 ->
  let i := length (clients st) in
  exists st2, step st1 (AuthDone i true) = Some st2 /\ log st2 = OAdmitted i :: log st1 /\
    exists st2', step st2 (Enter i) = Some st2' /\ log st2' = log st2 /\ queue st2' = queue st2 /\
    exists st3, step st2' (Stmt i) = Some st3 /\ log st3 = OServed i :: log st2'.
Proof. exact admin_admitted. Qed.
Print Assumptions c17_admin_admitted.

(** An idle non-admin client (in either pool mode: a session-mode client that holds no server yet is
    in the outer loop, too) in admin-only mode: its poll is enabled and disconnects it with the
    administrator-command error, sending its -1. *)
Theorem c17_idle_kicked : forall st i c, reachable st -> exited st = None -> admin_only st = true ->
  nth_error (clients st) i = Some c -> ckind c = Normal -> cphase c = Idle ->
  exists st', step st (Poll i) = Some st' /\ log st' = OKicked i :: log st /\
              queue st' = queue st ++ [-1] /\ total st' = total st /\
              exists c', nth_error (clients st') i = Some c' /\ cphase c' = Gone /\ counted c' = false.
Proof. exact r_idle_kicked. Qed.
Print Assumptions c17_idle_kicked.

Theorem c17_no_kick_before_sigint : forall st i, reachable st -> admin_only st = false -> step st (Poll i) = None.
Proof. exact r_no_kick_before_sigint. Qed.
Print Assumptions c17_no_kick_before_sigint.

Theorem c17_kicked_only_idle : forall st e st' i, reachable st -> step st e = Some st' ->
  log st' = OKicked i :: log st ->
  e = Poll i /\ admin_only st = true /\
  exists c, nth_error (clients st) i = Some c /\ cphase c = Idle /\ ckind c <> Admin.
Proof. exact r_kicked_only_idle. Qed.
Print Assumptions c17_kicked_only_idle.

(** A transaction in progress is not disturbed by the shutdown: in ANY state (no reachability
    needed) no event other than the client's own TxnEnd / Leave changes its phase; its poll is not
    enabled; its statements and its COMMIT are served as long as the process lives. *)
Theorem c17_txn_finishes : forall st i c, nth_error (clients st) i = Some c -> ckind c = Normal -> cphase c = InTxn ->
  step st (Poll i) = None /\
  (exited st = None -> step st (Stmt i) = Some (with_log st (OServed i))) /\
  (exited st = None -> exists st', step st (TxnEnd i) = Some st' /\ log st' = OServed i :: log st /\ queue st' = queue st) /\
  (forall e st', step st e = Some st' ->
     (exists c', nth_error (clients st') i = Some c' /\ cphase c' = InTxn /\ counted c' = counted c) \/
     e = TxnEnd i \/ (exists h, e = Leave i h)).
Proof. exact txn_finishes. Qed.
Print Assumptions c17_txn_finishes.

(** A session-mode client between transactions is never polled either: it is not disconnected and
    keeps the count above zero until it leaves or the timer fires. *)
Theorem c17_session_held_not_kicked : forall st i c, nth_error (clients st) i = Some c ->
  cphase c = SessionHeld -> step st (Poll i) = None.
Proof. exact session_held_not_kicked. Qed.
Print Assumptions c17_session_held_not_kicked.

(** Exit condition, "only if": the process is gone only because of SIGTERM, or because the main
    loop received an exit message that was sent by a drain delivery that saw total = 0 in admin-only
    mode, or by the timer (armed by a SIGINT). *)
Theorem c17_exit_condition : forall tz cap b tr st x, run (init tz cap b) tr = Some st -> exited st = Some x ->
  match x with
  | ByTerm => In Sigterm tr
  | ByZero => In ExitDeliver tr /\
              exists tr1 tr2 s1, tr = tr1 ++ DrainDeliver :: tr2 /\ run (init tz cap b) (tr1 ++ [DrainDeliver]) = Some s1 /\
                                 admin_only s1 = true /\ total s1 = 0
  | ByTimer => In ExitDeliver tr /\ exists tr1 tr2, tr = tr1 ++ TimerFire :: tr2 /\ In Sigint tr1
  end.
Proof. exact exit_condition. Qed.
Print Assumptions c17_exit_condition.

(** "if", part 1: SIGTERM exits at once, whatever the clients are doing ([main_ok]: the loop is at its
    [select!], i.e. not wedged and not in the middle of the SIGINT arm — the arm ends by itself, SigintQ). *)
Theorem c17_sigterm_immediate : forall st, exited st = None -> main_ok st = true ->
  step st Sigterm = Some (with_exit st ByTerm).
Proof. exact sigterm_immediate. Qed.
Print Assumptions c17_sigterm_immediate.

(** "if", part 2: a delivery that brings the count to zero in admin-only mode puts an exit message
    into the channel (or finds one there); a message in the channel makes the exit arm enabled. *)
Theorem c17_zero_sends_exit : forall st st', step st DrainDeliver = Some st' -> admin_only st = true ->
  total st' = 0 -> exit_q st' <> None.
Proof. exact zero_observed_sends. Qed.
Print Assumptions c17_zero_sends_exit.

Theorem c17_exit_message_exits : forall st x, exited st = None -> main_ok st = true -> exit_q st = Some x ->
  step st ExitDeliver = Some (with_exit st x).
Proof. exact exit_deliver_enabled. Qed.
Print Assumptions c17_exit_message_exits.

(** "if", part 3: once all counted clients have left and none died in a panic, delivering what is in
    flight IS the exit (code as it is, [blk = false]: a zero seen twice is dropped, nothing blocks). *)
Theorem c17_exit_when_all_left : forall st, reachable st -> blk st = false -> exited st = None -> main_ok st = true ->
  (0 < qcap st)%nat -> admin_only st = true -> ncounted (clients st) = 0 -> leaked st = 0 ->
  exists k st' x st'', (k <= length (queue st))%nat /\ run st (repeat DrainDeliver k) = Some st' /\
                       x <> ByTerm /\ step st' ExitDeliver = Some st'' /\ exited st'' = Some x.
Proof. exact all_left_exits_real. Qed.
Print Assumptions c17_exit_when_all_left.

(** "if", part 4: shutdown_timeout.  In admin-only mode with a non-zero timeout and a main loop that
    is not wedged, the timer ends the process whatever the clients do. *)
Theorem c17_timer_forces_exit : forall st, reachable st -> exited st = None -> main_ok st = true ->
  admin_only st = true -> tzero st = false ->
  exists tr st', (tr = [TimerFire; ExitDeliver] \/ tr = [ExitDeliver]) /\ run st tr = Some st' /\
                 exists x, exited st' = Some x /\ x <> ByTerm.
Proof. exact r_timer_forces_exit. Qed.
Print Assumptions c17_timer_forces_exit.

(** A second SIGINT changes nothing. *)
Theorem c17_double_sigint_ignored : forall st, exited st = None -> main_ok st = true -> admin_only st = true ->
  step st Sigint = Some st.
Proof. exact double_sigint_ignored. Qed.
Print Assumptions c17_double_sigint_ignored.

(** Panic exits.  A counted client whose task panics sends no -1 ([leaked] grows).  From then on —
    once the +1s in flight are delivered and as long as nobody new is admitted — the drain arm never
    sends an exit message again: the process leaves by the timer (or SIGTERM), which the property
    allows ("or shutdown_timeout has passed"). *)
Theorem c17_panic_leaks : forall st i c, exited st = None -> nth_error (clients st) i = Some c ->
  live_phase (cphase c) = true -> counted c = true ->
  exists st', step st (Leave i Panic) = Some st' /\ leaked st' = leaked st + 1 /\ queue st' = queue st.
Proof. exact panic_leaks. Qed.
Print Assumptions c17_panic_leaks.

Theorem c17_panic_leaks_counter : forall tr st st', reachable st -> 0 < leaked st -> no_pos (queue st) = true ->
  forallb (fun e => negb (admits e)) tr = true -> run st tr = Some st' ->
  zero_sends st' = zero_sends st /\ 0 < leaked st' /\ (queue st' = [] -> 0 < total st').
Proof. exact r_panic_leaks_counter. Qed.
Print Assumptions c17_panic_leaks_counter.

(** LIVENESS (no guard): with the code as it is ([blk = false]: [try_send] into the channels the loop reads
    itself; shutdown_timeout > 0: config.rs rejects 0) the main loop is never suspended for ever, and in
    admin-only mode the process can always leave — by the timer at the latest — whatever the clients do,
    wherever the loop is (also in the middle of the SIGINT arm, also with a full drain channel). *)
Theorem c17_never_wedged : forall st, reachable st -> blk st = false -> wedged st = false.
Proof. exact never_wedged. Qed.
Print Assumptions c17_never_wedged.

Theorem c17_exit_liveness : forall st, reachable st -> blk st = false -> tzero st = false -> exited st = None ->
  admin_only st = true ->
  exists tr' st', run st tr' = Some st' /\ exists x, exited st' = Some x /\ x <> ByTerm.
Proof. exact exit_liveness. Qed.
Print Assumptions c17_exit_liveness.

(** the two places where the loop used to wait: a zero seen while an exit message is unread is dropped;
    SIGINT with a full drain channel drops its 0, arms the timer and goes on (the counter is evaluated at
    the next delivery: [c17_zero_sends_exit]) *)
Theorem c17_second_zero_dropped : forall st st' x, step st DrainDeliver = Some st' -> blk st = false ->
  exit_q st = Some x -> exit_q st' = Some x /\ wedged st' = wedged st /\ main_ok st' = main_ok st.
Proof. exact second_zero_dropped. Qed.
Print Assumptions c17_second_zero_dropped.

Theorem c17_sigint_full_goes_on : forall st, exited st = None -> mid_sigint st = true -> wedged st = false ->
  blk st = false -> (qcap st <= length (queue st))%nat ->
  exists st', step st SigintQ = Some st' /\ queue st' = queue st /\ main_ok st' = true /\
              tmr st' = (if tzero st then TDead else TArmed).
Proof. exact sigint_full_goes_on. Qed.
Print Assumptions c17_sigint_full_goes_on.

(** MUTANT [blk = true] = the code before commit 74943d0 ([send().await] into channels the loop reads
    itself).  Kept so that the theorems above are seen to discriminate: the mutant wedges, a wedged loop
    never exits nor accepts, and the only wedging steps are the two awaits. *)
Theorem c17_wedge_is_forever : forall tr st st', wedged st = true -> exited st = None -> run st tr = Some st' ->
  wedged st' = true /\ exited st' = None.
Proof. exact wedge_forever. Qed.
Print Assumptions c17_wedge_is_forever.

Theorem c17_wedge_origin : forall st e st', step st e = Some st' -> wedged st = false -> wedged st' = true ->
  (e = DrainDeliver /\ exit_q st <> None /\ total st' = 0 /\ admin_only st = true) \/
  (e = SigintQ /\ mid_sigint st = true /\ (qcap st <= length (queue st))%nat).
Proof. exact wedge_origin. Qed.
Print Assumptions c17_wedge_origin.

(** mutant, schedule W1' [wedge_overtake] (one idle client, SIGINT: its -1 overtakes the 0 of the SIGINT
    arm; also W1 [wedge_inflight], W2 [wedge_cancel], Proofs.v): every client has left AND the timeout has
    passed, and no continuation whatsoever exits.  (Reproduced on the binary before the repair.) *)
Theorem c17_mutant_await_exit_liveness_refuted : exists tr st, run (init false 2048 true) tr = Some st /\
  all_gone st = true /\ tmr st = TBlocked /\ total st = 0 /\ queue st = [] /\
  forall tr' st', run st tr' = Some st' -> exited st' = None.
Proof. exact exit_liveness_refuted. Qed.
Print Assumptions c17_mutant_await_exit_liveness_refuted.

(** mutant, schedule W3: SIGINT while the drain channel is full: suspended in its own [drain_tx.send(0)]
    BEFORE the timer task exists.  (Witness for a 64-slot channel and 32 requests.) *)
Theorem c17_mutant_await_sigint_full_refuted : exists cap tr st, run (init false cap true) tr = Some st /\
  all_gone st = true /\ admin_only st = true /\ tmr st = TNone /\
  forall tr' st', run st tr' = Some st' -> exited st' = None /\ tmr st' = TNone.
Proof. exact sigint_full_refuted. Qed.
Print Assumptions c17_mutant_await_sigint_full_refuted.

(** mutant config shutdown_timeout = 0 (rejected by config.rs since 6453b21): the timer never fires. *)
Theorem c17_mutant_zero_timeout_no_timer : forall st, reachable st -> tzero st = true -> step st TimerFire = None.
Proof. exact r_tzero_no_timer. Qed.
Print Assumptions c17_mutant_zero_timeout_no_timer.

(** OPEN DEFECT E1 (counting starts after the client has been answered; code as it is).  "Exits once all
    clients have left" is false in the other direction: a non-admin client that was accepted before SIGINT
    and has been told it is connected (AuthenticationOk .. ReadyForQuery; it may have sent BEGIN) is in
    nobody's count until its task has sent the +1; a SIGINT handled in that window sees zero and the
    process exits at once under the client (neither refused nor told to go, its transaction not allowed to
    finish although shutdown_timeout has not passed). *)
Theorem c17_exit_before_counted_refuted : exists tr st c, run init_real tr = Some st /\
  exited st = Some ByZero /\ In (OAdmitted 0) (log st) /\ ~ In (OKicked 0) (log st) /\
  nth_error (clients st) 0 = Some c /\ cphase c = Authed /\ ckind c = Normal /\ gate c = false /\ tmr st = TArmed.
Proof. exact exit_before_counted_refuted. Qed.
Print Assumptions c17_exit_before_counted_refuted.

(** * Non-vacuity / spec validation (every example is a full run from [init]) *)

Definition final (tz : bool) (tr : list event) := option_map view (run (init tz 2048 false) tr).
Definition finalm (tr : list event) := option_map view (run (init false 2048 true) tr).      (* mutant: awaits *)
Definition final_script (tz : bool) (s : list sop) := option_map view (run_script (init tz 2048 false) s).
Definition finalm_script (s : list sop) := option_map view (run_script (init false 2048 true) s).

(** The scenario of the property text: an idle client (0), a client inside a transaction (1) and an
    admin (2); SIGINT; a new normal client (3) and a new admin (4) arrive.  0 is kicked, 3 refused, 4
    admitted, 1 is served to its COMMIT and then kicked; then the count is zero: exit ByZero. *)
Example ex_graceful :
  final_script false
    [SEv (Accept Normal TxnMode); SEv (AuthDone 0 true); SEv (Accept Normal TxnMode); SEv (AuthDone 1 true);
     SEv (Accept Admin TxnMode); SEv (AuthDone 2 true); SEv (TxnStart 1); SEv (Stmt 1);
     SEv Sigint;
     SEv (Accept Normal TxnMode); SEv (AuthDone 3 true); SEv (Accept Admin TxnMode); SEv (AuthDone 4 true);
     SEv (Stmt 1); SEv (Stmt 4); SEv (TxnEnd 1)]
  = Some (true, 0, Some ByZero, false,
          [(Gone, false); (Gone, false); (Idle, false); (Gone, false); (Idle, false)],
          [OAdmitted 0; OAdmitted 1; OAdmitted 2; OServed 1; OKicked 0; ORefused 3; OAdmitted 4;
           OServed 1; OServed 4; OServed 1; OKicked 1; OExit ByZero], 0).
Proof. vm_compute. reflexivity. Qed.

(** with nobody connected SIGINT exits through the 0 ping *)
Example ex_sigint_empty : final_script false [SEv Sigint] = Some (true, 0, Some ByZero, false, [], [OExit ByZero], 0).
Proof. vm_compute. reflexivity. Qed.

(** a session-mode client that holds a server is not told; the timer ends the process *)
Example ex_session_held :
  final_script false
    [SEv (Accept Normal SessMode); SEv (AuthDone 0 true); SEv (TxnStart 0); SEv (TxnEnd 0); SEv Sigint;
     SEv (Stmt 0); SWaitTimer]
  = Some (true, 1, Some ByTimer, false, [(SessionHeld, true)],
          [OAdmitted 0; OServed 0; OServed 0; OExit ByTimer], 0).
Proof. vm_compute. reflexivity. Qed.

(** a session-mode client that has not started anything is in the outer loop and is kicked *)
Example ex_session_idle_kicked :
  final_script false [SEv (Accept Normal SessMode); SEv (AuthDone 0 true); SEv Sigint]
  = Some (true, 0, Some ByZero, false, [(Gone, false)], [OAdmitted 0; OKicked 0; OExit ByZero], 0).
Proof. vm_compute. reflexivity. Qed.

(** panic inside a transaction: the count stays at 1 after everybody left, exit by the timer *)
Example ex_panic_leak :
  final_script false
    [SEv (Accept Normal TxnMode); SEv (AuthDone 0 true); SEv (TxnStart 0); SEv (Leave 0 Panic); SEv Sigint; SWaitTimer]
  = Some (true, 1, Some ByTimer, false, [(Gone, false)], [OAdmitted 0; OLeft 0 Panic; OExit ByTimer], 1).
Proof. vm_compute. reflexivity. Qed.

(** SIGTERM in the middle of a transaction *)
Example ex_sigterm :
  final_script false [SEv (Accept Normal TxnMode); SEv (AuthDone 0 true); SEv (TxnStart 0); SEv Sigterm; SEv (Stmt 0)]
  = Some (false, 1, Some ByTerm, false, [(InTxn, true)], [OAdmitted 0; OExit ByTerm], 0).
Proof. vm_compute. reflexivity. Qed.

(** accepted before SIGINT, authenticated after it: admitted (gate = false), then kicked at its
    first poll — or, if its first message won the race, served for that one transaction *)
Example ex_late_auth :
  final_script false [SEv (Accept Normal TxnMode); SEv (Accept Admin TxnMode); SEv (AuthDone 1 true); SRaw Sigint; SRaw SigintQ;
                      SRaw DrainDeliver; SRaw ExitDeliver]
  = Some (true, 0, Some ByZero, false, [(Starting, false); (Idle, false)], [OAdmitted 1; OExit ByZero], 0)
  /\
  final_script false [SEv (Accept Normal TxnMode); SEv (Accept Admin TxnMode); SEv (AuthDone 1 true); SRaw Sigint; SRaw SigintQ;
                      SRaw (AuthDone 0 true); SRaw (Enter 0); SRaw (Poll 0)]
  = Some (true, 0, None, false, [(Gone, false); (Idle, false)], [OAdmitted 1; OAdmitted 0; OKicked 0], 0)
  /\
  final_script false [SEv (Accept Normal TxnMode); SRaw Sigint; SRaw SigintQ; SRaw (AuthDone 0 true); SRaw (Enter 0); SRaw (TxnStart 0);
                      SRaw (Stmt 0); SRaw (TxnEnd 0); SRaw (Poll 0)]
  = Some (true, 0, None, false, [(Gone, false)], [OAdmitted 0; OServed 0; OServed 0; OKicked 0], 0).
Proof. vm_compute. repeat split; reflexivity. Qed.

(** lag: the +1 and -1 of a client are delivered after it left and after SIGINT was handled; if the 0 is
    delivered before the exit arm runs, the second zero is dropped and the exit arm exits (the mutant wedges) *)
Example ex_lag :
  final false [Accept Normal TxnMode; AuthDone 0 true; Enter 0; Leave 0 Clean; Sigint; SigintQ; DrainDeliver; DrainDeliver; ExitDeliver]
  = Some (true, 0, Some ByZero, false, [(Gone, false)], [OAdmitted 0; OLeft 0 Clean; OExit ByZero], 0)
  /\
  final false [Accept Normal TxnMode; AuthDone 0 true; Enter 0; Leave 0 Clean; Sigint; SigintQ; DrainDeliver; DrainDeliver; DrainDeliver; ExitDeliver]
  = Some (true, 0, Some ByZero, false, [(Gone, false)], [OAdmitted 0; OLeft 0 Clean; OExit ByZero], 0)
  /\
  finalm [Accept Normal TxnMode; AuthDone 0 true; Enter 0; Leave 0 Clean; Sigint; SigintQ; DrainDeliver; DrainDeliver; DrainDeliver]
  = Some (true, 0, None, true, [(Gone, false)], [OAdmitted 0; OLeft 0 Clean], 0).
Proof. vm_compute. repeat split; reflexivity. Qed.

(** the former wedge schedules W1', W1, W2 and the adversarial script order ([SAdv]) of "one idle client,
    SIGINT": the code as it is exits (ExitDeliver appended where the schedule stops short), the mutant wedges *)
Example ex_wedge_schedules :
  finalm wedge_overtake = Some (true, 0, None, true, [(Gone, false)], [OAdmitted 0; OKicked 0], 0) /\
  finalm wedge_inflight = Some (true, 0, None, true, [(Gone, false)], [OAdmitted 0; OLeft 0 Clean], 0) /\
  finalm wedge_cancel = Some (true, 0, None, true, [(Gone, false)], [OLeft 0 Clean], 0) /\
  finalm_script [SEv (Accept Normal TxnMode); SEv (AuthDone 0 true); SAdv Sigint]
    = Some (true, 0, None, true, [(Gone, false)], [OAdmitted 0; OKicked 0], 0) /\
  final false (wedge_overtake ++ [ExitDeliver]) = Some (true, 0, Some ByZero, false, [(Gone, false)], [OAdmitted 0; OKicked 0; OExit ByZero], 0) /\
  final false (wedge_inflight ++ [ExitDeliver]) = Some (true, 0, Some ByZero, false, [(Gone, false)], [OAdmitted 0; OLeft 0 Clean; OExit ByZero], 0) /\
  final false (wedge_cancel ++ [ExitDeliver]) = Some (true, 0, Some ByZero, false, [(Gone, false)], [OLeft 0 Clean; OExit ByZero], 0) /\
  final_script false [SEv (Accept Normal TxnMode); SEv (AuthDone 0 true); SAdv Sigint]
    = Some (true, 0, Some ByZero, false, [(Gone, false)], [OAdmitted 0; OKicked 0; OExit ByZero], 0) /\
  final_script false [SEv (Accept Normal TxnMode); SEv (AuthDone 0 true); SEv Sigint]
    = Some (true, 0, Some ByZero, false, [(Gone, false)], [OAdmitted 0; OKicked 0; OExit ByZero], 0).
Proof. vm_compute. repeat split; reflexivity. Qed.

(** E1 as a script: the client is answered, the SIGINT is handled before its task has sent the +1 *)
Example ex_exit_before_counted :
  final_script false [SEv (Accept Normal TxnMode); SLate (AuthDone 0 true); SLate Sigint]
  = Some (true, 0, Some ByZero, false, [(Authed, false)], [OAdmitted 0; OExit ByZero], 0).
Proof. vm_compute. reflexivity. Qed.

(** W3 on a 4-slot channel: two cancel requests not yet received, then SIGINT.  The code as it is drops the
    0, arms the timer and exits when the queue has been delivered (the last -1 shows zero); the mutant wedges *)
Definition w3 : list event := [Accept Canc TxnMode; AuthDone 0 true; Enter 0; Leave 0 Clean;
                               Accept Canc TxnMode; AuthDone 1 true; Enter 1; Leave 1 Clean; Sigint; SigintQ].
Example ex_full_channel :
  option_map view (run (init false 4 true) w3)
  = Some (true, 0, None, true, [(Gone, false); (Gone, false)], [OLeft 0 Clean; OLeft 1 Clean], 0)
  /\
  option_map (fun st => (view st, tmr st, length (queue st))) (run (init false 4 false) w3)
  = Some ((true, 0, None, false, [(Gone, false); (Gone, false)], [OLeft 0 Clean; OLeft 1 Clean], 0), TArmed, 4%nat)
  /\
  option_map view (run (init false 4 false) (w3 ++ [DrainDeliver; DrainDeliver; DrainDeliver; DrainDeliver; ExitDeliver]))
  = Some (true, 0, Some ByZero, false, [(Gone, false); (Gone, false)], [OLeft 0 Clean; OLeft 1 Clean; OExit ByZero], 0).
Proof. vm_compute. repeat split; reflexivity. Qed.

(** mutant config shutdown_timeout = 0 with a session-held client: the timer is dead, nothing ends the process *)
Example ex_zero_timeout :
  final_script true [SEv (Accept Normal SessMode); SEv (AuthDone 0 true); SEv (TxnStart 0); SEv (TxnEnd 0); SEv Sigint; SWaitTimer]
  = Some (true, 1, None, false, [(SessionHeld, true)], [OAdmitted 0; OServed 0], 0).
Proof. vm_compute. reflexivity. Qed.

(** events that are not enabled are rejected *)
Example ex_not_enabled :
  (final false [Poll 0], final false [TimerFire], final false [DrainDeliver], final false [ExitDeliver],
   final false [Accept Normal TxnMode; TxnStart 0], final false [Sigterm; Sigint], final false [SigintQ],
   final false [Sigint; Sigterm]) = (None, None, None, None, None, None, None, None).
Proof. vm_compute. reflexivity. Qed.
