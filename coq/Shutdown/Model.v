(** C17 — shutdown is graceful.

    Model of pgcat's accept / shutdown loop and of the part of a client task that talks to it.
    Definitions only (executable); lemmas are in Proofs.v, the property theorems in Props.v.

    Code modelled (read line by line, /repo at the checked tree):

    src/main.rs:205-209   [shutdown_tx : broadcast<()>(1)], [drain : mpsc<i32>(2048)],
                          [exit : mpsc<()>(1)], [admin_only = false], [total_clients = 0]
    src/main.rs:213-335   ONE task runs [loop { tokio::select! { .. } }]; every arm is a main-loop
                          event of this model, the arm body runs to completion before the next
                          [select!] (the arms contain [.await]s on channel sends: while such a send
                          is pending the loop does not poll any other arm):
      226-255  SIGINT : [if admin_only { continue }] (a second SIGINT is ignored);
                        [admin_only = true]; [shutdown_tx.send(())] (every receiver that exists now
                        sees one [()]: receivers are created at accept, line 271)          = Sigint
                        -- from here on the client tasks (other worker threads) react --
                        [drain_tx.try_send(0)] (a 0 is QUEUED behind whatever is in flight — and
                        behind the -1 of any client that has already reacted to the broadcast; on a
                        full channel it is dropped: never wait on a channel this loop reads);
                        spawn the timer task: [interval(shutdown_timeout)], two ticks (the first is
                        immediate), then [exit_tx.send(()).await]                       = SigintQ, TimerFire
               The arm is NOT atomic with respect to the clients: the model splits it at the point
               where the broadcast has been sent (Sigint / SigintQ, [mid_sigint] in between).
               ([tokio::time::interval] panics on a zero period; config.rs rejects shutdown_timeout = 0
                since commit 6453b21: [tzero = true] is a mutant configuration)
      257-260  SIGTERM: [break]                                                         = Sigterm
      262-320  accept : [shutdown_tx.subscribe()], [drain_tx.clone()], spawn
                        [client_entrypoint(.., admin_only, ..)] — the CURRENT value of
                        [admin_only] is passed BY VALUE ([gate] of the client)          = Accept
      322-324  [exit_rx.recv()] : [break]                                               = ExitDeliver
      326-338  [drain_rx.recv()]: [total_clients += ping;
                        if total_clients == 0 && admin_only { exit_tx.try_send(()) }]     = DrainDeliver
               The exit channel has capacity ONE and its only receiver is this very loop; [select!] picks
               a ready arm at random, so the drain arm can see zero again before the exit arm has run
               (a -1 that overtook the 0 of SIGINT, a cancel request's +1/-1): the second message is
               DROPPED ([try_send]), the first one is still there.
               Until commit 74943d0 both sends were [send().await]: the loop then waited for ever on a
               channel only it reads ([wedged]); that behaviour is kept as the mutant [blk = true].
      337-339  after the loop the runtime is dropped and the process exits               = [exited]
    src/client.rs:131-333 [client_entrypoint]: startup (the client is ANSWERED: AuthenticationOk ..
                          ReadyForQuery, = AuthDone); only then, for a client that is not admin,
                          [drain.send(1)] (= Enter), [handle()], and [drain.send(-1)] after [handle()]
                          RETURNS (Ok or Err).  Between AuthDone and Enter the client believes it is
                          connected (it may already have sent a query) but nobody counts it ([Authed]).
                          A panic inside [handle()] unwinds through the entrypoint: no -1 ([Panic]).
               301-327    a CancelRequest is a client, too ([admin = false], line 830): +1, its
                          [handle()] forwards the cancel and returns, -1.  It is not subject to the
                          [admin_only] gate ([Canc]).
    src/client.rs:477-495 [Client::startup]: [admin] = database is "pgcat"/"pgbouncer";
                          [if !admin && admin_only] => ErrorResponse FATAL 58000 "terminating
                          connection due to administrator command", [Err(ShuttingDown)] — BEFORE
                          any authentication exchange                                  = AuthDone (refused)
    src/client.rs:906-936 outer loop: [select! { shutdown.recv() => .., read_message => .. }]:
                          non-admin: the same FATAL error, [stats.disconnect()], [return Ok]  = Poll
                          admin: ignores the broadcast and reads on                      = Poll (admin)
                          Both arms may be ready; [select!] picks at random: a client whose next
                          message is already in the socket may be kicked or may run that
                          transaction first (TxnStart is enabled whenever the client is Idle).
    src/client.rs:1198-1700 the transaction loop never looks at [shutdown]: a client leaves it when
                          the server is no longer in a transaction AND the pool is in transaction
                          mode (1317, 1581, 1608, 1657); in session mode it stays there until it
                          disconnects ([SessionHeld]): such a client is never told about the
                          shutdown and keeps the count above zero until it leaves or the timer fires.
    src/admin.rs:945-970  SHUTDOWN sends SIGINT to the own pid, then answers           = Sigint

    Env (ASSUMED, listed in the trusted base): tokio mpsc is FIFO per channel and [send] on a full
    bounded channel waits; tokio broadcast delivers a value to exactly the receivers that exist at
    [send]; [select!] may pick any ready arm; a panicking task is isolated.  The drain channel's bound
    ([qcap], 2048) matters for the one sender that is also the receiver: the SIGINT arm's
    [drain_tx.send(0).await].  Client tasks that find the channel full merely wait (their event happens
    later: a lag the interleaving semantics already covers), so their sends are not bounded here; a
    queue of [qcap] or more entries stands for "full, with senders waiting". *)
From Coq Require Import ZArith List Bool Arith Lia.
Import ListNotations.
Open Scope Z_scope.

Inductive kind : Type := Normal | Admin | Canc.
Inductive pmode : Type := TxnMode | SessMode.            (* pool_mode of the client's pool *)
Inductive phase : Type :=
| Starting                     (* accepted, startup / authentication not finished *)
| Authed                       (* AuthenticationOk .. ReadyForQuery written, [drain.send(1)] not done yet *)
| Idle                         (* in the outer loop, waiting for a message or the broadcast *)
| InTxn                        (* holds a server: transaction in progress (Canc: forwarding) *)
| SessionHeld                  (* session mode, between transactions, still in the inner loop *)
| Gone.
Inductive how : Type := Clean | Err | Panic.
Inductive cause : Type := ByTerm | ByZero | ByTimer.
Inductive timer : Type := TNone | TArmed | TSent | TBlocked | TDead.

Record client : Type := mkC {
  ckind : kind; cmode : pmode;
  gate : bool;                 (* [admin_only] as it was when the connection was accepted *)
  cphase : phase;
  counted : bool;              (* sent +1 and neither -1 nor died since *)
  pend : bool }.               (* an unread [()] sits in its broadcast receiver *)

Inductive obs : Type :=
| ORefused (c : nat)           (* FATAL "terminating connection due to administrator command" at startup *)
| OAdmitted (c : nat)          (* AuthenticationOk .. ReadyForQuery *)
| OAuthFail (c : nat)
| OKicked (c : nat)            (* the same FATAL error while idle *)
| OServed (c : nat)            (* a statement / admin command was answered *)
| OLeft (c : nat) (h : how)
| OExit (x : cause).

Record state : Type := mkS {
  admin_only : bool;
  total : Z;                   (* [total_clients] *)
  tmr : timer;
  exit_q : option cause;       (* the one slot of the exit channel (who filled it) *)
  wedged : bool;               (* the main loop is suspended for ever in [exit_tx.send] *)
  exited : option cause;
  queue : list Z;              (* drain channel: in-flight +1 / -1 / 0, oldest first *)
  clients : list client;       (* client id = position *)
  tzero : bool;                (* config: shutdown_timeout = 0 *)
  qcap : nat;                  (* capacity of the drain channel (2048 in main.rs:206) *)
  leaked : Z;                  (* ghost: counted clients whose task panicked *)
  zero_sends : nat;            (* ghost: exit messages sent by the drain arm *)
  log : list obs;              (* newest first *)
  mid_sigint : bool;           (* the main loop is inside the SIGINT arm, between the broadcast and the 0 *)
  blk : bool }.                (* MUTANT switch: true = the code before commit 74943d0, where the loop AWAITED room in
                                  the channels it reads itself ([send().await]); false = the code as it is now ([try_send]) *)

Definition init (tz : bool) (cap : nat) (b : bool) : state :=
  mkS false 0 TNone None false None [] [] tz cap 0 0 [] false b.

(** the code as it is: shutdown_timeout > 0 (config.rs rejects 0 since 6453b21), 2048 slots, try_send *)
Definition init_real : state := init false 2048 false.

Inductive event : Type :=
| Sigint | Sigterm
| Accept (k : kind) (m : pmode)
| AuthDone (c : nat) (ok : bool)
| TxnStart (c : nat) | Stmt (c : nat) | TxnEnd (c : nat)
| Poll (c : nat)
| Leave (c : nat) (h : how)
| DrainDeliver | TimerFire | ExitDeliver
| SigintQ                       (* second half of the SIGINT arm: queue the 0, spawn the timer task *)
| Enter (c : nat).              (* [drain.send(1)] done (non-admin), [handle()] entered *)

(** ** Helpers *)

Fixpoint upd_nth {A : Type} (l : list A) (n : nat) (v : A) : list A :=
  match l, n with
  | [], _ => []
  | _ :: r, O => v :: r
  | x :: r, S n' => x :: upd_nth r n' v
  end.

Definition set_phase (c : client) (p : phase) : client :=
  mkC (ckind c) (cmode c) (gate c) p (counted c) (pend c).
Definition set_counted (c : client) (b : bool) : client :=
  mkC (ckind c) (cmode c) (gate c) (cphase c) b (pend c).
Definition set_pend (c : client) (b : bool) : client :=
  mkC (ckind c) (cmode c) (gate c) (cphase c) (counted c) b.

Definition with_clients (st : state) (cs : list client) : state :=
  mkS (admin_only st) (total st) (tmr st) (exit_q st) (wedged st) (exited st) (queue st) cs
      (tzero st) (qcap st) (leaked st) (zero_sends st) (log st) (mid_sigint st) (blk st).
Definition with_queue (st : state) (q : list Z) : state :=
  mkS (admin_only st) (total st) (tmr st) (exit_q st) (wedged st) (exited st) q (clients st)
      (tzero st) (qcap st) (leaked st) (zero_sends st) (log st) (mid_sigint st) (blk st).
Definition with_log (st : state) (o : obs) : state :=
  mkS (admin_only st) (total st) (tmr st) (exit_q st) (wedged st) (exited st) (queue st) (clients st)
      (tzero st) (qcap st) (leaked st) (zero_sends st) (o :: log st) (mid_sigint st) (blk st).
Definition with_leak (st : state) : state :=
  mkS (admin_only st) (total st) (tmr st) (exit_q st) (wedged st) (exited st) (queue st) (clients st)
      (tzero st) (qcap st) (leaked st + 1) (zero_sends st) (log st) (mid_sigint st) (blk st).
Definition with_exit (st : state) (x : cause) : state :=
  mkS (admin_only st) (total st) (tmr st) (exit_q st) (wedged st) (Some x) (queue st) (clients st)
      (tzero st) (qcap st) (leaked st) (zero_sends st) (OExit x :: log st) (mid_sigint st) (blk st).

Definition send (st : state) (m : Z) : state := with_queue st (queue st ++ [m]).
Definition put (st : state) (i : nat) (c : client) : state := with_clients st (upd_nth (clients st) i c).

Definition live_phase (p : phase) : bool :=
  match p with Idle | InTxn | SessionHeld => true | _ => false end.

Definition is_normal (k : kind) : bool := match k with Normal => true | _ => false end.
Definition is_admin (k : kind) : bool := match k with Admin => true | _ => false end.

(** The client leaves: [-1] if it was counted and its task returns; nothing if it panics. *)
Definition depart (st : state) (i : nat) (c : client) (h : how) : state :=
  let st1 := put st i (set_counted (set_phase c Gone) false) in
  if counted c then
    match h with Panic => with_leak st1 | _ => send st1 (-1) end
  else st1.

(** ** The step function.  [None] = the event is not enabled in this state. *)

(** the main loop is at its [select!]: not suspended for ever, not in the middle of the SIGINT arm *)
Definition main_ok (st : state) : bool := negb (wedged st) && negb (mid_sigint st).

Definition step (st : state) (e : event) : option state :=
  match exited st with Some _ => None | None =>
  match e with
  | Sigint =>
      (* main.rs:226-237: [admin_only = true; shutdown_tx.send(())].  The client tasks run on other
         worker threads: from this instant they can see the broadcast, be told to go and send their -1,
         BEFORE the arm continues with [drain_tx.send(0)] (SigintQ). *)
      if negb (main_ok st) then None else
      if admin_only st then Some st else
      Some (mkS true (total st) (tmr st) (exit_q st) (wedged st) (exited st) (queue st)
                (map (fun c => set_pend c true) (clients st))
                (tzero st) (qcap st) (leaked st) (zero_sends st) (log st) true (blk st))
  | Sigterm =>
      if negb (main_ok st) then None else Some (with_exit st ByTerm)
  | Accept k m =>
      if negb (main_ok st) then None else
      Some (with_clients st (clients st ++ [mkC k m (admin_only st) Starting false false]))
  | AuthDone i ok =>
      (* [Client::startup] / [Client::cancel] returned: the client has its answer.  A successful client has
         been told it is connected (ReadyForQuery) but is NOT yet counted: client.rs:277-281 sends the +1
         afterwards (Enter). *)
      match nth_error (clients st) i with
      | Some c =>
          match cphase c with
          | Starting =>
              match ckind c with
              | Canc => if ok then Some (put st i (set_phase c Authed))
                        else Some (put st i (set_phase c Gone))
              | Normal =>
                  if gate c then Some (with_log (put st i (set_phase c Gone)) (ORefused i))
                  else if ok then Some (with_log (put st i (set_phase c Authed)) (OAdmitted i))
                  else Some (with_log (put st i (set_phase c Gone)) (OAuthFail i))
              | Admin =>
                  if ok then Some (with_log (put st i (set_phase c Authed)) (OAdmitted i))
                  else Some (with_log (put st i (set_phase c Gone)) (OAuthFail i))
              end
          | _ => None
          end
      | None => None
      end
  | TxnStart i =>
      match nth_error (clients st) i with
      | Some c =>
          match ckind c, cphase c with
          | Normal, Idle | Normal, SessionHeld => Some (put st i (set_phase c InTxn))
          | _, _ => None
          end
      | None => None
      end
  | Stmt i =>
      match nth_error (clients st) i with
      | Some c =>
          match ckind c, cphase c with
          | Normal, InTxn | Normal, SessionHeld | Admin, Idle => Some (with_log st (OServed i))
          | _, _ => None
          end
      | None => None
      end
  | TxnEnd i =>
      match nth_error (clients st) i with
      | Some c =>
          match ckind c, cphase c with
          | Normal, InTxn =>
              Some (with_log (put st i (set_phase c (match cmode c with TxnMode => Idle | SessMode => SessionHeld end)))
                             (OServed i))
          | _, _ => None
          end
      | None => None
      end
  | Poll i =>
      match nth_error (clients st) i with
      | Some c =>
          match cphase c with
          | Idle =>
              if pend c then
                match ckind c with
                | Admin => Some (put st i (set_pend c false))
                | _ => Some (with_log (depart st i c Clean) (OKicked i))
                end
              else None
          | _ => None
          end
      | None => None
      end
  | Leave i h =>
      match nth_error (clients st) i with
      | Some c => if live_phase (cphase c) then Some (with_log (depart st i c h) (OLeft i h)) else None
      | None => None
      end
  | DrainDeliver =>
      if negb (main_ok st) then None else
      match queue st with
      | [] => None
      | m :: q =>
          let t := total st + m in
          if (t =? 0) && admin_only st then
            match exit_q st with
            | None => Some (mkS (admin_only st) t (tmr st) (Some ByZero) false (exited st) q (clients st)
                                (tzero st) (qcap st) (leaked st) (S (zero_sends st)) (log st) (mid_sigint st) (blk st))
            | Some _ =>
                (* [exit_tx.try_send(())] on the full one-slot channel: the message is dropped, an exit is
                   already on its way.  (Mutant [blk]: [send().await] never returns.) *)
                Some (mkS (admin_only st) t (tmr st) (exit_q st) (blk st) (exited st) q (clients st)
                          (tzero st) (qcap st) (leaked st) (zero_sends st) (log st) (mid_sigint st) (blk st))
            end
          else Some (mkS (admin_only st) t (tmr st) (exit_q st) (wedged st) (exited st) q (clients st)
                         (tzero st) (qcap st) (leaked st) (zero_sends st) (log st) (mid_sigint st) (blk st))
      end
  | TimerFire =>
      match tmr st with
      | TArmed =>
          match exit_q st with
          | None => Some (mkS (admin_only st) (total st) TSent (Some ByTimer) (wedged st) (exited st) (queue st)
                              (clients st) (tzero st) (qcap st) (leaked st) (zero_sends st) (log st) (mid_sigint st) (blk st))
          | Some _ => Some (mkS (admin_only st) (total st) TBlocked (exit_q st) (wedged st) (exited st) (queue st)
                                (clients st) (tzero st) (qcap st) (leaked st) (zero_sends st) (log st) (mid_sigint st) (blk st))
          end
      | _ => None
      end
  | ExitDeliver =>
      if negb (main_ok st) then None else
      match exit_q st with
      | Some x => Some (with_exit st x)
      | None => None
      end
  | SigintQ =>
      (* main.rs:238-254: [drain_tx.send(0).await], then spawn the timer task *)
      if negb (mid_sigint st) || wedged st then None else
      if (qcap st <=? length (queue st))%nat then
        (* [drain_tx.try_send(0)] on a full channel: the 0 is dropped — the counter is looked at again when
           the next message arrives — and the timer task is spawned all the same.
           (Mutant [blk]: [send(0).await] waits for a receiver that is this suspended loop, for ever, and the
           timer task is never spawned.) *)
        if blk st then
          Some (mkS (admin_only st) (total st) (tmr st) (exit_q st) true (exited st) (queue st) (clients st)
                    (tzero st) (qcap st) (leaked st) (zero_sends st) (log st) false (blk st))
        else
          Some (mkS (admin_only st) (total st) (if tzero st then TDead else TArmed) (exit_q st) (wedged st) (exited st)
                    (queue st) (clients st)
                    (tzero st) (qcap st) (leaked st) (zero_sends st) (log st) false (blk st))
      else
        Some (mkS (admin_only st) (total st) (if tzero st then TDead else TArmed) (exit_q st) (wedged st) (exited st)
                  (queue st ++ [0]) (clients st)
                  (tzero st) (qcap st) (leaked st) (zero_sends st) (log st) false (blk st))
  | Enter i =>
      match nth_error (clients st) i with
      | Some c =>
          match cphase c with
          | Authed =>
              match ckind c with
              | Normal => Some (send (put st i (set_counted (set_phase c Idle) true)) 1)
              | Admin => Some (put st i (set_phase c Idle))
              | Canc => Some (send (put st i (set_counted (set_phase c InTxn) true)) 1)
              end
          | _ => None
          end
      | None => None
      end
  end end.

Fixpoint run (st : state) (tr : list event) : option state :=
  match tr with
  | [] => Some st
  | e :: r => match step st e with Some st' => run st' r | None => None end
  end.

Definition reachable (st : state) : Prop := exists tz cap b tr, run (init tz cap b) tr = Some st.

(** ** Derived quantities *)

Fixpoint qsum (q : list Z) : Z := match q with [] => 0 | m :: r => m + qsum r end.

Fixpoint ncounted (cs : list client) : Z :=
  match cs with [] => 0 | c :: r => (if counted c then 1 else 0) + ncounted r end.

Definition all_gone (st : state) : bool :=
  forallb (fun c => match cphase c with Gone => true | _ => false end) (clients st).

Definition no_pos (q : list Z) : bool := forallb (fun m => m <=? 0) q.

(** ** The eager schedule used by the correspondence: what the real system does on its own when
    nothing else happens — every idle client with a pending broadcast polls, the main loop drains
    its channels (drain before exit is one of the orders [select!] may choose; the harness
    scenarios of the deterministic tier only contain situations where the order does not matter,
    the [wedge] scenarios choose it explicitly). *)

Fixpoint pollable (cs : list client) (i : nat) : list nat :=
  match cs with
  | [] => []
  | c :: r => (match cphase c with Idle => if pend c then [i] else [] | _ => [] end) ++ pollable r (S i)
  end.

Definition run_total (st : state) (tr : list event) : state :=
  match run st tr with Some st' => st' | None => st end.

Fixpoint drain_all (fuel : nat) (st : state) : list event :=
  match fuel with
  | O => []
  | S f =>
      match step st DrainDeliver with
      | Some st' => DrainDeliver :: drain_all f st'
      | None => []
      end
  end.

(** events the system performs by itself from [st], in the eager order: polls, then drain, then exit *)
Fixpoint authed (cs : list client) (i : nat) : list nat :=
  match cs with
  | [] => []
  | c :: r => (match cphase c with Authed => [i] | _ => [] end) ++ authed r (S i)
  end.

Definition settle (st : state) : list event :=
  let arm := match step st SigintQ with Some _ => [SigintQ] | None => [] end in
  let sta := run_total st arm in
  let ents := map Enter (authed (clients sta) 0) in
  let st0 := run_total sta ents in
  let polls := map Poll (pollable (clients st0) 0) in
  let st1 := run_total st0 polls in
  let drains := drain_all (S (length (queue st1))) st1 in
  let st2 := run_total st1 drains in
  let ex := match step st2 ExitDeliver with Some _ => [ExitDeliver] | None => [] end in
  arm ++ ents ++ polls ++ drains ++ ex.

(** the adversarial order for a SIGINT: the clients that see the broadcast are told to go and send
    their -1 BEFORE the arm queues its 0; the drain arm is polled before the exit arm *)
Definition settle_adv (st : state) : list event :=
  let polls := map Poll (pollable (clients st) 0) in
  let st0 := run_total st polls in
  let arm := match step st0 SigintQ with Some _ => [SigintQ] | None => [] end in
  let st1 := run_total st0 arm in
  let drains := drain_all (S (length (queue st1))) st1 in
  let st2 := run_total st1 drains in
  let ex := match step st2 ExitDeliver with Some _ => [ExitDeliver] | None => [] end in
  polls ++ arm ++ drains ++ ex.

(** the order in which a client that has just been answered is NOT yet counted when the main loop goes
    on: everything except the [Enter]s *)
Definition settle_late (st : state) : list event :=
  let arm := match step st SigintQ with Some _ => [SigintQ] | None => [] end in
  let sta := run_total st arm in
  let polls := map Poll (pollable (clients sta) 0) in
  let st1 := run_total sta polls in
  let drains := drain_all (S (length (queue st1))) st1 in
  let st2 := run_total st1 drains in
  let ex := match step st2 ExitDeliver with Some _ => [ExitDeliver] | None => [] end in
  arm ++ polls ++ drains ++ ex.

(** Script operations of the harness scenarios; each expands to model events. *)
Inductive sop : Type :=
| SEv (e : event)              (* the event, then whatever the system does by itself *)
| SRaw (e : event)             (* the event alone (explicit schedules) *)
| SAdv (e : event)             (* the event, then the adversarial order of what follows *)
| SLate (e : event)            (* the event, then what follows except that answered clients are not counted yet *)
| SWaitTimer.                  (* the scenario waits longer than shutdown_timeout *)

Definition expand (st : state) (o : sop) : list event :=
  match o with
  | SRaw e => [e]
  | SEv e => e :: (match step st e with Some st' => settle st' | None => [] end)
  | SAdv e => e :: (match step st e with Some st' => settle_adv st' | None => [] end)
  | SLate e => e :: (match step st e with Some st' => settle_late st' | None => [] end)
  | SWaitTimer =>
      match step st TimerFire with
      | Some st' => TimerFire :: settle st'
      | None => []
      end
  end.

Fixpoint run_script (st : state) (s : list sop) : option state :=
  match s with
  | [] => Some st
  | o :: r =>
      match exited st with
      | Some _ => Some st                 (* the process is gone: later script steps observe nothing *)
      | None => match run st (expand st o) with Some st' => run_script st' r | None => None end
      end
  end.

Fixpoint script_events (st : state) (s : list sop) : list event :=
  match s with
  | [] => []
  | o :: r =>
      match exited st with
      | Some _ => []
      | None => let es := expand st o in
                match run st es with Some st' => es ++ script_events st' r | None => es end
      end
  end.

(** per-operation trace for the correspondence: after each script operation the counter, the exit
    status, the wedge flag and the log so far *)
Definition pview (st : state) : Z * option cause * bool * list obs :=
  (total st, exited st, wedged st, rev (log st)).

Fixpoint script_trace (st : state) (s : list sop) : list (Z * option cause * bool * list obs) :=
  match s with
  | [] => []
  | o :: r =>
      match exited st with
      | Some _ => pview st :: script_trace st r
      | None => match run st (expand st o) with
                | Some st' => pview st' :: script_trace st' r
                | None => []                       (* an event of the script was not enabled *)
                end
      end
  end.

(** What the harness can observe. *)
Definition cview (c : client) : phase * bool := (cphase c, counted c).

Definition view (st : state) : bool * Z * option cause * bool * list (phase * bool) * list obs * Z :=
  (admin_only st, total st, exited st, wedged st, map cview (clients st), rev (log st), leaked st).
