(** C11 — lemmas about the multi-client abstraction (Multi.v). *)
From Coq Require Import ZArith NArith List Bool Lia Arith.
From PV Require Import Hostile.Decode Hostile.Proofs Hostile.Multi.
Import ListNotations.
Open Scope nat_scope.

(** * association lists *)
Lemma getc_setc_same : forall x v l, getc x (setc x v l) = Some v.
Proof.
  induction l as [|[y c] r IH]; cbn [setc getc].
  - rewrite Nat.eqb_refl. reflexivity.
  - destruct (Nat.eqb y x) eqn:E; cbn [getc]; rewrite E; [reflexivity|exact IH].
Qed.

Lemma getc_setc_other : forall x y v l, y <> x -> getc y (setc x v l) = getc y l.
Proof.
  intros x y v l H. induction l as [|[z c] r IH]; cbn [setc getc].
  - destruct (Nat.eqb_spec x y); [congruence|reflexivity].
  - destruct (Nat.eqb_spec z x) as [->|Hzx]; cbn [getc].
    + destruct (Nat.eqb_spec x y); [congruence|reflexivity].
    + destruct (Nat.eqb z y); [reflexivity|exact IH].
Qed.

Lemma held_count_setc : forall x v l,
  held_count (setc x v l) + b2n (is_held (getd x l)) = held_count l + b2n (is_held v).
Proof.
  intros x v l. unfold getd. induction l as [|[y c] r IH]; cbn [setc getc held_count].
  - cbn. lia.
  - destruct (Nat.eqb y x) eqn:E; cbn [held_count]; [lia|]. lia.
Qed.

(** * one client's effects on the shared part *)
Definition some_b {A} (o : option A) : bool := match o with Some _ => true | None => false end.

Definition J (n : nat) (s : sh) (h : bool) : Prop :=
  some_b (s_held s) = h /\
  Forall (fun k => dirty k = false) (s_free s) /\
  s_open s = length (s_free s) + n + b2n h /\
  (forall k, s_held s = Some k -> dirty k = true -> unclean k = true).

Lemma fx_J : forall n e s h f, (e_dirty e = true -> e_unclean e = true) -> J n s h -> J n (fx e s f) (eff_hold h f).
Proof.
  intros n e s h f He (H1 & H2 & H3 & H4). destruct s as [fr op hd]. unfold J in *. cbn [s_held s_free s_open] in *.
  destruct f; cbn [fx eff_hold s_held s_free s_open]; try (repeat split; assumption);
    destruct hd as [k|]; cbn [some_b] in H1; subst h; cbn [b2n s_held s_free s_open some_b] in *;
    try (repeat split; assumption).
  - (* checkout, nothing held *)
    destruct fr as [|k r]; cbn [s_held s_free s_open some_b length b2n] in *.
    + repeat split; [constructor|lia|]. intros k Hk Hd. injection Hk as <-. discriminate.
    + inversion H2; subst. repeat split; [assumption|lia|]. intros k0 Hk Hd. injection Hk as <-. congruence.
  - (* to server *)
    repeat split; [assumption|assumption|]. intros k0 Hk Hd. injection Hk as <-. cbn [dirty unclean] in *. auto.
  - (* release *)
    destruct (e_cleanup_fails e); cbn [s_held s_free s_open some_b length b2n].
    + repeat split; [assumption|lia|discriminate].
    + repeat split; [constructor; [reflexivity|assumption]|lia|discriminate].
  - (* cleanup on eof *)
    destruct (e_cleanup_fails e); cbn [s_held s_free s_open some_b length b2n].
    + repeat split; [assumption|lia|discriminate].
    + repeat split; [constructor; [reflexivity|assumption]|lia|discriminate].
  - (* drop held *)
    destruct (unclean k) eqn:U; cbn [s_held s_free s_open some_b length b2n].
    + repeat split; [assumption|lia|discriminate].
    + repeat split; [constructor; [|assumption]|lia|discriminate].
      destruct (dirty k) eqn:D; [|reflexivity]. specialize (H4 k eq_refl D). congruence.
Qed.

Lemma fold_J : forall n e effs s h, (e_dirty e = true -> e_unclean e = true) -> J n s h ->
  J n (fold_left (fx e) effs s) (holding h effs).
Proof.
  intros n e effs. induction effs as [|f r IH]; intros s h He Hj; [exact Hj|].
  unfold holding. cbn [fold_left]. apply IH; [exact He|]. apply fx_J; assumption.
Qed.

Lemma held_count_ge : forall x l, b2n (is_held (getd x l)) <= held_count l.
Proof.
  intros x l. unfold getd. induction l as [|[y c] r IH]; cbn [getc held_count]; [cbn; lia|].
  destruct (Nat.eqb y x); lia.
Qed.

(** the holding bit after an event, and what is left of the client *)
Lemma outcome_holding : forall o e c st' pend alive blocked extra,
  is_held c = holds (c_st c) ->
  outcome_of e c (run_of o e c) = (st', pend, alive, blocked, extra) ->
  holding (is_held c) (r_effs (run_of o e c) ++ extra) = (alive && holds st')%bool /\
  (blocked = true -> alive = true).
Proof.
  intros o e c st' pend alive blocked extra Hc Ho.
  pose proof (handle_bytes_balanced (with_avail o (e_avail e)) (c_st c) (c_pend c ++ e_bytes e) (e_obs e)) as B.
  pose proof (handle_bytes_total (with_avail o (e_avail e)) (c_st c) (c_pend c ++ e_bytes e) (e_obs e)) as T.
  fold (run_of o e c) in B, T. unfold fin_balanced in B. unfold outcome_of in Ho. rewrite <- Hc in B.
  rewrite holding_app.
  destruct (r_fin (run_of o e c)) as [st|h|st p|st|]; [| | | |congruence].
  - destruct (e_close e); injection Ho as <- <- <- <- <-; rewrite B.
    + split; [|discriminate]. unfold on_eof. destruct (holds st); reflexivity.
    + split; [|discriminate]. cbn [andb]. reflexivity.
  - injection Ho as <- <- <- <- <-. rewrite B. split; [reflexivity|discriminate].
  - destruct (e_close e); injection Ho as <- <- <- <- <-; rewrite B.
    + split; [|discriminate]. unfold on_eof. destruct (holds st); reflexivity.
    + split; [|discriminate]. reflexivity.
  - injection Ho as <- <- <- <- <-. destruct B as [B1 B2]. rewrite B1, B2. split; reflexivity.
Qed.

Lemma getd_ok : forall w x, inv w -> cl_ok (getd x (cls w)).
Proof.
  intros w x (_ & _ & H). unfold getd. destruct (getc x (cls w)) as [c|] eqn:E; [exact (H x c E)|].
  unfold cl_ok, new_cl. cbn. repeat split; try discriminate; try reflexivity.
Qed.

Lemma ev_inv : forall o w e, (e_dirty e = true -> e_unclean e = true) -> inv w -> inv (ev o w e).
Proof.
  intros o w e He Hi. unfold ev.
  set (x := e_cid e). set (c := getd x (cls w)).
  destruct (negb (c_alive c) || c_blocked c)%bool eqn:G; [exact Hi|].
  apply orb_false_elim in G. destruct G as [Ga Gb]. apply negb_false_iff in Ga.
  pose proof (getd_ok w x Hi) as (K1 & K2 & K3 & K4). fold c in K1, K2, K3, K4. specialize (K1 Ga).
  destruct (outcome_of e c (run_of o e c)) as [[[[st' pend] alive] blocked] extra] eqn:Ho.
  destruct (outcome_holding o e c st' pend alive blocked extra K1 Ho) as [Hh Hb].
  destruct Hi as (I1 & I2 & I3).
  set (n := held_count (cls w) - b2n (is_held c)).
  pose proof (held_count_ge x (cls w)) as Hge. fold c in Hge.
  assert (Hj0 : J n (mkS (free w) (opened w) (c_held c)) (is_held c)).
  { unfold J. cbn [s_held s_free s_open]. split; [unfold is_held; destruct (c_held c); reflexivity|].
    split; [exact I1|]. split; [rewrite I2; unfold n; lia|exact K4]. }
  pose proof (fold_J n e (r_effs (run_of o e c) ++ extra) _ _ He Hj0) as (J1 & J2 & J3 & J4).
  rewrite Hh in J1, J3.
  set (s2 := fold_left (fx e) (r_effs (run_of o e c) ++ extra) (mkS (free w) (opened w) (c_held c))) in *.
  unfold inv. cbn [free opened cls]. split; [exact J2|]. split.
  - pose proof (held_count_setc x (mkCl st' pend (s_held s2) alive blocked) (cls w)) as HC. fold c in HC.
    assert (is_held (mkCl st' pend (s_held s2) alive blocked) = (alive && holds st')%bool).
    { unfold is_held. cbn [c_held]. unfold some_b in J1. exact J1. }
    rewrite H in HC. unfold n in J3. lia.
  - intros y cy Hy. destruct (Nat.eq_dec y x) as [->|Hne].
    + rewrite getc_setc_same in Hy. injection Hy as <-. unfold cl_ok. cbn [c_alive c_held c_st c_blocked]. unfold is_held. cbn [c_held].
      unfold some_b in J1. repeat split.
      * intros ->. rewrite J1. reflexivity.
      * intros ->. cbn [andb] in J1. destruct (s_held s2); [discriminate|reflexivity].
      * exact Hb.
      * exact J4.
    + rewrite getc_setc_other in Hy by exact Hne. exact (I3 y cy Hy).
Qed.

Lemma inv0 : inv world0.
Proof. unfold inv, world0. cbn. split; [constructor|]. split; [reflexivity|]. intros x c H. discriminate. Qed.

Lemma exec_inv : forall o tr w, clean_handoff tr -> inv w -> inv (exec o w tr).
Proof.
  intros o tr. induction tr as [|e r IH]; intros w Hc Hi; [exact Hi|].
  inversion Hc; subst. cbn [exec fold_left]. apply IH; [assumption|]. apply ev_inv; assumption.
Qed.

(** nobody else's task, state or connection is touched by an event of [x] *)
Lemma ev_frame : forall o w e y, y <> e_cid e -> getc y (cls (ev o w e)) = getc y (cls w).
Proof.
  intros o w e y H. unfold ev. destruct (negb _ || _)%bool; [reflexivity|].
  destruct (outcome_of e _ _) as [[[[st' pend] alive] blocked] extra]. cbn [cls]. apply getc_setc_other. exact H.
Qed.

Definition all_unblocked (w : world) : Prop := forall x c, getc x (cls w) = Some c -> c_blocked c = false.

Lemma ev_unblocked : forall o w e, all_unblocked w -> blocks o w e = false -> all_unblocked (ev o w e).
Proof.
  intros o w e Hu Hb. unfold ev, blocks in *.
  destruct (negb (c_alive (getd (e_cid e) (cls w))) || c_blocked (getd (e_cid e) (cls w)))%bool; [exact Hu|].
  unfold outcome_of. destruct (r_fin (run_of o e (getd (e_cid e) (cls w)))) eqn:F; try discriminate;
    try destruct (e_close e); intros y cy Hy; cbn [cls] in Hy;
    (destruct (Nat.eq_dec y (e_cid e)) as [->|Hne];
     [rewrite getc_setc_same in Hy; injection Hy as <-; reflexivity
     |rewrite getc_setc_other in Hy by exact Hne; exact (Hu y cy Hy)]).
Qed.

Lemma exec_unblocked : forall o tr w, all_unblocked w -> no_block o w tr = true -> all_unblocked (exec o w tr).
Proof.
  intros o tr. induction tr as [|e r IH]; intros w Hu Hn; [exact Hu|].
  cbn [no_block] in Hn. apply andb_prop in Hn. destruct Hn as [Hb Hn]. apply negb_true_iff in Hb.
  cbn [exec fold_left]. apply IH; [|exact Hn]. apply ev_unblocked; assumption.
Qed.

(** when the sender leaves, its connection has been given back (returned clean, or closed) *)
Lemma ev_close_gives_back : forall o w e, (e_dirty e = true -> e_unclean e = true) -> inv w ->
  c_blocked (getd (e_cid e) (cls w)) = false -> blocks o w e = false -> e_close e = true ->
  let c' := getd (e_cid e) (cls (ev o w e)) in c_alive c' = false /\ c_held c' = None.
Proof.
  intros o w e He Hi Hb Hk Hc c'.
  pose proof (ev_inv o w e He Hi) as Hi'. pose proof (getd_ok _ (e_cid e) Hi') as (_ & K2 & _ & _). fold c' in K2.
  assert (Ha : c_alive c' = false); [|split; [exact Ha|exact (K2 Ha)]].
  subst c'. unfold ev, blocks in *. rewrite Hb in *. rewrite orb_false_r in *.
  destruct (negb (c_alive (getd (e_cid e) (cls w)))) eqn:A.
  - apply negb_true_iff in A. exact A.
  - unfold outcome_of. rewrite Hc.
    destruct (r_fin (run_of o e (getd (e_cid e) (cls w)))) eqn:F; try discriminate;
      cbn [cls]; unfold getd; rewrite getc_setc_same; reflexivity.
Qed.

(** * the statement of c11_sender_only *)
Lemma sender_only : forall o tr, clean_handoff tr ->
  let w := exec o world0 tr in
  inv w /\
  (forall w0 e y, y <> e_cid e -> getc y (cls (ev o w0 e)) = getc y (cls w0)) /\
  (no_block o world0 tr = true ->
     all_unblocked w /\
     forall e, (e_dirty e = true -> e_unclean e = true) -> blocks o w e = false -> e_close e = true ->
       c_alive (getd (e_cid e) (cls (ev o w e))) = false /\ c_held (getd (e_cid e) (cls (ev o w e))) = None).
Proof.
  intros o tr Hc w. assert (Hi : inv w) by (apply exec_inv; [exact Hc|exact inv0]).
  split; [exact Hi|]. split; [intros; apply ev_frame; assumption|].
  intros Hn. assert (Hu : all_unblocked w) by (apply exec_unblocked; [intros x c H; discriminate|exact Hn]).
  split; [exact Hu|]. intros e He Hb Hk. apply ev_close_gives_back; try assumption.
  unfold getd. destruct (getc (e_cid e) (cls w)) eqn:E; [exact (Hu _ _ E)|reflexivity].
Qed.


(** * the recorded class F21c as a witness *)
Definition o_demo : opts :=
  mkO true false false false false None true [117]%N [100; 98]%N true true [] [] (fun _ => 0%N) (fun _ => []) (fun _ => 0%N).
Definition f21c_bytes : bytes :=
  [0;0;0;28; 0;3;0;0; 117;115;101;114;0; 117;0; 100;97;116;97;98;97;115;101;0; 100;98;0; 0;
   80;0;0;0;9; 0;67;0;0;0;   66;0;0;0;12; 0;0;0;0;0;0;0;0;   69;0;0;0;9; 0;0;0;0;0;   83;0;0;0;4;   99;0;0;0;4]%N.
Definition f21c_trace : list event :=
  [mkE 0 true f21c_bytes [ZI; ZG] true false false false; mkE 0 true [] [] true false false false].

Lemma sender_only_refuted : clean_handoff f21c_trace /\ no_block o_demo world0 f21c_trace = false /\
  let w := exec o_demo world0 f21c_trace in
  exists c, getc 0%nat (cls w) = Some c /\ c_blocked c = true /\ c_held c = Some (mkK false false) /\ free w = [] /\ opened w = 1%nat.
Proof.
  split; [repeat constructor; discriminate|]. split; [vm_compute; reflexivity|].
  vm_compute. eexists. repeat split.
Qed.

