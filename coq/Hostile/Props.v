(** C11 — property theorems only.  Each is closed by [exact <lemma>] and audited with
    [Print Assumptions]; [Example]s give non-vacuity and pin the model to concrete inputs. *)
From Coq Require Import ZArith NArith List Bool Lia.
From PV Require Import Hostile.Decode Hostile.Multi Hostile.Proofs Hostile.Segment Hostile.MultiProofs.
Import ListNotations.
Local Open Scope Z_scope.

(** ** Every byte string is classified: the per-message classifier never gets stuck, whatever the
    state, the bytes and the backend's replies are. *)
Theorem c11_total : forall o st s obs, r_fin (handle_bytes o st s obs) <> FStuck.
Proof. exact handle_bytes_total. Qed.
Print Assumptions c11_total.

Theorem c11_fuel_irrelevant : forall f1 f2 o st s obs effs zp,
  (length s < f1)%nat -> (f1 <= f2)%nat -> run_fuel f2 o st s obs effs zp = run_fuel f1 o st s obs effs zp.
Proof. exact run_fuel_mono. Qed.
Print Assumptions c11_fuel_irrelevant.

Theorem c11_every_step_consumes : forall o st s obs nx e z obs' rest,
  s <> [] -> step o st s obs = SDone nx e z obs' rest -> (length rest < length s)%nat.
Proof. exact step_progress. Qed.
Print Assumptions c11_every_step_consumes.

(** ** Message granularity does not depend on how TCP cuts the stream: processing [a] and, later,
    [b] (resuming inside a half-received message if need be) is processing [a ++ b]. *)
Theorem c11_segmentation : forall o st a b obs,
  handle_bytes o st (a ++ b) obs = resume o (handle_bytes o st a obs) b.
Proof. exact handle_bytes_app. Qed.
Print Assumptions c11_segmentation.

(** ** read_message: the length field *)
Theorem c11_frame_len_minus1 : forall chk c a b d e r, i32_of a b d e = -1 ->
  read_frame chk (c :: a :: b :: d :: e :: r) = if chk then FPanic else FErr.
Proof. exact frame_len_m1. Qed.
Print Assumptions c11_frame_len_minus1.

Theorem c11_frame_len_negative : forall chk c a b d e r, i32_of a b d e < -1 -> read_frame chk (c :: a :: b :: d :: e :: r) = FPanic.
Proof. exact frame_len_neg. Qed.
Print Assumptions c11_frame_len_negative.

Theorem c11_frame_len_below4 : forall chk c a b d e r, 0 <= i32_of a b d e < 4 -> read_frame chk (c :: a :: b :: d :: e :: r) = FErr.
Proof. exact frame_len_small. Qed.
Print Assumptions c11_frame_len_below4.

Theorem c11_frame_len4 : forall chk c a b d e r, i32_of a b d e = 4 -> read_frame chk (c :: a :: b :: d :: e :: r) = FOk c 4 [] r.
Proof. exact frame_len4. Qed.
Print Assumptions c11_frame_len4.

Theorem c11_frame_complete : forall chk c a b d e r, 4 <= i32_of a b d e -> i32_of a b d e - 4 <= blen r ->
  read_frame chk (c :: a :: b :: d :: e :: r) =
  FOk c (i32_of a b d e) (firstn (Z.to_nat (i32_of a b d e - 4)) r) (skipn (Z.to_nat (i32_of a b d e - 4)) r).
Proof. exact frame_len_ok. Qed.
Print Assumptions c11_frame_complete.

Theorem c11_frame_truncated : forall chk c a b d e r, 4 <= i32_of a b d e -> blen r < i32_of a b d e - 4 ->
  read_frame chk (c :: a :: b :: d :: e :: r) = FMore.
Proof. exact frame_len_more. Qed.
Print Assumptions c11_frame_truncated.

Theorem c11_frame_short_header : forall chk s, (length s < 5)%nat -> read_frame chk s = FMore.
Proof. exact frame_short. Qed.
Print Assumptions c11_frame_short_header.

Theorem c11_frame_accepted_exact : forall chk s c len body rest, read_frame chk s = FOk c len body rest ->
  4 <= len /\ blen body = len - 4 /\ (length rest + 5 <= length s)%nat /\
  exists a b d e, s = c :: a :: b :: d :: e :: body ++ rest /\ len = i32_of a b d e.
Proof. exact frame_ok_inv. Qed.
Print Assumptions c11_frame_accepted_exact.

(** ** get_startup and the password message *)
Theorem c11_startup_len_below4 : forall a b c d r, i32_of a b c d < 4 -> fst (get_startup (a :: b :: c :: d :: r)) = SPanic.
Proof. exact startup_len_lt4. Qed.
Print Assumptions c11_startup_len_below4.

Theorem c11_startup_len_below8 : forall a b c d r, 4 <= i32_of a b c d < 8 -> i32_of a b c d - 4 <= blen r ->
  fst (get_startup (a :: b :: c :: d :: r)) = SPanic.
Proof. exact startup_len_lt8. Qed.
Print Assumptions c11_startup_len_below8.

Theorem c11_startup_truncated : forall a b c d r, 4 <= i32_of a b c d -> blen r < i32_of a b c d - 4 ->
  fst (get_startup (a :: b :: c :: d :: r)) = SMore.
Proof. exact startup_more. Qed.
Print Assumptions c11_startup_truncated.

Theorem c11_startup_params_never_panic : forall s, parse_params s <> Panic.
Proof. exact parse_params_never_panic. Qed.
Print Assumptions c11_startup_params_never_panic.

Theorem c11_startup_params_unterminated : forall s, s <> [] -> ~ In 0%N s -> parse_params s = Err.
Proof. exact parse_params_unterminated. Qed.
Print Assumptions c11_startup_params_unterminated.

Theorem c11_startup_params_value_unterminated : forall name v, name <> [] -> ~ In 0%N name -> ~ In 0%N v ->
  parse_params (name ++ 0%N :: v) = Err.
Proof. exact parse_params_value_unterminated. Qed.
Print Assumptions c11_startup_params_value_unterminated.

Theorem c11_password_len_overflow : forall chk a b d e r, i32_of a b d e < -2147483644 ->
  read_password chk (112%N :: a :: b :: d :: e :: r) = if chk then PwPanic else PwMore.
Proof. exact pw_len_overflow. Qed.
Print Assumptions c11_password_len_overflow.

Theorem c11_password_len_below4 : forall chk a b d e r, -2147483644 <= i32_of a b d e < 4 ->
  read_password chk (112%N :: a :: b :: d :: e :: r) = PwPanic.
Proof. exact pw_len_small. Qed.
Print Assumptions c11_password_len_below4.

Theorem c11_password_complete : forall chk a b d e r, 4 <= i32_of a b d e -> i32_of a b d e - 4 <= blen r ->
  read_password chk (112%N :: a :: b :: d :: e :: r) =
  PwOk (firstn (Z.to_nat (i32_of a b d e - 4)) r) (skipn (Z.to_nat (i32_of a b d e - 4)) r).
Proof. exact pw_len_ok. Qed.
Print Assumptions c11_password_complete.

(** ** strings, Close, Describe, Parse, Bind *)
Theorem c11_read_string_panic_iff : forall s, read_string s = Panic <-> s = [].
Proof. exact read_string_panic_iff. Qed.
Print Assumptions c11_read_string_panic_iff.

Theorem c11_read_string_terminated : forall p r, ~ In 0%N p -> read_string (p ++ 0%N :: r) = Ok (lossy p, r).
Proof. exact read_string_terminated. Qed.
Print Assumptions c11_read_string_terminated.

Theorem c11_read_string_missing_terminator : forall s, s <> [] -> ~ In 0%N s -> read_string s = Ok (lossy (removelast s), []).
Proof. exact read_string_unterminated. Qed.
Print Assumptions c11_read_string_missing_terminator.

Theorem c11_close_describe_panic_iff : forall body, dec_target_name body = Panic <-> (length body <= 1)%nat.
Proof. exact dec_target_name_panic_iff. Qed.
Print Assumptions c11_close_describe_panic_iff.

Theorem c11_close_describe_never_err : forall body, dec_target_name body <> Err.
Proof. exact dec_target_name_never_err. Qed.
Print Assumptions c11_close_describe_never_err.

Theorem c11_parse_exact : forall name query x y rest, ~ In 0%N name -> ~ In 0%N query ->
  let np := i16_of x y in
  dec_parse (name ++ 0%N :: query ++ 0%N :: x :: y :: rest) =
    if (length rest <? 4 * Z.to_nat np)%nat then Panic
    else match get_n get_i32 (Z.to_nat np) rest with
         | Ok (tys, _) => Ok (lossy name, lossy query, np, tys) | _ => Panic end.
Proof. exact dec_parse_wellformed. Qed.
Print Assumptions c11_parse_exact.

Theorem c11_parse_types_panic_iff : forall n s,
  (get_n get_i32 n s = Panic <-> (length s < 4 * n)%nat) /\ get_n get_i32 n s <> Err.
Proof. exact get_n_i32_spec. Qed.
Print Assumptions c11_parse_types_panic_iff.

Theorem c11_parse_negative_count : forall name query x y rest, ~ In 0%N name -> ~ In 0%N query -> i16_of x y < 0 ->
  dec_parse (name ++ 0%N :: query ++ 0%N :: x :: y :: rest) = Ok (lossy name, lossy query, i16_of x y, []).
Proof. exact dec_parse_negative_count. Qed.
Print Assumptions c11_parse_negative_count.

Theorem c11_parse_reencode_negative_count : forall np, np < 0 -> enc_parse true np = Panic /\ enc_parse false np = Ok tt.
Proof. exact enc_parse_negative. Qed.
Print Assumptions c11_parse_reencode_negative_count.

Theorem c11_parse_name_only : forall name, ~ In 0%N name -> dec_parse (name ++ [0%N]) = Panic.
Proof. exact dec_parse_name_only. Qed.
Print Assumptions c11_parse_name_only.

Theorem c11_parse_no_count : forall name query, ~ In 0%N name -> ~ In 0%N query -> dec_parse (name ++ 0%N :: query ++ [0%N]) = Panic.
Proof. exact dec_parse_no_count. Qed.
Print Assumptions c11_parse_no_count.

Theorem c11_parse_half_count : forall name query x, ~ In 0%N name -> ~ In 0%N query -> dec_parse (name ++ 0%N :: query ++ [0%N; x]) = Panic.
Proof. exact dec_parse_half_count. Qed.
Print Assumptions c11_parse_half_count.

Theorem c11_parse_never_err : forall body, dec_parse body <> Err.
Proof. exact dec_parse_never_err. Qed.
Print Assumptions c11_parse_never_err.

Theorem c11_bind_negative_format_count : forall x y s, i16_of x y < 0 -> read_formats (x :: y :: s) = Panic.
Proof. exact read_formats_negative. Qed.
Print Assumptions c11_bind_negative_format_count.

Theorem c11_bind_bad_format_code : forall x y u v s, i16_of x y = 1 -> i16_of u v <> 0 -> i16_of u v <> 1 ->
  read_formats (x :: y :: u :: v :: s) = Panic.
Proof. exact read_formats_uniform_bad. Qed.
Print Assumptions c11_bind_bad_format_code.

Theorem c11_bind_format_code_panic_iff : forall z, fmt_code z = Panic <-> (z <> 0 /\ z <> 1).
Proof. exact fmt_code_spec. Qed.
Print Assumptions c11_bind_format_code_panic_iff.

Theorem c11_bind_fewer_formats_than_params : forall l i, (length l <= i)%nat -> fmt_at (PSpecified l) i = Panic.
Proof. exact fmt_at_out_of_range. Qed.
Print Assumptions c11_bind_fewer_formats_than_params.

Theorem c11_bind_inference_never_err : forall ph body, infer_bind ph body <> Err.
Proof. exact infer_bind_never_err. Qed.
Print Assumptions c11_bind_inference_never_err.

(** ** try_execute_command, admin *)
Theorem c11_comment_routing_len4 : forall code body, (code = 80 \/ code = 81)%N -> tec_prefix true code 4 body = Panic.
Proof. exact tec_regex_len4. Qed.
Print Assumptions c11_comment_routing_len4.

Theorem c11_query_empty_body : forall regex len, tec_prefix regex 81%N len [] = Panic.
Proof. exact tec_query_empty. Qed.
Print Assumptions c11_query_empty_body.

Theorem c11_command_prefix_never_err : forall regex code len body, tec_prefix regex code len body <> Err.
Proof. exact tec_never_err. Qed.
Print Assumptions c11_command_prefix_never_err.

(** ** Before authentication: the only effects are replies to the sender and one cancel-map
    lookup; a client entry (FxRegister) exists only after the credentials check passed. *)
Theorem c11_preauth_isolated : forall o st s obs, preauth st = true ->
  let r := handle_bytes o st s obs in
  forallb harmless (before_register (r_effs r)) = true /\
  (existsb is_register (r_effs r) = false -> fin_preauth r).
Proof. exact handle_bytes_preauth. Qed.
Print Assumptions c11_preauth_isolated.

Theorem c11_register_requires_credentials : forall o st s obs, preauth st = true ->
  preauth_ok (auth_ok o st s) (step o st s obs).
Proof. exact step_preauth. Qed.
Print Assumptions c11_register_requires_credentials.

(** ** The state and the effect log agree about holding a server: a task that ends has given
    its server back (FxRelease / FxCleanupOnEof / FxDropHeld), whatever the bytes were. *)
Theorem c11_task_end_gives_server_back : forall o st s obs, fin_balanced (holds st) (handle_bytes o st s obs).
Proof. exact handle_bytes_balanced. Qed.
Print Assumptions c11_task_end_gives_server_back.

(** ** Statement caching on: Closes of named statements — the sender's own names, another client's, the pooler's
    PGCAT_n — are answered by the pooler; a batch made of them forwards nothing, so the statements a backend session
    holds are unchanged by them. *)
Theorem c11_named_close_answered_locally : forall xs, forallb named_close xs = true -> fst (sync_walk true xs false []) = false.
Proof. exact named_closes_local. Qed.
Print Assumptions c11_named_close_answered_locally.

(** ** Client bytes alone never make the task wait on its server: a step blocks only if the
    backend leaves a forwarded message unanswered, or in the recorded class F21c (COPY started
    by an Execute, then CopyDone/CopyFail). *)
Theorem c11_block_only_when_server_silent : forall o st s obs, blocked_reason st obs (step o st s obs).
Proof. exact step_blocked. Qed.
Print Assumptions c11_block_only_when_server_silent.

(** ** The sender only. *)
Theorem c11_sender_only : forall o tr, clean_handoff tr ->
  let w := exec o world0 tr in
  inv w /\
  (forall w0 e y, y <> e_cid e -> getc y (cls (ev o w0 e)) = getc y (cls w0)) /\
  (no_block o world0 tr = true ->
     all_unblocked w /\
     forall e, (e_dirty e = true -> e_unclean e = true) -> blocks o w e = false -> e_close e = true ->
       c_alive (getd (e_cid e) (cls (ev o w e))) = false /\ c_held (getd (e_cid e) (cls (ev o w e))) = None).
Proof. exact sender_only. Qed.
Print Assumptions c11_sender_only.

(** The guard [no_block] is needed: the recorded class F21c.  Trust auth; Parse, Bind, Execute,
    Sync whose Execute starts COPY FROM STDIN (terminators seen: ReadyForQuery of the login,
    CopyInResponse); then CopyDone.  The task waits on its server, the client's leaving is not
    noticed, the only live connection is neither idle nor closed. *)
Theorem c11_sender_only_refuted : clean_handoff f21c_trace /\ no_block o_demo world0 f21c_trace = false /\
  let w := exec o_demo world0 f21c_trace in
  exists c, getc 0%nat (cls w) = Some c /\ c_blocked c = true /\ c_held c = Some (mkK false false) /\ free w = [] /\ opened w = 1%nat.
Proof. exact sender_only_refuted. Qed.
Print Assumptions c11_sender_only_refuted.

(** ** Non-vacuity / the panic-site table on concrete inputs *)
Definition o_plain (chk : bool) : opts :=
  mkO chk false false false false None true [117]%N [100; 98]%N false false [1]%N [1]%N (fun _ => 0%N) (fun _ => []) (fun _ => 0%N).
Definition o_all (chk : bool) : opts :=
  mkO chk true true true true None true [117]%N [100; 98]%N false false [1]%N [1]%N (fun _ => 0%N) (fun _ => [1]) (fun _ => 0%N).
Definition fin_of (r : rres) := fst (classify r).

(* Close with body "S" inside a transaction: the panic that used to poison the next client (F1) *)
Example ex_close_kind_only : fin_of (handle_bytes (o_plain true) (InTxn true c0) [67;0;0;0;5;83]%N []) = KPanic /\
  r_effs (handle_bytes (o_plain true) (InTxn true c0) [67;0;0;0;5;83]%N []) = [FxDropHeld].
Proof. vm_compute. split; reflexivity. Qed.
(* startup packets *)
Example ex_startup_len3 : fin_of (handle_bytes (o_plain true) PreStartup [0;0;0;3]%N []) = KPanic. Proof. reflexivity. Qed.
Example ex_startup_len_neg : fin_of (handle_bytes (o_plain false) PreStartup [255;255;255;255]%N []) = KPanic. Proof. reflexivity. Qed.
Example ex_startup_len8_cancel : fin_of (handle_bytes (o_plain true) PreStartup [0;0;0;8;4;210;22;46]%N []) = KPanic. Proof. reflexivity. Qed.
Example ex_startup_huge_waits : fin_of (handle_bytes (o_plain true) PreStartup [127;255;255;255;0;3;0;0]%N []) = KNeed. Proof. reflexivity. Qed.
(* frame lengths: debug vs release *)
Example ex_len_m1_debug : fin_of (handle_bytes (o_plain true) (Idle c0) [81;255;255;255;255]%N []) = KPanic. Proof. reflexivity. Qed.
Example ex_len_m1_release : fin_of (handle_bytes (o_plain false) (Idle c0) [81;255;255;255;255]%N []) = KErr. Proof. reflexivity. Qed.
Example ex_len_m2 : fin_of (handle_bytes (o_plain false) (Idle c0) [81;255;255;255;254]%N []) = KPanic. Proof. reflexivity. Qed.
Example ex_len_0 : fin_of (handle_bytes (o_plain true) (Idle c0) [81;0;0;0;0]%N []) = KErr. Proof. reflexivity. Qed.
(* Query with an empty body at idle: try_execute_command's unwrap *)
Example ex_q_len4 : fin_of (handle_bytes (o_plain true) (Idle c0) [81;0;0;0;4]%N []) = KPanic. Proof. reflexivity. Qed.
(* ... but inside a transaction, parser off, it is simply forwarded *)
Example ex_q_len4_txn : fin_of (handle_bytes (o_plain true) (InTxn true c0) [81;0;0;0;4]%N [ZT]) = KCont. Proof. reflexivity. Qed.
(* negative parameter count in Parse with caching: debug panics in the re-encoder, release goes on *)
Example ex_parse_neg_count : fin_of (handle_bytes (o_all true) (Idle c0) [80;0;0;0;9;0;83;0;255;255]%N []) = KPanic /\
                             fin_of (handle_bytes (o_all false) (Idle c0) [80;0;0;0;9;0;83;0;255;255]%N []) = KCont.
Proof. vm_compute. split; reflexivity. Qed.
(* Bind with format code 2 after a Parse that left a sharding-key placeholder *)
Example ex_bind_bad_format : fin_of (handle_bytes (o_all true) (Idle (mkC [] [] [1] 0))
     [66;0;0;0;19; 0;0; 0;1;0;2; 0;1; 0;0;0;1;53; 0;0]%N []) = KPanic.
Proof. reflexivity. Qed.
(* the two repaired hangs are no longer blocking *)
Example ex_copydone_outside_copy : classify (handle_bytes (o_plain true) (Idle c0) [99;0;0;0;4]%N []) = (KCont, 3%N). Proof. reflexivity. Qed.
Example ex_copydata_sync_in_copy : classify (handle_bytes (o_plain true) (InCopy false false c0) [100;0;0;0;5;120;83;0;0;0;4]%N []) = (KCont, 5%N). Proof. reflexivity. Qed.
(* a Query while the server is in COPY mode ends the sender's session and discards its server (016496c, F37) *)
Example ex_query_in_copy : classify (handle_bytes (o_plain true) (InCopy false false c0) [81;0;0;0;6;120;0]%N [ZI]) = (KErr, 9%N) /\
  r_effs (handle_bytes (o_plain true) (InCopy false false c0) [81;0;0;0;6;120;0]%N [ZI]) = [FxReply RErrOnly; FxDropHeld].
Proof. vm_compute. split; reflexivity. Qed.
(* the known one *)
Example ex_ext_copy_copydone : classify (handle_bytes (o_plain true) (InCopy false true c0) [99;0;0;0;4]%N [ZI]) = (KBlocked, 5%N). Proof. reflexivity. Qed.
(* caching on: Close of a named statement forgets the name when it ARRIVES (80b6794), so a Bind of that name
   behind it is refused at once with an error reply and the task ends; it is no longer buffered until Sync *)
Example ex_close_then_bind : classify (handle_bytes (o_all true) (Idle (mkC [[115;49]%N] [] [] 0))
     [67;0;0;0;8;83;115;49;0;  66;0;0;0;14;0;115;49;0;0;0;0;0;0;0]%N []) = (KErr, 9%N) /\
  r_effs (handle_bytes (o_all true) (Idle (mkC [[115;49]%N] [] [] 0))
     [67;0;0;0;8;83;115;49;0;  66;0;0;0;14;0;115;49;0;0;0;0;0;0;0]%N []) = [FxReply RErrZ].
Proof. vm_compute. split; reflexivity. Qed.
(* admin: non-Query ends the session, Query with empty body panics *)
Example ex_admin : fin_of (handle_bytes (o_plain true) AdminIdle [80;0;0;0;4]%N []) = KErr /\ fin_of (handle_bytes (o_plain true) AdminIdle [81;0;0;0;4]%N []) = KPanic.
Proof. vm_compute. split; reflexivity. Qed.
(* startup parameters without a terminator are refused, not a panic, since 5c1953d; an empty value is accepted *)
Example ex_params_unterminated : fin_of (handle_bytes (o_plain true) PreStartup [0;0;0;14; 0;3;0;0; 117;115;101;114;0; 117]%N []) = KErr. Proof. reflexivity. Qed.
Example ex_params_empty_value : parse_params [117;115;101;114;0; 0; 100;98;0; 120;0; 0]%N = Ok [([117;115;101;114], []); ([100;98], [120])]%N. Proof. reflexivity. Qed.
(* pre-auth: a wrong password is answered and ends the task; nothing but replies happened *)
Example ex_wrong_password : r_effs (handle_bytes (o_plain true) (AwaitPw false) [112;0;0;0;5;0]%N []) = [FxReply RWrongPw]. Proof. reflexivity. Qed.
