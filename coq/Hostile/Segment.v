(** C11 — message granularity is independent of TCP segmentation: processing [a] and later [b]
    is processing [a ++ b]. *)
From Coq Require Import ZArith NArith List Bool Lia Arith.
From PV Require Import Hostile.Decode Hostile.Proofs.
Import ListNotations.
Local Open Scope Z_scope.

Definition app_rest (b : bytes) (so : sout) : sout :=
  match so with SNeed => SNeed | SDone nx e z o r => SDone nx e z o (r ++ b) end.

Lemma firstn_app_le : forall (l m : bytes) n, (n <= length l)%nat -> firstn n (l ++ m) = firstn n l.
Proof. intros l m n H. rewrite firstn_app. replace (n - length l)%nat with 0%nat by lia. cbn. apply app_nil_r. Qed.

Lemma skipn_app_le : forall (l m : bytes) n, (n <= length l)%nat -> skipn n (l ++ m) = skipn n l ++ m.
Proof. intros l m n H. rewrite skipn_app. replace (n - length l)%nat with 0%nat by lia. reflexivity. Qed.

Lemma blen_app : forall a b, blen (a ++ b) = blen a + blen b.
Proof. intros. unfold blen. rewrite app_length. lia. Qed.

Lemma txn_msg_app : forall b o copy ext intx c pre code len body obs rest first,
  txn_msg o copy ext intx c pre code len body obs (rest ++ b) first = app_rest b (txn_msg o copy ext intx c pre code len body obs rest first).
Proof.
  intros. unfold txn_msg, forward, done_local, done_z, done_end.
  repeat match goal with
         | |- _ = app_rest _ (match ?x with _ => _ end) => destruct x eqn:?
         | |- _ = app_rest _ (if ?x then _ else _) => destruct x eqn:?
         | |- _ = app_rest _ (let '(_, _) := ?x in _) => destruct x eqn:?
         end; reflexivity.
Qed.

Lemma idle_msg_app : forall b o c code len body obs rest,
  idle_msg o c code len body obs (rest ++ b) = app_rest b (idle_msg o c code len body obs rest).
Proof.
  intros. unfold idle_msg, done_local, done_z, done_end.
  repeat match goal with
         | |- _ = app_rest _ (txn_msg _ _ _ _ _ _ _ _ _ _ _ _) => apply txn_msg_app
         | |- _ = app_rest _ (match ?x with _ => _ end) => destruct x eqn:?
         | |- _ = app_rest _ (if ?x then _ else _) => destruct x eqn:?
         end; reflexivity.
Qed.

Lemma admin_msg_app : forall b o code len body obs rest,
  admin_msg o code len body obs (rest ++ b) = app_rest b (admin_msg o code len body obs rest).
Proof.
  intros. unfold admin_msg, done_z, done_end.
  repeat match goal with
         | |- _ = app_rest _ (match ?x with _ => _ end) => destruct x eqn:?
         | |- _ = app_rest _ (if ?x then _ else _) => destruct x eqn:?
         end; reflexivity.
Qed.

Lemma startup_msg_app : forall b o ps obs rest,
  startup_msg o ps obs (rest ++ b) = app_rest b (startup_msg o ps obs rest).
Proof.
  intros. unfold startup_msg, done_local, done_z, done_end.
  repeat match goal with
         | |- _ = app_rest _ (match ?x with _ => _ end) => destruct x eqn:?
         | |- _ = app_rest _ (if ?x then _ else _) => destruct x eqn:?
         end; reflexivity.
Qed.

Lemma read_frame_app : forall chk s b,
  match read_frame chk s with
  | FOk c len body rest => read_frame chk (s ++ b) = FOk c len body (rest ++ b)
  | FErr => read_frame chk (s ++ b) = FErr
  | FPanic => read_frame chk (s ++ b) = FPanic
  | FMore => True
  end.
Proof.
  intros chk s b. destruct s as [|c [|a0 [|b0 [|d [|e r]]]]]; try exact I.
  cbn [read_frame app].
  destruct (i32_of a0 b0 d e =? -1); [destruct chk; reflexivity|].
  destruct (i32_of a0 b0 d e <? -1); [reflexivity|].
  destruct (Z.ltb_spec (i32_of a0 b0 d e) 4); [reflexivity|].
  destruct (Z.leb_spec (i32_of a0 b0 d e - 4) (blen r)) as [Hle|]; [|exact I].
  rewrite blen_app. destruct (Z.leb_spec (i32_of a0 b0 d e - 4) (blen r + blen b)) as [_|Hc]; [|unfold blen in *; lia].
  unfold blen in Hle. rewrite firstn_app_le, skipn_app_le by lia. reflexivity.
Qed.

Lemma get_startup_app : forall s b x rest, get_startup s = (x, rest) -> x <> SMore -> get_startup (s ++ b) = (x, rest ++ b).
Proof.
  intros s b x rest H Hx.
  destruct s as [|a0 [|b0 [|c [|d r]]]]; try (cbn in H; injection H as <- <-; congruence).
  cbn [get_startup app] in *.
  destruct (i32_of a0 b0 c d <? 4); [injection H as <- <-; reflexivity|].
  destruct (Z.leb_spec (i32_of a0 b0 c d - 4) (blen r)) as [Hle|]; [|injection H as <- <-; congruence].
  rewrite blen_app. destruct (Z.leb_spec (i32_of a0 b0 c d - 4) (blen r + blen b)) as [_|Hc]; [|unfold blen in *; lia].
  unfold blen in Hle. rewrite firstn_app_le, skipn_app_le by lia.
  destruct (firstn (Z.to_nat (i32_of a0 b0 c d - 4)) r) as [|w [|x0 [|y [|z ps]]]]; try (injection H as <- <-; reflexivity).
  destruct (i32_of w x0 y z =? SSL_REQUEST_CODE); [injection H as <- <-; reflexivity|].
  destruct (i32_of w x0 y z =? PROTOCOL_VERSION_NUMBER); [injection H as <- <-; reflexivity|].
  destruct (i32_of w x0 y z =? CANCEL_REQUEST_CODE); injection H as <- <-; reflexivity.
Qed.

Lemma read_password_app : forall chk s b,
  match read_password chk s with
  | PwOk resp rest => read_password chk (s ++ b) = PwOk resp (rest ++ b)
  | PwBadCode => read_password chk (s ++ b) = PwBadCode
  | PwPanic => read_password chk (s ++ b) = PwPanic
  | PwMore => True
  end.
Proof.
  intros chk s b. destruct s as [|c s1]; [exact I|]. cbn [read_password app].
  destruct (negb (c =? 112)%N); [reflexivity|].
  destruct s1 as [|a0 [|b0 [|d [|e r]]]]; try exact I. cbn [app].
  destruct (i32_of a0 b0 d e <? -2147483644); [destruct chk; [reflexivity|exact I]|].
  destruct (i32_of a0 b0 d e <? 4); [reflexivity|].
  destruct (Z.leb_spec (i32_of a0 b0 d e - 4) (blen r)) as [Hle|]; [|exact I].
  rewrite blen_app. destruct (Z.leb_spec (i32_of a0 b0 d e - 4) (blen r + blen b)) as [_|Hc]; [|unfold blen in *; lia].
  unfold blen in Hle. rewrite firstn_app_le, skipn_app_le by lia. reflexivity.
Qed.

Lemma tl_app : forall (s b : bytes), s <> [] -> tl (s ++ b) = tl s ++ b.
Proof. intros [|x s] b H; [congruence|reflexivity]. Qed.

Lemma step_app : forall o st s obs b, s <> [] -> step o st s obs <> SNeed ->
  step o st (s ++ b) obs = app_rest b (step o st s obs).
Proof.
  intros o st s obs b Hs Hn.
  destruct st; cbn [step] in *.
  - destruct (get_startup s) as [x r0] eqn:G.
    destruct x; try (rewrite (get_startup_app s b _ _ G) by discriminate); try reflexivity; try congruence.
    + apply startup_msg_app.
    + destruct rest as [|? [|? [|? [|? [|? [|? [|? [|? ?]]]]]]]]; reflexivity.
  - destruct (get_startup s) as [x r0] eqn:G.
    destruct x; try (rewrite (get_startup_app s b _ _ G) by discriminate); try reflexivity; try congruence.
    apply startup_msg_app.
  - pose proof (read_password_app (o_chk o) s b) as P.
    destruct (read_password (o_chk o) s); try congruence; rewrite P; unfold done_z, done_end; cbn [app_rest];
      try (rewrite tl_app by exact Hs; reflexivity).
    destruct (beq_bytes resp _); reflexivity.
  - pose proof (read_frame_app (o_chk o) s b) as F.
    destruct (read_frame (o_chk o) s); try congruence; rewrite F; unfold done_end; cbn [app_rest];
      try (rewrite tl_app by exact Hs; reflexivity).
    apply idle_msg_app.
  - pose proof (read_frame_app (o_chk o) s b) as F.
    destruct (read_frame (o_chk o) s); try congruence; rewrite F; unfold done_end; cbn [app_rest];
      try (rewrite tl_app by exact Hs; reflexivity).
    apply txn_msg_app.
  - pose proof (read_frame_app (o_chk o) s b) as F.
    destruct (read_frame (o_chk o) s); try congruence; rewrite F; unfold done_end; cbn [app_rest];
      try (rewrite tl_app by exact Hs; reflexivity).
    apply txn_msg_app.
  - pose proof (read_frame_app (o_chk o) s b) as F.
    destruct (read_frame (o_chk o) s); try congruence; rewrite F; unfold done_end; cbn [app_rest];
      try (rewrite tl_app by exact Hs; reflexivity).
    apply admin_msg_app.
Qed.

Lemma run_fuel_nil : forall f o st obs effs zp, run_fuel (S f) o st [] obs effs zp = mkR (FCont st) effs zp obs.
Proof. reflexivity. Qed.

Lemma run_fuel_cons : forall f o st x s obs effs zp,
  run_fuel (S f) o st (x :: s) obs effs zp =
  match step o st (x :: s) obs with
  | SNeed => mkR (FNeed st (x :: s)) effs zp obs
  | SDone (NCont st') e z obs' rest => run_fuel f o st' rest obs' (effs ++ e) (zp ++ z)
  | SDone (NEnd h) e z obs' _ => mkR (FEnd h) (effs ++ e) (zp ++ z) obs'
  | SDone (NBlocked st') e z obs' _ => mkR (FBlocked st') (effs ++ e) (zp ++ z) obs'
  end.
Proof. reflexivity. Qed.

Lemma run_fuel_app : forall f a b F o st obs effs zp,
  (length a < f)%nat -> (length (a ++ b) < F)%nat ->
  run_fuel F o st (a ++ b) obs effs zp = resume o (run_fuel f o st a obs effs zp) b.
Proof.
  induction f as [|f IH]; intros a b F o st obs effs zp Hf HF; [lia|].
  destruct a as [|x a'].
  - rewrite run_fuel_nil. unfold resume. cbn [r_fin r_obs r_effs r_z app]. cbn [app] in HF. apply run_fuel_mono; lia.
  - rewrite run_fuel_cons. destruct (step o st (x :: a') obs) as [|nx e z obs' rest] eqn:S1.
    + (* the bytes end inside a message: resuming re-reads it together with what follows *)
      unfold resume. cbn [r_fin r_obs r_effs r_z]. apply run_fuel_mono; lia.
    + assert (Hne : step o st (x :: a') obs <> SNeed) by (rewrite S1; discriminate).
      pose proof (step_app o st (x :: a') obs b ltac:(discriminate) Hne) as SA. rewrite S1 in SA. cbn [app_rest] in SA.
      assert (Hp : (length rest < length (x :: a'))%nat) by (eapply step_progress; [discriminate|exact S1]).
      destruct F as [|F]; [lia|]. cbn [app] in SA |- *. rewrite run_fuel_cons, SA.
      destruct nx as [st'|h|st']; [|reflexivity|reflexivity].
      apply IH; [lia|]. rewrite app_length in *. cbn [length] in *. lia.
Qed.

Lemma handle_bytes_app : forall o st a b obs,
  handle_bytes o st (a ++ b) obs = resume o (handle_bytes o st a obs) b.
Proof. intros. unfold handle_bytes. apply run_fuel_app; lia. Qed.
