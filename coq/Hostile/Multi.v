(** C11 — a small multi-client abstraction: several client tasks (each one driven by
    [Decode.handle_bytes] on its own bytes) share one pool of server connections.

    A connection carries two bits: [dirty] = the TRUTH (the backend session carries somebody's
    state: open transaction, COPY, pending data, SET/PREPARE), [unclean] = what
    [ServerPool::has_broken] reads ([Server::is_bad() || Server::is_unclean()],
    pool.rs:1244-1254, server.rs:1268-1273).  How the two bits evolve while a client talks to
    its server is the environment's choice, an input of every event.  The hypothesis
    [clean_handoff] — dirty implies unclean — is what the C02 check establishes separately.

    Effects (see [Decode.eff]) are interpreted on the shared state:
      FxCheckout      take an idle connection, or open one (whether a checkout succeeds at all —
                      pool_size, bans, timeouts — is bb8's / C04's business: an input [e_avail])
      FxToServer      the held connection's bits become the event's [e_dirty]/[e_unclean]
      FxRelease, FxCleanupOnEof
                      checkin_cleanup (server.rs:1343-1387): either the connection is marked bad
                      (COPY mode, or the cleanup query failed) and closed, or it is clean
                      afterwards and returned
      FxDropHeld      the task ended without checkin_cleanup (a `?` or a panic): bb8's put_back
                      asks has_broken: unclean -> closed, otherwise returned AS IT IS
    Definitions only. *)
From Coq Require Import ZArith NArith List Bool Lia Arith.
From PV Require Import Hostile.Decode.
Import ListNotations.
Open Scope nat_scope.

Record conn := mkK { dirty : bool; unclean : bool }.
Definition fresh : conn := mkK false false.

Record cl := mkCl { c_st : pstate; c_pend : bytes; c_held : option conn;
                    c_alive : bool;      (* the task exists *)
                    c_blocked : bool }.  (* the task waits for its server and never looks at the client socket again *)
Definition new_cl : cl := mkCl PreStartup [] None true false.

Record world := mkW { free : list conn;          (* idle connections in the pool *)
                      opened : nat;              (* live server connections *)
                      cls : list (nat * cl) }.

Fixpoint getc (x : nat) (l : list (nat * cl)) : option cl :=
  match l with [] => None | (y, c) :: r => if Nat.eqb y x then Some c else getc x r end.
Definition getd (x : nat) (l : list (nat * cl)) : cl := match getc x l with Some c => c | None => new_cl end.
Fixpoint setc (x : nat) (v : cl) (l : list (nat * cl)) : list (nat * cl) :=
  match l with
  | [] => [(x, v)]
  | (y, c) :: r => if Nat.eqb y x then (y, v) :: r else (y, c) :: setc x v r
  end.
Definition is_held (c : cl) : bool := match c_held c with Some _ => true | None => false end.
Definition b2n (b : bool) : nat := if b then 1 else 0.
Fixpoint held_count (l : list (nat * cl)) : nat :=
  match l with [] => 0 | (_, c) :: r => b2n (is_held c) + held_count r end.

Record event := mkE { e_cid : nat;
                      e_close : bool;            (* the client closes its socket after the bytes *)
                      e_bytes : bytes; e_obs : list zrep;
                      e_avail : bool;            (* a checkout would succeed (bb8 / C04) *)
                      e_dirty : bool; e_unclean : bool;   (* the held connection after this event's traffic *)
                      e_cleanup_fails : bool }.  (* checkin_cleanup marks the connection bad *)

(** the part of the shared state one client's effects can touch: (idle list, live count, own connection) *)
Record sh := mkS { s_free : list conn; s_open : nat; s_held : option conn }.

Definition fx (e : event) (s : sh) (f : eff) : sh :=
  match f with
  | FxCheckout =>
    match s_held s with
    | Some _ => s
    | None =>
      match s_free s with
      | k :: r => mkS r (s_open s) (Some k)
      | [] => mkS [] (S (s_open s)) (Some fresh)
      end
    end
  | FxToServer =>
    match s_held s with
    | Some _ => mkS (s_free s) (s_open s) (Some (mkK (e_dirty e) (e_unclean e)))
    | None => s
    end
  | FxRelease | FxCleanupOnEof =>
    match s_held s with
    | Some _ => if e_cleanup_fails e then mkS (s_free s) (pred (s_open s)) None
                else mkS (fresh :: s_free s) (s_open s) None
    | None => s
    end
  | FxDropHeld =>
    match s_held s with
    | Some k => if unclean k then mkS (s_free s) (pred (s_open s)) None
                else mkS (k :: s_free s) (s_open s) None
    | None => s
    end
  | FxRegister | FxReply _ | FxCancel | FxAdmin => s
  end.

Definition with_avail (o : opts) (a : bool) : opts :=
  mkO (o_chk o) (o_parser o) (o_cache o) (o_regex o) (o_rw o) (o_maxlen o) a (o_user o) (o_db o)
      (o_user_trust o) (o_admin_trust o) (o_pw_user o) (o_pw_admin o) (o_custom o) (o_ph o) (o_adminfx o).

(** what an event leaves of the client: (state, pending bytes, alive, blocked, effects of the socket close) *)
Definition outcome_of (e : event) (c : cl) (r : rres) : pstate * bytes * bool * bool * list eff :=
  match r_fin r with
  | FEnd _ | FStuck => (c_st c, [], false, false, [])
  | FBlocked st => (st, [], true, true, [])
  | FCont st => if e_close e then (st, [], false, false, snd (on_eof st)) else (st, [], true, false, [])
  | FNeed st p => if e_close e then (st, [], false, false, snd (on_eof st)) else (st, p, true, false, [])
  end.

Definition run_of (o : opts) (e : event) (c : cl) : rres :=
  handle_bytes (with_avail o (e_avail e)) (c_st c) (c_pend c ++ e_bytes e) (e_obs e).

(** One event of client [x := e_cid e]. *)
Definition ev (o : opts) (w : world) (e : event) : world :=
  let x := e_cid e in
  let c := getd x (cls w) in
  if negb (c_alive c) || c_blocked c then w        (* no task reads this socket any more *)
  else
    let r := run_of o e c in
    let '(st', pend, alive, blocked, extra) := outcome_of e c r in
    let s2 := fold_left (fx e) (r_effs r ++ extra) (mkS (free w) (opened w) (c_held c)) in
    mkW (s_free s2) (s_open s2) (setc x (mkCl st' pend (s_held s2) alive blocked) (cls w)).

Definition exec (o : opts) (w : world) (tr : list event) : world := fold_left (ev o) tr w.

Definition world0 : world := mkW [] 0 [].

(** C02's contribution, as a hypothesis on the environment's choices. *)
Definition clean_handoff (tr : list event) : Prop := Forall (fun e => e_dirty e = true -> e_unclean e = true) tr.

(** The known class: an event whose bytes make the sender's task wait for a server reply that
    never comes (F21c; or a backend that stays silent). *)
Definition blocks (o : opts) (w : world) (e : event) : bool :=
  let c := getd (e_cid e) (cls w) in
  if negb (c_alive c) || c_blocked c then false
  else match r_fin (run_of o e c) with FBlocked _ => true | _ => false end.

Fixpoint no_block (o : opts) (w : world) (tr : list event) : bool :=
  match tr with
  | [] => true
  | e :: r => negb (blocks o w e) && no_block o (ev o w e) r
  end.

Definition cl_ok (c : cl) : Prop :=
  (c_alive c = true -> is_held c = holds (c_st c)) /\
  (c_alive c = false -> c_held c = None) /\
  (c_blocked c = true -> c_alive c = true) /\
  (forall k, c_held c = Some k -> dirty k = true -> unclean k = true).

Definition inv (w : world) : Prop :=
  Forall (fun k => dirty k = false) (free w) /\          (* whatever anybody checks out next is clean *)
  opened w = length (free w) + held_count (cls w) /\      (* every live connection is idle in the pool or held by a client *)
  (forall x c, getc x (cls w) = Some c -> cl_ok c).
