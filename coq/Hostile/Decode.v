(** C11 — byte-level model of everything in pgcat that touches bytes a client controls.

    Definitions only (executable); lemmas are in Proofs.v, the multi-client abstraction in
    Multi.v, property theorems in Props.v.

    Conventions ([DESIGN.md] §3).  [byte := N], [bytes := list byte]; integers carried by the
    wire are [Z].  A decoder is a TOTAL function to [Ok v | Err | Panic]:
      - [Panic]: [bytes::Buf::get_u8/get_i16/get_i32/get_i64] past the end (bytes-1.x
        buf_impl.rs asserts [remaining >= n]), [buf[..buf.len()-1]] on an empty [read_until]
        result (messages.rs:752), [Option/Result::unwrap], [unreachable!()], slice / Vec index
        out of bounds, [Vec::with_capacity]/[vec![0; n]] beyond [isize::MAX] ("capacity
        overflow"), and integer overflow in a build with overflow checks ([chk = true]: the
        harness' dev profile; [chk = false]: pgcat's release profile, where the operation wraps).
      - [Err]: the function returns [Err(..)]; in [Client::handle] every [?] ends the task.
    Both end the sender's task; they differ in what the entrypoint still runs (C17/C18) and in
    how a held server is given back (see [eff]).

    Source: /repo/src at the commit the check runs against (file:line are those of 016496c; a7561f2 reads Parse's query text raw instead of lossy: same Ok/Panic classification). *)
From Coq Require Import ZArith NArith List Bool Lia.
Import ListNotations.
Local Open Scope Z_scope.

Definition byte := N.
Definition bytes := list byte.

Inductive res (A : Type) : Type := Ok (a : A) | Err | Panic.
Arguments Ok {A} a.
Arguments Err {A}.
Arguments Panic {A}.

Definition bind {A B} (r : res A) (f : A -> res B) : res B :=
  match r with Ok a => f a | Err => Err | Panic => Panic end.
Notation "' p <- e ;; k" := (bind e (fun p => k)) (at level 61, p pattern, e at next level, right associativity).
Notation "x <- e ;; k" := (bind e (fun x => k)) (at level 61, e at next level, right associativity).

Definition blen (s : bytes) : Z := Z.of_nat (length s).

(** ** Big-endian integers *)
Definition u16_of (a b : byte) : Z := Z.of_N a * 256 + Z.of_N b.
Definition i16_of (a b : byte) : Z := let u := u16_of a b in if u <? 32768 then u else u - 65536.
Definition u32_of (a b c d : byte) : Z := ((Z.of_N a * 256 + Z.of_N b) * 256 + Z.of_N c) * 256 + Z.of_N d.
Definition i32_of (a b c d : byte) : Z := let u := u32_of a b c d in if u <? 2147483648 then u else u - 4294967296.
Definition be16 (z : Z) : bytes := let u := z mod 65536 in [Z.to_N (u / 256); Z.to_N (u mod 256)].
Definition be32 (z : Z) : bytes :=
  let u := z mod 4294967296 in
  [Z.to_N (u / 16777216); Z.to_N ((u / 65536) mod 256); Z.to_N ((u / 256) mod 256); Z.to_N (u mod 256)].

Definition get_u8 (s : bytes) : res (byte * bytes) := match s with b :: r => Ok (b, r) | [] => Panic end.
Definition get_i16 (s : bytes) : res (Z * bytes) := match s with a :: b :: r => Ok (i16_of a b, r) | _ => Panic end.
Definition get_i32 (s : bytes) : res (Z * bytes) := match s with a :: b :: c :: d :: r => Ok (i32_of a b c d, r) | _ => Panic end.
(** [n] bytes or panic ([get_i64], [copy_to_slice], the text-parameter [get_u8] loop) *)
(* lengths are compared in [Z] before any conversion to [nat]: a length field can announce 2 GiB *)
Definition take_exact (n : Z) (s : bytes) : res (bytes * bytes) :=
  if n <=? blen s then Ok (firstn (Z.to_nat n) s, skipn (Z.to_nat n) s) else Panic.
(** [cursor.advance(min(len, remaining))] *)
Definition advance_min (n : Z) (s : bytes) : bytes := if blen s <=? n then [] else skipn (Z.to_nat n) s.

Fixpoint get_n {A} (g : bytes -> res (A * bytes)) (n : nat) (s : bytes) : res (list A * bytes) :=
  match n with
  | O => Ok ([], s)
  | S k => '(a, r) <- g s ;; '(l, r') <- get_n g k r ;; Ok (a :: l, r')
  end.

(** ** [String::from_utf8_lossy] — same definition as coq/Prep/Codec.v (C08); needed here only
    because statement names are compared AFTER lossy decoding. *)
Definition cont (b : byte) : bool := ((128 <=? b) && (b <=? 191))%N.
Definition REPL : bytes := [239; 191; 189]%N.
Definition ok3 (b c : byte) : bool :=
  (if b =? 224 then (160 <=? c) && (c <=? 191)
   else if b =? 237 then (128 <=? c) && (c <=? 159)
   else (128 <=? c) && (c <=? 191))%N.
Definition ok4 (b c : byte) : bool :=
  (if b =? 240 then (144 <=? c) && (c <=? 191)
   else if b =? 244 then (128 <=? c) && (c <=? 143)
   else (128 <=? c) && (c <=? 191))%N.

Fixpoint lossy (s : bytes) : bytes :=
  match s with
  | [] => []
  | b :: r =>
    if (b <? 128)%N then b :: lossy r
    else if ((194 <=? b) && (b <=? 223))%N then
      match r with
      | c1 :: r1 => if cont c1 then b :: c1 :: lossy r1 else REPL ++ lossy r
      | [] => REPL
      end
    else if ((224 <=? b) && (b <=? 239))%N then
      match r with
      | c1 :: r1 =>
        if ok3 b c1 then
          match r1 with
          | c2 :: r2 => if cont c2 then b :: c1 :: c2 :: lossy r2 else REPL ++ lossy r1
          | [] => REPL
          end
        else REPL ++ lossy r
      | [] => REPL
      end
    else if ((240 <=? b) && (b <=? 244))%N then
      match r with
      | c1 :: r1 =>
        if ok4 b c1 then
          match r1 with
          | c2 :: r2 =>
            if cont c2 then
              match r2 with
              | c3 :: r3 => if cont c3 then b :: c1 :: c2 :: c3 :: lossy r3 else REPL ++ lossy r2
              | [] => REPL
              end
            else REPL ++ lossy r1
          | [] => REPL
          end
        else REPL ++ lossy r
      | [] => REPL
      end
    else REPL ++ lossy r
  end.

Fixpoint beq_bytes (a b : bytes) : bool :=
  match a, b with
  | [], [] => true
  | x :: a', y :: b' => (x =? y)%N && beq_bytes a' b'
  | _, _ => false
  end.
Definition mem_bytes (n : bytes) (l : list bytes) : bool := existsb (beq_bytes n) l.
Definition remove_bytes (n : bytes) (l : list bytes) : list bytes := filter (fun m => negb (beq_bytes n m)) l.

(** ** [BytesMutReader for Cursor<&BytesMut>::read_string] (messages.rs:749-755).
    [read_until(0)] cannot fail on a cursor.  Without a terminator it returns the rest of the
    buffer, whose LAST BYTE IS THEN CUT OFF; on an exhausted cursor [buf.len() - 1] underflows
    (debug: overflow panic; release: [buf[..usize::MAX]] is out of range): panic either way. *)
Fixpoint split0 (s : bytes) : option (bytes * bytes) :=
  match s with
  | [] => None
  | c :: r => if (c =? 0)%N then Some ([], r)
              else match split0 r with Some (p, q) => Some (c :: p, q) | None => None end
  end.

Definition read_string (s : bytes) : res (bytes * bytes) :=
  match split0 s with
  | Some (p, r) => Ok (lossy p, r)
  | None => match s with [] => Panic | _ => Ok (lossy (removelast s), []) end
  end.

(** ** [read_message] (messages.rs:639-692), [len : i32] on a 64-bit target.
    - [len = -1]: [len as usize + 1] overflows: panic with overflow checks; in release it wraps
      to 0, [resize] shrinks the 5 header bytes to 0 and the guard [slice_end < slice_start]
      (0 < 5) answers [Err].
    - [len <= -2]: [BytesMut::with_capacity(2^64 + len + 1)] exceeds [isize::MAX]: panic
      ("capacity overflow") in every build.
    - [0 <= len <= 3]: no overflow ([5 + len - 4]); [slice_end = len + 1 < 5]: [Err].
    - [len >= 4]: allocates AND FILLS [len + 1] bytes before the body is read (up to 2 GiB: the
      memory-exhaustion limitation named in DESIGN §9), then [read_exact] of [len - 4] bytes. *)
Inductive fres := FOk (code : byte) (len : Z) (body rest : bytes) | FErr | FPanic | FMore.

Definition read_frame (chk : bool) (s : bytes) : fres :=
  match s with
  | c :: a :: b :: d :: e :: r =>
    let len := i32_of a b d e in
    if len =? -1 then (if chk then FPanic else FErr)
    else if len <? -1 then FPanic
    else if len <? 4 then FErr
    else if len - 4 <=? blen r then FOk c len (firstn (Z.to_nat (len - 4)) r) (skipn (Z.to_nat (len - 4)) r) else FMore
  | _ => FMore
  end.

(** ** [get_startup] (client.rs:321-358): [vec![0u8; len as usize - 4]].
    [len < 0]: [2^64 + len - 4 > isize::MAX]: capacity overflow.  [0 <= len <= 3]: the
    subtraction underflows (panic with checks; wraps to [> isize::MAX] without: capacity
    overflow).  [4 <= len <= 7]: the body has fewer than 4 bytes, [bytes.get_i32()] panics.
    A huge positive [len] is a [calloc] (no page is touched) followed by a wait for the body. *)
Inductive sres := SStartup (params : bytes) | STls | SCancel (rest : bytes) | SBadCode | SPanic | SMore.

Definition PROTOCOL_VERSION_NUMBER : Z := 196608.
Definition SSL_REQUEST_CODE : Z := 80877103.
Definition CANCEL_REQUEST_CODE : Z := 80877102.

Definition get_startup (s : bytes) : sres * bytes :=
  match s with
  | a :: b :: c :: d :: r =>
    let len := i32_of a b c d in
    if len <? 4 then (SPanic, r)
    else if len - 4 <=? blen r then
           let body := firstn (Z.to_nat (len - 4)) r in let rest := skipn (Z.to_nat (len - 4)) r in
           match body with
           | w :: x :: y :: z :: ps =>
             let code := i32_of w x y z in
             if code =? SSL_REQUEST_CODE then (STls, rest)
             else if code =? PROTOCOL_VERSION_NUMBER then (SStartup ps, rest)
             else if code =? CANCEL_REQUEST_CODE then (SCancel ps, rest)
             else (SBadCode, rest)
           | _ => (SPanic, rest)
           end
         else (SMore, s)
  | _ => (SMore, s)
  end.

(** [parse_params] (messages.rs:184-216, after 5c1953d): name, value, name, value, ... as
    NUL-terminated strings ([String::from_utf8_lossy]); the list ends at the first empty name or
    at the end of the bytes; a value may be empty; a string without its terminator is
    [Err(ClientBadStartup)], and so is an empty list.  Nothing in it can panic any more. *)
Fixpoint params_walk (fuel : nat) (s : bytes) (acc : list (bytes * bytes)) : res (list (bytes * bytes)) :=
  match fuel with
  | O => Ok acc                                   (* not reached: every round consumes at least two bytes *)
  | S f =>
    match s with
    | [] => Ok acc
    | _ => match split0 s with
           | None => Err
           | Some ([], _) => Ok acc
           | Some (name, r1) =>
             match split0 r1 with
             | None => Err
             | Some (v, r2) => params_walk f r2 (acc ++ [(lossy name, lossy v)])
             end
           end
    end
  end.

(** [HashMap::insert] in order: the LAST value of a repeated key wins. *)
Fixpoint lookup_last (k : bytes) (l : list (bytes * bytes)) (acc : option bytes) : option bytes :=
  match l with
  | [] => acc
  | (k', v) :: r => lookup_last k r (if beq_bytes k k' then Some v else acc)
  end.

Definition parse_params (s : bytes) : res (list (bytes * bytes)) :=
  match params_walk (S (length s)) s [] with
  | Ok [] => Err
  | x => x
  end.

Definition s_user : bytes := [117; 115; 101; 114]%N.                          (* "user" *)
Definition s_database : bytes := [100; 97; 116; 97; 98; 97; 115; 101]%N.       (* "database" *)
Definition s_pgcat : bytes := [112; 103; 99; 97; 116]%N.
Definition s_pgbouncer : bytes := [112; 103; 98; 111; 117; 110; 99; 101; 114]%N.

(** ** PasswordMessage reader (client.rs:498-536 admin, 589-627 user):
    [vec![0u8; (len - 4) as usize]] — the subtraction is on [i32]. *)
Inductive pwres := PwOk (resp rest : bytes) | PwBadCode | PwPanic | PwMore.

Definition read_password (chk : bool) (s : bytes) : pwres :=
  match s with
  | [] => PwMore
  | c :: s1 =>
    if negb (c =? 112)%N then PwBadCode
    else match s1 with
         | a :: b :: d :: e :: r =>
           let len := i32_of a b d e in
           if len <? -2147483644 then (if chk then PwPanic else PwMore)   (* i32 overflow; wraps to ~2 GiB: calloc + wait *)
           else if len <? 4 then PwPanic                                  (* negative as usize: capacity overflow *)
           else if len - 4 <=? blen r then PwOk (firstn (Z.to_nat (len - 4)) r) (skipn (Z.to_nat (len - 4)) r) else PwMore
         | _ => PwMore
         end
  end.

(** ** Decoders on a frame's body ([len] = the frame's length field = [4 + length body]) *)

(* Close / Describe [TryFrom<&BytesMut>] (messages.rs:1113-1130, 1181-1198): get_u8; read_string *)
Definition dec_target_name (body : bytes) : res (byte * bytes) :=
  '(k, s) <- get_u8 body ;; '(n, _) <- read_string s ;; Ok (k, n).

(* Parse::get_name (messages.rs:909-914) *)
Definition parse_get_name (body : bytes) : res bytes := '(n, _) <- read_string body ;; Ok n.

(* Parse [TryFrom<&BytesMut>] (messages.rs:831-856) *)
Definition dec_parse (body : bytes) : res (bytes * bytes * Z * list Z) :=
  '(name, s1) <- read_string body ;;
  '(query, s2) <- read_string s1 ;;
  '(np, s3) <- get_i16 s2 ;;
  '(tys, _) <- get_n get_i32 (Z.to_nat np) s3 ;;
  Ok (name, query, np, tys).

(* [TryFrom<Parse> for BytesMut] (messages.rs:861-887): [4 * parse.num_params as usize] — a
   negative i16 sign-extends to ~2^64 and the product overflows. CString::new cannot fail:
   neither string contains a NUL. *)
Definition enc_parse (chk : bool) (np : Z) : res unit :=
  if (np <? 0) && chk then Panic else Ok tt.

(* Bind::get_name (messages.rs:1061-1067) *)
Definition bind_get_name (body : bytes) : res bytes :=
  '(_, s1) <- read_string body ;; '(n, _) <- read_string s1 ;; Ok n.

(* QueryRouter::parse up to the call into sqlparser (query_router.rs:370-409);
   [Err]: "Query too long for parser" / unsupported code — logged, processing continues. *)
Definition router_parse_prefix (maxlen : option Z) (code : byte) (len : Z) (body : bytes) : res bytes :=
  if match maxlen with Some m => m <? len | None => false end then Err
  else if (code =? 81)%N then '(q, _) <- read_string body ;; Ok q
  else if (code =? 80)%N then '(_, s1) <- read_string body ;; '(q, _) <- read_string s1 ;; Ok q
  else Err.

(* try_execute_command up to the regex set (query_router.rs:163-224).  [Ok None]: not a Query. *)
Definition tec_prefix (regex : bool) (code : byte) (len : Z) (body : bytes) : res (option bytes) :=
  if regex && ((code =? 80) || (code =? 81))%N && (len =? 4) then Panic     (* len - 5 on usize *)
  else if negb (code =? 81)%N then Ok None
  else '(q, _) <- read_string body ;; Ok (Some q).

(* handle_admin (admin.rs:42-52) *)
Definition admin_prefix (code : byte) (len : Z) : res unit :=
  if negb (code =? 81)%N then Err else if len =? 4 then Panic else Ok tt.

(** [infer_shard_from_bind] (query_router.rs:858-998) once its early returns are passed
    (read/write splitting on, code 'B', consistent length, [placeholders] not empty). *)
Inductive pfmt := PText | PUniform (bin : bool) | PSpecified (l : list bool).

Definition fmt_code (z : Z) : res bool := if z =? 0 then Ok false else if z =? 1 then Ok true else Panic.  (* unreachable!() *)
Definition get_fmt (s : bytes) : res (bool * bytes) := '(z, r) <- get_i16 s ;; b <- fmt_code z ;; Ok (b, r).

Definition read_formats (s : bytes) : res (pfmt * bytes) :=
  '(n, s1) <- get_i16 s ;;
  if n =? 0 then Ok (PText, s1)
  else if n =? 1 then '(b, s2) <- get_fmt s1 ;; Ok (PUniform b, s2)
  else if n <? 0 then Panic                                   (* Vec::with_capacity(n as usize) *)
  else '(l, s2) <- get_n get_fmt (Z.to_nat n) s1 ;; Ok (PSpecified l, s2).

Definition fmt_at (f : pfmt) (i : nat) : res bool :=
  match f with
  | PText => Ok false
  | PUniform b => Ok b
  | PSpecified l => match nth_error l i with Some b => Ok b | None => Panic end    (* formats[i as usize] *)
  end.

Definition in_ph (ph : list Z) (i : nat) : bool := existsb (Z.eqb (Z.of_nat i + 1)) ph.

Fixpoint bind_params (ph : list Z) (f : pfmt) (i : nat) (count : nat) (s : bytes) : res unit :=
  match count with
  | O => Ok tt
  | S k =>
    '(l, s1) <- get_i32 s ;;
    let len := Z.max l 0 in
    b <- fmt_at f i ;;
    if in_ph ph i then
      if b then
        (if (len =? 2) || (len =? 4) || (len =? 8)
         then '(_, s2) <- take_exact len s1 ;; bind_params ph f (S i) k s2
         else bind_params ph f (S i) k (advance_min len s1))
      else '(_, s2) <- take_exact len s1 ;; bind_params ph f (S i) k s2
    else bind_params ph f (S i) k (advance_min len s1)
  end.

Definition infer_bind (ph : list Z) (body : bytes) : res unit :=
  '(_, s1) <- read_string body ;;
  '(_, s2) <- read_string s1 ;;
  '(f, s3) <- read_formats s2 ;;
  '(np, s4) <- get_i16 s3 ;;
  bind_params ph f 0 (Z.to_nat np) s4.

(** * Session level *)

(** What ends the reply the sender sees for one message: a ReadyForQuery status, a
    CopyInResponse, or (for a forwarded message) the server closing its connection. *)
Inductive zrep := ZI | ZT | ZE | ZG | ZClosed.
Definition zrep_eqb (a b : zrep) : bool :=
  match a, b with ZI, ZI | ZT, ZT | ZE, ZE | ZG, ZG | ZClosed, ZClosed => true | _, _ => false end.

Inductive how := HOk | HErr | HPanic.

Inductive reply :=
  | RSslN            (* 'N' *)
  | RAuthMd5         (* AuthenticationMD5Password *)
  | RAuthOk          (* AuthenticationOk, ParameterStatus*, BackendKeyData, ReadyForQuery *)
  | RErrZ            (* error_response: ErrorResponse(58000) + ReadyForQuery('I') *)
  | RErrOnly         (* error_response_terminal *)
  | RWrongPw         (* ErrorResponse(28P01) *)
  | RLocalZ (z : zrep)   (* ReadyForQuery produced by the pooler itself (lone Sync) *)
  | RCustom          (* reply of a custom command / admin command, ends in ReadyForQuery('I') *)
  | RQueued.         (* ParseComplete / CloseComplete produced by the pooler *)

Inductive eff :=
  | FxReply (r : reply)      (* bytes written to the SENDER's own socket *)
  | FxRegister               (* stats.register + drain(+1): the client entry exists from here on *)
  | FxCancel                 (* CancelRequest: one lookup in client_server_map (C10) *)
  | FxCheckout               (* pool.get, claim (cancel map insert), sync_parameters *)
  | FxToServer               (* client frames written to the server the sender holds *)
  | FxRelease                (* checkin_cleanup, connection back in the pool, cancel entry removed *)
  | FxCleanupOnEof           (* read error while holding: checkin_cleanup, then Err (client.rs:1190-1197) *)
  | FxDropHeld               (* task ended holding the server, no checkin_cleanup: bb8 put_back consults has_broken *)
  | FxAdmin.                 (* a state-changing admin command (authorised operator action) *)

Inductive xitem := XParse | XBind (meta : option bytes) | XDesc (meta : option bytes) | XExec
                 | XClose (kind : byte) (name : bytes).

Record cstate := mkC { names : list bytes;      (* client-given names in [prepared_statements] (lossy strings) *)
                       xbuf : list xitem;       (* extended_protocol_data_buffer *)
                       ph : list Z;             (* QueryRouter::placeholders *)
                       dlen : Z }.              (* bytes of CopyData sitting in self.buffer *)
Definition c0 : cstate := mkC [] [] [] 0.

Inductive pstate :=
  | PreStartup | AfterSslN | AwaitPw (admin : bool)
  | Idle (c : cstate)                          (* outer loop of Client::handle, no server held *)
  | InTxn (intx : bool) (c : cstate)           (* transaction loop, server held; intx = server.in_transaction *)
  | InCopy (intx : bool) (ext : bool) (c : cstate)   (* same, server.in_copy_mode; ext: COPY was started by an Execute *)
  | AdminIdle.

Definition preauth (st : pstate) : bool :=
  match st with PreStartup | AfterSslN | AwaitPw _ => true | _ => false end.
Definition holds (st : pstate) : bool :=
  match st with InTxn _ _ | InCopy _ _ _ => true | _ => false end.

Record opts := mkO {
  o_chk : bool;            (* overflow checks (dev profile) *)
  o_parser : bool;         (* query_parser_enabled *)
  o_cache : bool;          (* prepared_statements_cache_size > 0 (transaction mode) *)
  o_regex : bool;          (* shard_id_regex / sharding_key_regex configured *)
  o_rw : bool;             (* query_parser_read_write_splitting (gates infer_shard_from_bind) *)
  o_maxlen : option Z;     (* query_parser_max_length *)
  o_avail : bool;          (* a server can be checked out *)
  o_user : bytes; o_db : bytes;        (* the configured pool *)
  o_user_trust : bool; o_admin_trust : bool;
  o_pw_user : bytes; o_pw_admin : bytes;   (* the MD5 responses that would be accepted (salt dependent: read from the trace) *)
  o_custom : bytes -> N;       (* C13: 0 = not a custom command; 1 = custom command answered normally; 2 = answered with error_response *)
  o_ph : bytes -> list Z;      (* placeholders [infer] pushes for this query (sqlparser + automatic_sharding_key: environment) *)
  o_adminfx : bytes -> N       (* admin query: 0 = unsupported (error_response); 1 = answered; 2 = BAN/UNBAN/RELOAD/PAUSE/RESUME/SHUTDOWN *)
}.

Inductive next := NCont (st : pstate) | NEnd (h : how) | NBlocked (st : pstate).

(** One step: the bytes of one message (or startup packet) are consumed.
    [zp]: the reply terminators this step makes the sender see, in order; [obs']: what is left
    of the terminators actually observed (an input: a forwarded message's terminator is the
    backend's choice, see DESIGN §4 "Nondeterminism"). *)
Inductive sout :=
  | SNeed
  | SDone (nx : next) (effs : list eff) (zp : list zrep) (obs' : list zrep) (rest : bytes).

Definition done_local (st : pstate) (effs : list eff) (obs : list zrep) (rest : bytes) : sout :=
  SDone (NCont st) effs [] obs rest.
(* a step that writes exactly one pooler-made terminator [z] *)
Definition done_z (nx : next) (effs : list eff) (z : zrep) (obs : list zrep) (rest : bytes) : sout :=
  SDone nx effs [z] (tl obs) rest.
Definition done_end (h : how) (effs : list eff) (obs : list zrep) (rest : bytes) : sout :=
  SDone (NEnd h) effs [] obs rest.

(** What the transaction loop does with the terminator of a forwarded Query / batch
    (client.rs:1285-1299, 1545-1556): transaction mode only. *)
Definition after_reply (intx ext : bool) (c : cstate) (z : zrep) : next * list eff :=
  match z with
  | ZI => (NCont (Idle c), [FxRelease])
  | ZT | ZE => (NCont (InTxn true c), [])
  | ZG => (NCont (InCopy intx ext c), [])
  | ZClosed => (NEnd HErr, [FxReply RErrOnly; FxDropHeld])     (* receive_server_message: recv Err, terminal error, `?` *)
  end.

(* a message whose reply comes from the server: consume the observed terminator *)
Definition forward (pre : list eff) (intx : bool) (c : cstate) (held : pstate) (obs : list zrep) (rest : bytes) : sout :=
  match obs with
  | [] => SDone (NBlocked held) (pre ++ [FxToServer]) [] [] rest          (* the server stays silent *)
  | z :: obs' => let '(nx, e) := after_reply intx false c z in SDone nx (pre ++ FxToServer :: e) [z] obs' rest
  end.

(** Sync: walk the extended-protocol buffer (client.rs:1455-1545).  Since f56a2eb / 80b6794 a
    buffered Bind / Describe carries the statement its name meant when it ARRIVED, and a Close
    forgot its name when it arrived: the walk cannot fail any more and does not touch the
    client's name map; a Close of a named statement (caching on) is answered by the pooler. *)
Fixpoint sync_walk (cache : bool) (xs : list xitem) (fwd : bool) (q : list eff) : bool * list eff :=
  match xs with
  | [] => (fwd, q)
  | XParse :: r | XExec :: r | XBind _ :: r | XDesc _ :: r => sync_walk cache r true q
  | XClose k n :: r =>
    if cache && (k =? 83)%N && negb (match n with [] => true | _ => false end)
    then sync_walk cache r fwd (q ++ [FxReply RQueued])
    else sync_walk cache r true q
  end.

Definition set_x (c : cstate) (x : list xitem) : cstate := mkC (names c) x (ph c) (dlen c).
Definition push_x (c : cstate) (i : xitem) : cstate := set_x c (xbuf c ++ [i]).
Definition set_names (c : cstate) (n : list bytes) : cstate := mkC n (xbuf c) (ph c) (dlen c).
Definition set_ph (c : cstate) (p : list Z) : cstate := mkC (names c) (xbuf c) p (dlen c).
Definition set_dlen (c : cstate) (d : Z) : cstate := mkC (names c) (xbuf c) (ph c) d.

(** buffer_parse / buffer_bind / buffer_describe / Close (client.rs:1823-1977, 1044, 1350) *)
Inductive bres := BOk (c : cstate) | BErrReply | BPanic.

Definition buffer_parse (o : opts) (c : cstate) (body : bytes) : bres :=
  if negb (o_cache o) then BOk (push_x c XParse)
  else match parse_get_name body with
       | Ok name =>
         match dec_parse body with
         | Ok (_, _, np, _) =>
           match enc_parse (o_chk o) np with
           | Ok _ => BOk (push_x (set_names c (name :: remove_bytes name (names c))) XParse)
           | _ => BPanic
           end
         | _ => BPanic
         end
       | _ => BPanic
       end.

Definition buffer_bind (o : opts) (c : cstate) (body : bytes) : bres :=
  if negb (o_cache o) then BOk (push_x c (XBind None))
  else match bind_get_name body with
       | Ok name => if mem_bytes name (names c) then BOk (push_x c (XBind (Some name))) else BErrReply
       | _ => BPanic
       end.

Definition buffer_describe (o : opts) (c : cstate) (body : bytes) : bres :=
  if negb (o_cache o) then BOk (push_x c (XDesc None))
  else match dec_target_name body with
       | Ok (k, name) =>
         if (k =? 80)%N then BOk (push_x c (XDesc None))
         else if mem_bytes name (names c) then BOk (push_x c (XDesc (Some name))) else BErrReply
       | _ => BPanic
       end.

(* Close: decoded in both loops; forget_closed_statement (client.rs:1945-1949, 80b6794) takes a
   named statement out of the client's map WHEN THE CLOSE ARRIVES *)
Definition buffer_close (o : opts) (c : cstate) (body : bytes) : bres :=
  match dec_target_name body with
  | Ok (k, name) =>
    let c1 := if o_cache o && (k =? 83)%N && negb (match name with [] => true | _ => false end)
              then set_names c (remove_bytes name (names c)) else c in
    BOk (push_x c1 (XClose k name))
  | _ => BPanic
  end.

(** The transaction loop's dispatch on one frame (client.rs:1235-1615); [first]: the frame is
    the message that made the outer loop take a server (its parser work was done there). *)
Definition txn_msg (o : opts) (copy ext intx : bool) (c : cstate) (pre : list eff)
                   (code : byte) (len : Z) (body : bytes) (obs : list zrep) (rest : bytes) (first : bool) : sout :=
  let held := if copy then InCopy intx ext c else InTxn intx c in
  let stay := fun c' => if copy then InCopy intx ext c' else InTxn intx c' in
  let dropped := fun h => done_end h (pre ++ [FxDropHeld]) obs rest in
  let of_b := fun b => match b with
                       | BOk c' => done_local (stay c') pre obs rest
                       | BErrReply => done_z (NEnd HErr) (pre ++ [FxReply RErrZ; FxDropHeld]) ZI obs rest
                       | BPanic => dropped HPanic
                       end in
  if (code =? 81)%N then                                                   (* 'Q' *)
    if copy then
      (* a Query while the server is in COPY mode (client.rs:1296-1307, 016496c): the server may already have ended
         the COPY with an error nobody read, its answers could not be told apart: mark_bad, terminal error, Err *)
      SDone (NEnd HErr) (pre ++ [FxReply RErrOnly; FxDropHeld]) [] obs rest
    else
    match (if o_parser o && negb first then router_parse_prefix (o_maxlen o) code len body else Err) with
    | Panic => dropped HPanic
    | _ => forward pre intx c held obs rest
    end
  else if (code =? 88)%N then SDone (NEnd HOk) (pre ++ [FxRelease]) [] obs rest       (* 'X': checkin_cleanup, release *)
  else if (code =? 80)%N then                                              (* 'P' *)
    match (if o_parser o then router_parse_prefix (o_maxlen o) code len body else Err) with
    | Panic => dropped HPanic
    | _ => of_b (buffer_parse o c body)
    end
  else if (code =? 66)%N then of_b (buffer_bind o c body)                  (* 'B' *)
  else if (code =? 68)%N then of_b (buffer_describe o c body)              (* 'D' *)
  else if (code =? 69)%N then done_local (stay (push_x c XExec)) pre obs rest   (* 'E' *)
  else if (code =? 67)%N then of_b (buffer_close o c body)                   (* 'C' *)
  else if (code =? 83)%N then                                              (* 'S' *)
    if copy then done_local held pre obs rest                              (* dropped while in COPY (client.rs:1360, de03604) *)
    else
    let '(fwd, q) := sync_walk (o_cache o) (xbuf c) false [] in
      let c' := mkC (names c) [] (ph c) 0 in
      if fwd || (0 <? dlen c) then
        match obs with
        | [] => SDone (NBlocked (stay c')) (pre ++ q ++ [FxToServer]) [] [] rest
        | z :: obs' =>
          let '(nx, e) := after_reply intx true c' z in SDone nx (pre ++ q ++ FxToServer :: e) [z] obs' rest
        end
      else
        (* only the Sync is left: answered by the pooler with the believed status *)
        let z := if intx then ZT else ZI in
        if negb intx
        then done_z (NCont (Idle c')) (pre ++ q ++ [FxReply (RLocalZ z); FxRelease]) z obs rest
        else done_z (NCont (stay c')) (pre ++ q ++ [FxReply (RLocalZ z)]) z obs rest
  else if (code =? 100)%N then                                             (* 'd' *)
    let total := dlen c + len + 1 in
    if 8196 <? total then done_local (stay (set_dlen c 0)) (pre ++ [FxToServer]) obs rest
    else done_local (stay (set_dlen c total)) pre obs rest
  else if ((code =? 99) || (code =? 102))%N then                           (* 'c' | 'f' *)
    if copy && ext then
      (* COPY started by an Execute: the backend skipped that batch's Sync, so after CopyDone /
         CopyFail it sends CommandComplete / ErrorResponse but no ReadyForQuery until a new Sync
         (protocol-flow "COPY Operations"); the reply loop of the 'c'|'f' arm (client.rs:1598-1619)
         waits inside Server::recv for a 'Z' and never reads the client's Sync: F21c *)
      SDone (NBlocked (stay (set_dlen c 0))) (pre ++ [FxToServer]) [] obs rest
    else if copy then
      match obs with
      | [] => SDone (NBlocked (stay (set_dlen c 0))) (pre ++ [FxToServer]) [] [] rest
      | z :: obs' =>
        let c' := set_dlen c 0 in
        match z with
        | ZI => SDone (NCont (Idle c')) (pre ++ [FxToServer; FxRelease]) [z] obs' rest
        | ZClosed => SDone (NEnd HErr) (pre ++ [FxToServer; FxReply RErrOnly; FxDropHeld]) [z] obs' rest
        | ZG => SDone (NCont (InCopy intx false c')) (pre ++ [FxToServer]) [z] obs' rest   (* the next COPY of the same query (628c2ec) *)
        | _ => SDone (NCont (InTxn true c')) (pre ++ [FxToServer]) [z] obs' rest
        end
      end
    else
      (* outside COPY the message is dropped (client.rs:1577-1585, fd4aac1): buffer cleared,
         nothing sent, nothing awaited; outside a transaction the server is released *)
      if negb intx then done_local (Idle (set_dlen c 0)) (pre ++ [FxRelease]) obs rest
      else done_local (stay (set_dlen c 0)) pre obs rest
  else done_local held pre obs rest.                                       (* "Unexpected code": dropped *)

(** One message in the outer loop (client.rs:891-1160), non-admin client. *)
Definition idle_msg (o : opts) (c : cstate) (code : byte) (len : Z) (body : bytes) (obs : list zrep) (rest : bytes) : sout :=
  if (code =? 88)%N then done_end HOk [] obs rest
  else
  match tec_prefix (o_regex o) code len body with
  | Panic | Err => done_end HPanic [] obs rest
  | Ok cmd =>
    let cu := match cmd with Some q => o_custom o q | None => 0%N end in
    if (cu =? 1)%N then done_z (NCont (Idle c)) [FxReply RCustom] ZI obs rest
    else if (cu =? 2)%N then done_z (NCont (Idle c)) [FxReply RErrZ] ZI obs rest
    else
    let of_b := fun b => match b with
                         | BOk c' => done_local (Idle c') [] obs rest
                         | BErrReply => done_z (NEnd HErr) [FxReply RErrZ] ZI obs rest
                         | BPanic => done_end HPanic [] obs rest
                         end in
    let take := fun c' =>
      if o_avail o then txn_msg o false false false c' [FxCheckout] code len body obs rest true
      else done_z (NCont (Idle c')) [FxReply RErrZ] ZI obs rest in
    if (code =? 81)%N then
      match (if o_parser o then router_parse_prefix (o_maxlen o) code len body else Err) with
      | Panic => done_end HPanic [] obs rest
      | Ok q => take (set_ph c (ph c ++ o_ph o q))
      | Err => take c
      end
    else if (code =? 80)%N then
      match (if o_parser o then router_parse_prefix (o_maxlen o) code len body else Err) with
      | Panic => done_end HPanic [] obs rest
      | Ok q => of_b (buffer_parse o (set_ph c (ph c ++ o_ph o q)) body)
      | Err => of_b (buffer_parse o c body)
      end
    else if (code =? 66)%N then
      if o_parser o && o_rw o && negb (match ph c with [] => true | _ => false end) then
        match infer_bind (ph c) body with
        | Ok _ => of_b (buffer_bind o (set_ph c []) body)
        | _ => done_end HPanic [] obs rest
        end
      else of_b (buffer_bind o c body)
    else if (code =? 68)%N then of_b (buffer_describe o c body)
    else if (code =? 69)%N then done_local (Idle (push_x c XExec)) [] obs rest
    else if (code =? 67)%N then of_b (buffer_close o c body)
    else take c
  end.

Definition admin_msg (o : opts) (code : byte) (len : Z) (body : bytes) (obs : list zrep) (rest : bytes) : sout :=
  if (code =? 88)%N then done_end HOk [] obs rest
  else match admin_prefix code len with
       | Err => done_end HErr [] obs rest
       | Panic => done_end HPanic [] obs rest
       | Ok _ =>
         let a := o_adminfx o (removelast body) in
         if (a =? 2)%N then done_z (NCont AdminIdle) [FxAdmin; FxReply RCustom] ZI obs rest
         else if (a =? 1)%N then done_z (NCont AdminIdle) [FxReply RCustom] ZI obs rest
         else done_z (NCont AdminIdle) [FxReply RErrZ] ZI obs rest
       end.

(** Client::startup after parse_startup (client.rs:438-789) *)
Definition is_admin_db (db : bytes) : bool := beq_bytes db s_pgcat || beq_bytes db s_pgbouncer.

Definition startup_msg (o : opts) (ps : bytes) (obs : list zrep) (rest : bytes) : sout :=
  match parse_params ps with
  | Panic => done_end HPanic [] obs rest
  | Err => done_end HErr [] obs rest
  | Ok kv =>
    match lookup_last s_user kv None with
    | None => done_end HErr [] obs rest                                   (* ClientBadStartup *)
    | Some user =>
      let db := match lookup_last s_database kv None with Some d => d | None => user end in
      if is_admin_db db then
        if o_admin_trust o then done_z (NCont AdminIdle) [FxReply RAuthOk; FxRegister] ZI obs rest
        else done_local (AwaitPw true) [FxReply RAuthMd5] obs rest
      else if beq_bytes db (o_db o) && beq_bytes user (o_user o) then
        if o_user_trust o then done_z (NCont (Idle c0)) [FxReply RAuthOk; FxRegister] ZI obs rest
        else done_local (AwaitPw false) [FxReply RAuthMd5] obs rest
      else done_z (NEnd HErr) [FxReply RErrZ] ZI obs rest                  (* "No pool configured" *)
    end
  end.

Definition step (o : opts) (st : pstate) (s : bytes) (obs : list zrep) : sout :=
  match st with
  | PreStartup =>
    match get_startup s with
    | (SMore, _) => SNeed
    | (SPanic, rest) => done_end HPanic [] obs rest
    | (SBadCode, rest) => done_end HErr [] obs rest
    | (STls, rest) => done_local AfterSslN [FxReply RSslN] obs rest        (* no certificate configured *)
    | (SCancel ps, rest) =>
      match ps with
      | _ :: _ :: _ :: _ :: _ :: _ :: _ :: _ :: _ => done_end HOk [FxCancel] obs rest
      | _ => done_end HPanic [] obs rest                                   (* Client::cancel: get_i32 x2 *)
      end
    | (SStartup ps, rest) => startup_msg o ps obs rest
    end
  | AfterSslN =>
    match get_startup s with
    | (SMore, _) => SNeed
    | (SPanic, rest) => done_end HPanic [] obs rest
    | (SStartup ps, rest) => startup_msg o ps obs rest
    | (_, rest) => done_end HErr [] obs rest                               (* "Bad postgres client (plain)" *)
    end
  | AwaitPw adm =>
    match read_password (o_chk o) s with
    | PwMore => SNeed
    | PwBadCode => done_end HErr [] obs (tl s)
    | PwPanic => done_end HPanic [] obs (tl s)
    | PwOk resp rest =>
      if beq_bytes resp (if adm then o_pw_admin o else o_pw_user o)
      then done_z (NCont (if adm then AdminIdle else Idle c0)) [FxReply RAuthOk; FxRegister] ZI obs rest
      else done_end HErr [FxReply RWrongPw] obs rest
    end
  | Idle c =>
    match read_frame (o_chk o) s with
    | FMore => SNeed
    | FErr => done_end HErr [] obs (tl s)
    | FPanic => done_end HPanic [] obs (tl s)
    | FOk code len body rest => idle_msg o c code len body obs rest
    end
  | AdminIdle =>
    match read_frame (o_chk o) s with
    | FMore => SNeed
    | FErr => done_end HErr [] obs (tl s)
    | FPanic => done_end HPanic [] obs (tl s)
    | FOk code len body rest => admin_msg o code len body obs rest
    end
  | InTxn intx c =>
    match read_frame (o_chk o) s with
    | FMore => SNeed
    | FErr => done_end HErr [FxCleanupOnEof] obs (tl s)                    (* client.rs:1190-1197 *)
    | FPanic => done_end HPanic [FxDropHeld] obs (tl s)
    | FOk code len body rest => txn_msg o false false intx c [] code len body obs rest false
    end
  | InCopy intx ext c =>
    match read_frame (o_chk o) s with
    | FMore => SNeed
    | FErr => done_end HErr [FxCleanupOnEof] obs (tl s)
    | FPanic => done_end HPanic [FxDropHeld] obs (tl s)
    | FOk code len body rest => txn_msg o true ext intx c [] code len body obs rest false
    end
  end.

(** [handle_bytes]: run the steps until the task ends, blocks on its server, or the bytes run
    out inside a message.  [FStuck] = the fuel ran out (c11_total: never happens). *)
Inductive final := FCont (st : pstate) | FEnd (h : how) | FNeed (st : pstate) (pending : bytes)
                 | FBlocked (st : pstate) | FStuck.
Record rres := mkR { r_fin : final; r_effs : list eff; r_z : list zrep; r_obs : list zrep (* observed terminators not consumed *) }.

Fixpoint run_fuel (fuel : nat) (o : opts) (st : pstate) (s : bytes) (obs : list zrep) (effs : list eff) (zp : list zrep) : rres :=
  match fuel with
  | O => mkR FStuck effs zp obs
  | S f =>
    match s with
    | [] => mkR (FCont st) effs zp obs
    | _ =>
      match step o st s obs with
      | SNeed => mkR (FNeed st s) effs zp obs
      | SDone (NCont st') e z obs' rest => run_fuel f o st' rest obs' (effs ++ e) (zp ++ z)
      | SDone (NEnd h) e z obs' _ => mkR (FEnd h) (effs ++ e) (zp ++ z) obs'
      | SDone (NBlocked st') e z obs' _ => mkR (FBlocked st') (effs ++ e) (zp ++ z) obs'
      end
    end
  end.

Definition handle_bytes (o : opts) (st : pstate) (s : bytes) (obs : list zrep) : rres :=
  run_fuel (S (length s)) o st s obs [] [].

(** Processing is independent of how the byte stream is cut into TCP segments: running on
    [a] and later on [b] is running on [a ++ b] (c11_segmentation). *)
Definition resume (o : opts) (r : rres) (b : bytes) : rres :=
  match r_fin r with
  | FCont st => run_fuel (S (length b)) o st b (r_obs r) (r_effs r) (r_z r)
  | FNeed st p => run_fuel (S (length (p ++ b))) o st (p ++ b) (r_obs r) (r_effs r) (r_z r)
  | _ => r
  end.

(** The client closes its socket after the bytes (EOF at a message boundary or inside one). *)
Definition on_eof (st : pstate) : how * list eff :=
  if holds st then (HErr, [FxCleanupOnEof]) else (HErr, []).

(** Compact observation used by the correspondence. *)
Inductive fclass := KCont | KOk | KErr | KPanic | KNeed | KBlocked | KStuck.
Definition sclass (st : pstate) : N :=
  match st with PreStartup => 0 | AfterSslN => 1 | AwaitPw _ => 2 | Idle _ => 3 | InTxn _ _ => 4 | InCopy _ _ _ => 5 | AdminIdle => 6 end%N.
Definition classify (r : rres) : fclass * N :=
  match r_fin r with
  | FCont st => (KCont, sclass st)
  | FEnd HOk => (KOk, 9%N) | FEnd HErr => (KErr, 9%N) | FEnd HPanic => (KPanic, 9%N)
  | FNeed st _ => (KNeed, sclass st)
  | FBlocked st => (KBlocked, sclass st)
  | FStuck => (KStuck, 9%N)
  end.
Definition n_err_replies (r : rres) : N :=
  N.of_nat (length (filter (fun e => match e with FxReply RErrZ | FxReply RErrOnly | FxReply RWrongPw => true | _ => false end) (r_effs r))).
Definition observe (o : opts) (st : pstate) (s : bytes) (obs : list zrep) :=
  let r := handle_bytes o st s obs in (classify r, r_z r, n_err_replies r).
