(** C11 — lemmas about Decode.v (decoders and the per-message classifier). *)
From Coq Require Import ZArith NArith List Bool Lia Arith.
From PV Require Import Hostile.Decode.
Import ListNotations.
Local Open Scope Z_scope.

Ltac bm :=
  repeat match goal with
         | |- context [match ?x with _ => _ end] => destruct x eqn:?; try reflexivity; try congruence
         | |- context [if ?x then _ else _] => destruct x eqn:?; try reflexivity; try congruence
         end.

(** * read_string *)
Lemma read_string_panic_iff : forall s, read_string s = Panic <-> s = [].
Proof.
  intros s. unfold read_string. split.
  - destruct (split0 s) as [[p r]|] eqn:E; [discriminate|]. destruct s; [reflexivity|discriminate].
  - intros ->. reflexivity.
Qed.

Lemma read_string_never_err : forall s, read_string s <> Err.
Proof. intros s. unfold read_string. destruct (split0 s) as [[p r]|]; [discriminate|]. destruct s; discriminate. Qed.

Lemma split0_none_no_nul : forall s, split0 s = None <-> ~ In 0%N s.
Proof.
  induction s as [|c r IH]; cbn [split0].
  - split; [intros _ []|reflexivity].
  - destruct (N.eqb_spec c 0) as [->|Hc].
    + split; [discriminate|]. intros H. exfalso. apply H. left. reflexivity.
    + destruct (split0 r) as [[p q]|] eqn:E.
      * split; [discriminate|]. intros H. exfalso. assert (Hn : ~ In 0%N r) by (intros Hi; apply H; right; exact Hi).
        apply IH in Hn. discriminate.
      * split; [|reflexivity]. intros _ [H|H]; [congruence|]. destruct IH as [IH1 _]. exact (IH1 eq_refl H).
Qed.

Lemma split0_app : forall p r, ~ In 0%N p -> split0 (p ++ 0%N :: r) = Some (p, r).
Proof.
  induction p as [|c p IH]; intros r H; cbn [app split0].
  - reflexivity.
  - destruct (N.eqb_spec c 0) as [->|Hc]; [exfalso; apply H; left; reflexivity|].
    rewrite IH; [reflexivity|]. intros Hi. apply H. right. exact Hi.
Qed.

(** a string with its terminator is read back exactly; without one, the last byte is lost *)
Lemma read_string_terminated : forall p r, ~ In 0%N p -> read_string (p ++ 0%N :: r) = Ok (lossy p, r).
Proof. intros p r H. unfold read_string. rewrite split0_app by exact H. reflexivity. Qed.

Lemma read_string_unterminated : forall s, s <> [] -> ~ In 0%N s -> read_string s = Ok (lossy (removelast s), []).
Proof.
  intros s Hne H. unfold read_string. apply split0_none_no_nul in H. rewrite H. destruct s; [congruence|reflexivity].
Qed.

(** * read_message framing *)
Lemma frame_short : forall chk s, (length s < 5)%nat -> read_frame chk s = FMore.
Proof. intros chk s H. do 5 (destruct s as [|? s]; [reflexivity|]). cbn [length] in H. lia. Qed.

Section Frame.
  Variables (chk : bool) (c a b d e : byte) (r : bytes).
  Let len := i32_of a b d e.
  Let s := c :: a :: b :: d :: e :: r.

  Lemma frame_len_m1 : len = -1 -> read_frame chk s = if chk then FPanic else FErr.
  Proof. intros H. subst s. cbn [read_frame]. fold len. rewrite H. reflexivity. Qed.

  Lemma frame_len_neg : len < -1 -> read_frame chk s = FPanic.
  Proof.
    intros H. subst s. cbn [read_frame]. fold len.
    destruct (Z.eqb_spec len (-1)); [lia|]. destruct (Z.ltb_spec len (-1)); [reflexivity|lia].
  Qed.

  Lemma frame_len_small : 0 <= len < 4 -> read_frame chk s = FErr.
  Proof.
    intros H. subst s. cbn [read_frame]. fold len.
    destruct (Z.eqb_spec len (-1)); [lia|]. destruct (Z.ltb_spec len (-1)); [lia|].
    destruct (Z.ltb_spec len 4); [reflexivity|lia].
  Qed.

  Lemma frame_len_ok : 4 <= len -> len - 4 <= blen r ->
    read_frame chk s = FOk c len (firstn (Z.to_nat (len - 4)) r) (skipn (Z.to_nat (len - 4)) r).
  Proof.
    intros H1 H2. subst s. cbn [read_frame]. fold len.
    destruct (Z.eqb_spec len (-1)); [lia|]. destruct (Z.ltb_spec len (-1)); [lia|].
    destruct (Z.ltb_spec len 4); [lia|]. destruct (Z.leb_spec (len - 4) (blen r)); [reflexivity|lia].
  Qed.

  Lemma frame_len_more : 4 <= len -> blen r < len - 4 -> read_frame chk s = FMore.
  Proof.
    intros H1 H2. subst s. cbn [read_frame]. fold len.
    destruct (Z.eqb_spec len (-1)); [lia|]. destruct (Z.ltb_spec len (-1)); [lia|].
    destruct (Z.ltb_spec len 4); [lia|]. destruct (Z.leb_spec (len - 4) (blen r)); [lia|reflexivity].
  Qed.

  Lemma frame_len4 : len = 4 -> read_frame chk s = FOk c 4 [] r.
  Proof. intros H. rewrite frame_len_ok by (unfold blen; lia). rewrite H. reflexivity. Qed.
End Frame.

(** a frame that is accepted has exactly the announced size and is a strict prefix of the input *)
Lemma frame_ok_inv : forall chk s c len body rest, read_frame chk s = FOk c len body rest ->
  4 <= len /\ blen body = len - 4 /\ (length rest + 5 <= length s)%nat /\
  exists a b d e, s = c :: a :: b :: d :: e :: body ++ rest /\ len = i32_of a b d e.
Proof.
  intros chk s c len body rest H.
  destruct s as [|c0 [|a [|b [|d [|e r]]]]]; try discriminate. cbn [read_frame] in H.
  destruct (Z.eqb_spec (i32_of a b d e) (-1)); [destruct chk; discriminate|].
  destruct (Z.ltb_spec (i32_of a b d e) (-1)); [discriminate|].
  destruct (Z.ltb_spec (i32_of a b d e) 4); [discriminate|].
  destruct (Z.leb_spec (i32_of a b d e - 4) (blen r)) as [Hle|]; [|discriminate].
  injection H as <- <- <- <-. unfold blen in *.
  assert (Hn : (Z.to_nat (i32_of a b d e - 4) <= length r)%nat) by lia.
  split; [lia|]. split.
  - rewrite firstn_length_le by exact Hn. lia.
  - split.
    + rewrite skipn_length. cbn [length]. lia.
    + exists a, b, d, e. split; [|reflexivity]. rewrite firstn_skipn. reflexivity.
Qed.

(** * get_startup *)
Section Startup.
  Variables (a b c d : byte) (r : bytes).
  Let len := i32_of a b c d.

  Lemma startup_len_lt4 : len < 4 -> fst (get_startup (a :: b :: c :: d :: r)) = SPanic.
  Proof. intros H. cbn [get_startup]. fold len. destruct (Z.ltb_spec len 4); [reflexivity|lia]. Qed.

  Lemma startup_len_lt8 : 4 <= len < 8 -> len - 4 <= blen r -> fst (get_startup (a :: b :: c :: d :: r)) = SPanic.
  Proof.
    intros H H2. cbn [get_startup]. fold len. destruct (Z.ltb_spec len 4); [lia|].
    destruct (Z.leb_spec (len - 4) (blen r)); [|lia].
    assert (Hl : (length (firstn (Z.to_nat (len - 4)) r) <= 3)%nat) by (rewrite firstn_length; lia).
    destruct (firstn (Z.to_nat (len - 4)) r) as [|w [|x [|y [|z ps]]]]; try reflexivity. cbn [length] in Hl. lia.
  Qed.

  Lemma startup_more : 4 <= len -> blen r < len - 4 -> fst (get_startup (a :: b :: c :: d :: r)) = SMore.
  Proof.
    intros H H2. cbn [get_startup]. fold len. destruct (Z.ltb_spec len 4); [lia|].
    destruct (Z.leb_spec (len - 4) (blen r)); [lia|reflexivity].
  Qed.
End Startup.

Lemma startup_short : forall s, (length s < 4)%nat -> fst (get_startup s) = SMore.
Proof. intros s H. do 4 (destruct s as [|? s]; [reflexivity|]). cbn [length] in H. lia. Qed.

Lemma get_startup_rest : forall s x rest, get_startup s = (x, rest) -> x <> SMore -> (length rest < length s)%nat.
Proof.
  intros s x rest H Hx.
  destruct s as [|a [|b [|c [|d r]]]]; try (cbn in H; injection H as <- <-; congruence).
  cbn [get_startup] in H.
  destruct (i32_of a b c d <? 4); [injection H as <- <-; cbn [length]; lia|].
  destruct (i32_of a b c d - 4 <=? blen r); [|injection H as <- <-; congruence].
  assert (Hs : (length (skipn (Z.to_nat (i32_of a b c d - 4)) r) <= length r)%nat) by (rewrite skipn_length; lia).
  destruct (firstn (Z.to_nat (i32_of a b c d - 4)) r) as [|w [|x0 [|y [|z ps]]]];
    try (injection H as <- <-; cbn [length]; lia).
  destruct (i32_of w x0 y z =? SSL_REQUEST_CODE); [injection H as <- <-; cbn [length]; lia|].
  destruct (i32_of w x0 y z =? PROTOCOL_VERSION_NUMBER); [injection H as <- <-; cbn [length]; lia|].
  destruct (i32_of w x0 y z =? CANCEL_REQUEST_CODE); injection H as <- <-; cbn [length]; lia.
Qed.

(** * parse_params (after 5c1953d: no panic is left in it) *)
Lemma params_walk_never_panic : forall fuel s acc, params_walk fuel s acc <> Panic.
Proof.
  induction fuel as [|f IH]; intros s acc; cbn [params_walk]; [discriminate|].
  destruct s as [|x s']; [discriminate|].
  destruct (split0 (x :: s')) as [[name r1]|]; [|discriminate].
  destruct name as [|n0 name']; [discriminate|].
  destruct (split0 r1) as [[v r2]|]; [apply IH|discriminate].
Qed.

Lemma parse_params_never_panic : forall s, parse_params s <> Panic.
Proof.
  intros s. unfold parse_params. pose proof (params_walk_never_panic (S (length s)) s []) as H.
  destruct (params_walk (S (length s)) s []) as [[|p l]| |]; congruence.
Qed.

Lemma parse_params_empty : parse_params [] = Err.
Proof. reflexivity. Qed.

(** a first string without its terminator: Err (it used to run off the end of the buffer) *)
Lemma parse_params_unterminated : forall s, s <> [] -> ~ In 0%N s -> parse_params s = Err.
Proof.
  intros s Hs H. unfold parse_params. cbn [params_walk]. destruct s as [|x s']; [congruence|].
  apply split0_none_no_nul in H. rewrite H. reflexivity.
Qed.

(** a name whose value is cut off: Err as well *)
Lemma parse_params_value_unterminated : forall name v, name <> [] -> ~ In 0%N name -> ~ In 0%N v ->
  parse_params (name ++ 0%N :: v) = Err.
Proof.
  intros name v Hn Hi Hv. unfold parse_params. cbn [params_walk].
  destruct (name ++ 0%N :: v) as [|x s'] eqn:E; [destruct name; discriminate|]. rewrite <- E.
  rewrite split0_app by exact Hi. destruct name as [|n0 name']; [congruence|].
  apply split0_none_no_nul in Hv. rewrite Hv. reflexivity.
Qed.

(** * password message *)
Section Password.
  Variables (chk : bool) (a b d e : byte) (r : bytes).
  Let len := i32_of a b d e.
  Let s := 112%N :: a :: b :: d :: e :: r.

  Lemma pw_len_overflow : len < -2147483644 -> read_password chk s = if chk then PwPanic else PwMore.
  Proof. intros H. subst s. cbn [read_password N.eqb negb]. fold len. destruct (Z.ltb_spec len (-2147483644)); [reflexivity|lia]. Qed.

  Lemma pw_len_small : -2147483644 <= len < 4 -> read_password chk s = PwPanic.
  Proof.
    intros H. subst s. cbn [read_password N.eqb negb]. fold len. destruct (Z.ltb_spec len (-2147483644)); [lia|].
    destruct (Z.ltb_spec len 4); [reflexivity|lia].
  Qed.

  Lemma pw_len_ok : 4 <= len -> len - 4 <= blen r ->
    read_password chk s = PwOk (firstn (Z.to_nat (len - 4)) r) (skipn (Z.to_nat (len - 4)) r).
  Proof.
    intros H H2. subst s. cbn [read_password N.eqb negb]. fold len. destruct (Z.ltb_spec len (-2147483644)); [lia|].
    destruct (Z.ltb_spec len 4); [lia|]. destruct (Z.leb_spec (len - 4) (blen r)); [reflexivity|lia].
  Qed.
End Password.

Lemma pw_bad_code : forall chk c s, c <> 112%N -> read_password chk (c :: s) = PwBadCode.
Proof. intros chk c s H. cbn [read_password]. destruct (N.eqb_spec c 112); [congruence|reflexivity]. Qed.

Lemma read_password_rest : forall chk s resp rest, read_password chk s = PwOk resp rest -> (length rest < length s)%nat.
Proof.
  intros chk s resp rest H. destruct s as [|c [|a [|b [|d [|e r]]]]]; cbn [read_password] in H; try discriminate;
    try (destruct (negb (c =? 112)%N); discriminate).
  destruct (negb (c =? 112)%N); [discriminate|].
  destruct (i32_of a b d e <? -2147483644); [destruct chk; discriminate|].
  destruct (i32_of a b d e <? 4); [discriminate|].
  destruct (i32_of a b d e - 4 <=? blen r); [|discriminate].
  injection H as <- <-. rewrite skipn_length. cbn [length]. lia.
Qed.

(** * Close / Describe *)
Lemma dec_target_name_panic_iff : forall body, dec_target_name body = Panic <-> (length body <= 1)%nat.
Proof.
  intros body. unfold dec_target_name. destruct body as [|k s]; cbn [get_u8 bind length].
  - split; [lia|reflexivity].
  - destruct (read_string s) as [[n r]| |] eqn:E; cbn [bind].
    + split; [discriminate|]. intros H. assert (s = []) by (destruct s; [reflexivity|cbn [length] in H; lia]).
      subst s. discriminate.
    + exfalso. exact (read_string_never_err _ E).
    + apply read_string_panic_iff in E. subst s. split; [cbn; lia|reflexivity].
Qed.

Lemma dec_target_name_never_err : forall body, dec_target_name body <> Err.
Proof.
  intros body. unfold dec_target_name. destruct body as [|k s]; cbn [get_u8 bind]; [discriminate|].
  destruct (read_string s) as [[n r]| |] eqn:E; cbn [bind]; try discriminate. exfalso. exact (read_string_never_err _ E).
Qed.

(** * Parse *)
Lemma get_i32_spec : forall s, (get_i32 s = Panic <-> (length s < 4)%nat) /\ get_i32 s <> Err.
Proof.
  intros s. destruct s as [|a [|b [|c [|d r]]]]; cbn [get_i32 length]; (split; [split; [try lia; try discriminate|try reflexivity; try lia]|discriminate]).
Qed.

Lemma get_n_i32_spec : forall n s,
  (get_n get_i32 n s = Panic <-> (length s < 4 * n)%nat) /\ get_n get_i32 n s <> Err.
Proof.
  induction n as [|n IH]; intros s; cbn [get_n].
  - split; [split; [discriminate|lia]|discriminate].
  - destruct s as [|a [|b [|c [|d r]]]]; cbn [get_i32 bind length];
      try (split; [split; [lia|reflexivity]|discriminate]).
    destruct (IH r) as [[I1 I2] I3].
    destruct (get_n get_i32 n r) as [[l r']| |] eqn:E; cbn [bind].
    + split; [split; [discriminate|]|discriminate]. intros H. assert (Hp : (length r < 4 * n)%nat) by lia. apply I2 in Hp. discriminate.
    + congruence.
    + split; [split; [intros _; assert (length r < 4 * n)%nat by (apply I1; reflexivity); lia|reflexivity]|discriminate].
Qed.

Lemma dec_parse_never_err : forall body, dec_parse body <> Err.
Proof.
  intros body. unfold dec_parse.
  destruct (read_string body) as [[name s1]| |] eqn:E1; cbn [bind]; try discriminate; [|exfalso; exact (read_string_never_err _ E1)].
  destruct (read_string s1) as [[query s2]| |] eqn:E2; cbn [bind]; try discriminate; [|exfalso; exact (read_string_never_err _ E2)].
  destruct s2 as [|x [|y s3]]; cbn [get_i16 bind]; try discriminate.
  destruct (get_n_i32_spec (Z.to_nat (i16_of x y)) s3) as [_ Hn].
  destruct (get_n get_i32 (Z.to_nat (i16_of x y)) s3) as [[tys r]| |]; cbn [bind]; congruence.
Qed.

(** exact prediction for a Parse body [name 0 query 0 count types..]: it decodes iff the
    count's bytes and [4 * max count 0] bytes of types are present *)
Lemma dec_parse_wellformed : forall name query x y rest, ~ In 0%N name -> ~ In 0%N query ->
  let np := i16_of x y in
  dec_parse (name ++ 0%N :: query ++ 0%N :: x :: y :: rest) =
    if (length rest <? 4 * Z.to_nat np)%nat then Panic
    else match get_n get_i32 (Z.to_nat np) rest with
         | Ok (tys, _) => Ok (lossy name, lossy query, np, tys) | _ => Panic end.
Proof.
  intros name query x y rest Hn Hq np. unfold dec_parse.
  rewrite read_string_terminated by exact Hn. cbn [bind].
  rewrite read_string_terminated by exact Hq. cbn [bind get_i16]. fold np.
  destruct (get_n_i32_spec (Z.to_nat np) rest) as [[I1 I2] I3].
  destruct (Nat.ltb_spec (length rest) (4 * Z.to_nat np)) as [Hl|Hl].
  - rewrite (I2 Hl). reflexivity.
  - destruct (get_n get_i32 (Z.to_nat np) rest) as [[tys r]| |] eqn:E; cbn [bind]; try reflexivity. congruence.
Qed.

(** a negative count reads no types at all (the range [0..n] is empty) and then breaks the re-encoder *)
Lemma dec_parse_negative_count : forall name query x y rest, ~ In 0%N name -> ~ In 0%N query -> i16_of x y < 0 ->
  dec_parse (name ++ 0%N :: query ++ 0%N :: x :: y :: rest) = Ok (lossy name, lossy query, i16_of x y, []).
Proof.
  intros name query x y rest Hn Hq Hneg. rewrite dec_parse_wellformed by assumption.
  replace (Z.to_nat (i16_of x y)) with 0%nat by lia. reflexivity.
Qed.

Lemma enc_parse_negative : forall np, np < 0 -> enc_parse true np = Panic /\ enc_parse false np = Ok tt.
Proof. intros np H. unfold enc_parse. destruct (Z.ltb_spec np 0); [split; reflexivity|lia]. Qed.

Lemma enc_parse_nonneg : forall chk np, 0 <= np -> enc_parse chk np = Ok tt.
Proof. intros chk np H. unfold enc_parse. destruct (Z.ltb_spec np 0); [lia|reflexivity]. Qed.

(** truncation: name only / query without count / half a count *)
Lemma dec_parse_empty : dec_parse [] = Panic.
Proof. reflexivity. Qed.
Lemma dec_parse_name_only : forall name, ~ In 0%N name -> dec_parse (name ++ [0%N]) = Panic.
Proof. intros name H. unfold dec_parse. rewrite read_string_terminated by exact H. reflexivity. Qed.
Lemma dec_parse_no_count : forall name query, ~ In 0%N name -> ~ In 0%N query -> dec_parse (name ++ 0%N :: query ++ [0%N]) = Panic.
Proof.
  intros name query Hn Hq. unfold dec_parse. rewrite read_string_terminated by exact Hn. cbn [bind].
  rewrite read_string_terminated by exact Hq. reflexivity.
Qed.
Lemma dec_parse_half_count : forall name query x, ~ In 0%N name -> ~ In 0%N query -> dec_parse (name ++ 0%N :: query ++ [0%N; x]) = Panic.
Proof.
  intros name query x Hn Hq. unfold dec_parse. rewrite read_string_terminated by exact Hn. cbn [bind].
  change (query ++ [0%N; x]) with (query ++ 0%N :: [x]). rewrite read_string_terminated by exact Hq. reflexivity.
Qed.

(** * infer_shard_from_bind *)
Lemma read_formats_negative : forall x y s, i16_of x y < 0 -> read_formats (x :: y :: s) = Panic.
Proof.
  intros x y s H. unfold read_formats. cbn [get_i16 bind].
  destruct (Z.eqb_spec (i16_of x y) 0); [lia|]. destruct (Z.eqb_spec (i16_of x y) 1); [lia|].
  destruct (Z.ltb_spec (i16_of x y) 0); [reflexivity|lia].
Qed.

Lemma fmt_code_spec : forall z, fmt_code z = Panic <-> (z <> 0 /\ z <> 1).
Proof.
  intros z. unfold fmt_code. destruct (Z.eqb_spec z 0); [split; [discriminate|lia]|].
  destruct (Z.eqb_spec z 1); [split; [discriminate|lia]|]. split; [lia|reflexivity].
Qed.

Lemma read_formats_uniform_bad : forall x y u v s, i16_of x y = 1 -> i16_of u v <> 0 -> i16_of u v <> 1 ->
  read_formats (x :: y :: u :: v :: s) = Panic.
Proof.
  intros x y u v s H1 H2 H3. unfold read_formats. cbn [get_i16 bind]. rewrite H1. cbn [Z.eqb Pos.eqb].
  unfold get_fmt. cbn [get_i16 bind]. assert (E : fmt_code (i16_of u v) = Panic) by (apply fmt_code_spec; split; assumption).
  rewrite E. reflexivity.
Qed.

Lemma fmt_at_out_of_range : forall l i, (length l <= i)%nat -> fmt_at (PSpecified l) i = Panic.
Proof. intros l i H. cbn [fmt_at]. apply nth_error_None in H. rewrite H. reflexivity. Qed.

Lemma get_n_fmt_never_err : forall n s, get_n get_fmt n s <> Err.
Proof.
  induction n as [|n IH]; intros s; cbn [get_n]; [discriminate|].
  unfold get_fmt at 1. destruct s as [|u [|v s4]]; cbn [get_i16 bind]; try discriminate.
  unfold fmt_code. destruct (i16_of u v =? 0); cbn [bind].
  - specialize (IH s4). destruct (get_n get_fmt n s4) as [[? ?]| |]; cbn [bind]; congruence.
  - destruct (i16_of u v =? 1); cbn [bind]; [|discriminate].
    specialize (IH s4). destruct (get_n get_fmt n s4) as [[? ?]| |]; cbn [bind]; congruence.
Qed.

Lemma read_formats_never_err : forall s, read_formats s <> Err.
Proof.
  intros s. unfold read_formats. destruct s as [|x [|y s3]]; cbn [get_i16 bind]; try discriminate.
  destruct (i16_of x y =? 0); [discriminate|]. destruct (i16_of x y =? 1).
  - unfold get_fmt. destruct s3 as [|u [|v s4]]; cbn [get_i16 bind]; try discriminate.
    unfold fmt_code. destruct (i16_of u v =? 0); cbn [bind]; [discriminate|]. destruct (i16_of u v =? 1); cbn [bind]; discriminate.
  - destruct (i16_of x y <? 0); [discriminate|].
    pose proof (get_n_fmt_never_err (Z.to_nat (i16_of x y)) s3) as G.
    destruct (get_n get_fmt (Z.to_nat (i16_of x y)) s3) as [[? ?]| |]; cbn [bind]; congruence.
Qed.

Lemma bind_params_never_err : forall ph f count i s, bind_params ph f i count s <> Err.
Proof.
  intros ph f. induction count as [|k IH]; intros i s; cbn [bind_params]; [discriminate|].
  destruct s as [|a [|b [|c [|d s5]]]]; cbn [get_i32 bind]; try discriminate.
  assert (Hfa : fmt_at f i <> Err) by (destruct f; cbn [fmt_at]; try discriminate; destruct (nth_error l i); discriminate).
  destruct (fmt_at f i) as [bb| |]; cbn [bind]; try discriminate; [|congruence].
  destruct (in_ph ph i); [|apply IH].
  destruct bb.
  - destruct ((Z.max (i32_of a b c d) 0 =? 2) || (Z.max (i32_of a b c d) 0 =? 4) || (Z.max (i32_of a b c d) 0 =? 8))%bool; [|apply IH].
    unfold take_exact. destruct (Z.max (i32_of a b c d) 0 <=? blen s5); cbn [bind]; [apply IH|discriminate].
  - unfold take_exact. destruct (Z.max (i32_of a b c d) 0 <=? blen s5); cbn [bind]; [apply IH|discriminate].
Qed.

Lemma infer_bind_never_err : forall ph body, infer_bind ph body <> Err.
Proof.
  intros ph body. unfold infer_bind.
  destruct (read_string body) as [[? s1]| |] eqn:E1; cbn [bind]; try discriminate; [|exfalso; exact (read_string_never_err _ E1)].
  destruct (read_string s1) as [[? s2]| |] eqn:E2; cbn [bind]; try discriminate; [|exfalso; exact (read_string_never_err _ E2)].
  pose proof (read_formats_never_err s2) as Hf.
  destruct (read_formats s2) as [[f s3]| |]; cbn [bind]; try discriminate; [|congruence].
  destruct s3 as [|x [|y s4]]; cbn [get_i16 bind]; try discriminate.
  apply bind_params_never_err.
Qed.

(** * try_execute_command, admin *)
Lemma tec_regex_len4 : forall code body, (code = 80 \/ code = 81)%N -> tec_prefix true code 4 body = Panic.
Proof. intros code body [-> | ->]; reflexivity. Qed.

Lemma tec_query_empty : forall regex len, tec_prefix regex 81%N len [] = Panic.
Proof. intros regex len. unfold tec_prefix. cbn. destruct (regex && true && (len =? 4))%bool; reflexivity. Qed.

Lemma tec_not_query : forall code len body, code <> 81%N -> code <> 80%N -> forall regex, tec_prefix regex code len body = Ok None.
Proof.
  intros code len body H1 H2 regex. unfold tec_prefix.
  destruct (N.eqb_spec code 80); [congruence|]. destruct (N.eqb_spec code 81); [congruence|].
  cbn [orb andb negb]. rewrite andb_false_r. reflexivity.
Qed.

Lemma tec_never_err : forall regex code len body, tec_prefix regex code len body <> Err.
Proof.
  intros. unfold tec_prefix. destruct (regex && _ && _)%bool; [discriminate|]. destruct (negb _); [discriminate|].
  destruct (read_string body) as [[? ?]| |] eqn:E; cbn [bind]; try discriminate. exfalso. exact (read_string_never_err _ E).
Qed.

Lemma admin_prefix_spec : forall code len,
  admin_prefix code len = (if negb (code =? 81)%N then Err else if len =? 4 then Panic else Ok tt).
Proof. reflexivity. Qed.

(** * Steps always consume input *)
Definition sout_rest (so : sout) : option bytes :=
  match so with SNeed => None | SDone _ _ _ _ r => Some r end.

Lemma forward_rest : forall pre intx c held obs rest, sout_rest (forward pre intx c held obs rest) = Some rest.
Proof. intros. unfold forward. destruct obs; [reflexivity|]. destruct (after_reply intx false c z). reflexivity. Qed.

Lemma txn_msg_rest : forall o copy ext intx c pre code len body obs rest first,
  sout_rest (txn_msg o copy ext intx c pre code len body obs rest first) = Some rest.
Proof.
  intros. unfold txn_msg, forward, done_local, done_z, done_end.
  repeat match goal with
         | |- sout_rest (match ?x with _ => _ end) = _ => destruct x eqn:?
         | |- sout_rest (if ?x then _ else _) = _ => destruct x eqn:?
         | |- sout_rest (let '(_, _) := ?x in _) = _ => destruct x eqn:?
         end; reflexivity.
Qed.

Lemma idle_msg_rest : forall o c code len body obs rest, sout_rest (idle_msg o c code len body obs rest) = Some rest.
Proof.
  intros. unfold idle_msg, done_local, done_z, done_end.
  repeat match goal with
         | |- sout_rest (txn_msg _ _ _ _ _ _ _ _ _ _ _ _) = _ => apply txn_msg_rest
         | |- sout_rest (match ?x with _ => _ end) = _ => destruct x eqn:?
         | |- sout_rest (if ?x then _ else _) = _ => destruct x eqn:?
         end; try reflexivity.
Qed.

Lemma admin_msg_rest : forall o code len body obs rest, sout_rest (admin_msg o code len body obs rest) = Some rest.
Proof.
  intros. unfold admin_msg, done_z, done_end.
  repeat match goal with
         | |- sout_rest (match ?x with _ => _ end) = _ => destruct x eqn:?
         | |- sout_rest (if ?x then _ else _) = _ => destruct x eqn:?
         end; reflexivity.
Qed.

Lemma startup_msg_rest : forall o ps obs rest, sout_rest (startup_msg o ps obs rest) = Some rest.
Proof.
  intros. unfold startup_msg, done_local, done_z, done_end.
  repeat match goal with
         | |- sout_rest (match ?x with _ => _ end) = _ => destruct x eqn:?
         | |- sout_rest (if ?x then _ else _) = _ => destruct x eqn:?
         end; reflexivity.
Qed.

Lemma tl_shorter : forall (s : bytes), s <> [] -> (length (tl s) < length s)%nat.
Proof. intros [|x s] H; [congruence|cbn; lia]. Qed.

Lemma step_progress : forall o st s obs nx e z obs' rest,
  s <> [] -> step o st s obs = SDone nx e z obs' rest -> (length rest < length s)%nat.
Proof.
  intros o st s obs nx e z obs' rest Hs H.
  assert (Hfr : forall k, (match read_frame (o_chk o) s with
                           | FMore => SNeed
                           | FErr => done_end HErr (fst k) obs (tl s)
                           | FPanic => done_end HPanic (snd k) obs (tl s)
                           | FOk code len body rest0 => SNeed end) = SNeed \/ True) by (intros; right; exact I).
  clear Hfr.
  destruct st; cbn [step] in H.
  - (* PreStartup *)
    destruct (get_startup s) as [x r0] eqn:G.
    assert (Hr : x <> SMore -> (length r0 < length s)%nat) by (apply get_startup_rest; exact G).
    destruct x; try discriminate.
    + pose proof (startup_msg_rest o params obs r0) as R. rewrite H in R. injection R as <-. apply Hr. discriminate.
    + unfold done_local in H. injection H as <- <- <- <- <-. apply Hr. discriminate.
    + destruct rest0 as [|? [|? [|? [|? [|? [|? [|? [|? ?]]]]]]]]; unfold done_end in H; injection H as <- <- <- <- <-; apply Hr; discriminate.
    + unfold done_end in H. injection H as <- <- <- <- <-. apply Hr. discriminate.
    + unfold done_end in H. injection H as <- <- <- <- <-. apply Hr. discriminate.
  - (* AfterSslN *)
    destruct (get_startup s) as [x r0] eqn:G.
    assert (Hr : x <> SMore -> (length r0 < length s)%nat) by (apply get_startup_rest; exact G).
    destruct x; try discriminate.
    + pose proof (startup_msg_rest o params obs r0) as R. rewrite H in R. injection R as <-. apply Hr. discriminate.
    + unfold done_end in H. injection H as <- <- <- <- <-. apply Hr. discriminate.
    + unfold done_end in H. injection H as <- <- <- <- <-. apply Hr. discriminate.
    + unfold done_end in H. injection H as <- <- <- <- <-. apply Hr. discriminate.
    + unfold done_end in H. injection H as <- <- <- <- <-. apply Hr. discriminate.
  - (* AwaitPw *)
    destruct (read_password (o_chk o) s) eqn:P; try discriminate.
    + apply read_password_rest in P.
      destruct (beq_bytes resp _); unfold done_z, done_end in H; injection H as <- <- <- <- <-; exact P.
    + unfold done_end in H. injection H as <- <- <- <- <-. apply tl_shorter. exact Hs.
    + unfold done_end in H. injection H as <- <- <- <- <-. apply tl_shorter. exact Hs.
  - (* Idle *)
    destruct (read_frame (o_chk o) s) eqn:F; try discriminate.
    + apply frame_ok_inv in F. destruct F as (_ & _ & Hl & _).
      pose proof (idle_msg_rest o c code len body obs rest0) as R. rewrite H in R. injection R as <-. lia.
    + unfold done_end in H. injection H as <- <- <- <- <-. apply tl_shorter. exact Hs.
    + unfold done_end in H. injection H as <- <- <- <- <-. apply tl_shorter. exact Hs.
  - (* InTxn *)
    destruct (read_frame (o_chk o) s) eqn:F; try discriminate.
    + apply frame_ok_inv in F. destruct F as (_ & _ & Hl & _).
      pose proof (txn_msg_rest o false false intx c [] code len body obs rest0 false) as R. rewrite H in R. injection R as <-. lia.
    + unfold done_end in H. injection H as <- <- <- <- <-. apply tl_shorter. exact Hs.
    + unfold done_end in H. injection H as <- <- <- <- <-. apply tl_shorter. exact Hs.
  - (* InCopy *)
    destruct (read_frame (o_chk o) s) eqn:F; try discriminate.
    + apply frame_ok_inv in F. destruct F as (_ & _ & Hl & _).
      pose proof (txn_msg_rest o true ext intx c [] code len body obs rest0 false) as R. rewrite H in R. injection R as <-. lia.
    + unfold done_end in H. injection H as <- <- <- <- <-. apply tl_shorter. exact Hs.
    + unfold done_end in H. injection H as <- <- <- <- <-. apply tl_shorter. exact Hs.
  - (* AdminIdle *)
    destruct (read_frame (o_chk o) s) eqn:F; try discriminate.
    + apply frame_ok_inv in F. destruct F as (_ & _ & Hl & _).
      pose proof (admin_msg_rest o code len body obs rest0) as R. rewrite H in R. injection R as <-. lia.
    + unfold done_end in H. injection H as <- <- <- <- <-. apply tl_shorter. exact Hs.
    + unfold done_end in H. injection H as <- <- <- <- <-. apply tl_shorter. exact Hs.
Qed.

(** * Totality: the fuel [S (length s)] is always enough *)
Lemma run_fuel_total : forall fuel o st s obs effs zp,
  (length s < fuel)%nat -> r_fin (run_fuel fuel o st s obs effs zp) <> FStuck.
Proof.
  induction fuel as [|f IH]; intros o st s obs effs zp Hl; [lia|].
  cbn [run_fuel]. destruct s as [|x s']; [cbn; discriminate|].
  destruct (step o st (x :: s') obs) as [|nx e z obs' rest] eqn:S1; [cbn; discriminate|].
  assert (Hp : (length rest < length (x :: s'))%nat) by (eapply step_progress; [discriminate|exact S1]).
  destruct nx; [|cbn; discriminate|cbn; discriminate].
  apply IH. lia.
Qed.

Lemma handle_bytes_total : forall o st s obs, r_fin (handle_bytes o st s obs) <> FStuck.
Proof. intros. unfold handle_bytes. apply run_fuel_total. lia. Qed.

(** more fuel changes nothing (so [handle_bytes] is THE result of the step relation) *)
Lemma run_fuel_mono : forall f1 f2 o st s obs effs zp,
  (length s < f1)%nat -> (f1 <= f2)%nat -> run_fuel f2 o st s obs effs zp = run_fuel f1 o st s obs effs zp.
Proof.
  induction f1 as [|f1 IH]; intros f2 o st s obs effs zp Hl Hle; [lia|].
  destruct f2 as [|f2]; [lia|]. cbn [run_fuel]. destruct s as [|x s']; [reflexivity|].
  destruct (step o st (x :: s') obs) as [|nx e z obs' rest] eqn:S1; [reflexivity|].
  assert (Hp : (length rest < length (x :: s'))%nat) by (eapply step_progress; [discriminate|exact S1]).
  destruct nx; try reflexivity. apply IH; lia.
Qed.

(** * The effect log agrees with the state about holding a server *)
Definition eff_hold (h : bool) (f : eff) : bool :=
  match f with FxCheckout => true | FxRelease | FxCleanupOnEof | FxDropHeld => false | _ => h end.
Definition holding (h0 : bool) (effs : list eff) : bool := fold_left eff_hold effs h0.

Definition is_reply (f : eff) : bool := match f with FxReply _ => true | _ => false end.

Lemma holding_app : forall h a b, holding h (a ++ b) = holding (holding h a) b.
Proof. intros. unfold holding. apply fold_left_app. Qed.

Lemma holding_replies : forall q h, forallb is_reply q = true -> holding h q = h.
Proof.
  induction q as [|f q IH]; intros h H; [reflexivity|]. cbn [forallb] in H. apply andb_prop in H. destruct H as [Hf Hq].
  unfold holding. cbn [fold_left]. destruct f; try discriminate. cbn [eff_hold]. apply IH. exact Hq.
Qed.

Lemma sync_walk_replies : forall cache xs fwd q fwd' q',
  sync_walk cache xs fwd q = (fwd', q') -> forallb is_reply q = true -> forallb is_reply q' = true.
Proof.
  induction xs as [|x xs IH]; intros fwd q fwd' q' H Hq; cbn [sync_walk] in H.
  - injection H as <- <-. exact Hq.
  - destruct x as [| m | m | | k n]; try (eapply IH; eassumption).
    destruct (cache && (k =? 83)%N && negb match n with [] => true | _ :: _ => false end)%bool.
    + eapply IH; [eassumption|]. rewrite forallb_app. rewrite Hq. reflexivity.
    + eapply IH; eassumption.
Qed.

(** With statement caching on, a Close of a NAMED statement never goes to the server: whatever name the sender puts
    in it (its own, another client's, the pooler's PGCAT_n), the statements a backend session holds are not the
    sender's to close.  A batch made of such Closes only is answered by the pooler (nothing is forwarded). *)
Definition named_close (x : xitem) : bool :=
  match x with XClose k (_ :: _) => (k =? 83)%N | _ => false end.

Lemma sync_walk_named_closes : forall xs fwd q, forallb named_close xs = true ->
  fst (sync_walk true xs fwd q) = fwd /\ forallb is_reply (snd (sync_walk true xs fwd q)) = forallb is_reply q.
Proof.
  induction xs as [|x xs IH]; intros fwd q H; cbn [sync_walk]; [split; reflexivity|].
  cbn [forallb] in H. apply andb_prop in H. destruct H as [Hx Hxs].
  destruct x as [| m | m | | k n]; try discriminate. destruct n as [|n0 n']; [discriminate|].
  cbn [named_close] in Hx. rewrite Hx. cbn [andb negb].
  destruct (IH fwd (q ++ [FxReply RQueued]) Hxs) as [I1 I2]. split; [exact I1|].
  rewrite I2, forallb_app. cbn. rewrite andb_true_r. reflexivity.
Qed.

Lemma named_closes_local : forall xs, forallb named_close xs = true -> fst (sync_walk true xs false []) = false.
Proof. intros xs H. exact (proj1 (sync_walk_named_closes xs false [] H)). Qed.

Definition balanced (h0 : bool) (so : sout) : Prop :=
  match so with
  | SNeed => True
  | SDone (NCont st') e _ _ _ => holding h0 e = holds st'
  | SDone (NBlocked st') e _ _ _ => holding h0 e = holds st' /\ holds st' = true
  | SDone (NEnd _) e _ _ _ => holding h0 e = false
  end.

Ltac hold_tac H :=
  cbn [balanced holds]; rewrite ?holding_app; rewrite ?H; try reflexivity; try (split; reflexivity).

Lemma txn_msg_balanced : forall o copy ext intx c pre code len body obs rest first h0,
  holding h0 pre = true -> balanced h0 (txn_msg o copy ext intx c pre code len body obs rest first).
Proof.
  intros o copy ext intx c pre code len body obs rest first h0 H.
  destruct copy;
  unfold txn_msg, forward, done_local, done_z, done_end; cbn [andb negb];
  repeat match goal with
         | |- balanced _ (let '(_, _) := sync_walk ?a ?b ?c ?d in _) => destruct (sync_walk a b c d) as [? ?] eqn:SW
         | |- balanced _ (match ?x with _ => _ end) => destruct x eqn:?
         | |- balanced _ (if ?x then _ else _) => destruct x eqn:?
         | |- balanced _ (let '(_, _) := ?x in _) => destruct x eqn:?
         end;
    try (match goal with Hh : after_reply _ _ _ ?z = _ |- _ => destruct z; cbn [after_reply] in Hh; injection Hh as <- <- end);
    try (pose proof (sync_walk_replies _ _ _ _ _ _ SW eq_refl) as HQ);
    cbn [balanced holds]; rewrite ?holding_app; rewrite ?H; try rewrite (holding_replies _ _ HQ);
    try reflexivity; try (split; reflexivity).
Qed.

Lemma idle_msg_balanced : forall o c code len body obs rest, balanced false (idle_msg o c code len body obs rest).
Proof.
  intros. unfold idle_msg, done_local, done_z, done_end.
  repeat match goal with
         | |- balanced _ (txn_msg _ _ _ _ _ _ _ _ _ _ _ _) => apply txn_msg_balanced; reflexivity
         | |- balanced _ (match ?x with _ => _ end) => destruct x eqn:?
         | |- balanced _ (if ?x then _ else _) => destruct x eqn:?
         end; try reflexivity.
Qed.

Lemma step_balanced : forall o st s obs, balanced (holds st) (step o st s obs).
Proof.
  intros o st s obs. destruct st; cbn [step holds].
  - destruct (get_startup s) as [x r0]. destruct x; try exact I; try reflexivity.
    + unfold startup_msg, done_local, done_z, done_end.
      repeat match goal with
             | |- balanced _ (match ?x with _ => _ end) => destruct x eqn:?
             | |- balanced _ (if ?x then _ else _) => destruct x eqn:?
             end; reflexivity.
    + destruct rest as [|? [|? [|? [|? [|? [|? [|? [|? ?]]]]]]]]; reflexivity.
  - destruct (get_startup s) as [x r0]. destruct x; try exact I; try reflexivity.
    unfold startup_msg, done_local, done_z, done_end.
    repeat match goal with
           | |- balanced _ (match ?x with _ => _ end) => destruct x eqn:?
           | |- balanced _ (if ?x then _ else _) => destruct x eqn:?
           end; reflexivity.
  - destruct (read_password (o_chk o) s); try exact I; try reflexivity.
    destruct (beq_bytes resp _); [destruct admin|]; reflexivity.
  - destruct (read_frame (o_chk o) s); try exact I; try reflexivity. apply idle_msg_balanced.
  - destruct (read_frame (o_chk o) s); try exact I; try reflexivity. apply txn_msg_balanced. reflexivity.
  - destruct (read_frame (o_chk o) s); try exact I; try reflexivity. apply txn_msg_balanced. reflexivity.
  - destruct (read_frame (o_chk o) s); try exact I; try reflexivity.
    unfold admin_msg, done_z, done_end.
    repeat match goal with
           | |- balanced _ (match ?x with _ => _ end) => destruct x eqn:?
           | |- balanced _ (if ?x then _ else _) => destruct x eqn:?
           end; reflexivity.
Qed.

Definition fin_balanced (h0 : bool) (r : rres) : Prop :=
  match r_fin r with
  | FCont st' | FNeed st' _ => holding h0 (r_effs r) = holds st'
  | FBlocked st' => holding h0 (r_effs r) = true /\ holds st' = true
  | FEnd _ => holding h0 (r_effs r) = false
  | FStuck => True
  end.

Lemma run_fuel_balanced : forall fuel o st s obs effs zp h0,
  holding h0 effs = holds st -> fin_balanced h0 (run_fuel fuel o st s obs effs zp).
Proof.
  induction fuel as [|f IH]; intros o st s obs effs zp h0 H; cbn [run_fuel]; [exact I|].
  destruct s as [|x s']; [exact H|].
  pose proof (step_balanced o st (x :: s') obs) as B.
  destruct (step o st (x :: s') obs) as [|nx e z obs' rest]; [exact H|].
  destruct nx as [st'|h|st']; cbn [balanced] in B.
  - apply IH. rewrite holding_app, H. exact B.
  - unfold fin_balanced. cbn [r_fin r_effs]. rewrite holding_app, H. exact B.
  - unfold fin_balanced. cbn [r_fin r_effs]. rewrite holding_app, H. destruct B as [B1 B2]. rewrite B1. split; assumption.
Qed.

Lemma handle_bytes_balanced : forall o st s obs, fin_balanced (holds st) (handle_bytes o st s obs).
Proof. intros. unfold handle_bytes. apply run_fuel_balanced. reflexivity. Qed.

(** * A step blocks only when the server stays silent, or in the known class F21c *)
Definition blocked_reason (st : pstate) (obs : list zrep) (so : sout) : Prop :=
  match so with
  | SDone (NBlocked _) _ _ _ _ => obs = [] \/ exists i c, st = InCopy i true c
  | _ => True
  end.

Lemma txn_msg_blocked : forall o copy ext intx c pre code len body obs rest first,
  match txn_msg o copy ext intx c pre code len body obs rest first with
  | SDone (NBlocked _) _ _ _ _ => obs = [] \/ (copy = true /\ ext = true)
  | _ => True end.
Proof.
  intros. unfold txn_msg, forward, done_local, done_z, done_end.
  repeat match goal with
         | |- match (match ?x with _ => _ end) with _ => _ end => destruct x eqn:?
         | |- match (if ?x then _ else _) with _ => _ end => destruct x eqn:?
         | |- match (let '(_, _) := ?x in _) with _ => _ end => destruct x eqn:?
         end;
    try (match goal with Hh : after_reply _ _ _ ?z = _ |- _ => destruct z; cbn [after_reply] in Hh; injection Hh as <- <- end);
    try exact I; try (left; reflexivity);
    try (right; match goal with Hc : (?a && ?b)%bool = true |- _ => apply andb_prop in Hc; destruct Hc; split; assumption end).
Qed.

Lemma step_blocked : forall o st s obs, blocked_reason st obs (step o st s obs).
Proof.
  intros o st s obs. destruct st; cbn [step].
  - destruct (get_startup s) as [x r0]. destruct x; try exact I.
    + unfold startup_msg, done_local, done_z, done_end.
      repeat match goal with
             | |- blocked_reason _ _ (match ?x with _ => _ end) => destruct x eqn:?
             | |- blocked_reason _ _ (if ?x then _ else _) => destruct x eqn:?
             end; exact I.
    + destruct rest as [|? [|? [|? [|? [|? [|? [|? [|? ?]]]]]]]]; exact I.
  - destruct (get_startup s) as [x r0]. destruct x; try exact I.
    unfold startup_msg, done_local, done_z, done_end.
    repeat match goal with
           | |- blocked_reason _ _ (match ?x with _ => _ end) => destruct x eqn:?
           | |- blocked_reason _ _ (if ?x then _ else _) => destruct x eqn:?
           end; exact I.
  - destruct (read_password (o_chk o) s); try exact I. destruct (beq_bytes resp _); exact I.
  - destruct (read_frame (o_chk o) s); try exact I.
    unfold idle_msg, done_local, done_z, done_end.
    repeat match goal with
           | |- blocked_reason _ _ (txn_msg ?o ?a ?b ?c ?d ?e ?f ?g ?h ?i ?j ?k) =>
             pose proof (txn_msg_blocked o a b c d e f g h i j k) as TB; destruct (txn_msg o a b c d e f g h i j k) as [|[| |] ? ? ? ?]; try exact I;
             cbn [blocked_reason]; destruct TB as [TB|[TB _]]; [left; exact TB|discriminate]
           | |- blocked_reason _ _ (match ?x with _ => _ end) => destruct x eqn:?
           | |- blocked_reason _ _ (if ?x then _ else _) => destruct x eqn:?
           end; try exact I.
  - destruct (read_frame (o_chk o) s); try exact I.
    pose proof (txn_msg_blocked o false false intx c [] code len body obs rest false) as TB.
    destruct (txn_msg o false false intx c [] code len body obs rest false) as [|[| |] ? ? ? ?]; try exact I.
    cbn [blocked_reason]. destruct TB as [TB|[TB _]]; [left; exact TB|discriminate].
  - destruct (read_frame (o_chk o) s); try exact I.
    pose proof (txn_msg_blocked o true ext intx c [] code len body obs rest false) as TB.
    destruct (txn_msg o true ext intx c [] code len body obs rest false) as [|[| |] ? ? ? ?]; try exact I.
    cbn [blocked_reason]. destruct TB as [TB|[_ TB]]; [left; exact TB|]. right. subst ext. exists intx, c. reflexivity.
  - destruct (read_frame (o_chk o) s); try exact I.
    unfold admin_msg, done_z, done_end.
    repeat match goal with
           | |- blocked_reason _ _ (match ?x with _ => _ end) => destruct x eqn:?
           | |- blocked_reason _ _ (if ?x then _ else _) => destruct x eqn:?
           end; exact I.
Qed.

(** * Before authentication *)
Definition harmless (f : eff) : bool := match f with FxReply _ | FxCancel => true | _ => false end.
Definition is_register (f : eff) : bool := match f with FxRegister => true | _ => false end.

(** The credentials check, stated on its own: when does ONE pre-auth step authenticate? *)
Definition startup_auth_ok (o : opts) (ps : bytes) : bool :=
  match parse_params ps with
  | Ok kv =>
    match lookup_last s_user kv None with
    | Some user =>
      let db := match lookup_last s_database kv None with Some d => d | None => user end in
      if is_admin_db db then o_admin_trust o
      else beq_bytes db (o_db o) && beq_bytes user (o_user o) && o_user_trust o
    | None => false
    end
  | _ => false
  end.

Definition auth_ok (o : opts) (st : pstate) (s : bytes) : bool :=
  match st with
  | PreStartup | AfterSslN => match get_startup s with (SStartup ps, _) => startup_auth_ok o ps | _ => false end
  | AwaitPw adm => match read_password (o_chk o) s with
                   | PwOk resp _ => beq_bytes resp (if adm then o_pw_admin o else o_pw_user o) | _ => false end
  | _ => false
  end.

Definition preauth_ok (auth : bool) (so : sout) : Prop :=
  match so with
  | SNeed => True
  | SDone nx e _ _ _ =>
    (auth = false /\ forallb harmless e = true /\
     match nx with NCont st' => preauth st' = true | NEnd _ => True | NBlocked _ => False end)
    \/ (auth = true /\ e = [FxReply RAuthOk; FxRegister] /\ exists st', nx = NCont st' /\ preauth st' = false)
  end.

Lemma startup_msg_preauth : forall o ps obs rest, preauth_ok (startup_auth_ok o ps) (startup_msg o ps obs rest).
Proof.
  intros. unfold startup_msg, startup_auth_ok, done_local, done_z, done_end.
  destruct (parse_params ps) as [kv| |]; [|left; repeat split; reflexivity|left; repeat split; reflexivity].
  destruct (lookup_last s_user kv None) as [user|]; [|left; repeat split; reflexivity].
  destruct (is_admin_db _).
  - destruct (o_admin_trust o); [right; repeat split; eexists; split; reflexivity|left; repeat split; reflexivity].
  - destruct (beq_bytes _ (o_db o) && beq_bytes user (o_user o))%bool; cbn [andb].
    + destruct (o_user_trust o); [right; repeat split; eexists; split; reflexivity|left; repeat split; reflexivity].
    + left; repeat split; reflexivity.
Qed.

Lemma step_preauth : forall o st s obs, preauth st = true -> preauth_ok (auth_ok o st s) (step o st s obs).
Proof.
  intros o st s obs Hp. destruct st; try discriminate; cbn [step auth_ok].
  - destruct (get_startup s) as [x r0]. destruct x; try exact I; try (left; repeat split; reflexivity).
    + apply startup_msg_preauth.
    + destruct rest as [|? [|? [|? [|? [|? [|? [|? [|? ?]]]]]]]]; left; repeat split; reflexivity.
  - destruct (get_startup s) as [x r0]. destruct x; try exact I; try (left; repeat split; reflexivity).
    apply startup_msg_preauth.
  - destruct (read_password (o_chk o) s); try exact I; try (left; repeat split; reflexivity).
    destruct (beq_bytes resp _); [|left; repeat split; reflexivity].
    right. repeat split. destruct admin; eexists; split; reflexivity.
Qed.

Fixpoint before_register (l : list eff) : list eff :=
  match l with [] => [] | FxRegister :: _ => [] | f :: r => f :: before_register r end.

Lemma before_register_harmless : forall a b, forallb harmless a = true -> before_register (a ++ b) = a ++ before_register b.
Proof.
  induction a as [|f a IH]; intros b H; [reflexivity|]. cbn [forallb] in H. apply andb_prop in H. destruct H as [Hf Ha].
  cbn [app before_register]. destruct f; try discriminate; rewrite IH by exact Ha; reflexivity.
Qed.

Lemma run_fuel_effs_prefix : forall fuel o st s obs effs zp, exists more, r_effs (run_fuel fuel o st s obs effs zp) = effs ++ more.
Proof.
  induction fuel as [|f IH]; intros; cbn [run_fuel]; [exists []; cbn; rewrite app_nil_r; reflexivity|].
  destruct s as [|x s']; [exists []; cbn; rewrite app_nil_r; reflexivity|].
  destruct (step o st (x :: s') obs) as [|nx e z obs' rest]; [exists []; cbn; rewrite app_nil_r; reflexivity|].
  destruct nx.
  - destruct (IH o st0 rest obs' (effs ++ e) (zp ++ z)) as [m Hm]. exists (e ++ m). rewrite Hm, app_assoc. reflexivity.
  - exists e. reflexivity.
  - exists e. reflexivity.
Qed.

Definition fin_preauth (r : rres) : Prop :=
  match r_fin r with FCont st' | FNeed st' _ => preauth st' = true | FEnd _ => True | FBlocked _ => False | FStuck => True end.

(** all effects up to the first [FxRegister] are replies to the sender or a cancel-map lookup, and
    without an [FxRegister] the run never leaves the pre-auth states *)
Lemma run_fuel_preauth : forall fuel o st s obs effs zp,
  preauth st = true -> forallb harmless effs = true ->
  let r := run_fuel fuel o st s obs effs zp in
  forallb harmless (before_register (r_effs r)) = true /\
  (existsb is_register (r_effs r) = false -> fin_preauth r).
Proof.
  induction fuel as [|f IH]; intros o st s obs effs zp Hp He; cbn [run_fuel].
  - cbn [r_effs r_fin]. split.
    + rewrite <- (app_nil_r effs). rewrite before_register_harmless by exact He. cbn. rewrite app_nil_r. exact He.
    + intros _. exact I.
  - assert (Hbase : forallb harmless (before_register effs) = true).
    { rewrite <- (app_nil_r effs). rewrite before_register_harmless by exact He. cbn. rewrite app_nil_r. exact He. }
    destruct s as [|x s']; [cbn [r_effs r_fin]; split; [exact Hbase|intros _; exact Hp]|].
    pose proof (step_preauth o st (x :: s') obs Hp) as SP.
    destruct (step o st (x :: s') obs) as [|nx e z obs' rest]; [cbn [r_effs r_fin]; split; [exact Hbase|intros _; exact Hp]|].
    cbn [preauth_ok] in SP. destruct SP as [(_ & Hh & Hn)|(_ & -> & st' & -> & Hst')].
    + assert (Hall : forallb harmless (effs ++ e) = true) by (rewrite forallb_app, He, Hh; reflexivity).
      destruct nx as [st'|h|st'].
      * apply IH; assumption.
      * cbn [r_effs r_fin]. split; [|intros _; exact I].
        rewrite <- (app_nil_r (effs ++ e)). rewrite before_register_harmless by exact Hall. cbn. rewrite app_nil_r. exact Hall.
      * destruct Hn.
    + destruct (run_fuel_effs_prefix f o st' rest obs' (effs ++ [FxReply RAuthOk; FxRegister]) (zp ++ z)) as [m Hm].
      rewrite Hm. split.
      * replace ((effs ++ [FxReply RAuthOk; FxRegister]) ++ m) with ((effs ++ [FxReply RAuthOk]) ++ FxRegister :: m)
          by (rewrite <- !app_assoc; reflexivity).
        rewrite before_register_harmless by (rewrite forallb_app, He; reflexivity). cbn [before_register]. rewrite app_nil_r.
        rewrite forallb_app, He. reflexivity.
      * intros Hx. rewrite !existsb_app in Hx. cbn in Hx. rewrite orb_true_r in Hx. cbn in Hx. discriminate.
Qed.

Lemma handle_bytes_preauth : forall o st s obs, preauth st = true ->
  let r := handle_bytes o st s obs in
  forallb harmless (before_register (r_effs r)) = true /\
  (existsb is_register (r_effs r) = false -> fin_preauth r).
Proof. intros o st s obs H. exact (run_fuel_preauth (S (length s)) o st s obs [] [] H eq_refl). Qed.
