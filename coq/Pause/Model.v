(** C16 — PAUSE holds new transactions and RESUME releases every one of them.

    Interleaving model of the pause gate of one pool.  Definitions only (executable);
    proofs are in Proofs.v, the mutants in Mutants.v.

    Code modelled (read line by line, /repo at the checked tree):

    src/pool.rs:299-301   [paused : Arc<AtomicBool>], [paused_waiter : Arc<Notify>]
    src/pool.rs:593-594   a new pool starts with [paused = false] and a fresh [Notify]
    src/pool.rs:681-683   [pause]:  [paused.store(true, Relaxed)]                        = APause
    src/pool.rs:686-691   [resume]: [paused.store(false, Relaxed)]                       = AStore
                                    [paused_waiter.notify_waiters()]                     = ANotify
    src/pool.rs:694-696   [paused()]: [paused.load(Relaxed)] (SHOW POOLS, the harness' probe)
    src/pool.rs:699-712   [wait_paused]:
                            [let waiter = self.paused_waiter.notified();]                = CReg
                            [let paused = self.paused.load(Relaxed);]                    = CLoad
                            [if paused { waiter.await }]                                 = CDecide, then CWake
                            (no loop: [paused] is read exactly once per call)
    src/client.rs [Client::handle], "Check if the pool is paused and wait until it's resumed":
                            before each checkout the client task does
                            [pool = self.get_pool().await?; pool.wait_paused().await;
                             pool = self.get_pool().await?; query_router.update_pool_settings(..);
                             self.transaction_mode = ..] and then [pool.get(..)]: one gate passage per
                            checkout, on the pool object that is REGISTERED at that moment;
                            everything after the call is "past the gate" ([Passed]) until the
                            transaction ends and the server is checked in (CDone; a session-mode
                            client keeps its server and never passes the gate again), after which
                            the next client message starts over at CReg.
                            RELOAD replacing / removing / re-adding the pool object is modelled in
                            ReloadModel.v (the lookup before the wait is its [resolve = true]).
    src/admin.rs:819-941  [PAUSE] / [RESUME] call [pool.pause()] / [pool.resume()] on every pool of
                            [get_all_pools()] in a loop, [PAUSE db,user] / [RESUME db,user] on the
                            one pool [get_pool(db,user)].  Each pool owns its own [paused] flag and
                            [Notify]; a client waits on the one pool it resolved, so the global
                            form is a sequence of per-pool steps and the system is a product of
                            independent copies of this model (one per pool).

    Env: tokio Notify (tokio 1.29.1, src/sync/notify.rs) — ASSUMED, not proved:
      * lines 505-515  [notified()] loads the state word and stores the number of
                       [notify_waiters] calls so far in the future ([notify_waiters_calls]);
      * lines 472-474  "The [Notified] future is guaranteed to receive wakeups from
                       [notify_waiters()] as soon as it has been created, even if it has not yet
                       been polled.";
      * lines 619-636  [notify_waiters()] increments that call counter (under the waiters lock)
                       and wakes every queued waiter;
      * lines 918-923 and 1037  polling a [Notified] whose stored counter differs from the current
                       one completes it ("if notify_waiters has been called after the future was
                       created, then we are done").
      Hence: a [Notified] created when the counter was [snap] completes exactly when it is polled
      with [snap <> gen]; as [gen] only grows and [snap <= gen] (invariant [snap_le_gen] in
      Proofs.v) this is [snap < gen], the enabling condition of [CWake].  The counter is 30/62
      bits wide in tokio; wrap-around is ignored.  [notify_one] permits are not used by pgcat on
      this [Notify].
    Env: atomics.  [paused] is accessed with [Ordering::Relaxed]; the model is sequentially
      consistent at the granularity of the steps below (every step is one access to one shared
      object).  This is an assumption about the platform (x86-TSO plus the SeqCst accesses and the
      mutex inside [Notify]); it is listed in the trusted base. *)
From Coq Require Import Arith Bool List.
Import ListNotations.

Definition client := nat.

(** Program counter of a client task relative to the gate. *)
Inductive cpc : Type :=
| Idle                              (* no call of [wait_paused] in progress, not in a transaction *)
| Reg (snap : nat)                  (* [notified()] created when [gen = snap] *)
| Loaded (snap : nat) (p : bool)    (* ... and [paused] was read as [p] *)
| Waiting (snap : nat)              (* suspended in [waiter.await] *)
| Passed.                           (* [wait_paused] returned: checkout / transaction running *)

(** Program counter of the admin console (PAUSE and RESUME are issued one after the other). *)
Inductive apc_t : Type := AIdle | AMidResume.

Record state : Type := mkState {
  paused : bool;                       (* the AtomicBool *)
  gen : nat;                           (* number of [notify_waiters] calls so far *)
  apc : apc_t;
  pcs : client -> cpc;                 (* any number of clients *)
  unpaused_since_reg : client -> bool  (* ghost: [paused] was false at some instant at or after
                                          the client's latest [CReg] while it was at the gate *)
}.

Definition upd {A : Type} (f : client -> A) (c : client) (v : A) : client -> A :=
  fun x => if Nat.eqb x c then v else f x.

Inductive ev : Type :=
| CReg (c : client) | CLoad (c : client) | CDecide (c : client) | CWake (c : client)
| CDone (c : client)
| APause | AStore | ANotify.

Definition init : state := mkState false 0 AIdle (fun _ => Idle) (fun _ => false).

Definition set_pc (st : state) (c : client) (p : cpc) : state :=
  mkState (paused st) (gen st) (apc st) (upd (pcs st) c p) (unpaused_since_reg st).

(** One atomic step; [None] = not enabled.  [pdr] ("pause during resume") = a second console may
    issue PAUSE between the store and the notify of a RESUME; the property's model is
    [pdr = false] (one console), [pdr = true] is only used for [c16_two_admin_refuted]. *)
Definition step_core (pdr : bool) (st : state) (e : ev) : option state :=
  match e with
  | CReg c =>
      match pcs st c with
      | Idle => Some (mkState (paused st) (gen st) (apc st) (upd (pcs st) c (Reg (gen st)))
                              (upd (unpaused_since_reg st) c false))
      | _ => None
      end
  | CLoad c =>
      match pcs st c with
      | Reg s => Some (set_pc st c (Loaded s (paused st)))
      | _ => None
      end
  | CDecide c =>
      match pcs st c with
      | Loaded s p => Some (set_pc st c (if p then Waiting s else Passed))
      | _ => None
      end
  | CWake c =>
      match pcs st c with
      | Waiting s => if Nat.ltb s (gen st) then Some (set_pc st c Passed) else None
      | _ => None
      end
  | CDone c =>
      match pcs st c with
      | Passed => Some (set_pc st c Idle)
      | _ => None
      end
  | APause =>
      match apc st with
      | AIdle => Some (mkState true (gen st) (apc st) (pcs st) (unpaused_since_reg st))
      | AMidResume => if pdr then Some (mkState true (gen st) (apc st) (pcs st) (unpaused_since_reg st))
                      else None
      end
  | AStore =>
      match apc st with
      | AIdle => Some (mkState false (gen st) AMidResume (pcs st) (unpaused_since_reg st))
      | AMidResume => None
      end
  | ANotify =>
      match apc st with
      | AMidResume => Some (mkState (paused st) (S (gen st)) AIdle (pcs st) (unpaused_since_reg st))
      | AIdle => None
      end
  end.

Definition at_gate (p : cpc) : bool :=
  match p with Reg _ | Loaded _ _ | Waiting _ => true | Idle | Passed => false end.

(** Ghost bookkeeping after every step: every client currently between [notified()] and the
    return of [wait_paused] records whether [paused] is false now. *)
Definition observe (st : state) : state :=
  mkState (paused st) (gen st) (apc st) (pcs st)
          (fun c => unpaused_since_reg st c || (at_gate (pcs st c) && negb (paused st))).

Definition step_gen (pdr : bool) (st : state) (e : ev) : option state :=
  match step_core pdr st e with Some st' => Some (observe st') | None => None end.

Definition step : state -> ev -> option state := step_gen false.

Fixpoint run_gen (pdr : bool) (st : state) (l : list ev) : option state :=
  match l with
  | [] => Some st
  | e :: r => match step_gen pdr st e with Some st' => run_gen pdr st' r | None => None end
  end.

Definition run : state -> list ev -> option state := run_gen false.

Definition reachable_gen (pdr : bool) (st : state) : Prop := exists l, run_gen pdr init l = Some st.
Definition reachable (st : state) : Prop := exists l, run init l = Some st.

(** Which actor performs a step ([None] = the admin console). *)
Definition actor (e : ev) : option client :=
  match e with
  | CReg c | CLoad c | CDecide c | CWake c | CDone c => Some c
  | APause | AStore | ANotify => None
  end.

(** The steps client [c] itself takes from its current pc to get past the gate when nobody else
    moves (used by the progress theorem). *)
Definition finish (c : client) (st : state) : list ev :=
  match pcs st c with
  | Idle => [CReg c; CLoad c; CDecide c]
  | Reg _ => [CLoad c; CDecide c]
  | Loaded _ false => [CDecide c]
  | Loaded _ true => [CDecide c; CWake c]
  | Waiting _ => [CWake c]
  | Passed => []
  end.

(** ---- views used by the correspondence (props/c16.py) -------------------------------- *)

(** What the harness can see of a client: [Waiting s] with [s < gen] is a client whose wake-up
    has been delivered (the real task re-polls on its own), reported as [VPassed]. *)
Inductive vpc : Type := VIdle | VReg | VLoaded (p : bool) | VBlocked | VPassed.

Definition view_pc (st : state) (c : client) : vpc :=
  match pcs st c with
  | Idle => VIdle
  | Reg _ => VReg
  | Loaded _ p => VLoaded p
  | Waiting s => if Nat.ltb s (gen st) then VPassed else VBlocked
  | Passed => VPassed
  end.

Definition view (n : nat) (st : state) : bool * bool * list vpc :=
  (paused st, match apc st with AIdle => false | AMidResume => true end,
   map (view_pc st) (seq 0 n)).

(** Views after every step of a schedule ([None] at the first step that is not enabled). *)
Fixpoint trace_views (n : nat) (st : state) (l : list ev) : list (option (bool * bool * list vpc)) :=
  match l with
  | [] => []
  | e :: r => match step st e with
              | Some st' => Some (view n st') :: trace_views n st' r
              | None => [None]
              end
  end.

Definition ghosts (n : nat) (st : state) : list bool := map (unpaused_since_reg st) (seq 0 n).

(** Compact numeric rendering of [trace_views] (what props/c16.py reads back):
    a step is [paused; resume half done; pc codes ...], [[]] = step not enabled;
    pc codes: 0 idle, 1 registered, 2 loaded false, 3 loaded true, 4 blocked, 5 past the gate. *)
Definition code_pc (v : vpc) : nat :=
  match v with VIdle => 0 | VReg => 1 | VLoaded false => 2 | VLoaded true => 3 | VBlocked => 4 | VPassed => 5 end.

Definition code_view (v : option (bool * bool * list vpc)) : list nat :=
  match v with
  | Some (p, m, l) => (if p then 1 else 0) :: (if m then 1 else 0) :: map code_pc l
  | None => []
  end.

Definition trace_codes (n : nat) (l : list ev) : list (list nat) := map code_view (trace_views n init l).
