(** C16 — two mutants of the gate protocol, each PROVED to lose a wake-up (and the second also to
    let a client through while paused).  They show that [c16_no_lost_wakeup] /
    [c16_held_while_paused] are not statements every protocol satisfies: the order
    "register, then load" in [wait_paused] and "store, then notify" in [resume] is what the
    theorems are about. *)
From Coq Require Import Arith Bool List.
From PV Require Import Pause.Model.
Import ListNotations.

(** * Mutant 1: [load_before_register]
      [let paused = self.paused.load(); let waiter = self.paused_waiter.notified(); if paused { waiter.await }] *)

Inductive mpc : Type :=
| MIdle | MPre (p : bool) | MLoaded (snap : nat) (p : bool) | MWaiting (snap : nat) | MPassed.

Record mstate : Type := mkM { m_paused : bool; m_gen : nat; m_apc : apc_t; m_pcs : client -> mpc }.

Definition m_init : mstate := mkM false 0 AIdle (fun _ => MIdle).

Definition m_set (st : mstate) (c : client) (p : mpc) : mstate :=
  mkM (m_paused st) (m_gen st) (m_apc st) (upd (m_pcs st) c p).

(** Same events as the model; only [CLoad] and [CReg] swap places in the client's program. *)
Definition m1_step (st : mstate) (e : ev) : option mstate :=
  match e with
  | CLoad c => match m_pcs st c with MIdle => Some (m_set st c (MPre (m_paused st))) | _ => None end
  | CReg c => match m_pcs st c with MPre p => Some (m_set st c (MLoaded (m_gen st) p)) | _ => None end
  | CDecide c => match m_pcs st c with
                 | MLoaded s p => Some (m_set st c (if p then MWaiting s else MPassed))
                 | _ => None end
  | CWake c => match m_pcs st c with
               | MWaiting s => if Nat.ltb s (m_gen st) then Some (m_set st c MPassed) else None
               | _ => None end
  | CDone c => match m_pcs st c with MPassed => Some (m_set st c MIdle) | _ => None end
  | APause => match m_apc st with AIdle => Some (mkM true (m_gen st) AIdle (m_pcs st)) | _ => None end
  | AStore => match m_apc st with AIdle => Some (mkM false (m_gen st) AMidResume (m_pcs st)) | _ => None end
  | ANotify => match m_apc st with AMidResume => Some (mkM (m_paused st) (S (m_gen st)) AIdle (m_pcs st)) | _ => None end
  end.

Fixpoint m1_run (st : mstate) (l : list ev) : option mstate :=
  match l with
  | [] => Some st
  | e :: r => match m1_step st e with Some st' => m1_run st' r | None => None end
  end.

Definition m1_reachable (st : mstate) : Prop := exists l, m1_run m_init l = Some st.

(** PAUSE; the client reads [paused = true]; a whole RESUME happens; only then the client creates
    its [Notified] (snapshot = 1 = gen) and goes to sleep: nobody will ever wake it. *)
Definition m1_witness : list ev := [APause; CLoad 0; AStore; ANotify; CReg 0; CDecide 0].

Lemma m1_loses_wakeup : exists st c snap,
  m1_reachable st /\ m_paused st = false /\ m_apc st = AIdle /\
  m_pcs st c = MWaiting snap /\ ~ snap < m_gen st /\ m1_step st (CWake c) = None.
Proof.
  destruct (m1_run m_init m1_witness) as [st|] eqn:E; [|vm_compute in E; discriminate].
  exists st, 0, 1. split; [exists m1_witness; exact E|].
  vm_compute in E. inversion E; subst; clear E. vm_compute.
  repeat split; auto. intro L. inversion L. inversion H0.
Qed.

(** * Mutant 2: [notify_before_store]
      [resume]: [self.paused_waiter.notify_waiters(); self.paused.store(false)] — the client side
      is the real one ([step_core]); only the two admin steps of a RESUME swap places. *)

Definition m2_step (st : state) (e : ev) : option state :=
  match e with
  | ANotify => match apc st with
               | AIdle => Some (observe (mkState (paused st) (S (gen st)) AMidResume (pcs st) (unpaused_since_reg st)))
               | AMidResume => None end
  | AStore => match apc st with
              | AMidResume => Some (observe (mkState false (gen st) AIdle (pcs st) (unpaused_since_reg st)))
              | AIdle => None end
  | _ => step st e
  end.

Fixpoint m2_run (st : state) (l : list ev) : option state :=
  match l with
  | [] => Some st
  | e :: r => match m2_step st e with Some st' => m2_run st' r | None => None end
  end.

Definition m2_reachable (st : state) : Prop := exists l, m2_run init l = Some st.

(** PAUSE; RESUME notifies (gen = 1); the client registers (snapshot 1) and still reads
    [paused = true]; RESUME stores false; the client sleeps on a notification that already
    happened. *)
Definition m2_witness : list ev := [APause; ANotify; CReg 0; CLoad 0; AStore; CDecide 0].

Lemma m2_loses_wakeup : exists st c snap,
  m2_reachable st /\ paused st = false /\ apc st = AIdle /\
  pcs st c = Waiting snap /\ ~ snap < gen st /\ m2_step st (CWake c) = None.
Proof.
  destruct (m2_run init m2_witness) as [st|] eqn:E; [|vm_compute in E; discriminate].
  exists st, 0, 1. split; [exists m2_witness; exact E|].
  vm_compute in E. inversion E; subst; clear E. vm_compute.
  repeat split; auto. intro L. inversion L. inversion H0.
Qed.

(** ... and a client held by PAUSE is released while [paused] is still true. *)
Definition m2_witness_unsafe : list ev := [APause; CReg 0; CLoad 0; CDecide 0; ANotify; CWake 0].

Lemma m2_passes_while_paused : exists st c,
  m2_reachable st /\ pcs st c = Passed /\ unpaused_since_reg st c = false /\ paused st = true.
Proof.
  destruct (m2_run init m2_witness_unsafe) as [st|] eqn:E; [|vm_compute in E; discriminate].
  exists st, 0. split; [exists m2_witness_unsafe; exact E|].
  vm_compute in E. inversion E; subst; clear E. vm_compute. repeat split.
Qed.
