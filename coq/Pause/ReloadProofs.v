(** C16 — RELOAD: with a shared pause cell a reload is invisible to the gate (all theorems of
    Proofs.v carry over); with a fresh cell (the code before the repair) held sessions are
    stranded. *)
From Coq Require Import Arith Bool List Lia.
From PV Require Import Pause.Model Pause.Proofs Pause.ReloadModel.
Import ListNotations.

(** A [Base] step of the current code = (for a [CReg]) the lookup, then the gate step on the cell
    of the pool object the party now addresses. *)
Lemma base_case : forall st b st', rstep st (Base b) = Some st' ->
  gone st && is_admin b = false /\
  exists st1, base_on st1 b = Some st' /\
    cells st1 = cells st /\ registered st1 = registered st /\ fresh st1 = fresh st /\ gone st1 = gone st /\
    ((reg_of b = None /\ holds st1 = holds st) \/
     exists c, b = CReg c /\ gone st = false /\ pcs (cells st (holds st c)) c = Idle /\
               holds st1 = upd (holds st) c (registered st)).
Proof.
  intros st b st' H. unfold rstep, rstep_gen in H.
  destruct (gone st && is_admin b) eqn:GA; [discriminate|]. split; [reflexivity|].
  destruct (reg_of b) as [c|] eqn:R.
  - destruct (gone st) eqn:G; [discriminate|].
    destruct (pcs (cells st (holds st c)) c) eqn:P; try discriminate.
    eexists. split; [exact H|]. cbn. repeat split; auto.
    right. exists c. destruct b; cbn in R; try discriminate. inversion R; subst. auto.
  - exists st. repeat split; auto.
Qed.

Lemma client_step_shared : forall s b s' c, actor b = Some c -> step s b = Some s' ->
  paused s' = paused s /\ apc s' = apc s.
Proof.
  intros s b s' c A H. destruct (step_gen_inv _ _ _ _ H) as [m [Hm ->]].
  inversion Hm; subst; cbn in *; auto; discriminate.
Qed.

Lemma client_step_pg : forall s b s' c, actor b = Some c -> step s b = Some s' ->
  paused s' = paused s /\ gen s' = gen s /\ apc s' = apc s.
Proof.
  intros s b s' c A H. destruct (step_gen_inv _ _ _ _ H) as [m [Hm ->]].
  inversion Hm; subst; cbn in *; auto; discriminate.
Qed.

Lemma base_on_inv : forall st b st', base_on st b = Some st' ->
  exists s', step (cells st (target st b)) b = Some s' /\
             cells st' = upd (cells st) (target st b) s' /\ registered st' = registered st /\
             holds st' = holds st /\ fresh st' = fresh st /\ gone st' = gone st.
Proof.
  intros st b st' H. unfold base_on in H.
  destruct (step (cells st (target st b)) b) as [s'|] eqn:E; [|discriminate].
  inversion H; subst. exists s'. cbn. repeat split; auto.
Qed.

Lemma resume_result : forall s s', run s [AStore; ANotify] = Some s' -> paused s' = false /\ apc s' = AIdle.
Proof.
  intros s s' H. unfold run in H. simpl run_gen in H.
  destruct (step_gen false s AStore) as [s1|] eqn:E1; [|discriminate].
  destruct (step_gen false s1 ANotify) as [s2|] eqn:E2; [|discriminate].
  inversion H; subst s2; clear H.
  destruct (step_gen_inv _ _ _ _ E1) as [m1 [Hm1 ->]].
  destruct (step_gen_inv _ _ _ _ E2) as [m2 [Hm2 ->]].
  inversion Hm1; subst. inversion Hm2; subst. cbn. auto.
Qed.

Lemma shared_invisible_from : forall l s st,
  registered s = 0 -> (forall c, holds s c = 0) ->
  (gone s = true -> paused (cells s 0) = false /\ apc (cells s 0) = AIdle) ->
  ~ In ReloadFresh l -> rrun s l = Some st ->
  registered st = 0 /\ (forall c, holds st c = 0) /\ run (cells s 0) (erase l) = Some (cells st 0) /\
  (gone st = true -> paused (cells st 0) = false /\ apc (cells st 0) = AIdle).
Proof.
  induction l as [|e l IH]; intros s st HR HH HG NF H.
  - unfold rrun in H. simpl in H. inversion H; subst. repeat split; auto; apply HG; assumption.
  - unfold rrun in H. simpl rrun_gen in H. fold rstep in H. fold rrun in H.
    destruct (rstep s e) as [s1|] eqn:E; [|discriminate].
    assert (NF' : ~ In ReloadFresh l) by (intro I; apply NF; right; exact I).
    destruct e as [b| | | |c]; simpl erase.
    + destruct (base_case _ _ _ E) as [GA [s0 [E0 [C0 [R0 [F0 [G0 Hh]]]]]]].
      assert (HH0 : forall c, holds s0 c = 0).
      { intro c. destruct Hh as [[_ Hh]|[c1 [_ [_ [_ Hh]]]]]; rewrite Hh; [apply HH|].
        unfold upd. destruct (Nat.eqb c c1); [exact HR|apply HH]. }
      assert (T : target s0 b = 0).
      { unfold target. destruct (actor b); [apply HH0|rewrite R0; exact HR]. }
      unfold base_on in E0. rewrite T, C0 in E0.
      destruct (step (cells s 0) b) as [s'|] eqn:Eb; [|discriminate].
      inversion E0; subst s1; clear E0.
      assert (HG' : gone s = true -> paused s' = false /\ apc s' = AIdle).
      { intro G. rewrite G in GA. cbn in GA. unfold is_admin in GA.
        destruct (actor b) as [c|] eqn:A; [|discriminate].
        destruct (client_step_shared _ _ _ c A Eb) as [P1 P2]. rewrite P1, P2. apply HG; exact G. }
      assert (HGx : gone (mkR (upd (cells s) 0 s') (registered s0) (holds s0) (fresh s0) (gone s0)) = true ->
                    paused (cells (mkR (upd (cells s) 0 s') (registered s0) (holds s0) (fresh s0) (gone s0)) 0) = false /\
                    apc (cells (mkR (upd (cells s) 0 s') (registered s0) (holds s0) (fresh s0) (gone s0)) 0) = AIdle).
      { cbn. rewrite ?upd_same. rewrite G0. exact HG'. }
      assert (HRx : registered (mkR (upd (cells s) 0 s') (registered s0) (holds s0) (fresh s0) (gone s0)) = 0).
      { cbn. rewrite R0. exact HR. }
      destruct (IH (mkR (upd (cells s) 0 s') (registered s0) (holds s0) (fresh s0) (gone s0)) st HRx HH0 HGx NF' H) as [R1 [H1 [Run G1]]].
      split; [exact R1|]. split; [exact H1|]. split; [|exact G1].
      cbn in Run. rewrite ?upd_same in Run.
      rewrite (run_cons _ _ _ _ Eb). exact Run.
    + inversion E; subst s1. apply (IH s st); auto.
    + exfalso. apply NF. left. reflexivity.
    + unfold rstep, rstep_gen in E. destruct (gone s) eqn:G; [discriminate|]. rewrite HR in E.
      destruct (run (cells s 0) [AStore; ANotify]) as [s'|] eqn:Er; [|discriminate].
      inversion E; subst s1; clear E.
      assert (HGx : gone (mkR (upd (cells s) 0 s') 0 (holds s) (fresh s) true) = true ->
                    paused (cells (mkR (upd (cells s) 0 s') 0 (holds s) (fresh s) true) 0) = false /\
                    apc (cells (mkR (upd (cells s) 0 s') 0 (holds s) (fresh s) true) 0) = AIdle).
      { cbn. rewrite ?upd_same. intros _. apply (resume_result _ _ Er). }
      destruct (IH (mkR (upd (cells s) 0 s') 0 (holds s) (fresh s) true) st eq_refl HH HGx NF' H) as [R1 [H1 [Run G1]]].
      split; [exact R1|]. split; [exact H1|]. split; [|exact G1].
      cbn in Run. rewrite ?upd_same in Run.
      unfold run in *. simpl run_gen in *.
      destruct (step_gen false (cells s 0) AStore) as [x1|]; [|discriminate].
      destruct (step_gen false x1 ANotify) as [x2|]; [|discriminate].
      inversion Er; subst x2. exact Run.
    + unfold rstep, rstep_gen in E. destruct (gone s) eqn:G.
      * inversion E; subst s1. apply (IH s st); auto.
      * rewrite HH, HR in E. cbn in E. inversion E; subst s1. apply (IH s st); auto.
        intro G'. rewrite G' in G. discriminate.
Qed.

Lemma shared_invisible : forall l st, ~ In ReloadFresh l -> rrun rinit l = Some st ->
  registered st = 0 /\ (forall c, holds st c = 0) /\ run init (erase l) = Some (cells st 0) /\
  (gone st = true -> paused (cells st 0) = false /\ apc (cells st 0) = AIdle).
Proof. intros l st NF H. apply (shared_invisible_from l rinit st); auto; cbn; discriminate. Qed.

Lemma no_lost_wakeup_reload : forall l st, ~ In ReloadFresh l -> rrun rinit l = Some st ->
  paused (cells st (registered st)) = false -> apc (cells st (registered st)) = AIdle ->
  forall c snap, pcs (cells st (holds st c)) c = Waiting snap -> snap < gen (cells st (holds st c)).
Proof.
  intros l st NF H Hp Ha c snap Hc.
  destruct (shared_invisible l st NF H) as [R [HH [Run _]]].
  rewrite R in Hp, Ha. rewrite HH in Hc |- *.
  eapply no_lost_wakeup; eauto. exists (erase l). exact Run.
Qed.

Lemma held_while_paused_reload : forall l st, ~ In ReloadFresh l -> rrun rinit l = Some st ->
  forall c, pcs (cells st (holds st c)) c = Passed ->
  exists l1 l2 st1, erase l = l1 ++ l2 /\ run init l1 = Some st1 /\ paused st1 = false /\
                    In (CReg c) l1 /\ ~ In (CReg c) l2.
Proof.
  intros l st NF H c Hc.
  destruct (shared_invisible l st NF H) as [R [HH [Run _]]].
  rewrite HH in Hc. eapply held_while_paused_trace; eauto.
Qed.

(** A pool removed by a RELOAD releases its sessions for good: once it is gone every session still
    sits on a reachable, un-paused cell with no resume in flight, so every suspended client has its
    wake-up and every client gets through by its own steps ([client_progress]). *)
Lemma removed_pool_releases : forall l st, ~ In ReloadFresh l -> rrun rinit l = Some st -> gone st = true ->
  forall c, reachable (cells st (holds st c)) /\
            paused (cells st (holds st c)) = false /\ apc (cells st (holds st c)) = AIdle /\
            (forall snap, pcs (cells st (holds st c)) c = Waiting snap -> snap < gen (cells st (holds st c))).
Proof.
  intros l st NF H G c.
  destruct (shared_invisible l st NF H) as [R [HH [Run HG]]].
  destruct (HG G) as [P A]. rewrite HH.
  assert (Re : reachable (cells st 0)) by (exists (erase l); exact Run).
  repeat split; auto. intros snap Hc. eapply no_lost_wakeup; eauto.
Qed.

(** ... and nothing can pause it again: while the pool is gone no step changes [paused] or [gen]
    of any cell. *)
Lemma gone_frozen : forall st e st' k, rstep st e = Some st' -> gone st = true ->
  paused (cells st' k) = paused (cells st k) /\ (gen (cells st' k) = gen (cells st k)).
Proof.
  intros st e st' k H G. destruct e as [b| | | |c].
  - destruct (base_case _ _ _ H) as [GA [s1 [E1 [C1 [R1 [F1 [G1 Hh]]]]]]].
    rewrite G in GA. cbn in GA. unfold is_admin in GA. destruct (actor b) as [c|] eqn:A; [|discriminate].
    destruct (base_on_inv _ _ _ E1) as [s' [Es [Cs _]]]. rewrite Cs, C1.
    destruct (Nat.eq_dec k (target s1 b)) as [->|Hne].
    + rewrite upd_same. rewrite C1 in Es. destruct (client_step_pg _ _ _ c A Es) as [P1 [P2 _]]. auto.
    + rewrite upd_other by assumption. auto.
  - unfold rstep, rstep_gen in H. inversion H; subst; auto.
  - unfold rstep, rstep_gen in H. inversion H; subst; cbn; auto.
  - unfold rstep, rstep_gen in H. rewrite G in H. discriminate.
  - unfold rstep, rstep_gen in H. rewrite G in H. inversion H; subst; auto.
Qed.

(** The code before the repair: a session held at RELOAD time is stranded. *)
Definition fresh_witness : list rev :=
  [Base APause; Base (CReg 0); Base (CLoad 0); Base (CDecide 0); ReloadFresh; Base AStore; Base ANotify].

Lemma reload_fresh_strands : exists st,
  rrun rinit fresh_witness = Some st /\
  paused (cells st (registered st)) = false /\ apc (cells st (registered st)) = AIdle /\
  holds st 0 <> registered st /\
  pcs (cells st (holds st 0)) 0 = Waiting 0 /\ gen (cells st (holds st 0)) = 0 /\
  rstep st (Base (CWake 0)) = None.
Proof.
  destruct (rrun rinit fresh_witness) as [st|] eqn:E; [|vm_compute in E; discriminate].
  exists st. split; [reflexivity|].
  vm_compute in E. inversion E; subst; clear E. vm_compute. repeat split; auto. discriminate.
Qed.

(** ... and nothing can ever wake it: no step changes [paused] or [gen] of a cell that is not the
    registered one. *)
Lemma detached_cell_frozen : forall st e st' k, rstep st e = Some st' -> k <> registered st ->
  gen (cells st' k) = gen (cells st k) /\ paused (cells st' k) = paused (cells st k).
Proof.
  intros st e st' k H N. destruct e as [b| | | |c].
  - destruct (base_case _ _ _ H) as [GA [s1 [E1 [C1 [R1 [F1 [G1 Hh]]]]]]].
    destruct (base_on_inv _ _ _ E1) as [s' [Es [Cs _]]]. rewrite Cs, C1.
    destruct (Nat.eq_dec k (target s1 b)) as [->|Hne].
    + rewrite upd_same. rewrite C1 in Es. unfold target in N, Es |- *.
      destruct (actor b) as [c|] eqn:A; [|exfalso; apply N; exact R1].
      destruct (client_step_pg _ _ _ c A Es) as [P1 [P2 _]]. auto.
    + rewrite upd_other by assumption. auto.
  - unfold rstep, rstep_gen in H. inversion H; subst; auto.
  - unfold rstep, rstep_gen in H. inversion H; subst; cbn; auto.
  - unfold rstep, rstep_gen in H. destruct (gone st); [discriminate|].
    destruct (run (cells st (registered st)) [AStore; ANotify]); [|discriminate].
    inversion H; subst st'; clear H. cbn. rewrite upd_other by assumption. auto.
  - unfold rstep, rstep_gen in H. destruct (gone st); [inversion H; subst; auto|].
    destruct (Nat.eqb (holds st c) (registered st)); [inversion H; subst; auto|].
    destruct (pcs (cells st (holds st c)) c); try discriminate.
    inversion H; subst st'; clear H. cbn.
    destruct (Nat.eq_dec k (registered st)) as [->|Hne]; [contradiction|].
    rewrite (upd_other _ _ (registered st)) by assumption.
    destruct (Nat.eq_dec k (holds st c)) as [->|Hne2].
    + rewrite upd_same. cbn. auto.
    + rewrite upd_other by assumption. auto.
Qed.

(** * PAUSE holds after any reload history (the session looks its pool up before it waits) *)

Definition held_pc (p : cpc) (g : nat) : Prop := p = Reg g \/ p = Loaded g true \/ p = Waiting g.

(** Steps that could legitimately let client [c] through, or start another passage of it. *)
Definition quiet (c : client) (e : rev) : Prop :=
  e <> Base AStore /\ e <> ReloadRemove /\ e <> ReloadFresh /\ e <> Base (CReg c).

Definition mid_inv (st : rstate) : Prop :=
  forall k, apc (cells st k) = AMidResume -> paused (cells st k) = false.

Lemma mid_step : forall s e s', (apc s = AMidResume -> paused s = false) -> step s e = Some s' ->
  apc s' = AMidResume -> paused s' = false.
Proof.
  intros s e s' I H. destruct (step_gen_inv _ _ _ _ H) as [m [Hm ->]].
  inversion Hm; subst; cbn; auto; try discriminate.
  destruct H0 as [H0|H0]; [|discriminate]. intro E. congruence.
Qed.

Lemma mid_inv_rstep : forall st e st', mid_inv st -> rstep st e = Some st' -> mid_inv st'.
Proof.
  intros st e st' I H k. destruct e as [b| | | |c].
  - destruct (base_case _ _ _ H) as [_ [s1 [E1 [C1 _]]]].
    destruct (base_on_inv _ _ _ E1) as [s' [Es [Cs _]]]. rewrite Cs, C1.
    destruct (Nat.eq_dec k (target s1 b)) as [->|Hne].
    + rewrite upd_same. rewrite C1 in Es. eapply mid_step; [apply I|exact Es].
    + rewrite upd_other by assumption. apply I.
  - unfold rstep, rstep_gen in H. inversion H; subst. apply I.
  - unfold rstep, rstep_gen in H. inversion H; subst. cbn. apply I.
  - unfold rstep, rstep_gen in H. destruct (gone st); [discriminate|].
    destruct (run (cells st (registered st)) [AStore; ANotify]) as [s'|] eqn:Er; [|discriminate].
    inversion H; subst st'; clear H. cbn.
    destruct (Nat.eq_dec k (registered st)) as [->|Hne].
    + rewrite upd_same. intros _. apply (resume_result _ _ Er).
    + rewrite upd_other by assumption. apply I.
  - unfold rstep, rstep_gen in H. destruct (gone st); [inversion H; subst; apply I|].
    destruct (Nat.eqb (holds st c) (registered st)); [inversion H; subst; apply I|].
    destruct (pcs (cells st (holds st c)) c); try discriminate.
    inversion H; subst st'; clear H. cbn.
    destruct (Nat.eq_dec k (registered st)) as [->|Hne].
    + rewrite upd_same. cbn. apply I.
    + rewrite upd_other by assumption.
      destruct (Nat.eq_dec k (holds st c)) as [->|Hne2].
      * rewrite upd_same. cbn. apply I.
      * rewrite upd_other by assumption. apply I.
Qed.

Lemma rrun_cons : forall s e l, rrun s (e :: l) = match rstep s e with Some s' => rrun s' l | None => None end.
Proof. reflexivity. Qed.

Lemma mid_inv_reach : forall l s st, mid_inv s -> rrun s l = Some st -> mid_inv st.
Proof.
  induction l as [|e l IH]; intros s st I H; unfold rrun in H; simpl in H.
  - inversion H; subst; exact I.
  - fold rstep in H. destruct (rstep s e) as [s1|] eqn:E; [|discriminate].
    eapply IH; [eapply mid_inv_rstep; eauto|exact H].
Qed.

Lemma mid_inv_init : mid_inv rinit.
Proof. intros k H. cbn in H. discriminate. Qed.

Lemma own_step_held : forall s b s' c, actor b = Some c -> b <> CReg c -> step s b = Some s' ->
  paused s = true -> held_pc (pcs s c) (gen s) -> held_pc (pcs s' c) (gen s).
Proof.
  intros s b s' c A N H P Hpc. unfold held_pc in *.
  destruct b as [d|d|d|d|d| | |]; cbn in A; try discriminate; inversion A; subst d; clear A;
    unfold step, step_gen, step_core in H;
    destruct Hpc as [X|[X|X]]; rewrite X in H; try discriminate;
    try (exfalso; apply N; reflexivity);
    try (rewrite Nat.ltb_irrefl in H; discriminate);
    inversion H; subst; clear H; cbn; rewrite upd_same; rewrite ?P; auto.
Qed.

(** The situation of a client held by a PAUSE of the registered pool. *)
Definition held_by_pause (c : client) (st : rstate) : Prop :=
  holds st c = registered st /\ gone st = false /\
  paused (cells st (registered st)) = true /\ apc (cells st (registered st)) = AIdle /\
  held_pc (pcs (cells st (registered st)) c) (gen (cells st (registered st))).

Lemma held_step : forall c st e st', held_by_pause c st -> quiet c e -> rstep st e = Some st' ->
  held_by_pause c st'.
Proof.
  intros c st e st' [Hh [Hg [Hp [Ha Hpc]]]] [Q1 [Q2 [Q3 Q4]]] H. unfold held_by_pause.
  destruct e as [b| | | |d].
  - destruct (base_case _ _ _ H) as [_ [s1 [E1 [C1 [R1 [F1 [G1 Hh1]]]]]]].
    destruct (base_on_inv _ _ _ E1) as [s' [Es [Cs [Rs [Hs [_ Gs]]]]]].
    assert (Hc1 : holds s1 c = registered st).
    { destruct Hh1 as [[_ E]|[c1 [Eb [_ [_ E]]]]]; rewrite E; [exact Hh|].
      rewrite upd_other; [exact Hh|]. intro X; subst c1. apply Q4. rewrite Eb. reflexivity. }
    rewrite Rs, R1, Hs, Gs, G1, Cs, C1. rewrite C1 in Es.
    split; [exact Hc1|]. split; [exact Hg|].
    destruct (Nat.eq_dec (registered st) (target s1 b)) as [T|T].
    + rewrite T, upd_same. rewrite <- T in Es.
      destruct (actor b) as [d|] eqn:A.
      * destruct (client_step_pg _ _ _ d A Es) as [P1 [P2 P3]]. rewrite P1, P2, P3.
        split; [exact Hp|]. split; [exact Ha|].
        destruct (Nat.eq_dec d c) as [->|Hdc].
        -- (* the client's own step *)
           apply (own_step_held _ b _ c A); auto.
           intro X. apply Q4. rewrite X. reflexivity.
        -- rewrite (step_other_actor _ _ _ _ c Es); [exact Hpc|]. rewrite A. intro X; inversion X; contradiction.
      * (* admin step on the registered pool *)
        destruct (step_gen_inv _ _ _ _ Es) as [m [Hm ->]].
        inversion Hm; subst; cbn in *; try discriminate.
        -- auto.
        -- exfalso. apply Q1. reflexivity.
        -- congruence.
    + rewrite upd_other by assumption. auto.
  - unfold rstep, rstep_gen in H. inversion H; subst. auto.
  - exfalso. apply Q3. reflexivity.
  - exfalso. apply Q2. reflexivity.
  - unfold rstep, rstep_gen in H. rewrite Hg in H.
    destruct (Nat.eqb (holds st d) (registered st)) eqn:Eq; [inversion H; subst; auto|].
    destruct (pcs (cells st (holds st d)) d); try discriminate.
    inversion H; subst st'; clear H. cbn.
    assert (Hdc : d <> c). { intro X; subst d. rewrite Hh, Nat.eqb_refl in Eq. discriminate. }
    rewrite upd_same. cbn.
    split; [rewrite upd_other by auto; exact Hh|]. split; [reflexivity|].
    split; [exact Hp|]. split; [exact Ha|]. rewrite upd_other by auto. exact Hpc.
Qed.

Lemma held_run : forall c l st st', held_by_pause c st -> Forall (quiet c) l -> rrun st l = Some st' ->
  held_by_pause c st'.
Proof.
  induction l as [|e l IH]; intros st st' J Q H; unfold rrun in H; simpl in H.
  - inversion H; subst; exact J.
  - fold rstep in H. destruct (rstep st e) as [s1|] eqn:E; [|discriminate].
    inversion Q; subst. eapply IH; [eapply held_step; eauto|assumption|exact H].
Qed.

(** After ANY reload history, a client that starts a gate passage (needs a checkout) while the
    registered pool is paused is held for as long as no RESUME / removal / replacement happens —
    whatever pool object its session resolved in the past. *)
Lemma pause_holds_after_reloads : forall l0 s0 c l st,
  rrun rinit l0 = Some s0 -> gone s0 = false -> paused (cells s0 (registered s0)) = true ->
  rrun s0 (Base (CReg c) :: l) = Some st -> Forall (quiet c) l ->
  held_by_pause c st /\ pcs (cells st (holds st c)) c <> Passed.
Proof.
  intros l0 s0 c l st H0 G0 P0 H Q.
  assert (I0 : mid_inv s0) by (eapply mid_inv_reach; [apply mid_inv_init|exact H0]).
  rewrite rrun_cons in H.
  destruct (rstep s0 (Base (CReg c))) as [s1|] eqn:E; [|discriminate].
  assert (J1 : held_by_pause c s1).
  { destruct (base_case _ _ _ E) as [_ [x [E1 [C1 [R1 [F1 [G1 Hh1]]]]]]].
    destruct Hh1 as [[X _]|[c1 [Eb [_ [Hidle Hh1]]]]]; [cbn in X; discriminate|].
    inversion Eb; subst c1.
    destruct (base_on_inv _ _ _ E1) as [s' [Es [Cs [Rs [Hs [_ Gs]]]]]].
    assert (T : target x (CReg c) = registered s0).
    { unfold target. cbn. rewrite Hh1, upd_same. reflexivity. }
    rewrite T, C1 in Es. unfold held_by_pause.
    rewrite Rs, R1, Hs, Hh1, Gs, G1, Cs, C1, T, !upd_same.
    destruct (client_step_pg _ (CReg c) _ c eq_refl Es) as [P1 [P2 P3]]. rewrite P1, P2, P3.
    split; [reflexivity|]. split; [exact G0|]. split; [exact P0|]. split.
    - destruct (apc (cells s0 (registered s0))) eqn:A; [reflexivity|].
      rewrite (I0 _ A) in P0. discriminate.
    - destruct (step_gen_inv _ _ _ _ Es) as [m [Hm ->]]. inversion Hm; subst. cbn.
      rewrite upd_same. left. reflexivity. }
  pose proof (held_run c l s1 st J1 Q H) as J.
  split; [exact J|].
  destruct J as [Hh [_ [_ [_ Hpc]]]]. rewrite Hh.
  destruct Hpc as [X|[X|X]]; rewrite X; discriminate.
Qed.

(** The code before the repair (the session waits on the pool object it resolved earlier,
    [rstep_gen false]): the F36 schedule — the user's pool is removed by one RELOAD and added again
    by another, PAUSE, and the old session's statement goes straight through. *)
Definition f36_history : list rev := [ReloadRemove; ReloadFresh; Base APause].
Definition f36_rest : list rev := [Base (CLoad 0); Base (CDecide 0)].

Lemma stale_lookup_refuted : exists s0 st,
  rrun_gen false rinit f36_history = Some s0 /\ gone s0 = false /\ paused (cells s0 (registered s0)) = true /\
  rrun_gen false s0 (Base (CReg 0) :: f36_rest) = Some st /\ Forall (quiet 0) f36_rest /\
  pcs (cells st (holds st 0)) 0 = Passed /\ paused (cells st (registered st)) = true /\
  holds st 0 <> registered st.
Proof.
  destruct (rrun_gen false rinit f36_history) as [s0|] eqn:E0; [|vm_compute in E0; discriminate].
  destruct (rrun_gen false s0 (Base (CReg 0) :: f36_rest)) as [st|] eqn:E1;
    [|vm_compute in E0; inversion E0; subst; vm_compute in E1; discriminate].
  exists s0, st. split; [reflexivity|].
  vm_compute in E0. inversion E0; subst; clear E0.
  vm_compute in E1. inversion E1; subst; clear E1.
  split; [reflexivity|]. split; [reflexivity|]. split; [reflexivity|].
  split.
  { repeat constructor; discriminate. }
  vm_compute. repeat split. discriminate.
Qed.
