(** C16 — property theorems only.  Each is closed by [exact <lemma>] and audited with
    [Print Assumptions]; [Example]s show non-vacuity and pin the model's behaviour on the
    schedules the property text talks about. *)
From Coq Require Import Arith Bool List.
From PV Require Import Pause.Model Pause.Proofs Pause.Mutants Pause.ReloadModel Pause.ReloadProofs.
Import ListNotations.

(** Every schedule (list of atomic steps of any length, over any number of clients) that the
    model can execute ends in a [reachable] state: the theorems below quantify over all of them. *)
Theorem c16_every_schedule : forall l st, run init l = Some st -> reachable st.
Proof. exact every_schedule_reachable. Qed.
Print Assumptions c16_every_schedule.

(** RESUME releases everyone: once [paused = false] and no RESUME is half done, every client
    suspended in [waiter.await] holds a [Notified] older than the last [notify_waiters], i.e. its
    wake-up has been delivered ([CWake] is enabled).  No client sleeps through a RESUME that
    raced with its arrival. *)
Theorem c16_no_lost_wakeup : forall st, reachable st -> paused st = false -> apc st = AIdle ->
  forall c snap, pcs st c = Waiting snap -> snap < gen st.
Proof. exact no_lost_wakeup. Qed.
Print Assumptions c16_no_lost_wakeup.

(** ... and taking that step puts the client past the gate without touching anyone else. *)
Theorem c16_wake_progress : forall st, reachable st -> paused st = false -> apc st = AIdle ->
  forall c snap, pcs st c = Waiting snap ->
  exists st', step st (CWake c) = Some st' /\ pcs st' c = Passed /\
              (forall d, d <> c -> pcs st' d = pcs st d) /\ paused st' = paused st /\ apc st' = apc st.
Proof. exact wake_progress. Qed.
Print Assumptions c16_wake_progress.

(** Wherever a client is (idle, registered, loaded, suspended), after a completed RESUME it gets
    past the gate by at most three steps of its own, with no further admin step. *)
Theorem c16_client_progress : forall st, reachable st -> paused st = false -> apc st = AIdle ->
  forall c, exists st', run st (finish c st) = Some st' /\ pcs st' c = Passed /\
                        Forall (fun e => actor e = Some c) (finish c st) /\ length (finish c st) <= 3.
Proof. exact client_progress. Qed.
Print Assumptions c16_client_progress.

(** The same no-lost-wake-up statement holds when a second console may PAUSE in the middle of a
    RESUME ([pdr = true]). *)
Theorem c16_no_lost_wakeup_two_admins : forall pdr st, reachable_gen pdr st -> paused st = false ->
  apc st = AIdle -> forall c snap, pcs st c = Waiting snap -> snap < gen st.
Proof. exact no_lost_wakeup_gen. Qed.
Print Assumptions c16_no_lost_wakeup_two_admins.

(** PAUSE holds: a client is past the gate only if [paused] was false at some instant at or after
    its latest registration (ghost form).  This is the exact guarantee of code that reads
    [paused] once: it does NOT say that [paused] is false at the instant of passing. *)
Theorem c16_held_while_paused : forall st, reachable st ->
  forall c, pcs st c = Passed -> unpaused_since_reg st c = true.
Proof. exact held_while_paused. Qed.
Print Assumptions c16_held_while_paused.

(** Ghost-free form over schedules. *)
Theorem c16_held_while_paused_trace : forall l st c, run init l = Some st -> pcs st c = Passed ->
  exists l1 l2 st1, l = l1 ++ l2 /\ run init l1 = Some st1 /\ paused st1 = false /\
                    In (CReg c) l1 /\ ~ In (CReg c) l2.
Proof. exact held_while_paused_trace. Qed.
Print Assumptions c16_held_while_paused_trace.

(** A client that arrives while the pool is paused is not let through as long as no RESUME has
    stored [false] (however the other clients and PAUSEs interleave). *)
Theorem c16_arrival_while_paused_is_held : forall l0 l s0 st c,
  run init l0 = Some s0 -> paused s0 = true ->
  run s0 (CReg c :: l) = Some st -> ~ In AStore l -> ~ In (CReg c) l ->
  pcs st c <> Passed.
Proof. exact arrival_while_paused_is_held. Qed.
Print Assumptions c16_arrival_while_paused_is_held.

(** Transactions already running finish normally: no step of the admin console or of another
    client changes the pc of a client; a client past the gate leaves that state only by its own
    [CDone]. *)
Theorem c16_running_unaffected : forall st e st' c, step st e = Some st' -> pcs st c = Passed ->
  (actor e = None -> pcs st' c = Passed) /\ (pcs st' c <> Passed -> e = CDone c /\ pcs st' c = Idle).
Proof. exact running_unaffected. Qed.
Print Assumptions c16_running_unaffected.

Theorem c16_steps_are_local : forall pdr st e st' c, step_gen pdr st e = Some st' -> actor e <> Some c ->
  pcs st' c = pcs st c.
Proof. exact step_other_actor. Qed.
Print Assumptions c16_steps_are_local.

(** Outside the guarantee, documented: two consoles, PAUSE issued between the store and the
    notify of another console's RESUME — a client that arrived after that PAUSE is released by the
    stale notify although [paused] was true ever since it registered. *)
Theorem c16_two_admin_refuted : exists st, reachable_gen true st /\ pcs st 0 = Passed /\
  unpaused_since_reg st 0 = false /\ paused st = true.
Proof. exact two_admin_refuted. Qed.
Print Assumptions c16_two_admin_refuted.

(** The theorems discriminate: both re-orderings of the protocol lose a wake-up. *)
Theorem c16_mutant_load_before_register_refuted : exists st c snap,
  m1_reachable st /\ m_paused st = false /\ m_apc st = AIdle /\
  m_pcs st c = MWaiting snap /\ ~ snap < m_gen st /\ m1_step st (CWake c) = None.
Proof. exact m1_loses_wakeup. Qed.
Print Assumptions c16_mutant_load_before_register_refuted.

Theorem c16_mutant_notify_before_store_refuted : exists st c snap,
  m2_reachable st /\ paused st = false /\ apc st = AIdle /\
  pcs st c = Waiting snap /\ ~ snap < gen st /\ m2_step st (CWake c) = None.
Proof. exact m2_loses_wakeup. Qed.
Print Assumptions c16_mutant_notify_before_store_refuted.

Theorem c16_mutant_notify_before_store_unsafe : exists st c,
  m2_reachable st /\ pcs st c = Passed /\ unpaused_since_reg st c = false /\ paused st = true.
Proof. exact m2_passes_while_paused. Qed.
Print Assumptions c16_mutant_notify_before_store_unsafe.

(** * RELOAD (a pool object replaced while sessions hold the old one)

    With the repaired [from_config] the new pool object shares the old one's pause flag and
    [Notify] ([ReloadShared]): any schedule with such reloads (and sessions re-resolving their pool)
    is, for the gate, the schedule without them — every session still holds, and the console still
    addresses, cell 0, which evolves exactly as Pause.Model on the erased schedule. *)
Theorem c16_reload_shared_is_invisible : forall l st, ~ In ReloadFresh l -> rrun rinit l = Some st ->
  registered st = 0 /\ (forall c, holds st c = 0) /\ run init (erase l) = Some (cells st 0) /\
  (gone st = true -> paused (cells st 0) = false /\ apc (cells st 0) = AIdle).
Proof. exact shared_invisible. Qed.
Print Assumptions c16_reload_shared_is_invisible.

Theorem c16_no_lost_wakeup_with_reload : forall l st, ~ In ReloadFresh l -> rrun rinit l = Some st ->
  paused (cells st (registered st)) = false -> apc (cells st (registered st)) = AIdle ->
  forall c snap, pcs (cells st (holds st c)) c = Waiting snap -> snap < gen (cells st (holds st c)).
Proof. exact no_lost_wakeup_reload. Qed.
Print Assumptions c16_no_lost_wakeup_with_reload.

Theorem c16_held_while_paused_with_reload : forall l st, ~ In ReloadFresh l -> rrun rinit l = Some st ->
  forall c, pcs (cells st (holds st c)) c = Passed ->
  exists l1 l2 st1, erase l = l1 ++ l2 /\ run init l1 = Some st1 /\ paused st1 = false /\
                    In (CReg c) l1 /\ ~ In (CReg c) l2.
Proof. exact held_while_paused_reload. Qed.
Print Assumptions c16_held_while_paused_with_reload.

(** A RELOAD that removes the pool ([ReloadRemove]: the repaired [from_config] resumes the pool it
    drops) releases its sessions for good: every session sits on a reachable, un-paused cell with
    no resume in flight, every suspended client has its wake-up ([c16_client_progress] then takes
    it past the gate), and while the pool is gone nothing can pause that cell again. *)
Theorem c16_removed_pool_releases : forall l st, ~ In ReloadFresh l -> rrun rinit l = Some st -> gone st = true ->
  forall c, reachable (cells st (holds st c)) /\
            paused (cells st (holds st c)) = false /\ apc (cells st (holds st c)) = AIdle /\
            (forall snap, pcs (cells st (holds st c)) c = Waiting snap -> snap < gen (cells st (holds st c))).
Proof. exact removed_pool_releases. Qed.
Print Assumptions c16_removed_pool_releases.

Theorem c16_gone_pool_stays_unpaused : forall st e st' k, rstep st e = Some st' -> gone st = true ->
  paused (cells st' k) = paused (cells st k) /\ gen (cells st' k) = gen (cells st k).
Proof. exact gone_frozen. Qed.
Print Assumptions c16_gone_pool_stays_unpaused.

(** After ANY reload history — shared replacements, removals, a removed pool added again with a
    fresh flag and [Notify] ([ReloadFresh] after [ReloadRemove]), sessions that re-resolved their
    pool or not — a client that needs a checkout while the REGISTERED pool is paused is held (old
    sessions included: the session looks its pool up right before it waits), for as long as no
    RESUME, removal or replacement of that pool happens. *)
Theorem c16_pause_holds_after_reloads : forall l0 s0 c l st,
  rrun rinit l0 = Some s0 -> gone s0 = false -> paused (cells s0 (registered s0)) = true ->
  rrun s0 (Base (CReg c) :: l) = Some st -> Forall (quiet c) l ->
  held_by_pause c st /\ pcs (cells st (holds st c)) c <> Passed.
Proof. exact pause_holds_after_reloads. Qed.
Print Assumptions c16_pause_holds_after_reloads.

(** The lookup before the wait is what makes it true: with the session waiting on the pool object
    it resolved earlier ([rrun_gen false], the code before commit "a session whose user was removed
    and re-added by reloads is held by PAUSE again") the same statement fails on the F36 schedule:
    remove, re-add, PAUSE, and the old session's statement is past the gate. *)
Theorem c16_stale_pool_lookup_refuted : exists s0 st,
  rrun_gen false rinit f36_history = Some s0 /\ gone s0 = false /\ paused (cells s0 (registered s0)) = true /\
  rrun_gen false s0 (Base (CReg 0) :: f36_rest) = Some st /\ Forall (quiet 0) f36_rest /\
  pcs (cells st (holds st 0)) 0 = Passed /\ paused (cells st (registered st)) = true /\
  holds st 0 <> registered st.
Proof. exact stale_lookup_refuted. Qed.
Print Assumptions c16_stale_pool_lookup_refuted.

(** The code before the repair (fresh flag and [Notify] for a replaced pool): PAUSE, a client is
    held, RELOAD, RESUME completes on the registered pool — the client still sleeps on the old
    cell, whose generation no step can change any more.  (Finding C16-RELOAD-WHILE-PAUSED, fixed.) *)
Theorem c16_reload_fresh_refuted : exists st,
  rrun rinit fresh_witness = Some st /\
  paused (cells st (registered st)) = false /\ apc (cells st (registered st)) = AIdle /\
  holds st 0 <> registered st /\
  pcs (cells st (holds st 0)) 0 = Waiting 0 /\ gen (cells st (holds st 0)) = 0 /\
  rstep st (Base (CWake 0)) = None.
Proof. exact reload_fresh_strands. Qed.
Print Assumptions c16_reload_fresh_refuted.

Theorem c16_detached_cell_frozen : forall st e st' k, rstep st e = Some st' -> k <> registered st ->
  gen (cells st' k) = gen (cells st k) /\ paused (cells st' k) = paused (cells st k).
Proof. exact detached_cell_frozen. Qed.
Print Assumptions c16_detached_cell_frozen.

(** * Non-vacuity / spec validation *)

Definition final (n : nat) (l : list ev) : option (bool * bool * list vpc) :=
  match run init l with Some st => Some (view n st) | None => None end.

(** PAUSE holds an arriving client ... *)
Example ex_held : final 1 [APause; CReg 0; CLoad 0; CDecide 0] = Some (true, false, [VBlocked]).
Proof. vm_compute. reflexivity. Qed.

(** ... RESUME releases it (the premise of [c16_no_lost_wakeup] is satisfiable with a waiting
    client: after [ANotify] client 0 is [Waiting 0] with [gen = 1]). *)
Example ex_released_enabled :
  match run init [APause; CReg 0; CLoad 0; CDecide 0; AStore; ANotify] with
  | Some st => (paused st, apc st, pcs st 0, gen st) = (false, AIdle, Waiting 0, 1)
  | None => False end.
Proof. vm_compute. reflexivity. Qed.

Example ex_released : final 1 [APause; CReg 0; CLoad 0; CDecide 0; AStore; ANotify; CWake 0]
                      = Some (false, false, [VPassed]).
Proof. vm_compute. reflexivity. Qed.

(** The race of the property text: the whole RESUME happens between the client's load and its
    await; the client still gets through. *)
Example ex_resume_races_arrival :
  final 1 [APause; CReg 0; CLoad 0; AStore; ANotify; CDecide 0; CWake 0] = Some (false, false, [VPassed]).
Proof. vm_compute. reflexivity. Qed.

(** Between the store and the notify a suspended client is (legitimately) still blocked. *)
Example ex_mid_resume_blocked :
  final 1 [APause; CReg 0; CLoad 0; CDecide 0; AStore] = Some (false, true, [VBlocked]).
Proof. vm_compute. reflexivity. Qed.

(** A running transaction is not disturbed by PAUSE, and its client is held at its next one. *)
Example ex_running_then_held :
  final 2 [CReg 0; CLoad 0; CDecide 0; APause; CDone 0; CReg 0; CLoad 0; CDecide 0; CReg 1; CLoad 1]
  = Some (true, false, [VBlocked; VLoaded true]).
Proof. vm_compute. reflexivity. Qed.

(** [wait_paused] does not loop: a client released by RESUME proceeds although PAUSE was issued
    again before it ran; [paused] is read once: a client that read [false] proceeds although
    PAUSE came in between.  Both are inside the guarantee of [c16_held_while_paused]. *)
Example ex_repause_after_release :
  match run init [APause; CReg 0; CLoad 0; CDecide 0; AStore; ANotify; APause; CWake 0] with
  | Some st => (paused st, pcs st 0, unpaused_since_reg st 0) = (true, Passed, true)
  | None => False end.
Proof. vm_compute. reflexivity. Qed.

Example ex_pause_after_load :
  match run init [CReg 0; CLoad 0; APause; CDecide 0] with
  | Some st => (paused st, pcs st 0, unpaused_since_reg st 0) = (true, Passed, true)
  | None => False end.
Proof. vm_compute. reflexivity. Qed.

(** Steps that are not enabled are rejected (the step relation is not total). *)
Example ex_not_enabled :
  (run init [CLoad 0], run init [ANotify], run init [AStore; APause],
   run init [APause; CReg 0; CLoad 0; CDecide 0; CWake 0]) = (None, None, None, None).
Proof. vm_compute. reflexivity. Qed.

(** The mutants' witnesses executed on the REAL protocol order are harmless. *)
Example ex_real_order_on_m2_witness :
  final 1 [APause; CReg 0; CLoad 0; AStore; ANotify; CDecide 0] = Some (false, false, [VPassed]).
Proof. vm_compute. reflexivity. Qed.

(** The regression scenario of the finding on the repaired model: held client, RELOAD (shared),
    RESUME, a second session's first query after the RESUME. *)
Example ex_reload_shared_releases :
  match rrun rinit [Base APause; Base (CReg 0); Base (CLoad 0); Base (CDecide 0); ReloadShared;
                    Base AStore; Base ANotify; Base (CWake 0); Refresh 0;
                    Base (CReg 1); Base (CLoad 1); Base (CDecide 1)] with
  | Some st => (view 2 (cells st 0), registered st, holds st 0, holds st 1) = ((false, false, [VPassed; VPassed]), 0, 0, 0)
  | None => False end.
Proof. vm_compute. reflexivity. Qed.

(** ... and the pause survives the reload. *)
Example ex_reload_shared_keeps_pause :
  match rrun rinit [Base APause; ReloadShared; Base (CReg 0); Base (CLoad 0); Base (CDecide 0)] with
  | Some st => view 1 (cells st (registered st)) = (true, false, [VBlocked])
  | None => False end.
Proof. vm_compute. reflexivity. Qed.

(** PAUSE; a client is held; RELOAD removes the pool: the client is released (and will be told
    that its pool is gone); PAUSE / RESUME can no longer address the pool. *)
Example ex_reload_remove_releases :
  match rrun rinit [Base APause; Base (CReg 0); Base (CLoad 0); Base (CDecide 0); ReloadRemove; Base (CWake 0)] with
  | Some st => (view 1 (cells st (holds st 0)), gone st, rstep st (Base APause), rstep st (Base AStore))
               = ((false, false, [VPassed]), true, None, None)
  | None => False end.
Proof. vm_compute. reflexivity. Qed.

(** F36 on the current code: the old session is held by the PAUSE of the re-added pool and
    released by its RESUME; a session whose pool is gone cannot even start to wait. *)
Example ex_f36_now_held :
  (rtrace_codes 1 (f36_history ++ [Base (CReg 0); Base (CLoad 0); Base (CDecide 0); Base AStore; Base ANotify; Base (CWake 0)]))
  = [[2; 0; 0]; [0; 0; 0]; [1; 0; 0]; [1; 0; 1]; [1; 0; 3]; [1; 0; 4]; [0; 1; 4]; [0; 0; 5]; [0; 0; 5]].
Proof. vm_compute. reflexivity. Qed.

Example ex_gone_pool_lookup_fails : rtrace_codes 1 [Base APause; ReloadRemove; Base (CReg 0)] = [[1; 0; 0]; [2; 0; 0]; []].
Proof. vm_compute. reflexivity. Qed.
