(** C16 — RELOAD on top of the pause-gate model.  Definitions only.

    [ConnectionPool::from_config] (src/pool.rs) builds a NEW pool object for every (db,user) whose
    configuration hash changed and registers it in [POOLS]; sessions keep the object they resolved
    earlier ([Client::handle]: [pool] is resolved at session start, [wait_paused] runs on it, and
    only afterwards [pool = self.get_pool()]), while PAUSE / RESUME act on the registered object.

    A pool object's gate state is the pair ([paused], [paused_waiter]) = one copy ("cell") of
    Pause.Model.state.
    * [ReloadShared]: the repaired code (commit "a pool rebuilt by RELOAD keeps its pause state and
      its waiters"): the new object gets clones of the old object's [Arc<AtomicBool>] and
      [Arc<Notify>], i.e. the SAME cell — nothing the gate can observe changes.  (An unchanged pool
      is re-registered as a clone of the old object: same thing.)
    * [ReloadFresh]: the code before the repair ([paused: Arc::new(AtomicBool::new(false)),
      paused_waiter: Arc::new(Notify::new())]): the registered object moves to a fresh cell, the
      old cell is no longer reachable by any admin command.
    * [ReloadRemove]: the new configuration no longer has the pool.  The repaired code (commit
      "resume a paused pool when a reload removes it") calls [resume()] on the pool object that is
      about to be dropped (store false, notify_waiters, by the console that runs the RELOAD) and
      then unregisters it: afterwards no admin command can address it ([gone]).
    * [Refresh c]: the session of client [c], past the gate, re-resolves its pool (when the pool is
      [gone] the session is told "No pool configured" and ends: modelled as a no-op, the client
      simply never acts again). *)
From Coq Require Import Arith Bool List.
From PV Require Import Pause.Model.
Import ListNotations.

Record rstate : Type := mkR {
  cells : nat -> state;        (* gate cells; cell 0 is the one the pool starts with *)
  registered : nat;            (* cell of the pool object currently in POOLS *)
  holds : client -> nat;       (* cell of the pool object each session holds *)
  fresh : nat;                 (* next unused cell *)
  gone : bool                  (* the (db,user) pool has been removed from the configuration *)
}.

Inductive rev : Type :=
| Base (e : ev)          (* a step of Pause.Model, on the cell of the acting party's pool object *)
| ReloadShared
| ReloadFresh
| ReloadRemove
| Refresh (c : client).

Definition rinit : rstate := mkR (fun _ => init) 0 (fun _ => 0) 1 false.

Definition target (st : rstate) (e : ev) : nat :=
  match actor e with Some c => holds st c | None => registered st end.

Definition is_admin (e : ev) : bool := match actor e with None => true | Some _ => false end.

(** [resolve]: which pool object a session waits on.
    * [true] — the code as it is now ([Client::handle]: [pool = self.get_pool().await?;
      pool.wait_paused().await; pool = self.get_pool().await?; ...]): at the start of every gate
      passage ([CReg]) the session looks its pool up in the registry, so it waits on the cell of
      the REGISTERED pool object; if the pool is [gone] the lookup fails ("No pool configured", the
      session ends: the step is not enabled).
    * [false] — the code before commit "a session whose user was removed and re-added by reloads
      is held by PAUSE again": the session waits on the object it resolved earlier ([holds]),
      refreshed only by [Refresh] after the wait.  Kept as a mutant ([rstep_gen false]).
    A removed pool that a later RELOAD adds again gets a fresh flag and [Notify]: that is
    [ReloadFresh] in a state where the pool is [gone] (there is no old registered object to share
    with).  [ReloadFresh] while the pool is NOT gone is the pre-repair replacement of a pool. *)
Definition reg_of (b : ev) : option client := match b with CReg c => Some c | _ => None end.

Definition base_on (st : rstate) (b : ev) : option rstate :=
  match step (cells st (target st b)) b with
  | Some s' => Some (mkR (upd (cells st) (target st b) s') (registered st) (holds st) (fresh st) (gone st))
  | None => None
  end.

Definition rstep_gen (resolve : bool) (st : rstate) (e : rev) : option rstate :=
  match e with
  | Base b =>
      if gone st && is_admin b then None          (* "No pool configured for database" *)
      else match (if resolve then reg_of b else None) with
           | Some c =>
               if gone st then None               (* the session's lookup fails: it ends with an error *)
               else match pcs (cells st (holds st c)) c with
                    | Idle => base_on (mkR (cells st) (registered st) (upd (holds st) c (registered st)) (fresh st) (gone st)) b
                    | _ => None
                    end
           | None => base_on st b
           end
  | ReloadShared => Some st
  | ReloadFresh => Some (mkR (cells st) (fresh st) (holds st) (S (fresh st)) false)
  | ReloadRemove =>
      if gone st then None
      else match run (cells st (registered st)) [AStore; ANotify] with
           | Some s' => Some (mkR (upd (cells st) (registered st) s') (registered st) (holds st) (fresh st) true)
           | None => None
           end
  | Refresh c =>
      if gone st then Some st
      else if Nat.eqb (holds st c) (registered st) then Some st
      else match pcs (cells st (holds st c)) c with
           | Passed =>
               Some (mkR (upd (upd (cells st) (holds st c) (set_pc (cells st (holds st c)) c Idle))
                              (registered st) (set_pc (cells st (registered st)) c Passed))
                         (registered st) (upd (holds st) c (registered st)) (fresh st) (gone st))
           | _ => None
           end
  end.

Definition rstep : rstate -> rev -> option rstate := rstep_gen true.

Fixpoint rrun_gen (resolve : bool) (st : rstate) (l : list rev) : option rstate :=
  match l with
  | [] => Some st
  | e :: r => match rstep_gen resolve st e with Some st' => rrun_gen resolve st' r | None => None end
  end.

Definition rrun : rstate -> list rev -> option rstate := rrun_gen true.

(** The gate-level schedule hidden in a schedule with reloads. *)
Fixpoint erase (l : list rev) : list ev :=
  match l with
  | [] => []
  | Base b :: r => b :: erase r
  | ReloadRemove :: r => AStore :: ANotify :: erase r
  | _ :: r => erase r
  end.

(** Final view read back by props/c16.py for the admin-console scenarios: [paused] of the registered
    pool object (2 = the pool is gone), then for each client the code ([code_pc]) of its pc in the cell of the pool object
    its session holds; [[]] if the schedule is not executable. *)
Definition rfinal (n : nat) (l : list rev) : list nat :=
  match rrun rinit l with
  | Some st => (if gone st then 2 else if paused (cells st (registered st)) then 1 else 0)
               :: map (fun c => code_pc (view_pc (cells st (holds st c)) c)) (seq 0 n)
  | None => []
  end.

(** Views after every step of a schedule with reloads, in the layout of [trace_codes]:
    [paused of the registered pool (2 = gone); resume half done; pc codes of each client in the cell of
    the pool object its session holds], [[]] from the first step that is not enabled (e.g. the lookup
    of a session whose pool is gone). *)
Definition rview (n : nat) (st : rstate) : list nat :=
  (if gone st then 2 else if paused (cells st (registered st)) then 1 else 0)
  :: (match apc (cells st (registered st)) with AIdle => 0 | AMidResume => 1 end)
  :: map (fun c => code_pc (view_pc (cells st (holds st c)) c)) (seq 0 n).

Fixpoint rtrace_from_gen (resolve : bool) (n : nat) (st : rstate) (l : list rev) : list (list nat) :=
  match l with
  | [] => []
  | e :: r => match rstep_gen resolve st e with
              | Some st' => rview n st' :: rtrace_from_gen resolve n st' r
              | None => [[]]
              end
  end.

Definition rtrace_codes (n : nat) (l : list rev) : list (list nat) := rtrace_from_gen true n rinit l.

(** The same for the mutant that waits on the pool object resolved earlier (self-test of props/c16wire.py). *)
Definition rtrace_codes_stale (n : nat) (l : list rev) : list (list nat) := rtrace_from_gen false n rinit l.
