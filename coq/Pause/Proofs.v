(** C16 — proofs about the pause-gate model (all histories, any number of clients). *)
From Coq Require Import Arith Bool List Lia.
From PV Require Import Pause.Model.
Import ListNotations.

(** * Reachability: step lists and the inductive closure coincide *)

Inductive reach (pdr : bool) : state -> Prop :=
| reach_init : reach pdr init
| reach_step : forall st e st', reach pdr st -> step_gen pdr st e = Some st' -> reach pdr st'.

Lemma run_reach_from : forall pdr l s st, reach pdr s -> run_gen pdr s l = Some st -> reach pdr st.
Proof.
  induction l as [|e r IH]; intros s st Hs H; cbn in H.
  - inversion H; subst; exact Hs.
  - destruct (step_gen pdr s e) as [s'|] eqn:E; [|discriminate].
    eapply IH; [|exact H]. eapply reach_step; eauto.
Qed.

Lemma run_snoc : forall pdr l s s1 e s2,
  run_gen pdr s l = Some s1 -> step_gen pdr s1 e = Some s2 -> run_gen pdr s (l ++ [e]) = Some s2.
Proof.
  induction l as [|a r IH]; intros s s1 e s2 H1 H2; cbn in *.
  - inversion H1; subst. rewrite H2. reflexivity.
  - destruct (step_gen pdr s a) as [s'|]; [|discriminate]. eapply IH; eauto.
Qed.

Lemma run_app : forall pdr l1 l2 s,
  run_gen pdr s (l1 ++ l2) = match run_gen pdr s l1 with Some s1 => run_gen pdr s1 l2 | None => None end.
Proof.
  induction l1 as [|a r IH]; intros l2 s; cbn; [reflexivity|].
  destruct (step_gen pdr s a); [apply IH|reflexivity].
Qed.

Lemma reachable_gen_reach : forall pdr st, reachable_gen pdr st <-> reach pdr st.
Proof.
  intros pdr st; split.
  - intros [l H]. eapply run_reach_from; [apply reach_init|exact H].
  - induction 1 as [|st e st' _ [l IH] Hs].
    + exists []. reflexivity.
    + exists (l ++ [e]). eapply run_snoc; eauto.
Qed.

Lemma reachable_reach : forall st, reachable st <-> reach false st.
Proof. intro st. apply (reachable_gen_reach false). Qed.

Lemma every_schedule_reachable : forall l st, run init l = Some st -> reachable st.
Proof. intros l st H. exists l. exact H. Qed.

(** * Step inversion *)

Lemma upd_same : forall A (f : client -> A) c v, upd f c v c = v.
Proof. intros. unfold upd. rewrite Nat.eqb_refl. reflexivity. Qed.

Lemma upd_other : forall A (f : client -> A) c v x, x <> c -> upd f c v x = f x.
Proof. intros. unfold upd. destruct (Nat.eqb_spec x c); [contradiction|reflexivity]. Qed.

(** Shape of a step: what each enabled event does to the core fields (ghost aside). *)
Inductive step_shape (pdr : bool) (st : state) : ev -> state -> Prop :=
| sh_reg : forall c, pcs st c = Idle ->
    step_shape pdr st (CReg c) (mkState (paused st) (gen st) (apc st) (upd (pcs st) c (Reg (gen st)))
                                       (upd (unpaused_since_reg st) c false))
| sh_load : forall c s, pcs st c = Reg s ->
    step_shape pdr st (CLoad c) (set_pc st c (Loaded s (paused st)))
| sh_decide : forall c s p, pcs st c = Loaded s p ->
    step_shape pdr st (CDecide c) (set_pc st c (if p then Waiting s else Passed))
| sh_wake : forall c s, pcs st c = Waiting s -> s < gen st ->
    step_shape pdr st (CWake c) (set_pc st c Passed)
| sh_done : forall c, pcs st c = Passed ->
    step_shape pdr st (CDone c) (set_pc st c Idle)
| sh_pause : apc st = AIdle \/ pdr = true ->
    step_shape pdr st APause (mkState true (gen st) (apc st) (pcs st) (unpaused_since_reg st))
| sh_store : apc st = AIdle ->
    step_shape pdr st AStore (mkState false (gen st) AMidResume (pcs st) (unpaused_since_reg st))
| sh_notify : apc st = AMidResume ->
    step_shape pdr st ANotify (mkState (paused st) (S (gen st)) AIdle (pcs st) (unpaused_since_reg st)).

Lemma step_core_shape : forall pdr st e st', step_core pdr st e = Some st' -> step_shape pdr st e st'.
Proof.
  intros pdr st e st' H. destruct e; unfold step_core in H.
  - destruct (pcs st c) eqn:E; try discriminate. inversion H; subst. constructor; assumption.
  - destruct (pcs st c) eqn:E; try discriminate. inversion H; subst. constructor; assumption.
  - destruct (pcs st c) eqn:E; try discriminate. inversion H; subst. econstructor; eassumption.
  - destruct (pcs st c) eqn:E; try discriminate.
    destruct (Nat.ltb snap (gen st)) eqn:L; try discriminate. inversion H; subst.
    eapply sh_wake; [eassumption|]. apply Nat.ltb_lt; assumption.
  - destruct (pcs st c) eqn:E; try discriminate. inversion H; subst. constructor; assumption.
  - destruct (apc st) eqn:E.
    + inversion H; subst. rewrite <- E. constructor. left; exact E.
    + destruct pdr; try discriminate. inversion H; subst. rewrite <- E. constructor. right; reflexivity.
  - destruct (apc st) eqn:E; try discriminate. inversion H; subst. constructor; assumption.
  - destruct (apc st) eqn:E; try discriminate. inversion H; subst. constructor; assumption.
Qed.

Lemma step_gen_inv : forall pdr st e st', step_gen pdr st e = Some st' ->
  exists m, step_shape pdr st e m /\ st' = observe m.
Proof.
  intros pdr st e st' H. unfold step_gen in H.
  destruct (step_core pdr st e) as [m|] eqn:E; [|discriminate].
  inversion H; subst. exists m. split; [apply step_core_shape; exact E|reflexivity].
Qed.

(** * Invariants *)

Definition snap_of (p : cpc) : option nat :=
  match p with Reg s | Loaded s _ | Waiting s => Some s | Idle | Passed => None end.

(** [held p s]: the client has decided (or will decide) to wait on the [Notified] created at
    generation [s]. *)
Definition held (p : cpc) (s : nat) : Prop := p = Loaded s true \/ p = Waiting s.

Record Inv (st : state) : Prop := {
  inv_snap : forall c s, snap_of (pcs st c) = Some s -> s <= gen st;
  inv_wake : forall c s, held (pcs st c) s -> paused st = false -> apc st = AIdle -> s < gen st
}.

Lemma inv_init : Inv init.
Proof. split; intros c s H; cbn in *; [discriminate|destruct H; discriminate]. Qed.

Ltac split_client c0 c :=
  destruct (Nat.eq_dec c0 c) as [->|?];
  [rewrite ?upd_same in *|rewrite ?upd_other in * by assumption].

Lemma inv_step : forall pdr st e st', Inv st -> step_gen pdr st e = Some st' -> Inv st'.
Proof.
  intros pdr st e st' [HS HW] H.
  apply step_gen_inv in H. destruct H as [m [Hm ->]].
  inversion Hm; subst; clear Hm; split; cbn; intros c0 s0.
  (* CReg *)
  - split_client c0 c; cbn; intro E; [inversion E; lia|eauto].
  - split_client c0 c; intros Hh; [destruct Hh; discriminate|eauto].
  (* CLoad *)
  - split_client c0 c; cbn; intro E; [inversion E; subst; apply (HS c); rewrite H; reflexivity|eauto].
  - split_client c0 c; intros Hh Hp Ha; [|eauto].
    destruct Hh as [Hh|Hh]; [|discriminate]. inversion Hh; subst. congruence.
  (* CDecide *)
  - split_client c0 c; cbn; intro E; [|eauto].
    destruct p; cbn in E; [|discriminate]. inversion E; subst. apply (HS c). rewrite H. reflexivity.
  - split_client c0 c; intros Hh Hp Ha; [|eauto].
    destruct p; destruct Hh as [Hh|Hh]; try discriminate.
    inversion Hh; subst. apply (HW c); auto. left. assumption.
  (* CWake *)
  - split_client c0 c; cbn; intro E; [discriminate|eauto].
  - split_client c0 c; intros Hh; [destruct Hh; discriminate|eauto].
  (* CDone *)
  - split_client c0 c; cbn; intro E; [discriminate|eauto].
  - split_client c0 c; intros Hh; [destruct Hh; discriminate|eauto].
  (* APause *)
  - eauto.
  - intros _ Hp. discriminate.
  (* AStore *)
  - eauto.
  - intros _ _ Ha. discriminate.
  (* ANotify *)
  - intro E. apply HS in E. lia.
  - intros Hh _ _. assert (s0 <= gen st); [|lia].
    apply (HS c0). destruct Hh as [Hh|Hh]; rewrite Hh; reflexivity.
Qed.

Lemma reach_inv : forall pdr st, reach pdr st -> Inv st.
Proof. induction 1; [apply inv_init|eapply inv_step; eauto]. Qed.

(** ** No lost wake-up (also with a second console pausing in the middle of a RESUME) *)

Lemma no_lost_wakeup_gen : forall pdr st, reachable_gen pdr st -> paused st = false -> apc st = AIdle ->
  forall c snap, pcs st c = Waiting snap -> snap < gen st.
Proof.
  intros pdr st R Hp Ha c s Hc. apply reachable_gen_reach in R. apply reach_inv in R.
  apply (inv_wake st R c); auto. right; assumption.
Qed.

Lemma no_lost_wakeup : forall st, reachable st -> paused st = false -> apc st = AIdle ->
  forall c snap, pcs st c = Waiting snap -> snap < gen st.
Proof. exact (no_lost_wakeup_gen false). Qed.

Lemma wake_progress : forall st, reachable st -> paused st = false -> apc st = AIdle ->
  forall c snap, pcs st c = Waiting snap ->
  exists st', step st (CWake c) = Some st' /\ pcs st' c = Passed /\
              (forall d, d <> c -> pcs st' d = pcs st d) /\ paused st' = paused st /\ apc st' = apc st.
Proof.
  intros st R Hp Ha c s Hc. pose proof (no_lost_wakeup st R Hp Ha c s Hc) as L.
  unfold step, step_gen, step_core. rewrite Hc. apply Nat.ltb_lt in L. rewrite L.
  eexists; split; [reflexivity|]. cbn. rewrite upd_same. repeat split; auto.
  intros d Hd. apply upd_other; assumption.
Qed.

(** Effect of each client step on the shared fields and on its own pc. *)
Definition same_shared (st st' : state) : Prop :=
  paused st' = paused st /\ gen st' = gen st /\ apc st' = apc st.

Lemma do_reg : forall st c, pcs st c = Idle ->
  exists st', step st (CReg c) = Some st' /\ pcs st' c = Reg (gen st) /\ same_shared st st'.
Proof.
  intros st c E. unfold step, step_gen, step_core. rewrite E. eexists; split; [reflexivity|].
  unfold same_shared; cbn. rewrite upd_same. auto.
Qed.

Lemma do_load : forall st c s, pcs st c = Reg s ->
  exists st', step st (CLoad c) = Some st' /\ pcs st' c = Loaded s (paused st) /\ same_shared st st'.
Proof.
  intros st c s E. unfold step, step_gen, step_core. rewrite E. eexists; split; [reflexivity|].
  unfold same_shared; cbn. rewrite upd_same. auto.
Qed.

Lemma do_decide : forall st c s p, pcs st c = Loaded s p ->
  exists st', step st (CDecide c) = Some st' /\ pcs st' c = (if p then Waiting s else Passed) /\ same_shared st st'.
Proof.
  intros st c s p E. unfold step, step_gen, step_core. rewrite E. eexists; split; [reflexivity|].
  unfold same_shared; cbn. rewrite upd_same. auto.
Qed.

Lemma do_wake : forall st c s, pcs st c = Waiting s -> s < gen st ->
  exists st', step st (CWake c) = Some st' /\ pcs st' c = Passed /\ same_shared st st'.
Proof.
  intros st c s E L. unfold step, step_gen, step_core. rewrite E. apply Nat.ltb_lt in L. rewrite L.
  eexists; split; [reflexivity|]. unfold same_shared; cbn. rewrite upd_same. auto.
Qed.

Lemma run_cons : forall st e st' r, step st e = Some st' -> run st (e :: r) = run st' r.
Proof. intros st e st' r H. unfold run. simpl run_gen. unfold step in H. rewrite H. reflexivity. Qed.

(** Every client, wherever it is, gets past the gate by its own steps alone (at most three, no
    admin step needed) once the pool is resumed and the RESUME has completed. *)
Lemma client_progress : forall st, reachable st -> paused st = false -> apc st = AIdle ->
  forall c, exists st', run st (finish c st) = Some st' /\ pcs st' c = Passed /\
                        Forall (fun e => actor e = Some c) (finish c st) /\ length (finish c st) <= 3.
Proof.
  intros st R Hp Ha c. apply reachable_reach in R. apply reach_inv in R. destruct R as [HS HW].
  unfold finish. destruct (pcs st c) as [|s|s p|s|] eqn:E.
  - (* Idle *)
    destruct (do_reg st c E) as [s1 [S1 [P1 [Q1 [_ _]]]]].
    destruct (do_load s1 c _ P1) as [s2 [S2 [P2 [Q2 [_ _]]]]].
    rewrite Q1, Hp in P2.
    destruct (do_decide s2 c _ _ P2) as [s3 [S3 [P3 _]]].
    exists s3. rewrite (run_cons _ _ _ _ S1), (run_cons _ _ _ _ S2), (run_cons _ _ _ _ S3).
    repeat split; auto; cbn; lia.
  - (* Reg *)
    destruct (do_load st c _ E) as [s2 [S2 [P2 _]]]. rewrite Hp in P2.
    destruct (do_decide s2 c _ _ P2) as [s3 [S3 [P3 _]]].
    exists s3. rewrite (run_cons _ _ _ _ S2), (run_cons _ _ _ _ S3).
    repeat split; auto; cbn; lia.
  - destruct p.
    + (* Loaded true *)
      assert (L : s < gen st) by (apply (HW c); auto; left; assumption).
      destruct (do_decide st c _ _ E) as [s2 [S2 [P2 [_ [G2 _]]]]].
      rewrite <- G2 in L.
      destruct (do_wake s2 c _ P2 L) as [s3 [S3 [P3 _]]].
      exists s3. rewrite (run_cons _ _ _ _ S2), (run_cons _ _ _ _ S3).
      repeat split; auto; cbn; lia.
    + destruct (do_decide st c _ _ E) as [s2 [S2 [P2 _]]].
      exists s2. rewrite (run_cons _ _ _ _ S2). repeat split; auto; cbn; lia.
  - (* Waiting *)
    assert (L : s < gen st) by (apply (HW c); auto; right; assumption).
    destruct (do_wake st c _ E L) as [s3 [S3 [P3 _]]].
    exists s3. rewrite (run_cons _ _ _ _ S3). repeat split; auto; cbn; lia.
  - exists st. repeat split; auto; cbn; lia.
Qed.

(** * Gate safety (one console) *)

(** Is the client's passage justified by an instant at which [paused] was false? *)
Definition justified (st : state) (c : client) : Prop :=
  match pcs st c with
  | Idle => True
  | Loaded _ false | Passed => unpaused_since_reg st c = true
  | Reg s | Loaded s true | Waiting s => s < gen st -> unpaused_since_reg st c = true
  end.

Record Inv1 (st : state) : Prop := {
  inv_mid : apc st = AMidResume -> paused st = false;
  inv_just : forall c, justified st c
}.

Lemma inv1_init : Inv1 init.
Proof. split; [discriminate|intro c; exact I]. Qed.

Ltac keep_just HJ0 :=
  cbn; auto;
  try (let L := fresh "L" in intro L; rewrite (HJ0 L); reflexivity);
  try (rewrite HJ0; reflexivity);
  try (intros _; apply orb_true_r);
  try (apply orb_true_r).

Lemma inv1_step : forall st e st', Inv st -> Inv1 st -> step st e = Some st' -> Inv1 st'.
Proof.
  intros st e st' [HS HW] [HM HJ] H.
  apply step_gen_inv in H. destruct H as [m [Hm ->]].
  split.
  - (* a RESUME in flight implies paused = false (one console) *)
    inversion Hm; subst; cbn; auto; try discriminate.
    destruct H as [H|H]; [|discriminate]. intro E. congruence.
  - intro c0. pose proof (HJ c0) as HJ0. unfold justified in *.
    inversion Hm; subst; cbn.
    + (* CReg *)
      split_client c0 c; cbn.
      * intro L. lia.
      * destruct (pcs st c0) as [|s0|s0 [|]|s0|]; keep_just HJ0.
    + (* CLoad *)
      split_client c0 c; cbn.
      * rewrite H in HJ0. destruct (paused st) eqn:P; keep_just HJ0.
      * destruct (pcs st c0) as [|s0|s0 [|]|s0|]; keep_just HJ0.
    + (* CDecide *)
      split_client c0 c; cbn.
      * rewrite H in HJ0. destruct p; keep_just HJ0.
      * destruct (pcs st c0) as [|s0|s0 [|]|s0|]; keep_just HJ0.
    + (* CWake *)
      split_client c0 c; cbn.
      * rewrite H in HJ0. rewrite (HJ0 H0). reflexivity.
      * destruct (pcs st c0) as [|s0|s0 [|]|s0|]; keep_just HJ0.
    + (* CDone *)
      split_client c0 c; cbn; [exact I|].
      destruct (pcs st c0) as [|s0|s0 [|]|s0|]; keep_just HJ0.
    + (* APause *)
      destruct (pcs st c0) as [|s0|s0 [|]|s0|]; keep_just HJ0.
    + (* AStore: paused is false now *)
      destruct (pcs st c0) as [|s0|s0 [|]|s0|]; keep_just HJ0.
    + (* ANotify: paused is still false (inv_mid) *)
      rewrite (HM H).
      destruct (pcs st c0) as [|s0|s0 [|]|s0|]; keep_just HJ0.
Qed.

Lemma reach_inv1 : forall st, reach false st -> Inv1 st.
Proof.
  induction 1 as [|st e st' R IH Hs]; [apply inv1_init|].
  eapply inv1_step; eauto. eapply reach_inv; eauto.
Qed.

Lemma held_while_paused : forall st, reachable st ->
  forall c, pcs st c = Passed -> unpaused_since_reg st c = true.
Proof.
  intros st R c Hc. apply reachable_reach in R. apply reach_inv1 in R.
  pose proof (inv_just st R c) as J. unfold justified in J. rewrite Hc in J. exact J.
Qed.

Lemma mid_resume_unpaused : forall st, reachable st -> apc st = AMidResume -> paused st = false.
Proof. intros st R. apply reachable_reach in R. apply reach_inv1 in R. apply (inv_mid st R). Qed.

(** ** The ghost means what it says: a ghost-free statement over schedules.

    If client [c] is past the gate after schedule [l], then [l] splits as [l1 ++ l2] where [l1]
    contains [c]'s latest registration, [l2] contains no registration of [c], and [paused] was
    false in the state reached after [l1] — i.e. at some instant at or after it registered. *)

Lemma ghost_sound : forall l st, run init l = Some st ->
  forall c, (pcs st c <> Idle -> In (CReg c) l) /\
   (pcs st c <> Idle -> unpaused_since_reg st c = true ->
    exists l1 l2 st1, l = l1 ++ l2 /\ run init l1 = Some st1 /\ paused st1 = false /\
                      In (CReg c) l1 /\ ~ In (CReg c) l2).
Proof.
  induction l as [|e l IH] using rev_ind; intros st H c.
  - cbn in H. inversion H; subst. cbn. split; intro N; exfalso; apply N; reflexivity.
  - unfold run in H. rewrite run_app in H.
    destruct (run_gen false init l) as [s|] eqn:Hl; [|discriminate].
    cbn in H. destruct (step_gen false s e) as [s'|] eqn:Hs; [|discriminate].
    inversion H; subst s'; clear H.
    specialize (IH s Hl c). destruct IH as [IHa IHb].
    destruct (step_gen_inv _ _ _ _ Hs) as [m [Hm ->]].
    (* is e the registration of c ? *)
    assert (Hcase : e = CReg c \/
              (e <> CReg c /\ (pcs (observe m) c <> Idle -> pcs s c <> Idle) /\
               (unpaused_since_reg (observe m) c = true -> pcs (observe m) c <> Idle ->
                unpaused_since_reg s c = true \/ paused (observe m) = false))).
    { inversion Hm; subst; cbn.
      - destruct (Nat.eq_dec c c0) as [->|Hne]; [left; reflexivity|right].
        rewrite !upd_other by assumption.
        split; [congruence|]. split; [auto|].
        intros G _. apply orb_true_iff in G. destruct G as [G|G]; [left; exact G|].
        right. apply andb_true_iff in G. destruct G as [_ G]. apply negb_true_iff in G. exact G.
      - right. split; [discriminate|]. split.
        + destruct (Nat.eq_dec c c0) as [->|Hne]; [rewrite upd_same; intros _; congruence|
                                                   rewrite upd_other by assumption; auto].
        + intros G _. apply orb_true_iff in G. destruct G as [G|G]; [left; exact G|].
          right. apply andb_true_iff in G. destruct G as [_ G]. apply negb_true_iff in G. exact G.
      - right. split; [discriminate|]. split.
        + destruct (Nat.eq_dec c c0) as [->|Hne]; [rewrite upd_same; intros _; congruence|
                                                   rewrite upd_other by assumption; auto].
        + intros G _. apply orb_true_iff in G. destruct G as [G|G]; [left; exact G|].
          right. apply andb_true_iff in G. destruct G as [_ G]. apply negb_true_iff in G. exact G.
      - right. split; [discriminate|]. split.
        + destruct (Nat.eq_dec c c0) as [->|Hne]; [rewrite upd_same; intros _; congruence|
                                                   rewrite upd_other by assumption; auto].
        + intros G _. apply orb_true_iff in G. destruct G as [G|G]; [left; exact G|].
          right. apply andb_true_iff in G. destruct G as [_ G]. apply negb_true_iff in G. exact G.
      - right. split; [discriminate|]. split.
        + destruct (Nat.eq_dec c c0) as [->|Hne]; [rewrite upd_same; intros N; exfalso; apply N; reflexivity|
                                                   rewrite upd_other by assumption; auto].
        + intros G _. apply orb_true_iff in G. destruct G as [G|G]; [left; exact G|].
          right. apply andb_true_iff in G. destruct G as [_ G]. apply negb_true_iff in G. exact G.
      - right. split; [discriminate|]. split; [auto|].
        intros G _. apply orb_true_iff in G. destruct G as [G|G]; [left; exact G|].
        apply andb_true_iff in G. destruct G as [_ G]. discriminate.
      - right. split; [discriminate|]. split; [auto|]. intros _ _. right. reflexivity.
      - right. split; [discriminate|]. split; [auto|].
        intros G _. apply orb_true_iff in G. destruct G as [G|G]; [left; exact G|].
        right. apply andb_true_iff in G. destruct G as [_ G]. apply negb_true_iff in G. exact G. }
    assert (Hrun : run init (l ++ [e]) = Some (observe m)).
    { unfold run. eapply run_snoc; eauto. }
    destruct Hcase as [-> | [Hne [Hidle Hg]]].
    + (* e = CReg c *)
      split; [intros _; apply in_or_app; right; left; reflexivity|].
      intros _ G. inversion Hm; subst. cbn in G. rewrite !upd_same in G. cbn in G.
      exists (l ++ [CReg c]), [], (observe (mkState (paused s) (gen s) (apc s) (upd (pcs s) c (Reg (gen s)))
                                                    (upd (unpaused_since_reg s) c false))).
      split; [rewrite app_nil_r; reflexivity|]. split; [exact Hrun|]. split.
      { cbn. destruct (paused s); [discriminate G|reflexivity]. }
      split; [apply in_or_app; right; left; reflexivity|intros []].
    + split.
      * intro N. apply in_or_app. left. apply IHa. apply Hidle. exact N.
      * intros N G. destruct (Hg G N) as [G'|P].
        -- destruct (IHb (Hidle N) G') as [l1 [l2 [st1 [E [R1 [P1 [I1 N2]]]]]]].
           exists l1, (l2 ++ [e]), st1. split; [rewrite E, app_assoc; reflexivity|].
           split; [exact R1|]. split; [exact P1|]. split; [exact I1|].
           intro I. apply in_app_or in I. destruct I as [I|[I|[]]]; [apply N2; exact I|].
           apply Hne. exact I.
        -- exists (l ++ [e]), [], (observe m). split; [rewrite app_nil_r; reflexivity|].
           split; [exact Hrun|]. split; [exact P|].
           split; [apply in_or_app; left; apply IHa; apply Hidle; exact N|intros []].
Qed.

Lemma held_while_paused_trace : forall l st c, run init l = Some st -> pcs st c = Passed ->
  exists l1 l2 st1, l = l1 ++ l2 /\ run init l1 = Some st1 /\ paused st1 = false /\
                    In (CReg c) l1 /\ ~ In (CReg c) l2.
Proof.
  intros l st c H Hc. destruct (ghost_sound l st H c) as [_ G]. apply G.
  - rewrite Hc. discriminate.
  - apply held_while_paused; [exists l; exact H|exact Hc].
Qed.

(** A client that registers while the pool is paused stays held for as long as no RESUME stores
    [false]: contrapositive use of the above needs "paused stays true without AStore". *)
Lemma paused_stays : forall l s st, run s l = Some st -> paused s = true -> ~ In AStore l -> paused st = true.
Proof.
  induction l as [|e l IH]; intros s st H P N; cbn in H.
  - inversion H; subst; exact P.
  - unfold run in H; cbn in H. destruct (step_gen false s e) as [s'|] eqn:Hs; [|discriminate].
    apply (IH s' st H); [|intro I; apply N; right; exact I].
    destruct (step_gen_inv _ _ _ _ Hs) as [m [Hm ->]].
    inversion Hm; subst; cbn; auto. exfalso. apply N. left. reflexivity.
Qed.

Lemma arrival_while_paused_is_held : forall l0 l s0 st c,
  run init l0 = Some s0 -> paused s0 = true ->
  run s0 (CReg c :: l) = Some st -> ~ In AStore l -> ~ In (CReg c) l ->
  pcs st c <> Passed.
Proof.
  intros l0 l s0 st c H0 P0 H NS NR Hc.
  assert (Hall : run init (l0 ++ CReg c :: l) = Some st).
  { unfold run. rewrite run_app. fold (run init l0). rewrite H0. exact H. }
  destruct (held_while_paused_trace _ _ c Hall Hc) as [l1 [l2 [st1 [E [R1 [P1 [I1 N2]]]]]]].
  (* l1 must extend l0 ++ [CReg c]: the last CReg c of the schedule is in l1 *)
  assert (Hpre : exists k, l1 = l0 ++ CReg c :: k /\ l = k ++ l2).
  { clear - E I1 N2 NR.
    revert l1 E I1. induction l0 as [|a l0 IH]; intros l1 E I1; cbn in E.
    - destruct l1 as [|b l1]; [destruct I1|]. cbn in E. inversion E; subst. exists l1. split; reflexivity.
    - destruct l1 as [|b l1].
      + cbn in E. subst l2. exfalso. apply N2. right. apply in_or_app. right. left. reflexivity.
      + cbn in E. inversion E; subst b.
        destruct (IH l1 H1) as [k [K1 K2]].
        * destruct I1 as [I1|I1]; [|exact I1].
          (* the head is CReg c: still, some CReg c must be in l1 or else l2 has one *)
          destruct (in_dec (fun x y : ev => ltac:(decide equality; apply Nat.eq_dec)) (CReg c) l1) as [I|NI];
            [exact I|].
          exfalso. assert (In (CReg c) (l1 ++ l2)) as I2.
          { rewrite <- H1. apply in_or_app. right. left. reflexivity. }
          apply in_app_or in I2. destruct I2; contradiction.
        * exists k. split; [rewrite K1; reflexivity|exact K2]. }
  destruct Hpre as [k [-> ->]].
  unfold run in R1. rewrite run_app in R1. fold (run init l0) in R1. rewrite H0 in R1.
  assert (paused st1 = true); [|congruence].
  cbn in R1. destruct (step_gen false s0 (CReg c)) as [s1|] eqn:Hs; [|discriminate].
  apply (paused_stays k s1 st1 R1).
  - destruct (step_gen_inv _ _ _ _ Hs) as [m [Hm ->]]. inversion Hm; subst; cbn. exact P0.
  - intro I. apply NS. apply in_or_app. left. exact I.
Qed.

(** * Running transactions are untouched *)

Lemma step_other_actor : forall pdr st e st' c, step_gen pdr st e = Some st' -> actor e <> Some c ->
  pcs st' c = pcs st c.
Proof.
  intros pdr st e st' c H N. destruct (step_gen_inv _ _ _ _ H) as [m [Hm ->]].
  inversion Hm; subst; cbn in *; try reflexivity;
    apply upd_other; intro E; apply N; rewrite E; reflexivity.
Qed.

Lemma running_unaffected : forall st e st' c, step st e = Some st' -> pcs st c = Passed ->
  (actor e = None -> pcs st' c = Passed) /\ (pcs st' c <> Passed -> e = CDone c /\ pcs st' c = Idle).
Proof.
  intros st e st' c H Hc. split.
  - intro A. rewrite (step_other_actor _ _ _ _ c H); [exact Hc|rewrite A; discriminate].
  - intro N. destruct (step_gen_inv _ _ _ _ H) as [m [Hm ->]].
    inversion Hm; subst; cbn in *; try contradiction;
      destruct (Nat.eq_dec c c0) as [->|Hne];
      try (rewrite upd_other in N by assumption; contradiction);
      try congruence.
    rewrite upd_same. split; reflexivity.
Qed.

(** * The two-console race is outside the guarantee *)

Definition two_admin_schedule : list ev :=
  [APause; AStore; APause; CReg 0; CLoad 0; CDecide 0; ANotify; CWake 0].

Lemma two_admin_refuted : exists st, reachable_gen true st /\ pcs st 0 = Passed /\ unpaused_since_reg st 0 = false
                                     /\ paused st = true.
Proof.
  destruct (run_gen true init two_admin_schedule) as [st|] eqn:E; [|vm_compute in E; discriminate].
  exists st. split; [exists two_admin_schedule; exact E|].
  vm_compute in E. inversion E; subst; clear E. vm_compute. repeat split.
Qed.
