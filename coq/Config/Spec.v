(** C15 — what "servable" means, stated over the model's index operations. *)
From Coq Require Import ZArith List Bool.
From PV Require Import Config.Model.
Import ListNotations.
Open Scope Z_scope.

(** A BTreeMap cannot hold 2^63 entries; the hypothesis only excludes lists that no
    machine can store (from_config sorts the keys as i64, validate parses them as usize). *)
Definition small_pool (p : pool) : Prop := Z.of_nat (length (p_shards p)) <= i64_max.
Definition small (c : config) : Prop := Forall small_pool (c_pools c).

(** DefaultShard::Shard and mirroring_target_index carry a usize (the model keeps Z): they
    are not negative. *)
Definition typed_pool (p : pool) : Prop :=
  match p_default_shard p with DShard d => 0 <= d | _ => True end /\
  Forall (fun ks => Forall (fun m => 0 <= mi_target m) (sh_mirrors (snd ks))) (p_shards p).
Definition typed (c : config) : Prop := Forall typed_pool (c_pools c).

(** The pool built for one (pool section, user) can be addressed in every way the running
    pooler addresses it. *)
Definition servable (p : pool) (bp : built) : Prop :=
  let n := length (p_shards p) in
  (* the sharder computes key % shards: the modulus is the number of configured shards, > 0 *)
  (0 < n)%nat /\ shards bp = n /\ bp_settings_shards bp = n /\
  indices_ok bp = true /\
  (* positional walks (admin SHOW .., prometheus, validate()): position = number *)
  (forall sh i a, address_at bp sh i = Some a ->
      a_shard a = Z.of_nat sh /\ a_index a = i /\
      exists b, pool_state_at bp sh i = Some b /\ b_address b = a) /\
  (* address(shard, 0) of SHOW DATABASES and address(0, 0) of the auth_query refetch *)
  (forall sh, (sh < n)%nat -> exists a, address_at bp sh 0%nat = Some a) /\
  (* operations keyed by an Address: get's checkout, ban, unban, is_banned, try_unban *)
  (forall a, In a (all_addresses bp) ->
      (exists b, get_index bp a = Some b /\ b_address b = a) /\
      ban_index bp a = true /\ try_unban_index bp a = true) /\
  (* selecting shard number sh reaches exactly the servers written under the key that denotes sh *)
  (forall sh, (sh < n)%nat ->
      exists k shc, In (k, shc) (p_shards p) /\ parse_usize k = Some (Z.of_nat sh) /\
        (forall r, map server_of (candidates bp (Z.of_nat sh) r)
                  = filter (fun sv => role_matches r (sv_role sv)) (sh_servers shc) /\
                  get_candidates bp (Some (Z.of_nat sh)) r = Some (candidates bp (Z.of_nat sh) r)) /\
        (* every configured mirror is attached to the server at its mirroring_target_index *)
        (forall j m, nth_error (sh_mirrors shc) j = Some m ->
           exists a, address_at bp sh (Z.to_nat (mi_target m)) = Some a /\
             In {| ma_host := mi_host m; ma_port := mi_port m; ma_role := a_role a; ma_index := j;
                   ma_replica_number := a_replica_number a; ma_shard := Z.of_nat sh |} (a_mirrors a))) /\
  (* a shard number outside the configured ones is refused, never misrouted *)
  (forall sh r, (1 < n)%nat -> Z.of_nat n <= sh -> get_candidates bp (Some sh) r = None) /\
  (* no shard selected: the configured default *)
  bp_default_shard bp = p_default_shard p /\
  match p_default_shard p with
  | DShard d => 0 <= d < Z.of_nat n /\ forall r, get_candidates bp None r = Some (candidates bp d r)
  | _ => forall r, get_candidates bp None r
                   = Some (filter (fun a => role_matches r (a_role a)) (all_addresses bp))
  end.

(** The settings the pool runs with follow the precedence the code implements:
    pool_mode: user over pool; plugins: the pool's [plugins] table as a whole over the global
    one; the three bb8 timeouts: user over pool over [general]; sizes and statement_timeout:
    the user's own; and everything bb8's builder asserts holds. *)
Definition settings_ok (c : config) (p : pool) (u : user) (bp : built) : Prop :=
  bp_pool_mode bp = match u_pool_mode u with Some m => m | None => p_pool_mode p end /\
  bp_plugins bp = match p_plugins p with Some x => Some x | None => g_plugins c end /\
  bp_user_cfg bp = u /\ bp_pool_size bp = u_pool_size u /\

  bp_auto_key bp = option_map unquote (p_auto_key p) /\
  bp_parser bp = p_parser p /\ bp_rw_split bp = p_rw_split p /\
  forall row b, In row (bp_databases bp) -> In b row ->
    b_max_size b = u_pool_size u /\ b_max_size b <> 0 /\
    b_min_idle b = u_min_pool_size u /\
    (forall m, b_min_idle b = Some m -> m <= b_max_size b) /\
    b_connect_timeout b = eff (u_connect_timeout u) (p_connect_timeout p) (g_connect_timeout c) /\
    b_idle_timeout b = eff (u_idle_timeout u) (p_idle_timeout p) (g_idle_timeout c) /\
    b_max_lifetime b = eff (u_server_lifetime u) (p_server_lifetime p) (g_server_lifetime c) /\
    b_connect_timeout b <> 0 /\ b_idle_timeout b <> 0 /\ b_max_lifetime b <> 0.

(** A built pool belongs to a configured (pool section, user), is servable for it, carries
    that user's settings, and has a secret to present to a server that asks for one — whatever
    auth_type says about the CLIENT side (fill_pool: auth_query* inherited from [general]). *)
Definition good (c : config) (bp : built) : Prop :=
  exists p ku, In p (c_pools c) /\ In ku (p_users p) /\
               bp_db bp = p_name p /\ bp_user bp = u_name (snd ku) /\ servable p bp /\
               settings_ok c p (snd ku) bp /\ has_secret (fill_pool c p) (bp_user_cfg bp) = true.

(** The same configuration with the two TLS options removed. *)
Definition without_tls (c : config) : config :=
  {| g_auth_query := g_auth_query c; g_auth_user := g_auth_user c; g_auth_password := g_auth_password c;
     g_connect_timeout := g_connect_timeout c; g_idle_timeout := g_idle_timeout c;
     g_server_lifetime := g_server_lifetime c;
     g_tls_cert := None; g_tls_key := None; g_plugins := g_plugins c; c_pools := c_pools c |}.
