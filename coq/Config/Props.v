(** C15 — property theorems only.  Each is closed by [exact <lemma>] and audited with
    [Print Assumptions]; Examples give non-vacuity and keep the old defect witnesses rejected. *)
From Coq Require Import ZArith List Bool Permutation.
From PV Require Import Config.Model Config.Spec Config.Proofs Config.Defaults Gen.ConfigDefaults.
Import ListNotations.
Open Scope Z_scope.

(** helpers for the witnesses and examples below *)
Definition h1 : str := [49; 50; 55; 46; 48; 46; 48; 46; 49].           (* "127.0.0.1" *)
Definition sv (port : Z) (r : role) : server := {| sv_host := h1; sv_port := port; sv_role := r |}.
Definition usr (name : str) (size : Z) : user :=
  {| u_name := name; u_password := true; u_pool_size := size; u_min_pool_size := None;
     u_connect_timeout := None; u_idle_timeout := None; u_server_lifetime := None;
     u_pool_mode := None; u_statement_timeout := 0;
     u_auth_type := AuthMD5; u_server_username := false; u_server_password := false |}.
Definition mkpool (shs : list (str * shard)) (us : list (str * user)) (ds : dshard) (dr : str) : pool :=
  {| p_name := [100; 98]; p_default_role := dr; p_default_shard := ds;
     p_parser := false; p_rw_split := false; p_plugins := None; p_pool_mode := Transaction; p_auto_key := None;
     p_key_regex := None; p_shard_regex := None;
     p_auth_query := false; p_auth_user := false; p_auth_password := false;
     p_connect_timeout := None; p_idle_timeout := None; p_server_lifetime := None;
     p_activity := false; p_act_delay := 100; p_act_ttl := 900; p_mut_ttl := 50;
     p_shards := shs; p_users := us |}.
Definition mkcfg (ps : list pool) : config :=
  {| g_auth_query := false; g_auth_user := false; g_auth_password := false;
     g_connect_timeout := 1000; g_idle_timeout := 600000; g_server_lifetime := 3600000;
     g_tls_cert := None; g_tls_key := None; g_plugins := None; c_pools := ps |}.
Definition shd (svs : list server) : shard := {| sh_servers := svs; sh_mirrors := [] |}.


(** Every configuration that [config::parse] accepts is built by [from_config] without a
    panic; every configured (pool, user) gets a pool; and every built pool is servable:
    all positional and address-keyed index operations are in bounds and hit the right
    entry, the candidates for shard number sh are exactly the servers written under the key
    denoting sh, out-of-range numbers are refused, the default shard exists, and the
    sharder's modulus is the (non-zero) number of shards. *)
Theorem c15_accepted_servable : forall c, accept c = true -> small c -> typed c ->
  exists pools, build c = Built pools /\
    (forall bp, In bp pools -> good c bp) /\
    (forall p ku, In p (c_pools c) -> In ku (p_users p) ->
       exists bp, In bp pools /\ bp_db bp = p_name p /\ bp_user bp = u_name (snd ku)).
Proof. exact accepted_servable. Qed.
Print Assumptions c15_accepted_servable.

(** The settings of every built pool follow the code's precedence: pool_mode user over pool,
    plugins pool table over the global one, bb8 timeouts user over pool over [general] (all
    non-zero), sizes / statement_timeout the user's own. *)
Theorem c15_built_settings : forall c pools, accept c = true -> small c -> typed c -> build c = Built pools ->
  forall bp, In bp pools ->
  exists p ku, In p (c_pools c) /\ In ku (p_users p) /\ bp_db bp = p_name p /\ bp_user bp = u_name (snd ku) /\
               settings_ok c p (snd ku) bp.
Proof. exact built_settings. Qed.
Print Assumptions c15_built_settings.

(** Whatever auth_type says about the client side, every built pool has a secret to present to
    a server that asks for one: server_password, the user's password, or a fully configured
    auth_query (own or inherited from [general]). *)
Theorem c15_built_has_credentials : forall c pools, accept c = true -> small c -> typed c -> build c = Built pools ->
  forall bp, In bp pools -> exists p, In p (c_pools c) /\ bp_db bp = p_name p /\ has_secret (fill_pool c p) (bp_user_cfg bp) = true.
Proof. exact built_secret. Qed.
Print Assumptions c15_built_has_credentials.

Theorem c15_rejects_trust_without_secret : forall c p ku, In p (c_pools c) -> In ku (p_users p) ->
  u_auth_type (snd ku) = AuthTrust -> u_password (snd ku) = false ->
  is_auth_query_configured (fill_pool c p) = false -> accept c = false.
Proof. exact reject_trust_without_secret. Qed.
Print Assumptions c15_rejects_trust_without_secret.

(** tls_certificate / tls_private_key only add their own conditions: with a loadable pair (or
    without a certificate) the verdict is the verdict of the same file without them — in
    particular every pool / shard / user check still runs. *)
Theorem c15_tls_verdict : forall c, accept c = tls_ok c && accept (without_tls c).
Proof. exact accept_tls. Qed.
Print Assumptions c15_tls_verdict.

Theorem c15_tls_pair_independent : forall c, g_tls_cert c = Some LoadSome -> g_tls_key c = Some LoadSome ->
  accept c = accept (without_tls c).
Proof. exact tls_pair_independent. Qed.
Print Assumptions c15_tls_pair_independent.

Theorem c15_tls_key_alone_independent : forall c, g_tls_cert c = None -> accept c = accept (without_tls c).
Proof. exact tls_key_alone_independent. Qed.
Print Assumptions c15_tls_key_alone_independent.

Theorem c15_rejects_tls : forall c v,
  (g_tls_cert c = Some v /\ v <> LoadSome) \/
  (g_tls_cert c = Some LoadSome /\ g_tls_key c <> Some LoadSome) -> accept c = false.
Proof. exact reject_tls. Qed.
Print Assumptions c15_rejects_tls.

(** Accepted shard keys denote 0 .. n-1 bijectively (whatever their spelling). *)
Theorem c15_key_parse : forall p, pool_validate p = true ->
  exists vs, map (fun ks => parse_usize (fst ks)) (p_shards p) = map Some vs /\
             Permutation vs (seqZ (length (p_shards p))) /\ NoDup vs /\
             (forall v, In v vs <-> 0 <= v < Z.of_nat (length (p_shards p))) /\
             Forall (fun ks => shard_validate (snd ks) = true) (p_shards p).
Proof. exact key_parse. Qed.
Print Assumptions c15_key_parse.

(** validate reads a key as usize, from_config sorts it as i64 and stores it as usize:
    the three readings agree on every key validate lets through. *)
Theorem c15_key_usize_i64_agree : forall s v, parse_usize s = Some v -> v <= i64_max -> parse_i64 s = Some v.
Proof. exact parse_agree. Qed.
Print Assumptions c15_key_usize_i64_agree.

Theorem c15_key_leading_zero : forall c r, c <> 43 -> parse_usize (48 :: c :: r) = parse_usize (c :: r).
Proof. exact parse_usize_leading_zero. Qed.
Print Assumptions c15_key_leading_zero.

Theorem c15_key_plus : forall c r, c <> 43 -> parse_usize (43 :: c :: r) = parse_usize (c :: r).
Proof. exact parse_usize_plus. Qed.
Print Assumptions c15_key_plus.

Theorem c15_key_minus : forall r, parse_usize (45 :: r) = None.
Proof. exact parse_usize_minus. Qed.
Print Assumptions c15_key_minus.

(** One rejection theorem per defect class. *)
Theorem c15_rejects_invalid_pool : forall c p, In p (c_pools c) -> pool_validate p = false -> accept c = false.
Proof. exact reject_pool. Qed.
Print Assumptions c15_rejects_invalid_pool.

Theorem c15_rejects_non_numeric_key : forall p k sh, In (k, sh) (p_shards p) -> parse_usize k = None -> pool_validate p = false.
Proof. exact reject_non_numeric_key. Qed.
Print Assumptions c15_rejects_non_numeric_key.

Theorem c15_rejects_gap_or_high_key : forall p k sh v, In (k, sh) (p_shards p) -> parse_usize k = Some v ->
  Z.of_nat (length (p_shards p)) <= v -> pool_validate p = false.
Proof. exact reject_key_out_of_range. Qed.
Print Assumptions c15_rejects_gap_or_high_key.

Theorem c15_rejects_duplicate_number : forall p l1 l2 l3 k1 s1 k2 s2,
  p_shards p = l1 ++ (k1, s1) :: l2 ++ (k2, s2) :: l3 -> parse_usize k1 = parse_usize k2 -> pool_validate p = false.
Proof. exact reject_duplicate_number. Qed.
Print Assumptions c15_rejects_duplicate_number.

Theorem c15_rejects_not_from_zero : forall p,
  (forall k sh, In (k, sh) (p_shards p) -> parse_usize k <> Some 0) -> pool_validate p = false.
Proof. exact reject_not_from_zero. Qed.
Print Assumptions c15_rejects_not_from_zero.

Theorem c15_rejects_no_shards : forall p, p_shards p = [] -> pool_validate p = false.
Proof. exact reject_no_shards. Qed.
Print Assumptions c15_rejects_no_shards.

Theorem c15_rejects_default_shard : forall p d, p_default_shard p = DShard d ->
  Z.of_nat (length (p_shards p)) <= d -> pool_validate p = false.
Proof. exact reject_default_shard. Qed.
Print Assumptions c15_rejects_default_shard.

Theorem c15_rejects_default_role : forall p, role_setting_ok (p_default_role p) = false -> pool_validate p = false.
Proof. exact reject_default_role. Qed.
Print Assumptions c15_rejects_default_role.

Theorem c15_rejects_bad_shard : forall p k sh, In (k, sh) (p_shards p) -> shard_validate sh = false -> pool_validate p = false.
Proof. exact reject_bad_shard. Qed.
Print Assumptions c15_rejects_bad_shard.

Theorem c15_shard_no_servers : forall sh, sh_servers sh = [] -> shard_validate sh = false.
Proof. exact shard_no_servers. Qed.
Print Assumptions c15_shard_no_servers.

Theorem c15_shard_two_primaries : forall sh l1 a l2 b l3, sh_servers sh = l1 ++ a :: l2 ++ b :: l3 ->
  sv_role a = Primary -> sv_role b = Primary -> shard_validate sh = false.
Proof. exact shard_two_primaries. Qed.
Print Assumptions c15_shard_two_primaries.

Theorem c15_shard_duplicate_server : forall sh l1 s l2 s' l3, sh_servers sh = l1 ++ s :: l2 ++ s' :: l3 ->
  server_eqb s s' = true -> shard_validate sh = false.
Proof. exact shard_duplicate_server. Qed.
Print Assumptions c15_shard_duplicate_server.

Theorem c15_shard_mirror_out_of_range : forall sh m, In m (sh_mirrors sh) ->
  Z.of_nat (length (sh_servers sh)) <= mi_target m -> shard_validate sh = false.
Proof. exact shard_mirror_out_of_range. Qed.
Print Assumptions c15_shard_mirror_out_of_range.

Theorem c15_shard_mirror_role : forall sh s, In s (sh_servers sh) -> sv_role s = Mirror -> shard_validate sh = false.
Proof. exact shard_mirror_role. Qed.
Print Assumptions c15_shard_mirror_role.

Theorem c15_rejects_bad_user : forall p ku, In ku (p_users p) -> user_validate (snd ku) = false -> pool_validate p = false.
Proof. exact reject_bad_user. Qed.
Print Assumptions c15_rejects_bad_user.

Theorem c15_user_zero_pool_size : forall u, u_pool_size u = 0 -> user_validate u = false.
Proof. exact user_zero_pool_size. Qed.
Print Assumptions c15_user_zero_pool_size.

Theorem c15_user_min_above_size : forall u m, u_min_pool_size u = Some m -> u_pool_size u < m -> user_validate u = false.
Proof. exact user_min_above_size. Qed.
Print Assumptions c15_user_min_above_size.

Theorem c15_user_zero_timeout : forall u,
  u_connect_timeout u = Some 0 \/ u_idle_timeout u = Some 0 \/ u_server_lifetime u = Some 0 -> user_validate u = false.
Proof. exact user_zero_timeout. Qed.
Print Assumptions c15_user_zero_timeout.

Theorem c15_rejects_pool_settings : forall p,
  regex_bad (p_shard_regex p) = true \/ regex_bad (p_key_regex p) = true \/
  (p_rw_split p = true /\ p_parser p = false) \/ (has_plugins p = true /\ p_parser p = false) \/
  auto_key_ok (p_auto_key p) = false \/
  p_connect_timeout p = Some 0 \/ p_idle_timeout p = Some 0 \/ p_server_lifetime p = Some 0 ->
  pool_validate p = false.
Proof. exact reject_pool_settings. Qed.
Print Assumptions c15_rejects_pool_settings.

Theorem c15_rejects_missing_password : forall c p ku, In p (c_pools c) -> In ku (p_users p) ->
  u_password (snd ku) = false ->
  (p_auth_query p || g_auth_query c) && (p_auth_user p || g_auth_user c) && (p_auth_password p || g_auth_password c) = false ->
  accept c = false.
Proof. exact reject_missing_password. Qed.
Print Assumptions c15_rejects_missing_password.

Theorem c15_rejects_general_zero_timeout : forall c,
  g_connect_timeout c = 0 \/ g_idle_timeout c = 0 \/ g_server_lifetime c = 0 -> accept c = false.
Proof. exact reject_general_zero_timeout. Qed.
Print Assumptions c15_rejects_general_zero_timeout.

Theorem c15_rejects_auth_query_incomplete : forall c, g_auth_query c = true ->
  g_auth_user c = false \/ g_auth_password c = false -> accept c = false.
Proof. exact reject_auth_query_incomplete. Qed.
Print Assumptions c15_rejects_auth_query_incomplete.

Theorem c15_default_shard_typed : forall s d, deser_default_shard s = Some (DShard d) -> 0 <= d.
Proof. exact deser_default_shard_typed. Qed.
Print Assumptions c15_default_shard_typed.


(** Defaults.  The parsed value of a defaulted option is the file's value when the file sets it
    and the table's value when it omits it — independently of every other option; and the table
    src/config.rs implements today (value of the function each serde attribute names,
    regenerated by translate/cfg_defaults.py) is the pinned, documented one. *)
Theorem c15_default_when_omitted : forall file defaults k d, lookup k defaults = Some d -> lookup k file = None ->
  lookup k (overlay file defaults) = Some d.
Proof. exact overlay_omitted. Qed.
Print Assumptions c15_default_when_omitted.

Theorem c15_file_value_when_set : forall file defaults k d v, lookup k defaults = Some d -> lookup k file = Some v ->
  lookup k (overlay file defaults) = Some v.
Proof. exact overlay_set. Qed.
Print Assumptions c15_file_value_when_set.

Theorem c15_defaults_table : gen_defaults = pinned_defaults.
Proof. vm_compute. reflexivity. Qed.
Print Assumptions c15_defaults_table.

(* the three [general] timeouts the model of from_config falls back to are the table's *)
Example model_timeout_defaults :
  lookup [103;101;110;101;114;97;108;46;99;111;110;110;101;99;116;95;116;105;109;101;111;117;116] pinned_defaults = Some (DInt default_connect_timeout) /\
  lookup [103;101;110;101;114;97;108;46;105;100;108;101;95;116;105;109;101;111;117;116] pinned_defaults = Some (DInt default_idle_timeout) /\
  lookup [103;101;110;101;114;97;108;46;115;101;114;118;101;114;95;108;105;102;101;116;105;109;101] pinned_defaults = Some (DInt default_server_lifetime) /\
  lookup [103;101;110;101;114;97;108;46;115;104;117;116;100;111;119;110;95;116;105;109;101;111;117;116] pinned_defaults = Some (DInt 60000).
Proof. vm_compute. repeat split; reflexivity. Qed.

(** * Non-vacuity and regression examples *)
(* three shards written as "+1", "0", "02" (BTreeMap order), two users *)
Definition ex3 : config :=
  mkcfg [mkpool [([43; 49], shd [sv 3 Primary; sv 4 Replica; sv 5 Replica]);
                 ([48], shd [sv 1 Primary; sv 2 Replica]);
                 ([48; 50], {| sh_servers := [sv 6 Replica];
                               sh_mirrors := [{| mi_host := h1; mi_port := 9; mi_target := 0 |};
                                              {| mi_host := h1; mi_port := 10; mi_target := 0 |}] |})]
                [([48], usr [117] 5); ([49], usr [118] 1)] (DShard 2) s_any].

Example ex3_accepted : accept ex3 = true /\ small ex3 /\ typed ex3.
Proof.
  split; [vm_compute; reflexivity|]. split; repeat constructor; vm_compute; congruence.
Qed.

Example ex3_addressing :
  exists b1 b2, build ex3 = Built [b1; b2] /\ indices_ok b1 = true /\ shards b1 = 3%nat /\
    map server_of (candidates b1 0 None) = [sv 1 Primary; sv 2 Replica] /\
    map server_of (candidates b1 1 (Some Replica)) = [sv 4 Replica; sv 5 Replica] /\
    map server_of (candidates b1 2 None) = [sv 6 Replica] /\
    get_candidates b1 None (Some Primary) = Some [] /\
    get_candidates b1 (Some 3) None = None /\
    map (fun a => length (a_mirrors a)) (all_addresses b1) = [0; 0; 0; 0; 0; 2]%nat.
Proof. eexists. eexists. vm_compute. repeat split; reflexivity. Qed.

(* the witnesses of the repaired defects must stay rejected *)
Definition one (k : str) (port : Z) := (k, shd [sv port Primary]).
Example regress_keys_1_3 : accept (mkcfg [mkpool [one [49] 1; one [51] 2] [([48], usr [117] 5)] (DShard 0) s_any]) = false.
Proof. vm_compute. reflexivity. Qed.
Example regress_key_1_only : accept (mkcfg [mkpool [one [49] 1] [([48], usr [117] 5)] (DShard 0) s_any]) = false.
Proof. vm_compute. reflexivity. Qed.
Example regress_keys_0_00 : accept (mkcfg [mkpool [one [48] 1; one [48; 48] 2] [([48], usr [117] 5)] (DShard 0) s_any]) = false.
Proof. vm_compute. reflexivity. Qed.
Example regress_no_shards_random : accept (mkcfg [mkpool [] [([48], usr [117] 5)] DRandom s_any]) = false.
Proof. vm_compute. reflexivity. Qed.
Example regress_pool_size_zero : accept (mkcfg [mkpool [one [48] 1] [([48], usr [117] 0)] (DShard 0) s_any]) = false.
Proof. vm_compute. reflexivity. Qed.
Example regress_connect_timeout_zero :
  accept {| g_auth_query := false; g_auth_user := false; g_auth_password := false;
            g_connect_timeout := 0; g_idle_timeout := 600000; g_server_lifetime := 3600000;
            g_tls_cert := None; g_tls_key := None; g_plugins := None;
            c_pools := [mkpool [one [48] 1] [([48], usr [117] 5)] (DShard 0) s_any] |} = false.
Proof. vm_compute. reflexivity. Qed.
Example regress_mirror_role_server :
  accept (mkcfg [mkpool [([48], shd [sv 1 Mirror])] [([48], usr [117] 5)] (DShard 0) s_any]) = false.
Proof. vm_compute. reflexivity. Qed.
Example regress_mirror_target_out_of_range :
  accept (mkcfg [mkpool [([48], {| sh_servers := [sv 1 Primary];
                                   sh_mirrors := [{| mi_host := h1; mi_port := 2; mi_target := 7 |}] |})]
                        [([48], usr [117] 5)] (DShard 0) s_any]) = false.
Proof. vm_compute. reflexivity. Qed.
(* auth_query_user + auth_query_password without auth_query (panicked in from_config before
   the repair of Pool::is_auth_query_configured): accepted, and built *)
Definition auth_user_password_only : config :=
  mkcfg [let p := mkpool [([48], shd [sv 1 Primary])] [([48], usr [117] 5)] (DShard 0) s_any in
     {| p_name := p_name p; p_default_role := p_default_role p; p_default_shard := p_default_shard p;
        p_parser := false; p_rw_split := false; p_plugins := None; p_pool_mode := Transaction; p_auto_key := None;
        p_key_regex := None; p_shard_regex := None;
        p_auth_query := false; p_auth_user := true; p_auth_password := true;
        p_connect_timeout := None; p_idle_timeout := None; p_server_lifetime := None;
        p_activity := false; p_act_delay := 100; p_act_ttl := 900; p_mut_ttl := 50;
        p_shards := p_shards p; p_users := p_users p |}].
Example regress_auth_user_password_only :
  accept auth_user_password_only = true /\
  exists bp, build auth_user_password_only = Built [bp] /\ indices_ok bp = true.
Proof. split; [vm_compute; reflexivity|]. eexists. vm_compute. split; reflexivity. Qed.
(* had validation let them through, from_config would have panicked (the model keeps the
   panics of the bb8 builder): *)
Example pool_size_zero_would_panic :
  build_pool_user (mkcfg []) (mkpool [one [48] 1] [] (DShard 0) s_any) (usr [117] 0) = Panics PanicMaxSize.
Proof. vm_compute. reflexivity. Qed.
Example keys_1_3_would_misindex :
  match build_pool_user (mkcfg []) (mkpool [one [49] 1; one [51] 2] [] (DShard 0) s_any) (usr [117] 5) with
  | Built bp => indices_ok bp = false /\ candidates bp 0 None = []
  | Panics _ => False
  end.
Proof. vm_compute. split; reflexivity. Qed.

(* settings precedence, non-vacuity: global and pool-level [plugins], user-level pool_mode and timeouts *)
Definition gplug : plug := {| pl_table_access := Some (true, [[103]]); pl_query_logger := Some true |}.
Definition pplug : plug := {| pl_table_access := Some (false, [[112]]); pl_query_logger := None |}.
Definition ex_settings : config :=
  let p := mkpool [([48], shd [sv 1 Primary])] [] (DShard 0) s_any in
  let u1 := usr [117] 5 in
  let u2 := {| u_name := [118]; u_password := true; u_pool_size := 7; u_min_pool_size := Some 2;
               u_connect_timeout := Some 20; u_idle_timeout := None; u_server_lifetime := Some 9;
               u_pool_mode := Some Session; u_statement_timeout := 77;
               u_auth_type := AuthTrust; u_server_username := true; u_server_password := true |} in
  {| g_auth_query := false; g_auth_user := false; g_auth_password := false;
     g_connect_timeout := 1000; g_idle_timeout := 600000; g_server_lifetime := 3600000;
     g_tls_cert := Some LoadSome; g_tls_key := Some LoadSome; g_plugins := Some gplug;
     c_pools := [ {| p_name := [97]; p_default_role := s_any; p_default_shard := DShard 0; p_parser := true; p_rw_split := false;
                     p_plugins := Some pplug; p_pool_mode := Transaction; p_auto_key := Some [34; 116; 34; 46; 105; 100];
                     p_key_regex := None; p_shard_regex := None; p_auth_query := false; p_auth_user := false; p_auth_password := false;
                     p_connect_timeout := Some 300; p_idle_timeout := Some 400; p_server_lifetime := None;
                     p_activity := false; p_act_delay := 100; p_act_ttl := 900; p_mut_ttl := 50;
                     p_shards := p_shards p; p_users := [([48], u1); ([49], u2)] |};
                  mkpool [([48], shd [sv 2 Primary])] [([48], usr [117] 5)] (DShard 0) s_any ] |}.
Example ex_settings_built :
  accept ex_settings = true /\
  match build ex_settings with
  | Built [a1; a2; b1] =>
      map settings_t [a1; a2; b1] =
      [ (Transaction, Some (plug_t pplug), user_t (usr [117] 5), (Some [116; 46; 105; 100], true, false), Some (5, None, (300, 400, 3600000)));
        (Session, Some (plug_t pplug), ([118], 7, Some 2, (Some Session, 77), (Some 20, None, Some 9), (AuthTrust, true, true, true)), (Some [116; 46; 105; 100], true, false), Some (7, Some 2, (20, 400, 9)));
        (Transaction, Some (plug_t gplug), user_t (usr [117] 5), (None, false, false), Some (5, None, (1000, 600000, 3600000))) ]
  | _ => False
  end.
Proof. split; vm_compute; reflexivity. Qed.
(* with a loadable TLS pair the shard numbering is still checked (the seeded early return) *)
Example regress_tls_does_not_skip_pools :
  accept {| g_auth_query := false; g_auth_user := false; g_auth_password := false;
            g_connect_timeout := 1000; g_idle_timeout := 600000; g_server_lifetime := 3600000;
            g_tls_cert := Some LoadSome; g_tls_key := Some LoadSome; g_plugins := None;
            c_pools := [mkpool [one [49] 1; one [50] 2] [([48], usr [117] 5)] (DShard 0) s_any] |} = false.
Proof. vm_compute. reflexivity. Qed.

(* a certificate / key file without the expected PEM item (e.g. the pair swapped) is rejected *)
Example regress_tls_empty_files :
  let c ce ke := {| g_auth_query := false; g_auth_user := false; g_auth_password := false;
                    g_connect_timeout := 1000; g_idle_timeout := 600000; g_server_lifetime := 3600000;
                    g_tls_cert := Some ce; g_tls_key := Some ke; g_plugins := None;
                    c_pools := [mkpool [one [48] 1] [([48], usr [117] 5)] (DShard 0) s_any] |} in
  accept (c LoadSome LoadSome) = true /\ accept (c LoadEmpty LoadEmpty) = false /\
  accept (c LoadSome LoadEmpty) = false /\ accept (c LoadEmpty LoadSome) = false /\ accept (c LoadSome LoadErr) = false.
Proof. vm_compute. repeat split; reflexivity. Qed.

Example regress_trust_user_without_password :
  accept (mkcfg [mkpool [one [48] 1]
                        [([48], {| u_name := [117]; u_password := false; u_pool_size := 5; u_min_pool_size := None;
                                   u_connect_timeout := None; u_idle_timeout := None; u_server_lifetime := None;
                                   u_pool_mode := None; u_statement_timeout := 0;
                                   u_auth_type := AuthTrust; u_server_username := false; u_server_password := false |})]
                        (DShard 0) s_any]) = false.
Proof. vm_compute. reflexivity. Qed.

(* spellings *)
Example spellings :
  parse_usize [48; 48] = Some 0 /\ parse_usize [43; 49] = Some 1 /\ parse_usize [48; 49] = Some 1 /\
  parse_usize [45; 48] = None /\ parse_usize [] = None /\ parse_usize [43] = None /\
  parse_usize [32; 49] = None /\ parse_usize [49; 97] = None /\ parse_usize [43; 43; 49] = None /\
  parse_usize [49; 56; 52; 52; 54; 55; 52; 52; 48; 55; 51; 55; 48; 57; 53; 53; 49; 54; 49; 53] = Some usize_max /\
  parse_usize [49; 56; 52; 52; 54; 55; 52; 52; 48; 55; 51; 55; 48; 57; 53; 53; 49; 54; 49; 54] = None /\
  parse_i64 [45; 48] = Some 0 /\ parse_i64 [45; 53] = Some (-5) /\
  deser_default_shard (s_shard_ ++ [43; 48]) = Some (DShard 0) /\
  deser_default_shard s_random_healthy = Some DRandomHealthy /\ deser_default_shard [102] = None.
Proof. vm_compute. repeat split; reflexivity. Qed.
