(** C15 — lemmas about the model in Model.v. *)
From Coq Require Import ZArith List Bool Lia Permutation.
From PV Require Import Config.Model Config.Spec.
Import ListNotations.
Open Scope Z_scope.

(** * Strings *)
Lemma str_eqb_eq : forall a b, str_eqb a b = true <-> a = b.
Proof.
  induction a as [|x a IH]; destruct b as [|y b]; cbn [str_eqb]; split; intro H; try congruence; try reflexivity.
  - apply andb_true_iff in H. destruct H as [H1 H2]. apply Z.eqb_eq in H1. apply IH in H2. congruence.
  - inversion H; subst. apply andb_true_iff. split. apply Z.eqb_refl. apply IH. reflexivity.
Qed.

Lemma str_eqb_refl : forall a, str_eqb a a = true.
Proof. intro a. apply str_eqb_eq. reflexivity. Qed.

(** * Integer parsing *)
Lemma digit_range : forall c d, digit c = Some d -> 0 <= d <= 9.
Proof.
  unfold digit. intros c d H.
  destruct ((48 <=? c) && (c <=? 57)) eqn:E; [|discriminate].
  apply andb_true_iff in E. destruct E as [E1 E2].
  apply Z.leb_le in E1. apply Z.leb_le in E2. inversion H. lia.
Qed.

Lemma digits_val_ge : forall s acc v, 0 <= acc -> digits_val acc s = Some v -> acc <= v.
Proof.
  induction s as [|c r IH]; cbn [digits_val]; intros acc v Hacc H.
  - inversion H. lia.
  - destruct (digit c) as [d|] eqn:D; [|discriminate].
    apply digit_range in D. apply IH in H; lia.
Qed.

Lemma digits_nonneg : forall s v, digits s = Some v -> 0 <= v.
Proof.
  intros s v H. unfold digits in H. destruct s; [discriminate|].
  apply digits_val_ge in H; lia.
Qed.

Lemma parse_usize_range : forall s v, parse_usize s = Some v -> 0 <= v <= usize_max.
Proof.
  unfold parse_usize. intros s v H.
  destruct (digits (strip_plus s)) as [w|] eqn:D; [|discriminate].
  destruct (w <=? usize_max) eqn:L; [|discriminate].
  inversion H; subst. apply Z.leb_le in L. apply digits_nonneg in D. lia.
Qed.

(** A key accepted as [usize] and small enough denotes the same number as [i64]
    ([from_config] sorts by the latter and stores the former). *)
Lemma parse_agree : forall s v, parse_usize s = Some v -> v <= i64_max -> parse_i64 s = Some v.
Proof.
  intros s v H Hv. unfold parse_usize in H. unfold parse_i64.
  destruct s as [|c r].
  - cbn in H. discriminate.
  - destruct (c =? 45) eqn:E.
    + apply Z.eqb_eq in E. subst c. exfalso.
      cbn [strip_plus] in H. replace (45 =? 43) with false in H by reflexivity.
      unfold digits in H. cbn [digits_val] in H. replace (digit 45) with (@None Z) in H by reflexivity.
      discriminate.
    + destruct (digits (strip_plus (c :: r))) as [w|]; [|discriminate].
      destruct (w <=? usize_max); [|discriminate]. inversion H; subst.
      assert (L : (v <=? i64_max) = true) by (apply Z.leb_le; lia). rewrite L. reflexivity.
Qed.

(** a ['-'] never starts a usize *)
Lemma parse_usize_minus : forall r, parse_usize (45 :: r) = None.
Proof.
  intro r. unfold parse_usize. cbn [strip_plus]. replace (45 =? 43) with false by reflexivity.
  unfold digits. cbn [digits_val]. replace (digit 45) with (@None Z) by reflexivity. reflexivity.
Qed.

(** * Sorting *)
Lemma insertZ_perm : forall x l, Permutation (insertZ x l) (x :: l).
Proof.
  induction l as [|y r IH]; cbn [insertZ]; [apply Permutation_refl|].
  destruct (x <=? y); [apply Permutation_refl|].
  eapply Permutation_trans; [apply perm_skip; exact IH|apply perm_swap].
Qed.

Lemma isortZ_perm : forall l, Permutation (isortZ l) l.
Proof.
  induction l as [|x r IH]; cbn [isortZ]; [apply perm_nil|].
  eapply Permutation_trans; [apply insertZ_perm|apply perm_skip; exact IH].
Qed.

Lemma insert_by_perm : forall A (x : Z * A) l, Permutation (insert_by x l) (x :: l).
Proof.
  induction l as [|y r IH]; cbn [insert_by]; [apply Permutation_refl|].
  destruct (fst x <=? fst y); [apply Permutation_refl|].
  eapply Permutation_trans; [apply perm_skip; exact IH|apply perm_swap].
Qed.

Lemma isort_by_perm : forall A (l : list (Z * A)), Permutation (isort_by l) l.
Proof.
  induction l as [|x r IH]; cbn [isort_by]; [apply perm_nil|].
  eapply Permutation_trans; [apply insert_by_perm|apply perm_skip; exact IH].
Qed.

Lemma insert_by_fst : forall A (x : Z * A) l, map fst (insert_by x l) = insertZ (fst x) (map fst l).
Proof.
  induction l as [|y r IH]; cbn [insert_by insertZ map]; [reflexivity|].
  destruct (fst x <=? fst y); cbn [map]; [reflexivity|]. rewrite IH. reflexivity.
Qed.

Lemma isort_by_fst : forall A (l : list (Z * A)), map fst (isort_by l) = isortZ (map fst l).
Proof.
  induction l as [|x r IH]; cbn [isort_by isortZ map]; [reflexivity|].
  rewrite insert_by_fst, IH. reflexivity.
Qed.

Lemma check_enum_spec : forall l i, check_enum i l = true -> l = map Z.of_nat (seq i (length l)).
Proof.
  induction l as [|x r IH]; intros i H; cbn [check_enum length seq map] in *; [reflexivity|].
  apply andb_true_iff in H. destruct H as [H1 H2]. apply Z.eqb_eq in H1. subst x.
  f_equal. apply IH. exact H2.
Qed.

Lemma check_enum_complete : forall n i, check_enum i (map Z.of_nat (seq i n)) = true.
Proof.
  induction n as [|n IH]; intro i; cbn [seq map check_enum]; [reflexivity|].
  rewrite Z.eqb_refl, IH. reflexivity.
Qed.

(** * Validation: what an accepted pool section guarantees *)
Lemma shard_numbers_length : forall l nums, shard_numbers l = Some nums -> length nums = length l.
Proof.
  induction l as [|[k sh] r IH]; cbn [shard_numbers]; intros nums H.
  - inversion H. reflexivity.
  - destruct (parse_usize k); [|discriminate]. destruct (shard_validate sh); [|discriminate].
    destruct (shard_numbers r) as [ns|]; [|discriminate]. inversion H; subst.
    cbn [length]. f_equal. apply IH. reflexivity.
Qed.

Definition key_ok (zk : Z * (str * shard)) : Prop :=
  parse_usize (fst (snd zk)) = Some (fst zk) /\ shard_validate (snd (snd zk)) = true.

Lemma keyed_of_numbers : forall l nums,
  shard_numbers l = Some nums -> Forall (fun v => v <= i64_max) nums ->
  exists kl, keyed l = Some kl /\ map fst kl = nums /\ map snd kl = l /\ Forall key_ok kl.
Proof.
  induction l as [|[k sh] r IH]; cbn [shard_numbers keyed]; intros nums H Hb.
  - inversion H; subst. exists []. repeat split; constructor.
  - destruct (parse_usize k) as [n|] eqn:P; [|discriminate].
    destruct (shard_validate sh) eqn:V; [|discriminate].
    destruct (shard_numbers r) as [ns|] eqn:R; [|discriminate].
    inversion H; subst. inversion Hb; subst.
    destruct (IH ns eq_refl H3) as [kl [K [F [S FA]]]].
    cbn [fst]. rewrite (parse_agree k n P H2), K.
    exists ((n, (k, sh)) :: kl). cbn [map fst snd]. repeat split; try congruence.
    constructor; [split; assumption|exact FA].
Qed.

Record pool_facts (p : pool) (sl : list (Z * (str * shard))) : Prop := {
  pf_sorted : exists kl, keyed (p_shards p) = Some kl /\ sl = isort_by kl /\ length kl = length (p_shards p);
  pf_fst : map fst sl = map Z.of_nat (seq 0 (length (p_shards p)));
  pf_keys : Forall key_ok sl;
  pf_perm : Permutation (map snd sl) (p_shards p);
  pf_nonempty : (0 < length (p_shards p))%nat;
  pf_len : length sl = length (p_shards p) }.

Lemma pool_validate_numbers : forall p, pool_validate p = true ->
  exists nums, shard_numbers (p_shards p) = Some nums /\
               isortZ nums = map Z.of_nat (seq 0 (length (p_shards p))) /\ (0 < length (p_shards p))%nat.
Proof.
  intros p H. unfold pool_validate in H.
  destruct (negb (role_setting_ok (p_default_role p))); [discriminate|].
  destruct (shard_numbers (p_shards p)) as [nums|] eqn:N; [|discriminate].
  exists nums. split; [reflexivity|].
  destruct ((match isortZ nums with [] => true | _ :: _ => false end) || negb (check_enum 0 (isortZ nums))) eqn:E; [discriminate|].
  apply orb_false_iff in E. destruct E as [E1 E2]. apply negb_false_iff in E2.
  apply check_enum_spec in E2.
  assert (L : length (isortZ nums) = length (p_shards p)).
  { rewrite (Permutation_length (isortZ_perm nums)). apply shard_numbers_length. exact N. }
  rewrite L in E2. split; [exact E2|].
  destruct (isortZ nums) eqn:S; [discriminate|]. rewrite <- L. cbn. lia.
Qed.

Lemma pool_validate_facts : forall p, pool_validate p = true -> small_pool p ->
  exists sl, pool_facts p sl.
Proof.
  intros p H Hs. destruct (pool_validate_numbers p H) as [nums [N [S NE]]].
  assert (B : Forall (fun v => v <= i64_max) nums).
  { apply Forall_forall. intros v Hv.
    apply (Permutation_in _ (Permutation_sym (isortZ_perm nums))) in Hv. rewrite S in Hv.
    apply in_map_iff in Hv. destruct Hv as [j [Hj Hin]]. apply in_seq in Hin.
    unfold small_pool in Hs. lia. }
  destruct (keyed_of_numbers _ _ N B) as [kl [K [F [Sn FA]]]].
  exists (isort_by kl). constructor.
  - exists kl. repeat split; try assumption. rewrite <- Sn. rewrite map_length. reflexivity.
  - rewrite isort_by_fst, F. exact S.
  - eapply Permutation_Forall; [apply Permutation_sym; apply isort_by_perm|exact FA].
  - rewrite <- Sn. apply Permutation_map. apply isort_by_perm.
  - exact NE.
  - rewrite (Permutation_length (isort_by_perm _ kl)). rewrite <- Sn, map_length. reflexivity.
Qed.

Lemma facts_nth : forall p sl j zk, pool_facts p sl -> nth_error sl j = Some zk -> fst zk = Z.of_nat j.
Proof.
  intros p sl j zk F H.
  assert (H1 : nth_error (map fst sl) j = Some (fst zk)) by (rewrite nth_error_map, H; reflexivity).
  rewrite (pf_fst _ _ F) in H1. rewrite nth_error_map in H1.
  destruct (nth_error (seq 0 (length (p_shards p))) j) as [i|] eqn:E; [|discriminate].
  assert (Hj : (j < length (seq 0 (length (p_shards p))))%nat) by (apply nth_error_Some; congruence).
  rewrite seq_length in Hj.
  rewrite (nth_error_nth' _ 0%nat) in E by (rewrite seq_length; exact Hj).
  rewrite seq_nth in E by exact Hj. inversion E; subst. cbn in H1. inversion H1. reflexivity.
Qed.

(** * from_config *)
Definition row_of (zk : Z * (str * shard)) : list address :=
  build_servers (fst zk) (sh_mirrors (snd (snd zk))) 0 0 (sh_servers (snd (snd zk))).

Lemma build_shards_ok : forall sl, Forall key_ok sl -> build_shards None sl = Built (map row_of sl).
Proof.
  induction sl as [|[z [k sh]] r IH]; intro F; cbn [build_shards map]; [reflexivity|].
  inversion F as [|x l [P V] F']; subst. cbn [fst snd] in P, V.
  unfold build_shard. rewrite P.
  rewrite (IH F'). unfold row_of at 2. cbn [fst snd].
  destruct (sh_servers sh) eqn:S; reflexivity.
Qed.

Lemma build_servers_length : forall svs z ms i r, length (build_servers z ms i r svs) = length svs.
Proof. induction svs as [|sv rest IH]; intros; cbn [build_servers length]; [reflexivity|]. rewrite IH. reflexivity. Qed.

Lemma build_servers_nth : forall svs z ms i0 r0 i a,
  nth_error (build_servers z ms i0 r0 svs) i = Some a ->
  a_shard a = z /\ a_index a = (i0 + i)%nat /\ nth_error svs i = Some (server_of a).
Proof.
  induction svs as [|sv rest IH]; intros z ms i0 r0 i a H; cbn [build_servers] in H.
  - destruct i; discriminate.
  - destruct i as [|i]; cbn [nth_error] in *.
    + inversion H; subst. cbn. repeat split; try lia. destruct sv; reflexivity.
    + apply IH in H. destruct H as [H1 [H2 H3]]. repeat split; try assumption. lia.
Qed.

Lemma build_servers_map : forall svs z ms i r, map server_of (build_servers z ms i r svs) = svs.
Proof.
  induction svs as [|sv rest IH]; intros; cbn [build_servers map]; [reflexivity|].
  rewrite IH. f_equal. destruct sv; reflexivity.
Qed.

Lemma build_servers_shard : forall svs z ms i r, Forall (fun a => a_shard a = z) (build_servers z ms i r svs).
Proof. induction svs as [|sv rest IH]; intros; cbn [build_servers]; constructor; [reflexivity|apply IH]. Qed.

Lemma shard_validate_mirrors : forall sh m, shard_validate sh = true -> In m (sh_mirrors sh) ->
  mi_target m < Z.of_nat (length (sh_servers sh)).
Proof.
  intros sh m V Hin. unfold shard_validate in V.
  destruct (sh_servers sh) eqn:S; [discriminate|]. rewrite <- S in V.
  destruct (existsb _ (sh_servers sh)); [discriminate|].
  destruct (1 <? count_primary (sh_servers sh)); [discriminate|].
  destruct (negb _); [discriminate|].
  rewrite forallb_forall in V. specialize (V m Hin). apply negb_true_iff in V. apply Z.leb_gt in V.
  rewrite <- S. exact V.
Qed.

Lemma build_servers_mirrors : forall svs z ms i0 r0 i a,
  nth_error (build_servers z ms i0 r0 svs) i = Some a ->
  a_mirrors a = mirrors_for z (a_role a) (a_replica_number a) (i0 + i) 0 ms.
Proof.
  induction svs as [|sv rest IH]; intros z ms i0 r0 i a H; cbn [build_servers] in H.
  - destruct i; discriminate.
  - destruct i as [|i]; cbn [nth_error] in *.
    + inversion H; subst. cbn. rewrite Nat.add_0_r. reflexivity.
    + apply IH in H. rewrite H. f_equal. lia.
Qed.

Lemma mirrors_for_in : forall ms z r repl target base j m,
  nth_error ms j = Some m -> mi_target m = Z.of_nat target ->
  In {| ma_host := mi_host m; ma_port := mi_port m; ma_role := r; ma_index := (base + j)%nat;
        ma_replica_number := repl; ma_shard := z |} (mirrors_for z r repl target base ms).
Proof.
  induction ms as [|x rest IH]; intros z r repl target base j m H T.
  - destruct j; discriminate.
  - cbn [mirrors_for]. destruct j as [|j]; cbn [nth_error] in H.
    + inversion H; subst x. rewrite T, Z.eqb_refl. left. rewrite Nat.add_0_r. reflexivity.
    + specialize (IH z r repl target (S base) j m H T).
      replace (S base + j)%nat with (base + S j)%nat in IH by lia.
      destruct (mi_target x =? Z.of_nat target); [right|]; exact IH.
Qed.

Lemma eff_nonzero : forall u p g, is_some_zero u = false -> is_some_zero p = false -> (g =? 0) = false -> (eff u p g =? 0) = false.
Proof. intros [u|] [p|] g; cbn; intros; assumption. Qed.

Lemma role_setting_of_ok : forall s, role_setting_ok s = true -> exists dr, role_setting s = Some dr.
Proof.
  unfold role_setting_ok, role_setting. intros s H.
  destruct (str_eqb s s_any); [eauto|]. destruct (str_eqb s s_replica); [eauto|].
  destruct (str_eqb s s_primary); [eauto|]. discriminate.
Qed.

(** * List lemmas *)
Lemma nth_error_map_inv : forall A B (f : A -> B) l n y,
  nth_error (map f l) n = Some y -> exists x, nth_error l n = Some x /\ y = f x.
Proof.
  intros A B f l n y H. rewrite nth_error_map in H.
  destruct (nth_error l n) as [x|]; [|discriminate]. inversion H. eauto.
Qed.

Lemma filter_comm : forall A (f g : A -> bool) l, filter f (filter g l) = filter g (filter f l).
Proof.
  induction l as [|x r IH]; cbn [filter]; [reflexivity|].
  destruct (g x) eqn:G; destruct (f x) eqn:F; cbn [filter]; rewrite ?G, ?F, IH; reflexivity.
Qed.

Lemma filter_none : forall A (f : A -> bool) l, Forall (fun x => f x = false) l -> filter f l = [].
Proof.
  induction l as [|x r IH]; intro H; cbn [filter]; [reflexivity|].
  inversion H; subst. rewrite H2. apply IH. assumption.
Qed.

Lemma filter_all : forall A (f : A -> bool) l, Forall (fun x => f x = true) l -> filter f l = l.
Proof.
  induction l as [|x r IH]; intro H; cbn [filter]; [reflexivity|].
  inversion H; subst. rewrite H2. f_equal. apply IH. assumption.
Qed.

Lemma map_filter_comm : forall A B (h : A -> B) (f : A -> bool) (g : B -> bool) l,
  (forall a, g (h a) = f a) -> map h (filter f l) = filter g (map h l).
Proof.
  intros A B h f g l E. induction l as [|x r IH]; cbn [filter map]; [reflexivity|].
  rewrite E. destruct (f x); cbn [map]; rewrite IH; reflexivity.
Qed.

Lemma in_concat_nth : forall A (rows : list (list A)) a, In a (concat rows) ->
  exists j row i, nth_error rows j = Some row /\ nth_error row i = Some a.
Proof.
  intros A rows a H. apply in_concat in H. destruct H as [row [H1 H2]].
  apply In_nth_error in H1. destruct H1 as [j Hj].
  apply In_nth_error in H2. destruct H2 as [i Hi]. eauto.
Qed.

(** Rows whose addresses carry their own position as shard number: retaining number [sh]
    keeps exactly row [sh]. *)
Lemma filter_shard_concat : forall rows base,
  (forall j row, nth_error rows j = Some row -> Forall (fun a => a_shard a = Z.of_nat (base + j)) row) ->
  forall sh, filter (fun a => a_shard a =? Z.of_nat (base + sh)) (concat rows) = nth sh rows [].
Proof.
  induction rows as [|row rest IH]; intros base H sh.
  - destruct sh; reflexivity.
  - cbn [concat]. rewrite filter_app.
    assert (H0 := H 0%nat row eq_refl). rewrite Nat.add_0_r in H0.
    assert (Hrest : forall j row0, nth_error rest j = Some row0 ->
                    Forall (fun a => a_shard a = Z.of_nat (S base + j)) row0).
    { intros j row0 Hj. specialize (H (S j) row0 Hj). rewrite Nat.add_succ_r in H. exact H. }
    destruct sh as [|sh].
    + rewrite Nat.add_0_r. rewrite filter_all.
      2:{ eapply Forall_impl; [|exact H0]. intros a Ha. cbn beta in Ha. rewrite Ha. apply Z.eqb_refl. }
      rewrite filter_none; [cbn [nth]; apply app_nil_r|].
      apply Forall_forall. intros a Ha. apply in_concat_nth in Ha. destruct Ha as [j [row0 [i [Hj Hi]]]].
      specialize (Hrest j row0 Hj). rewrite Forall_forall in Hrest.
      rewrite (Hrest a (nth_error_In _ _ Hi)). apply Z.eqb_neq. lia.
    + rewrite filter_none.
      2:{ eapply Forall_impl; [|exact H0]. intros a Ha. cbn beta in Ha. rewrite Ha. apply Z.eqb_neq. lia. }
      cbn [app nth]. rewrite <- (IH (S base) Hrest sh). rewrite Nat.add_succ_r. reflexivity.
Qed.

(** * The pool built for one (pool, user) from an accepted pool section *)
Definition explicit (c : config) (p : pool) (u : user) (sl : list (Z * (str * shard))) (dr : option role) : built :=
  {| bp_db := p_name p; bp_user := u_name u;
     bp_databases := map (map (mk_pool c p u)) (map row_of sl);
     bp_addresses := map row_of sl;
     bp_banlist := map (fun _ => tt) (map row_of sl);
     bp_settings_shards := length (p_shards p);
     bp_default_shard := p_default_shard p;
     bp_default_role := dr;
     bp_pool_size := u_pool_size u;
     bp_pool_mode := match u_pool_mode u with Some m => m | None => p_pool_mode p end;
     bp_plugins := match p_plugins p with Some x => Some x | None => g_plugins c end;
     bp_user_cfg := u;
     bp_auto_key := option_map unquote (p_auto_key p);
     bp_parser := p_parser p; bp_rw_split := p_rw_split p |}.

Lemma default_shard_ok : forall p, pool_validate p = true ->
  match p_default_shard p with DShard d => d < Z.of_nat (length (p_shards p)) | _ => True end.
Proof.
  intros p H. unfold pool_validate in H.
  destruct (negb (role_setting_ok (p_default_role p))); [discriminate|].
  destruct (shard_numbers (p_shards p)); [|discriminate].
  destruct (_ || negb (check_enum 0 (isortZ l))); [discriminate|].
  destruct (regex_bad (p_shard_regex p) || regex_bad (p_key_regex p)); [discriminate|].
  destruct (p_rw_split p && negb (p_parser p)); [discriminate|].
  destruct (has_plugins p && negb (p_parser p)); [discriminate|].
  destruct (negb (auto_key_ok (p_auto_key p))); [discriminate|].
  destruct (is_some_zero (p_connect_timeout p) || is_some_zero (p_idle_timeout p) || is_some_zero (p_server_lifetime p)); [discriminate|].
  destruct (p_default_shard p) as [d| |]; try exact I.
  destruct (Z.of_nat (length (p_shards p)) <=? d) eqn:E; [discriminate|].
  apply Z.leb_gt in E. exact E.
Qed.

Section Explicit.
  Variables (c : config) (p : pool) (u : user) (sl : list (Z * (str * shard))) (dr : option role).
  Hypothesis F : pool_facts p sl.
  Hypothesis DS : match p_default_shard p with DShard d => 0 <= d < Z.of_nat (length (p_shards p)) | _ => True end.
  Hypothesis MT : Forall (fun ks => Forall (fun m => 0 <= mi_target m) (sh_mirrors (snd ks))) (p_shards p).
  Let bp := explicit c p u sl dr.
  Let n := length (p_shards p).

  Lemma ex_shards : shards bp = n.
  Proof. unfold shards, bp, explicit. cbn. rewrite !map_length. apply (pf_len _ _ F). Qed.

  Lemma ex_row : forall sh row, nth_error (bp_addresses bp) sh = Some row ->
    exists zk, nth_error sl sh = Some zk /\ row = row_of zk /\ fst zk = Z.of_nat sh.
  Proof.
    intros sh row H. cbn in H. apply nth_error_map_inv in H. destruct H as [zk [H1 H2]].
    exists zk. repeat split; try assumption. eapply facts_nth; eassumption.
  Qed.

  Lemma ex_address_at : forall sh i a, address_at bp sh i = Some a ->
    a_shard a = Z.of_nat sh /\ a_index a = i /\ exists b, pool_state_at bp sh i = Some b /\ b_address b = a.
  Proof.
    intros sh i a H. unfold address_at in H.
    destruct (nth_error (bp_addresses bp) sh) as [row|] eqn:R; [|discriminate].
    destruct (ex_row _ _ R) as [zk [Hz [Hr Hf]]]. subst row. unfold row_of in H.
    destruct (build_servers_nth _ _ _ _ _ _ _ H) as [H1 [H2 _]].
    repeat split; [congruence|exact H2|].
    exists (mk_pool c p u a). split; [|reflexivity].
    unfold pool_state_at. cbn [bp explicit bp_databases]. cbn [bp explicit bp_addresses] in R.
    rewrite nth_error_map, R. cbn [option_map]. rewrite nth_error_map.
    unfold row_of. rewrite H. reflexivity.
  Qed.

  Lemma ex_first : forall sh, (sh < n)%nat -> exists a, address_at bp sh 0%nat = Some a.
  Proof.
    intros sh H. unfold n in H. rewrite <- (pf_len _ _ F) in H.
    destruct (nth_error sl sh) as [zk|] eqn:E; [|apply nth_error_None in E; lia].
    assert (K : key_ok zk).
    { pose proof (pf_keys _ _ F) as FA. rewrite Forall_forall in FA. apply FA. eapply nth_error_In; eassumption. }
    destruct K as [_ V]. unfold shard_validate in V.
    unfold address_at. cbn [bp explicit bp_addresses]. rewrite nth_error_map, E. cbn [option_map].
    unfold row_of. destruct (sh_servers (snd (snd zk))) as [|sv rest]; [discriminate|].
    cbn [build_servers nth_error]. eauto.
  Qed.

  Lemma ex_by_address : forall a, In a (all_addresses bp) ->
    (exists b, get_index bp a = Some b /\ b_address b = a) /\ ban_index bp a = true /\ try_unban_index bp a = true.
  Proof.
    intros a H. unfold all_addresses in H. apply in_concat_nth in H.
    destruct H as [j [row [i [Hj Hi]]]].
    assert (A : address_at bp j i = Some a) by (unfold address_at; rewrite Hj; exact Hi).
    destruct (ex_address_at _ _ _ A) as [H1 [H2 [b [H3 H4]]]].
    assert (B : ban_index bp a = true).
    { unfold ban_index. rewrite H1, Nat2Z.id. cbn [bp explicit bp_banlist].
      cbn [bp explicit bp_addresses] in Hj. rewrite nth_error_map, Hj. reflexivity. }
    split; [|split].
    - exists b. split; [|exact H4]. unfold get_index. rewrite H1, Nat2Z.id, H2. exact H3.
    - exact B.
    - unfold try_unban_index. rewrite H1, Nat2Z.id, Hj. exact B.
  Qed.

  Lemma ex_filter_shard : forall sh, filter (fun a => a_shard a =? Z.of_nat sh) (all_addresses bp) = nth sh (bp_addresses bp) [].
  Proof.
    intro sh. unfold all_addresses. apply (filter_shard_concat (bp_addresses bp) 0%nat).
    intros j row H. destruct (ex_row _ _ H) as [zk [_ [Hr Hf]]]. subst row.
    unfold row_of. rewrite Hf. apply build_servers_shard.
  Qed.

  Lemma ex_candidates : forall sh, (sh < n)%nat ->
    exists k shc, In (k, shc) (p_shards p) /\ parse_usize k = Some (Z.of_nat sh) /\
      (forall r, map server_of (candidates bp (Z.of_nat sh) r) = filter (fun sv => role_matches r (sv_role sv)) (sh_servers shc)) /\
      (forall j m, nth_error (sh_mirrors shc) j = Some m ->
         exists a, address_at bp sh (Z.to_nat (mi_target m)) = Some a /\
           In {| ma_host := mi_host m; ma_port := mi_port m; ma_role := a_role a; ma_index := j;
                 ma_replica_number := a_replica_number a; ma_shard := Z.of_nat sh |} (a_mirrors a)).
  Proof.
    intros sh H. unfold n in H. rewrite <- (pf_len _ _ F) in H.
    destruct (nth_error sl sh) as [zk|] eqn:E; [|apply nth_error_None in E; lia].
    assert (Hin : In zk sl) by (eapply nth_error_In; eassumption).
    assert (K : key_ok zk).
    { pose proof (pf_keys _ _ F) as FA. rewrite Forall_forall in FA. apply FA. exact Hin. }
    destruct K as [P V]. pose proof (facts_nth _ _ _ _ F E) as FZ. rewrite FZ in P.
    destruct zk as [z [k shc]]. cbn [fst snd] in *.
    assert (HinP : In (k, shc) (p_shards p)).
    { apply (Permutation_in _ (pf_perm _ _ F)). apply in_map_iff. exists (z, (k, shc)). split; [reflexivity|exact Hin]. }
    exists k, shc. split; [exact HinP|]. split; [exact P|]. split.
    2:{ intros j m Hm.
        assert (Hmi : In m (sh_mirrors shc)) by (eapply nth_error_In; eassumption).
        pose proof (shard_validate_mirrors shc m V Hmi) as UB.
        assert (LB : 0 <= mi_target m).
        { rewrite Forall_forall in MT. specialize (MT (k, shc) HinP). cbn [snd] in MT.
          rewrite Forall_forall in MT. apply MT. exact Hmi. }
        set (t := Z.to_nat (mi_target m)).
        assert (Ht : (t < length (build_servers z (sh_mirrors shc) 0 0 (sh_servers shc)))%nat)
          by (rewrite build_servers_length; unfold t; lia).
        destruct (nth_error (build_servers z (sh_mirrors shc) 0 0 (sh_servers shc)) t) as [a|] eqn:A;
          [|apply nth_error_None in A; lia].
        exists a. split.
        - unfold address_at. cbn [bp explicit bp_addresses]. rewrite nth_error_map, E. cbn [option_map].
          unfold row_of. cbn [fst snd]. exact A.
        - rewrite (build_servers_mirrors _ _ _ _ _ _ _ A). subst z.
          apply (mirrors_for_in (sh_mirrors shc) (Z.of_nat sh) (a_role a) (a_replica_number a) (0 + t) 0 j m Hm).
          unfold t. cbn [Nat.add]. lia. }
    - intro r. unfold candidates. rewrite filter_comm, ex_filter_shard.
      cbn [bp explicit bp_addresses].
      rewrite (nth_error_nth _ _ _ (eq_trans (nth_error_map _ _ _) (f_equal (option_map row_of) E))).
      rewrite (map_filter_comm _ _ server_of (fun a => role_matches r (a_role a)) (fun sv => role_matches r (sv_role sv))) by reflexivity.
      unfold row_of. cbn [fst snd]. rewrite build_servers_map. reflexivity.
  Qed.

  Lemma ex_get_some : forall sh r, (sh < n)%nat ->
    get_candidates bp (Some (Z.of_nat sh)) r = Some (candidates bp (Z.of_nat sh) r).
  Proof.
    intros sh r H. unfold get_candidates, candidates. rewrite ex_shards. fold n.
    destruct (Z.of_nat n =? 1) eqn:E.
    - apply Z.eqb_eq in E. assert (sh = 0%nat) by lia. subst sh. reflexivity.
    - assert (L : (Z.of_nat sh <? Z.of_nat n) = true) by (apply Z.ltb_lt; lia). rewrite L. reflexivity.
  Qed.

  Lemma ex_get_refused : forall sh r, (1 < n)%nat -> Z.of_nat n <= sh -> get_candidates bp (Some sh) r = None.
  Proof.
    intros sh r H1 H2. unfold get_candidates. rewrite ex_shards. fold n.
    assert (E : (Z.of_nat n =? 1) = false) by (apply Z.eqb_neq; lia). rewrite E.
    assert (L : (sh <? Z.of_nat n) = false) by (apply Z.ltb_ge; lia). rewrite L. reflexivity.
  Qed.

  Lemma ex_get_default :
    match p_default_shard p with
    | DShard d => 0 <= d < Z.of_nat n /\ forall r, get_candidates bp None r = Some (candidates bp d r)
    | _ => forall r, get_candidates bp None r = Some (filter (fun a => role_matches r (a_role a)) (all_addresses bp))
    end.
  Proof.
    pose proof (pf_nonempty _ _ F) as NE. fold n in NE.
    unfold get_candidates, candidates. rewrite ex_shards. fold n. cbn [bp explicit bp_default_shard].
    destruct (p_default_shard p) as [d| |] eqn:D.
    - split; [exact DS|]. intro r.
      destruct (Z.of_nat n =? 1) eqn:E; [|reflexivity].
      apply Z.eqb_eq in E. fold n in DS. assert (d = 0) by lia. subst d. reflexivity.
    - intro r. destruct (Z.of_nat n =? 1) eqn:E; [|reflexivity].
      apply Z.eqb_eq in E. assert (n = 1%nat) by lia.
      f_equal. rewrite filter_comm. change 0 with (Z.of_nat 0). rewrite ex_filter_shard.
      (* a single shard: every address is in row 0 *)
      unfold all_addresses. cbn [bp explicit bp_addresses].
      pose proof (pf_len _ _ F) as L. fold n in L. rewrite H in L.
      destruct sl as [|zk [|zk' rest]]; try discriminate. cbn [map concat nth]. rewrite app_nil_r. reflexivity.
    - intro r. destruct (Z.of_nat n =? 1) eqn:E; [|reflexivity].
      apply Z.eqb_eq in E. assert (n = 1%nat) by lia.
      f_equal. rewrite filter_comm. change 0 with (Z.of_nat 0). rewrite ex_filter_shard.
      unfold all_addresses. cbn [bp explicit bp_addresses].
      pose proof (pf_len _ _ F) as L. fold n in L. rewrite H in L.
      destruct sl as [|zk [|zk' rest]]; try discriminate. cbn [map concat nth]. rewrite app_nil_r. reflexivity.
  Qed.

  Lemma ex_indices_ok : indices_ok bp = true.
  Proof.
    unfold indices_ok. rewrite ex_shards.
    assert (L1 : length (bp_addresses bp) = n) by (cbn; rewrite map_length; apply (pf_len _ _ F)).
    assert (L2 : length (bp_banlist bp) = n) by (cbn; rewrite !map_length; apply (pf_len _ _ F)).
    rewrite L1, L2, Nat.eqb_refl. cbn [andb].
    apply andb_true_iff. split.
    - apply forallb_forall. intros row Hrow. apply In_nth_error in Hrow. destruct Hrow as [sh Hsh].
      assert (Hlt : (sh < n)%nat) by (rewrite <- L1; apply nth_error_Some; congruence).
      destruct (ex_first sh Hlt) as [a Ha]. unfold address_at in Ha. rewrite Hsh in Ha.
      destruct row; [discriminate|reflexivity].
    - apply forallb_forall. intros a Ha. destruct (ex_by_address a Ha) as [[b [G _]] [B T]].
      rewrite G, B, T. reflexivity.
  Qed.

  Lemma explicit_settings : builder_check c p u = None -> settings_ok c p u bp.
  Proof.
    intro BC. unfold settings_ok. cbn [bp explicit bp_pool_mode bp_plugins bp_user_cfg bp_pool_size bp_auto_key bp_parser bp_rw_split bp_databases].
    repeat (split; [reflexivity|]).
    intros row b Hrow Hb. apply in_map_iff in Hrow. destruct Hrow as [r0 [E _]]. subst row.
    apply in_map_iff in Hb. destruct Hb as [a [E _]]. subst b.
    cbn [mk_pool b_max_size b_min_idle b_connect_timeout b_idle_timeout b_max_lifetime].
    unfold builder_check in BC.
    destruct (u_pool_size u =? 0) eqn:E0; [discriminate|].
    destruct (eff (u_connect_timeout u) (p_connect_timeout p) (g_connect_timeout c) =? 0) eqn:E1; [discriminate|].
    destruct (eff (u_idle_timeout u) (p_idle_timeout p) (g_idle_timeout c) =? 0) eqn:E2; [discriminate|].
    destruct (eff (u_server_lifetime u) (p_server_lifetime p) (g_server_lifetime c) =? 0) eqn:E3; [discriminate|].
    apply Z.eqb_neq in E0, E1, E2, E3.
    repeat (split; [first [reflexivity|assumption]|]).
    split; [|repeat split; assumption].
    intros m Hm. rewrite Hm in BC. destruct (u_pool_size u <? m) eqn:L; [discriminate|]. apply Z.ltb_ge in L. exact L.
  Qed.

  Lemma explicit_servable : servable p bp.
  Proof.
    unfold servable. fold n.
    split; [apply (pf_nonempty _ _ F)|]. split; [apply ex_shards|]. split; [reflexivity|].
    split; [apply ex_indices_ok|]. split; [apply ex_address_at|]. split; [apply ex_first|].
    split; [apply ex_by_address|].
    split.
    { intros sh H. destruct (ex_candidates sh H) as [k [shc [H1 [H2 [H3 H4]]]]].
      exists k, shc. split; [exact H1|]. split; [exact H2|]. split; [|exact H4].
      intro r. split; [apply H3|apply ex_get_some; exact H]. }
    split; [apply ex_get_refused|]. split; [reflexivity|apply ex_get_default].
  Qed.
End Explicit.

(** * build_pool_user on an accepted configuration *)
Lemma user_validate_facts : forall u, user_validate u = true ->
  (u_pool_size u =? 0) = false /\ is_some_zero (u_connect_timeout u) = false /\
  is_some_zero (u_idle_timeout u) = false /\ is_some_zero (u_server_lifetime u) = false /\
  match u_min_pool_size u with Some m => (u_pool_size u <? m) = false | None => True end.
Proof.
  intros u H. unfold user_validate in H.
  destruct (u_pool_size u =? 0); [discriminate|].
  destruct (is_some_zero (u_connect_timeout u)); [discriminate|].
  destruct (is_some_zero (u_idle_timeout u)); [discriminate|].
  destruct (is_some_zero (u_server_lifetime u)); [discriminate|].
  repeat split. destruct (u_min_pool_size u); [|exact I]. apply negb_true_iff in H. exact H.
Qed.

Record pool_settings_ok (p : pool) : Prop := {
  ps_role : role_setting_ok (p_default_role p) = true;
  ps_regex : regex_bad (p_shard_regex p) || regex_bad (p_key_regex p) = false;
  ps_timeouts : is_some_zero (p_connect_timeout p) = false /\ is_some_zero (p_idle_timeout p) = false /\
                is_some_zero (p_server_lifetime p) = false;
  ps_users : forall ku, In ku (p_users p) -> user_validate (snd ku) = true }.

Lemma pool_validate_settings : forall p, pool_validate p = true -> pool_settings_ok p.
Proof.
  intros p H. unfold pool_validate in H.
  destruct (role_setting_ok (p_default_role p)) eqn:R; [|discriminate]. cbn [negb] in H.
  destruct (shard_numbers (p_shards p)); [|discriminate].
  destruct (_ || negb (check_enum 0 (isortZ l))); [discriminate|].
  destruct (regex_bad (p_shard_regex p) || regex_bad (p_key_regex p)) eqn:RX; [discriminate|].
  destruct (p_rw_split p && negb (p_parser p)); [discriminate|].
  destruct (has_plugins p && negb (p_parser p)); [discriminate|].
  destruct (negb (auto_key_ok (p_auto_key p))); [discriminate|].
  destruct (is_some_zero (p_connect_timeout p) || is_some_zero (p_idle_timeout p) || is_some_zero (p_server_lifetime p)) eqn:T; [discriminate|].
  destruct (match p_default_shard p with DShard n => _ | _ => false end); [discriminate|].
  destruct (forallb (fun ku => user_validate (snd ku)) (p_users p)) eqn:U; [|discriminate].
  apply orb_false_iff in T. destruct T as [T T3]. apply orb_false_iff in T. destruct T as [T1 T2].
  constructor; try assumption; try reflexivity.
  - repeat split; assumption.
  - intros ku Hin. rewrite forallb_forall in U. apply U. exact Hin.
Qed.

Definition general_ok (c : config) : Prop :=
  (g_connect_timeout c =? 0) = false /\ (g_idle_timeout c =? 0) = false /\ (g_server_lifetime c =? 0) = false.

Lemma builder_check_none : forall c p u, general_ok c -> pool_settings_ok p -> user_validate u = true ->
  builder_check c p u = None.
Proof.
  intros c p u [G1 [G2 G3]] PS U. destruct (user_validate_facts u U) as [U0 [U1 [U2 [U3 U4]]]].
  destruct (ps_timeouts _ PS) as [P1 [P2 P3]].
  unfold builder_check. rewrite U0.
  rewrite (eff_nonzero _ _ _ U1 P1 G1), (eff_nonzero _ _ _ U2 P2 G2), (eff_nonzero _ _ _ U3 P3 G3).
  destruct (u_min_pool_size u); [rewrite U4|]; reflexivity.
Qed.

Lemma build_pool_user_ok : forall c p u, general_ok c -> pool_validate p = true -> small_pool p ->
  typed_pool p -> auth_check p = None -> user_validate u = true ->
  exists sl dr, build_pool_user c p u = Built (explicit c p u sl dr) /\ pool_facts p sl /\ servable p (explicit c p u sl dr) /\
    settings_ok c p u (explicit c p u sl dr).
Proof.
  intros c p u G V S T AQ U.
  destruct (pool_validate_facts p V S) as [sl F].
  pose proof (pool_validate_settings p V) as PS.
  destruct (role_setting_of_ok _ (ps_role _ PS)) as [dr DR].
  exists sl, dr.
  assert (DS : match p_default_shard p with DShard d => 0 <= d < Z.of_nat (length (p_shards p)) | _ => True end).
  { pose proof (default_shard_ok p V) as D. destruct T as [T _].
    destruct (p_default_shard p) as [d| |]; try exact I. split; assumption. }
  split; [|split; [exact F|split; [apply explicit_servable; [exact F|exact DS|exact (proj2 T)]|apply explicit_settings; apply (builder_check_none c p u G PS U)]]].
  unfold build_pool_user. destruct (pf_sorted _ _ F) as [kl [K [E L]]]. rewrite K, <- E.
  unfold server_check. rewrite AQ.
  rewrite (builder_check_none c p u G PS U), (build_shards_ok sl (pf_keys _ _ F)), DR.
  pose proof (ps_regex _ PS) as RX. rewrite orb_comm in RX. rewrite RX.
  unfold explicit. rewrite L. reflexivity.
Qed.

(** * The whole configuration *)
Definition has_id (db usr : str) (bp : built) : Prop := bp_db bp = db /\ bp_user bp = usr.

Lemma in_insert_pool : forall bp m x, In x (insert_pool bp m) -> x = bp \/ In x m.
Proof.
  unfold insert_pool. intros bp m x H. apply in_app_or in H. destruct H as [H|H].
  - apply filter_In in H. right. tauto.
  - cbn in H. destruct H as [H|[]]. left. congruence.
Qed.

Lemma insert_pool_covers : forall bp m db usr,
  (exists x, In x m /\ has_id db usr x) \/ has_id db usr bp ->
  exists x, In x (insert_pool bp m) /\ has_id db usr x.
Proof.
  intros bp m db usr H.
  assert (Hbp : has_id db usr bp -> exists x, In x (insert_pool bp m) /\ has_id db usr x).
  { intro I. exists bp. split; [|exact I]. unfold insert_pool. apply in_or_app. right. left. reflexivity. }
  destruct H as [[x [Hin Hid]]|H]; [|apply Hbp; exact H].
  destruct (same_id bp x) eqn:E.
  - apply Hbp. unfold same_id in E. apply andb_true_iff in E. destruct E as [E1 E2].
    apply str_eqb_eq in E1. apply str_eqb_eq in E2. destruct Hid as [I1 I2]. split; congruence.
  - exists x. split; [|exact Hid]. unfold insert_pool. apply in_or_app. left.
    apply filter_In. split; [exact Hin|]. rewrite E. reflexivity.
Qed.

Definition srv (c0 : config) (p : pool) (u : user) (bp : built) : Prop := servable p bp /\ settings_ok c0 p u bp.

Lemma build_users_inv : forall c0 p us acc,
  general_ok c0 -> pool_validate p = true -> small_pool p -> typed_pool p -> auth_check p = None ->
  (forall ku, In ku us -> user_validate (snd ku) = true) ->
  exists acc', build_users c0 p us acc = Built acc' /\
    (forall bp, In bp acc' -> In bp acc \/
        exists ku, In ku us /\ has_id (p_name p) (u_name (snd ku)) bp /\ srv c0 p (snd ku) bp) /\
    (forall db usr, (exists x, In x acc /\ has_id db usr x) \/
                    (db = p_name p /\ exists ku, In ku us /\ usr = u_name (snd ku)) ->
                    exists x, In x acc' /\ has_id db usr x).
Proof.
  intros c0 p us. induction us as [|ku r IH]; intros acc G V S T AQ U; cbn [build_users].
  - exists acc. split; [reflexivity|]. split; [intros; left; assumption|].
    intros db usr [H|[_ [ku [[] _]]]]. exact H.
  - destruct (build_pool_user_ok c0 p (snd ku) G V S T AQ (U ku (or_introl eq_refl))) as [sl [dr [B [_ SV]]]].
    rewrite B.
    destruct (IH (insert_pool (explicit c0 p (snd ku) sl dr) acc) G V S T AQ (fun k Hk => U k (or_intror Hk)))
      as [acc' [E [I1 I2]]].
    exists acc'. split; [exact E|]. split.
    + intros bp Hbp. destruct (I1 bp Hbp) as [H|[k [Hk [Hid Hs]]]].
      * apply in_insert_pool in H. destruct H as [H|H]; [|left; exact H].
        right. exists ku. subst bp. split; [left; reflexivity|]. split; [split; reflexivity|exact SV].
      * right. exists k. split; [right; exact Hk|]. split; assumption.
    + intros db usr H. apply I2.
      destruct H as [H|[Hdb [k [[Hk|Hk] Hu]]]].
      * left. apply insert_pool_covers. left. exact H.
      * left. apply insert_pool_covers. right. subst k. split; [cbn; congruence|cbn; congruence].
      * right. split; [exact Hdb|]. exists k. split; assumption.
Qed.

Lemma build_pools_inv : forall c0 ps acc,
  general_ok c0 ->
  (forall p, In p ps -> pool_validate p = true /\ small_pool p /\ typed_pool p /\ auth_check p = None) ->
  exists acc', build_pools c0 ps acc = Built acc' /\
    (forall bp, In bp acc' -> In bp acc \/
        exists p ku, In p ps /\ In ku (p_users p) /\ has_id (p_name p) (u_name (snd ku)) bp /\ srv c0 p (snd ku) bp) /\
    (forall db usr, (exists x, In x acc /\ has_id db usr x) \/
                    (exists p ku, In p ps /\ In ku (p_users p) /\ db = p_name p /\ usr = u_name (snd ku)) ->
                    exists x, In x acc' /\ has_id db usr x).
Proof.
  intros c0 ps. induction ps as [|p r IH]; intros acc G H; cbn [build_pools].
  - exists acc. split; [reflexivity|]. split; [intros; left; assumption|].
    intros db usr [X|[p [ku [[] _]]]]. exact X.
  - destruct (H p (or_introl eq_refl)) as [V [S [T AQ]]].
    destruct (build_users_inv c0 p (p_users p) acc G V S T AQ (ps_users _ (pool_validate_settings p V)))
      as [acc1 [E1 [A1 A2]]].
    rewrite E1.
    destruct (IH acc1 G (fun q Hq => H q (or_intror Hq))) as [acc' [E [I1 I2]]].
    exists acc'. split; [exact E|]. split.
    + intros bp Hbp. destruct (I1 bp Hbp) as [X|[q [ku [Hq [Hku [Hid Hs]]]]]].
      * destruct (A1 bp X) as [Y|[ku [Hku [Hid Hs]]]]; [left; exact Y|].
        right. exists p, ku. split; [left; reflexivity|]. split; [exact Hku|]. split; [exact Hid|exact Hs].
      * right. exists q, ku. split; [right; exact Hq|]. split; [exact Hku|]. split; [exact Hid|exact Hs].
    + intros db usr X. apply I2.
      destruct X as [X|[q [ku [[Hq|Hq] [Hku [Hdb Hu]]]]]].
      * left. apply A2. left. exact X.
      * left. apply A2. right. subst q. split; [exact Hdb|]. exists ku. split; assumption.
      * right. exists q, ku. repeat split; assumption.
Qed.

Lemma pool_auth_secret : forall p ku, pool_auth_bad p = false -> In ku (p_users p) -> has_secret p (snd ku) = true.
Proof.
  intros p ku H Hin. unfold pool_auth_bad in H. apply orb_false_iff in H. destruct H as [_ H].
  assert (X : ((negb (p_auth_query p) || negb (p_auth_password p) || negb (p_auth_user p)) && negb (u_password (snd ku))) = false).
  { destruct (_ && negb (u_password (snd ku))) eqn:E; [|reflexivity].
    assert (Y : existsb (fun ku0 => (negb (p_auth_query p) || negb (p_auth_password p) || negb (p_auth_user p)) && negb (u_password (snd ku0))) (p_users p) = true)
      by (apply existsb_exists; exists ku; split; assumption).
    congruence. }
  unfold has_secret, is_auth_query_configured.
  destruct (p_auth_query p); destruct (p_auth_password p); destruct (p_auth_user p); destruct (u_password (snd ku)); destruct (u_server_password (snd ku)); cbn in *; try reflexivity; discriminate.
Qed.

Lemma config_validate_secret : forall c p ku, config_validate c = true -> In p (c_pools c) -> In ku (p_users p) ->
  has_secret p (snd ku) = true.
Proof.
  intros c p ku H Hp Hku. unfold config_validate in H.
  destruct (g_auth_query c && _); [discriminate|].
  destruct (_ || (g_server_lifetime c =? 0)); [discriminate|].
  destruct (existsb pool_auth_bad (c_pools c)) eqn:E; [discriminate|].
  apply pool_auth_secret; [|exact Hku].
  destruct (pool_auth_bad p) eqn:B; [|reflexivity].
  assert (Y : existsb pool_auth_bad (c_pools c) = true) by (apply existsb_exists; exists p; split; assumption). congruence.
Qed.

Lemma config_validate_facts : forall c, config_validate c = true ->
  general_ok c /\ forall p, In p (c_pools c) -> pool_validate p = true.
Proof.
  intros c H. unfold config_validate in H.
  destruct (g_auth_query c && _); [discriminate|].
  destruct ((g_connect_timeout c =? 0) || (g_idle_timeout c =? 0) || (g_server_lifetime c =? 0)) eqn:T; [discriminate|].
  destruct (existsb pool_auth_bad (c_pools c)); [discriminate|].
  destruct (negb (tls_ok c)); [discriminate|].
  apply orb_false_iff in T. destruct T as [T T3]. apply orb_false_iff in T. destruct T as [T1 T2].
  split; [repeat split; assumption|]. intros p Hp. rewrite forallb_forall in H. apply H. exact Hp.
Qed.

Lemma auth_check_none : forall p, auth_check p = None.
Proof.
  intro p. unfold auth_check, is_auth_query_configured.
  destruct (p_auth_query p && p_auth_user p && p_auth_password p); reflexivity.
Qed.

Theorem accepted_servable : forall c, accept c = true -> small c -> typed c ->
  exists pools, build c = Built pools /\
    (forall bp, In bp pools -> good c bp) /\
    (forall p ku, In p (c_pools c) -> In ku (p_users p) ->
       exists bp, In bp pools /\ bp_db bp = p_name p /\ bp_user bp = u_name (snd ku)).
Proof.
  intros c A S T. unfold accept in A. destruct (config_validate_facts _ A) as [G V].
  unfold build.
  assert (H : forall p', In p' (c_pools (fill_up c)) -> pool_validate p' = true /\ small_pool p' /\ typed_pool p' /\ auth_check p' = None).
  { intros p' Hp. split; [apply V; exact Hp|].
    pose proof (auth_check_none p') as AQ.
    cbn [fill_up c_pools] in Hp. apply in_map_iff in Hp. destruct Hp as [p [E Hp]]. subst p'.
    unfold small, typed in *. rewrite Forall_forall in S, T. split; [apply (S p Hp)|]. split; [apply (T p Hp)|exact AQ]. }
  destruct (build_pools_inv (fill_up c) (c_pools (fill_up c)) [] G H) as [pools [E [I1 I2]]].
  exists pools. split; [exact E|]. split.
  - intros bp Hbp. destruct (I1 bp Hbp) as [[]|[p' [ku [Hp [Hku [[Hd Hu] Hs]]]]]].
    cbn [fill_up c_pools] in Hp. apply in_map_iff in Hp. destruct Hp as [p [Ep Hp]]. subst p'.
    exists p, ku. split; [exact Hp|]. split; [exact Hku|]. split; [exact Hd|]. split; [exact Hu|]. destruct Hs as [Hs1 Hs2]. split; [exact Hs1|]. split; [exact Hs2|].
    destruct Hs2 as [_ [_ [UC _]]]. rewrite UC.
    apply (config_validate_secret (fill_up c) (fill_pool c p) ku A); [cbn [fill_up c_pools]; apply in_map; exact Hp|exact Hku].
  - intros p ku Hp Hku.
    destruct (I2 (p_name p) (u_name (snd ku))) as [x [Hx [Hd Hu]]].
    { right. exists (fill_pool c p), ku. split; [cbn [fill_up c_pools]; apply in_map; exact Hp|].
      split; [exact Hku|]. split; reflexivity. }
    exists x. split; [exact Hx|]. split; assumption.
Qed.

(** * Shard keys denote 0 .. n-1 bijectively *)
Lemma shard_numbers_spec : forall l nums, shard_numbers l = Some nums ->
  map (fun ks => parse_usize (fst ks)) l = map Some nums /\
  Forall (fun ks => shard_validate (snd ks) = true) l.
Proof.
  induction l as [|[k sh] r IH]; cbn [shard_numbers]; intros nums H.
  - inversion H. split; constructor.
  - destruct (parse_usize k) as [n|] eqn:P; [|discriminate].
    destruct (shard_validate sh) eqn:V; [|discriminate].
    destruct (shard_numbers r) as [ns|]; [|discriminate]. inversion H; subst.
    destruct (IH ns eq_refl) as [I1 I2]. cbn [map fst snd]. rewrite P, I1. split; [reflexivity|].
    constructor; [exact V|exact I2].
Qed.

Definition seqZ (n : nat) : list Z := map Z.of_nat (seq 0 n).

Lemma seqZ_NoDup : forall n, NoDup (seqZ n).
Proof.
  intro n. unfold seqZ. apply FinFun.Injective_map_NoDup; [|apply seq_NoDup].
  intros a b H. apply Nat2Z.inj. exact H.
Qed.

Lemma in_seqZ : forall n v, In v (seqZ n) <-> 0 <= v < Z.of_nat n.
Proof.
  intros n v. unfold seqZ. rewrite in_map_iff. split.
  - intros [j [E H]]. apply in_seq in H. lia.
  - intro H. exists (Z.to_nat v). split; [lia|]. apply in_seq. lia.
Qed.

Theorem key_parse : forall p, pool_validate p = true ->
  exists vs, map (fun ks => parse_usize (fst ks)) (p_shards p) = map Some vs /\
             Permutation vs (seqZ (length (p_shards p))) /\ NoDup vs /\
             (forall v, In v vs <-> 0 <= v < Z.of_nat (length (p_shards p))) /\
             Forall (fun ks => shard_validate (snd ks) = true) (p_shards p).
Proof.
  intros p H. destruct (pool_validate_numbers p H) as [nums [N [S _]]].
  destruct (shard_numbers_spec _ _ N) as [M V].
  assert (P : Permutation nums (seqZ (length (p_shards p)))).
  { unfold seqZ. rewrite <- S. apply Permutation_sym. apply isortZ_perm. }
  exists nums. split; [exact M|]. split; [exact P|]. split.
  - eapply Permutation_NoDup; [apply Permutation_sym; exact P|apply seqZ_NoDup].
  - split; [|exact V]. intro v. rewrite <- in_seqZ. split; intro X.
    + eapply Permutation_in; eassumption.
    + eapply Permutation_in; [apply Permutation_sym; exact P|exact X].
Qed.

(** leading zeros and a leading '+' do not change the number *)
Lemma parse_usize_leading_zero : forall c r, c <> 43 -> parse_usize (48 :: c :: r) = parse_usize (c :: r).
Proof.
  intros c r H. unfold parse_usize. cbn [strip_plus]. replace (48 =? 43) with false by reflexivity.
  assert (E : (c =? 43) = false) by (apply Z.eqb_neq; exact H). rewrite E.
  unfold digits. cbn [digits_val]. replace (digit 48) with (Some 0) by reflexivity. reflexivity.
Qed.

Lemma parse_usize_plus : forall c r, c <> 43 -> parse_usize (43 :: c :: r) = parse_usize (c :: r).
Proof.
  intros c r H. unfold parse_usize. cbn [strip_plus]. rewrite Z.eqb_refl.
  assert (E : (c =? 43) = false) by (apply Z.eqb_neq; exact H). rewrite E. reflexivity.
Qed.

(** * Rejections *)
Lemma forallb_false : forall A (f : A -> bool) l x, In x l -> f x = false -> forallb f l = false.
Proof.
  intros A f l x Hin Hx. destruct (forallb f l) eqn:E; [|reflexivity].
  rewrite forallb_forall in E. rewrite (E x Hin) in Hx. discriminate.
Qed.

Lemma reject_pool : forall c p, In p (c_pools c) -> pool_validate p = false -> accept c = false.
Proof.
  intros c p Hin H. unfold accept, config_validate.
  destruct (g_auth_query (fill_up c) && _); [reflexivity|].
  destruct (_ || (g_server_lifetime (fill_up c) =? 0)); [reflexivity|].
  destruct (existsb pool_auth_bad (c_pools (fill_up c))); [reflexivity|].
  destruct (negb (tls_ok (fill_up c))); [reflexivity|].
  apply (forallb_false _ _ _ (fill_pool c p)); [cbn [fill_up c_pools]; apply in_map; exact Hin|exact H].
Qed.

Lemma not_true_false : forall b, (b = true -> False) -> b = false.
Proof. intros [] H; [exfalso; apply H; reflexivity|reflexivity]. Qed.

(* shard numbering *)
Lemma reject_non_numeric_key : forall p k sh, In (k, sh) (p_shards p) -> parse_usize k = None -> pool_validate p = false.
Proof.
  intros p k sh Hin P. apply not_true_false. intro V.
  destruct (key_parse p V) as [vs [M _]].
  pose proof (in_map (fun ks : str * shard => parse_usize (fst ks)) _ _ Hin) as X.
  rewrite M in X. cbn [fst] in X. rewrite P in X. apply in_map_iff in X. destruct X as [v [E _]]. discriminate.
Qed.

Lemma reject_key_out_of_range : forall p k sh v, In (k, sh) (p_shards p) -> parse_usize k = Some v ->
  Z.of_nat (length (p_shards p)) <= v -> pool_validate p = false.
Proof.
  intros p k sh v Hin P Hv. apply not_true_false. intro V.
  destruct (key_parse p V) as [vs [M [_ [_ [R _]]]]].
  pose proof (in_map (fun ks : str * shard => parse_usize (fst ks)) _ _ Hin) as X.
  rewrite M in X. cbn [fst] in X. rewrite P in X. apply in_map_iff in X. destruct X as [w [E Hw]].
  inversion E; subst w. apply R in Hw. lia.
Qed.

Lemma reject_duplicate_number : forall p l1 l2 l3 k1 s1 k2 s2,
  p_shards p = l1 ++ (k1, s1) :: l2 ++ (k2, s2) :: l3 -> parse_usize k1 = parse_usize k2 -> pool_validate p = false.
Proof.
  intros p l1 l2 l3 k1 s1 k2 s2 E P. apply not_true_false. intro V.
  destruct (key_parse p V) as [vs [M [_ [ND _]]]].
  rewrite E in M. rewrite !map_app in M. cbn [map fst] in M. rewrite map_app in M. cbn [map fst] in M.
  assert (NDS : NoDup (map Some vs)).
  { apply FinFun.Injective_map_NoDup; [intros a b H; congruence|exact ND]. }
  rewrite <- M in NDS. apply NoDup_remove_2 in NDS. apply NDS.
  apply in_or_app. right. apply in_or_app. right. left. symmetry. exact P.
Qed.

Lemma reject_not_from_zero : forall p,
  (forall k sh, In (k, sh) (p_shards p) -> parse_usize k <> Some 0) -> pool_validate p = false.
Proof.
  intros p H. apply not_true_false. intro V.
  destruct (key_parse p V) as [vs [M [_ [_ [R _]]]]].
  destruct (pool_validate_numbers p V) as [_ [_ [_ NE]]].
  assert (Z0 : In 0 vs) by (apply R; lia).
  assert (X : In (Some 0) (map (fun ks => parse_usize (fst ks)) (p_shards p))) by (rewrite M; apply in_map; exact Z0).
  apply in_map_iff in X. destruct X as [[k sh] [E Hin]]. cbn [fst] in E. exact (H k sh Hin E).
Qed.

Lemma reject_no_shards : forall p, p_shards p = [] -> pool_validate p = false.
Proof.
  intros p E. apply not_true_false. intro V.
  destruct (pool_validate_numbers p V) as [_ [_ [_ NE]]]. rewrite E in NE. cbn in NE. lia.
Qed.

Lemma reject_default_shard : forall p d, p_default_shard p = DShard d ->
  Z.of_nat (length (p_shards p)) <= d -> pool_validate p = false.
Proof.
  intros p d E H. apply not_true_false. intro V. pose proof (default_shard_ok p V) as D.
  rewrite E in D. lia.
Qed.

Lemma reject_default_role : forall p, role_setting_ok (p_default_role p) = false -> pool_validate p = false.
Proof. intros p H. unfold pool_validate. rewrite H. reflexivity. Qed.

(* servers of a shard *)
Lemma reject_bad_shard : forall p k sh, In (k, sh) (p_shards p) -> shard_validate sh = false -> pool_validate p = false.
Proof.
  intros p k sh Hin B. apply not_true_false. intro V.
  destruct (key_parse p V) as [_ [_ [_ [_ [_ F]]]]]. rewrite Forall_forall in F.
  specialize (F (k, sh) Hin). cbn [snd] in F. congruence.
Qed.

Lemma shard_no_servers : forall sh, sh_servers sh = [] -> shard_validate sh = false.
Proof. intros sh E. unfold shard_validate. rewrite E. reflexivity. Qed.

Lemma shard_mirror_role : forall sh s, In s (sh_servers sh) -> sv_role s = Mirror -> shard_validate sh = false.
Proof.
  intros sh s Hin R.
  assert (X : existsb (fun s0 => role_eqb (sv_role s0) Mirror) (sh_servers sh) = true).
  { apply existsb_exists. exists s. split; [exact Hin|]. rewrite R. reflexivity. }
  unfold shard_validate. rewrite X. destruct (sh_servers sh); reflexivity.
Qed.

Lemma count_primary_nonneg : forall l, 0 <= count_primary l.
Proof. induction l as [|s r IH]; cbn [count_primary]; [lia|]. destruct (sv_role s); lia. Qed.

Lemma count_primary_app : forall a b, count_primary (a ++ b) = count_primary a + count_primary b.
Proof. induction a as [|s r IH]; intro b; cbn [app count_primary]; [lia|]. rewrite IH. lia. Qed.

Lemma shard_two_primaries : forall sh l1 a l2 b l3, sh_servers sh = l1 ++ a :: l2 ++ b :: l3 ->
  sv_role a = Primary -> sv_role b = Primary -> shard_validate sh = false.
Proof.
  intros sh l1 a l2 b l3 E Ra Rb. unfold shard_validate.
  destruct (sh_servers sh) eqn:S; [reflexivity|]. rewrite <- S.
  destruct (existsb _ (sh_servers sh)); [reflexivity|].
  assert (C : 1 <? count_primary (sh_servers sh) = true).
  { apply Z.ltb_lt. rewrite S, E. rewrite count_primary_app. cbn [count_primary]. rewrite count_primary_app. cbn [count_primary].
    rewrite Ra, Rb. pose proof (count_primary_nonneg l1). pose proof (count_primary_nonneg l2). pose proof (count_primary_nonneg l3). lia. }
  rewrite C. reflexivity.
Qed.

Lemma distinct_le : forall l, (length (distinct l) <= length l)%nat.
Proof.
  induction l as [|s r IH]; cbn [distinct length]; [lia|].
  destruct (existsb (server_eqb s) r); cbn [length]; lia.
Qed.

Lemma distinct_lt : forall l1 s l2 s' l3, server_eqb s s' = true ->
  (length (distinct (l1 ++ s :: l2 ++ s' :: l3)) < length (l1 ++ s :: l2 ++ s' :: l3))%nat.
Proof.
  induction l1 as [|x r IH]; intros s l2 s' l3 E.
  - cbn [app distinct].
    assert (X : existsb (server_eqb s) (l2 ++ s' :: l3) = true).
    { apply existsb_exists. exists s'. split; [apply in_or_app; right; left; reflexivity|exact E]. }
    rewrite X. pose proof (distinct_le (l2 ++ s' :: l3)). cbn [length]. lia.
  - cbn [app distinct length]. specialize (IH s l2 s' l3 E).
    destruct (existsb (server_eqb x) (r ++ s :: l2 ++ s' :: l3)); cbn [length]; lia.
Qed.

Lemma shard_duplicate_server : forall sh l1 s l2 s' l3, sh_servers sh = l1 ++ s :: l2 ++ s' :: l3 ->
  server_eqb s s' = true -> shard_validate sh = false.
Proof.
  intros sh l1 s l2 s' l3 E D. unfold shard_validate.
  destruct (sh_servers sh) eqn:S; [reflexivity|]. rewrite <- S.
  destruct (existsb _ (sh_servers sh)); [reflexivity|].
  destruct (1 <? count_primary (sh_servers sh)); [reflexivity|].
  assert (X : Nat.eqb (length (distinct (sh_servers sh))) (length (sh_servers sh)) = false).
  { apply Nat.eqb_neq. rewrite S, E. pose proof (distinct_lt l1 s l2 s' l3 D). lia. }
  rewrite X. reflexivity.
Qed.

Lemma shard_mirror_out_of_range : forall sh m, In m (sh_mirrors sh) ->
  Z.of_nat (length (sh_servers sh)) <= mi_target m -> shard_validate sh = false.
Proof.
  intros sh m Hin H. apply not_true_false. intro V. pose proof (shard_validate_mirrors sh m V Hin). lia.
Qed.

(* users *)
Lemma reject_bad_user : forall p ku, In ku (p_users p) -> user_validate (snd ku) = false -> pool_validate p = false.
Proof.
  intros p ku Hin B. apply not_true_false. intro V.
  pose proof (ps_users _ (pool_validate_settings p V) ku Hin). congruence.
Qed.

Lemma user_zero_pool_size : forall u, u_pool_size u = 0 -> user_validate u = false.
Proof. intros u E. unfold user_validate. rewrite E. reflexivity. Qed.

Lemma user_min_above_size : forall u m, u_min_pool_size u = Some m -> u_pool_size u < m -> user_validate u = false.
Proof.
  intros u m E H. unfold user_validate. destruct (u_pool_size u =? 0); [reflexivity|].
  destruct (_ || is_some_zero (u_server_lifetime u)); [reflexivity|]. rewrite E.
  assert (L : (u_pool_size u <? m) = true) by (apply Z.ltb_lt; exact H). rewrite L. reflexivity.
Qed.

Lemma user_zero_timeout : forall u,
  u_connect_timeout u = Some 0 \/ u_idle_timeout u = Some 0 \/ u_server_lifetime u = Some 0 -> user_validate u = false.
Proof.
  intros u H. unfold user_validate. destruct (u_pool_size u =? 0); [reflexivity|].
  destruct H as [H|[H|H]]; rewrite H; cbn [is_some_zero]; rewrite ?orb_true_r; reflexivity.
Qed.

(* pool-level settings *)
Lemma reject_pool_settings : forall p,
  regex_bad (p_shard_regex p) = true \/ regex_bad (p_key_regex p) = true \/
  (p_rw_split p = true /\ p_parser p = false) \/ (has_plugins p = true /\ p_parser p = false) \/
  auto_key_ok (p_auto_key p) = false \/
  p_connect_timeout p = Some 0 \/ p_idle_timeout p = Some 0 \/ p_server_lifetime p = Some 0 ->
  pool_validate p = false.
Proof.
  intros p H. unfold pool_validate.
  destruct (negb (role_setting_ok (p_default_role p))); [reflexivity|].
  destruct (shard_numbers (p_shards p)); [|reflexivity].
  destruct (_ || negb (check_enum 0 (isortZ l))); [reflexivity|].
  destruct (regex_bad (p_shard_regex p)) eqn:R1; [reflexivity|].
  destruct (regex_bad (p_key_regex p)) eqn:R2; [reflexivity|]. cbn [orb].
  destruct (p_rw_split p) eqn:RW; destruct (p_parser p) eqn:PA; destruct (has_plugins p) eqn:PL; cbn [andb negb];
    try reflexivity;
    destruct (auto_key_ok (p_auto_key p)) eqn:AK; cbn [negb]; try reflexivity;
    (destruct H as [H|[H|[[H H']|[[H H']|[H|H]]]]]; try discriminate;
     destruct H as [H|[H|H]]; rewrite H; cbn [is_some_zero]; rewrite ?orb_true_r; reflexivity).
Qed.

(* credentials and [general] *)
Lemma reject_missing_password : forall c p ku, In p (c_pools c) -> In ku (p_users p) ->
  u_password (snd ku) = false ->
  (p_auth_query p || g_auth_query c) && (p_auth_user p || g_auth_user c) && (p_auth_password p || g_auth_password c) = false ->
  accept c = false.
Proof.
  intros c p ku Hp Hku PW AQ. unfold accept, config_validate.
  destruct (g_auth_query (fill_up c) && _); [reflexivity|].
  destruct (_ || (g_server_lifetime (fill_up c) =? 0)); [reflexivity|].
  assert (X : existsb pool_auth_bad (c_pools (fill_up c)) = true).
  { apply existsb_exists. exists (fill_pool c p). split; [cbn [fill_up c_pools]; apply in_map; exact Hp|].
    unfold pool_auth_bad. apply orb_true_iff. right. apply existsb_exists. exists ku.
    split; [exact Hku|]. rewrite PW. cbn [fill_pool p_auth_query p_auth_user p_auth_password negb].
    destruct (p_auth_query p || g_auth_query c); destruct (p_auth_user p || g_auth_user c);
      destruct (p_auth_password p || g_auth_password c); cbn in *; try reflexivity; discriminate. }
  rewrite X. reflexivity.
Qed.

Lemma reject_general_zero_timeout : forall c,
  g_connect_timeout c = 0 \/ g_idle_timeout c = 0 \/ g_server_lifetime c = 0 -> accept c = false.
Proof.
  intros c H. unfold accept, config_validate. destruct (g_auth_query (fill_up c) && _); [reflexivity|].
  cbn [fill_up g_connect_timeout g_idle_timeout g_server_lifetime].
  destruct H as [H|[H|H]]; rewrite H; cbn; rewrite ?orb_true_r; reflexivity.
Qed.

Lemma reject_auth_query_incomplete : forall c, g_auth_query c = true ->
  g_auth_user c = false \/ g_auth_password c = false -> accept c = false.
Proof.
  intros c Q H. unfold accept, config_validate. cbn [fill_up g_auth_query g_auth_user g_auth_password].
  rewrite Q. destruct H as [H|H]; rewrite H; cbn; rewrite ?orb_true_r; reflexivity.
Qed.

(* a default_shard string that is neither shard_<usize>, random nor random_healthy does not
   deserialise; shard_<n> yields a non-negative n *)
Lemma deser_default_shard_typed : forall s d, deser_default_shard s = Some (DShard d) -> 0 <= d.
Proof.
  unfold deser_default_shard. intros s d H.
  destruct (strip_prefix s_shard_ s) as [r|].
  - destruct (parse_usize r) as [n|] eqn:P; [|discriminate]. inversion H; subst.
    apply parse_usize_range in P. lia.
  - destruct (str_eqb s s_random); [discriminate|]. destruct (str_eqb s s_random_healthy); discriminate.
Qed.

(** * TLS options: a loadable certificate/key pair changes nothing else *)
Lemma accept_tls : forall c, accept c = tls_ok c && accept (without_tls c).
Proof.
  intro c. unfold accept, config_validate.
  change (tls_ok (fill_up c)) with (tls_ok c).
  change (tls_ok (fill_up (without_tls c))) with true.
  change (g_auth_query (fill_up (without_tls c))) with (g_auth_query (fill_up c)).
  change (g_auth_user (fill_up (without_tls c))) with (g_auth_user (fill_up c)).
  change (g_auth_password (fill_up (without_tls c))) with (g_auth_password (fill_up c)).
  change (g_connect_timeout (fill_up (without_tls c))) with (g_connect_timeout (fill_up c)).
  change (g_idle_timeout (fill_up (without_tls c))) with (g_idle_timeout (fill_up c)).
  change (g_server_lifetime (fill_up (without_tls c))) with (g_server_lifetime (fill_up c)).
  change (c_pools (fill_up (without_tls c))) with (c_pools (fill_up c)).
  destruct (g_auth_query (fill_up c) && _); [rewrite andb_false_r; reflexivity|].
  destruct (_ || (g_server_lifetime (fill_up c) =? 0)); [rewrite andb_false_r; reflexivity|].
  destruct (existsb pool_auth_bad (c_pools (fill_up c))); [rewrite andb_false_r; reflexivity|].
  destruct (tls_ok c); reflexivity.
Qed.

Lemma tls_pair_independent : forall c, g_tls_cert c = Some LoadSome -> g_tls_key c = Some LoadSome ->
  accept c = accept (without_tls c).
Proof. intros c H1 H2. rewrite accept_tls. unfold tls_ok. rewrite H1, H2. reflexivity. Qed.

Lemma tls_key_alone_independent : forall c, g_tls_cert c = None -> accept c = accept (without_tls c).
Proof. intros c H1. rewrite accept_tls. unfold tls_ok. rewrite H1. reflexivity. Qed.

Lemma reject_tls : forall c v,
  (g_tls_cert c = Some v /\ v <> LoadSome) \/
  (g_tls_cert c = Some LoadSome /\ g_tls_key c <> Some LoadSome) -> accept c = false.
Proof.
  intros c v H. rewrite accept_tls. unfold tls_ok.
  destruct H as [[H N]|[H K]]; rewrite H.
  - destruct v; try reflexivity. congruence.
  - destruct (g_tls_key c) as [[| |]|]; try reflexivity. congruence.
Qed.

Lemma built_settings : forall c pools, accept c = true -> small c -> typed c -> build c = Built pools ->
  forall bp, In bp pools ->
  exists p ku, In p (c_pools c) /\ In ku (p_users p) /\ bp_db bp = p_name p /\ bp_user bp = u_name (snd ku) /\
               settings_ok c p (snd ku) bp.
Proof.
  intros c pools A S T B bp Hbp. destruct (accepted_servable c A S T) as [pools' [B' [G _]]].
  rewrite B in B'. inversion B'; subst pools'. destruct (G bp Hbp) as [p [ku [H1 [H2 [H3 [H4 [_ [H6 _]]]]]]]].
  exists p, ku. split; [exact H1|]. split; [exact H2|]. split; [exact H3|]. split; [exact H4|exact H6].
Qed.

(** * Credentials *)
Lemma built_secret : forall c pools, accept c = true -> small c -> typed c -> build c = Built pools ->
  forall bp, In bp pools -> exists p, In p (c_pools c) /\ bp_db bp = p_name p /\ has_secret (fill_pool c p) (bp_user_cfg bp) = true.
Proof.
  intros c pools A S T B bp Hbp. destruct (accepted_servable c A S T) as [pools' [B' [G _]]].
  rewrite B in B'. inversion B'; subst pools'. destruct (G bp Hbp) as [p [ku [H1 [_ [H3 [_ [_ [_ H7]]]]]]]].
  exists p. split; [exact H1|]. split; [exact H3|exact H7].
Qed.

(* auth_type is about the client side only: a trust user without password (and without a fully
   configured auth_query) is rejected like any other *)
Lemma reject_trust_without_secret : forall c p ku, In p (c_pools c) -> In ku (p_users p) ->
  u_auth_type (snd ku) = AuthTrust -> u_password (snd ku) = false ->
  is_auth_query_configured (fill_pool c p) = false -> accept c = false.
Proof.
  intros c p ku Hp Hku _ PW AQ. apply (reject_missing_password c p ku Hp Hku PW).
  unfold is_auth_query_configured in AQ. cbn [fill_pool p_auth_query p_auth_user p_auth_password] in AQ. exact AQ.
Qed.

(** * Defaults: the parsed value of an option is the file's, else the table's *)
From PV Require Import Config.Defaults.

Lemma key_eqb_refl : forall k, key_eqb k k = true.
Proof. induction k as [|x k IH]; cbn [key_eqb]; [reflexivity|]. rewrite Z.eqb_refl, IH. reflexivity. Qed.

Lemma key_eqb_eq : forall a b, key_eqb a b = true -> a = b.
Proof.
  induction a as [|x a IH]; destruct b as [|y b]; cbn [key_eqb]; intro H; try discriminate; [reflexivity|].
  apply andb_true_iff in H. destruct H as [H1 H2]. apply Z.eqb_eq in H1. apply IH in H2. congruence.
Qed.

Lemma lookup_overlay : forall file defaults k d, lookup k defaults = Some d ->
  lookup k (overlay file defaults) = Some (match lookup k file with Some v => v | None => d end).
Proof.
  intros file defaults k. induction defaults as [|[k' d'] r IH]; intros d H; cbn [lookup overlay map fst snd] in *; [discriminate|].
  destruct (key_eqb k k') eqn:E.
  - apply key_eqb_eq in E. subst k'. inversion H; subst. reflexivity.
  - apply IH. exact H.
Qed.

Lemma overlay_set : forall file defaults k d v, lookup k defaults = Some d -> lookup k file = Some v ->
  lookup k (overlay file defaults) = Some v.
Proof. intros. rewrite (lookup_overlay _ _ _ _ H), H0. reflexivity. Qed.

Lemma overlay_omitted : forall file defaults k d, lookup k defaults = Some d -> lookup k file = None ->
  lookup k (overlay file defaults) = Some d.
Proof. intros. rewrite (lookup_overlay _ _ _ _ H), H0. reflexivity. Qed.
