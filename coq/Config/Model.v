(** C15 — an accepted configuration is a servable configuration.

    Executable model of
      - src/config.rs : DefaultShard deserialisation (901-920), fill_up_auth_query_config
        (1150-1166), Config::validate (1516-1610), Pool::validate (701-831),
        Shard::validate (938-989), User::validate (250-278), is_auth_query_configured (644-648);
      - src/pool.rs   : ConnectionPool::from_config (312-629) — the order in which shard keys
        are sorted, what number each Address carries and at which POSITION its bb8 pool, its
        address and its ban list are stored; the bb8 builder assertions
        (bb8-0.8.6/src/api.rs:204-296,350-357) reached at 503-511; and every index operation
        of get (724-802), ban/unban/is_banned/try_unban (952-1022), servers/pool_state/
        address (1064-1085), admin.rs:355-360 and auth_passthrough.rs:127, each as a checked
        [nth_error].
    (line numbers as of /repo commit 0edee1c)

    The configuration is the value AFTER toml/serde produced the Rust structs (typed roles,
    ports, sizes); the only deserialiser modelled is the hand-written one of DefaultShard.
    Strings are lists of byte values.  Definitions only; proofs are in Proofs.v. *)
From Coq Require Import ZArith List Bool.
Import ListNotations.
Open Scope Z_scope.

Definition str := list Z.

Fixpoint str_eqb (a b : str) : bool :=
  match a, b with
  | [], [] => true
  | x :: a', y :: b' => (x =? y) && str_eqb a' b'
  | _, _ => false
  end.

Definition s_any : str := [97; 110; 121].
Definition s_primary : str := [112; 114; 105; 109; 97; 114; 121].
Definition s_replica : str := [114; 101; 112; 108; 105; 99; 97].
Definition s_shard_ : str := [115; 104; 97; 114; 100; 95].
Definition s_random : str := [114; 97; 110; 100; 111; 109].
Definition s_random_healthy : str := s_random ++ [95; 104; 101; 97; 108; 116; 104; 121].

(** ** Rust's [usize::from_str] / [i64::from_str] (core::num, radix 10)
    optional ['+'] (and ['-'] for the signed type only), then at least one ASCII digit,
    value checked against the type's range; leading zeros are fine. *)
Definition digit (c : Z) : option Z :=
  if (48 <=? c) && (c <=? 57) then Some (c - 48) else None.

Fixpoint digits_val (acc : Z) (s : str) : option Z :=
  match s with
  | [] => Some acc
  | c :: r => match digit c with
              | Some d => digits_val (acc * 10 + d) r
              | None => None
              end
  end.

Definition digits (s : str) : option Z :=
  match s with [] => None | _ => digits_val 0 s end.

Definition usize_max : Z := 18446744073709551615.
Definition i64_max : Z := 9223372036854775807.

Definition strip_plus (s : str) : str :=
  match s with
  | c :: r => if c =? 43 then r else s
  | [] => s
  end.

Definition parse_usize (s : str) : option Z :=
  match digits (strip_plus s) with
  | Some v => if v <=? usize_max then Some v else None
  | None => None
  end.

Definition parse_i64 (s : str) : option Z :=
  match s with
  | [] => None
  | c :: r =>
      if c =? 45 then
        match digits r with
        | Some v => if v <=? i64_max + 1 then Some (- v) else None
        | None => None
        end
      else
        match digits (strip_plus s) with
        | Some v => if v <=? i64_max then Some v else None
        | None => None
        end
  end.

(** ** Configuration (config.rs structs, the fields the property depends on) *)
Inductive role := Primary | Replica | Mirror.

Definition role_eqb (a b : role) : bool :=
  match a, b with
  | Primary, Primary | Replica, Replica | Mirror, Mirror => true
  | _, _ => false
  end.

(* config.rs:880 *)
Inductive dshard := DShard (n : Z) | DRandom | DRandomHealthy.

Fixpoint strip_prefix (p s : str) : option str :=
  match p, s with
  | [], _ => Some s
  | x :: p', y :: s' => if x =? y then strip_prefix p' s' else None
  | _ :: _, [] => None
  end.

(* config.rs:901-920: strip "shard_" then parse::<usize>(), else "random" / "random_healthy";
   anything else is a deserialisation error (the whole file is rejected). *)
Definition deser_default_shard (s : str) : option dshard :=
  match strip_prefix s_shard_ s with
  | Some r => match parse_usize r with Some n => Some (DShard n) | None => None end
  | None => if str_eqb s s_random then Some DRandom
            else if str_eqb s s_random_healthy then Some DRandomHealthy
            else None
  end.

Record server := { sv_host : str; sv_port : Z; sv_role : role }.
Record mirror_cfg := { mi_host : str; mi_port : Z; mi_target : Z }.
(* [mirrors: Option<Vec<..>>]: None and Some [] behave alike in from_config (366-390) *)
Record shard := { sh_servers : list server; sh_mirrors : list mirror_cfg }.

(* config.rs PoolMode *)
Inductive mode := Transaction | Session.

(* config.rs Plugins: the sections the grammar writes (intercept / prewarmer stay absent) *)
Record plug := { pl_table_access : option (bool * list str);   (* enabled, tables *)
                 pl_query_logger : option bool }.              (* enabled *)

(* config.rs AuthType *)
Inductive auth := AuthMD5 | AuthTrust.

Record user := {
  u_name : str;
  u_password : bool;                  (* password.is_some() *)
  u_pool_size : Z;
  u_min_pool_size : option Z;
  u_connect_timeout : option Z;
  u_idle_timeout : option Z;
  u_server_lifetime : option Z;
  u_pool_mode : option mode;
  u_statement_timeout : Z;
  u_auth_type : auth;                 (* how CLIENTS of this user are authenticated; default MD5 *)
  u_server_username : bool;           (* server_username.is_some() *)
  u_server_password : bool }.         (* server_password.is_some() *)

Record pool := {
  p_name : str;
  p_default_role : str;
  p_default_shard : dshard;
  p_parser : bool;                    (* query_parser_enabled *)
  p_rw_split : bool;                  (* query_parser_read_write_splitting *)
  p_plugins : option plug;            (* [pools.<name>.plugins] *)
  p_pool_mode : mode;
  p_auto_key : option str;            (* automatic_sharding_key *)
  (* sharding_key_regex / shard_id_regex: None = absent, Some b = present and
     [Regex::new] answers Ok iff b (the regex crate is environment) *)
  p_key_regex : option bool;
  p_shard_regex : option bool;
  p_auth_query : bool; p_auth_user : bool; p_auth_password : bool;   (* is_some() *)
  p_connect_timeout : option Z;
  p_idle_timeout : option Z;
  p_server_lifetime : option Z;
  p_activity : bool; p_act_delay : Z; p_act_ttl : Z; p_mut_ttl : Z;
  (* BTreeMap<String, _>: lists in key order (the results below do not depend on it except
     for users sharing a username, where the last entry wins) *)
  p_shards : list (str * shard);
  p_users : list (str * user) }.

(* what tls::load_certs / tls::load_keys answer on a path: Err, Ok(empty) (a readable file
   without the expected PEM items), Ok(at least one item) *)
Inductive loaded := LoadErr | LoadEmpty | LoadSome.

Record config := {
  g_auth_query : bool; g_auth_user : bool; g_auth_password : bool;
  g_connect_timeout : Z; g_idle_timeout : Z; g_server_lifetime : Z;
  (* tls_certificate / tls_private_key: None = not set, Some v = set and tls::load_certs /
     tls::load_keys on that path answers v (file system and rustls_pemfile are environment) *)
  g_tls_cert : option loaded; g_tls_key : option loaded;
  g_plugins : option plug;            (* top-level [plugins] *)
  c_pools : list pool }.

Definition has_plugins (p : pool) : bool :=
  match p_plugins p with Some _ => true | None => false end.

(* General::default_* (config.rs:390, 413, 386), used by the driver for omitted keys *)
Definition default_connect_timeout : Z := 1000.
Definition default_idle_timeout : Z := 600000.
Definition default_server_lifetime : Z := 3600000.

(** ** Validation *)

Definition is_some_zero (o : option Z) : bool :=
  match o with Some v => v =? 0 | None => false end.

(* config.rs:250-278: pool_size > 0, no Some(0) timeout, min_pool_size <= pool_size *)
Definition user_validate (u : user) : bool :=
  if u_pool_size u =? 0 then false else
  if is_some_zero (u_connect_timeout u) || is_some_zero (u_idle_timeout u)
     || is_some_zero (u_server_lifetime u) then false else
  match u_min_pool_size u with
  | Some m => negb (u_pool_size u <? m)
  | None => true
  end.

Definition server_eqb (a b : server) : bool :=
  str_eqb (sv_host a) (sv_host b) && (sv_port a =? sv_port b) && role_eqb (sv_role a) (sv_role b).

Fixpoint count_primary (l : list server) : Z :=
  match l with
  | [] => 0
  | s :: r => (match sv_role s with Primary => 1 | _ => 0 end) + count_primary r
  end.

(* the HashSet of config.rs:941-950: one representative per (host, port, role) *)
Fixpoint distinct (l : list server) : list server :=
  match l with
  | [] => []
  | s :: r => if existsb (server_eqb s) r then distinct r else s :: distinct r
  end.

(* config.rs:938-989: non-empty, no server with the mirror role, at most one primary,
   no duplicate (host, port, role), every mirror follows one of the servers *)
Definition shard_validate (sh : shard) : bool :=
  match sh_servers sh with
  | [] => false
  | _ => if existsb (fun s => role_eqb (sv_role s) Mirror) (sh_servers sh) then false
         else if 1 <? count_primary (sh_servers sh) then false
         else if negb (Nat.eqb (length (distinct (sh_servers sh))) (length (sh_servers sh))) then false
         else forallb (fun m => negb (Z.of_nat (length (sh_servers sh)) <=? mi_target m)) (sh_mirrors sh)
  end.

(* config.rs:717-729: Err at the first key that is not a usize or shard that is invalid *)
Fixpoint shard_numbers (l : list (str * shard)) : option (list Z) :=
  match l with
  | [] => Some []
  | (k, sh) :: r =>
      match parse_usize k with
      | None => None
      | Some n => if shard_validate sh then
                    match shard_numbers r with Some ns => Some (n :: ns) | None => None end
                  else None
      end
  end.

(* Vec::sort on the numbers; sort_by_key on (number, item) pairs below: a stable sort has
   one possible result, the one of this insertion sort *)
Fixpoint insertZ (x : Z) (l : list Z) : list Z :=
  match l with
  | [] => [x]
  | y :: r => if x <=? y then x :: l else y :: insertZ x r
  end.
Fixpoint isortZ (l : list Z) : list Z :=
  match l with [] => [] | x :: r => insertZ x (isortZ r) end.

(* config.rs:733-738: .iter().enumerate().any(|(position, n)| position != *n) negated *)
Fixpoint check_enum (i : nat) (l : list Z) : bool :=
  match l with
  | [] => true
  | x :: r => (x =? Z.of_nat i) && check_enum (S i) r
  end.

Definition role_setting_ok (s : str) : bool :=
  str_eqb s s_any || str_eqb s s_primary || str_eqb s s_replica.

Definition regex_bad (o : option bool) : bool :=
  match o with Some false => true | _ => false end.

(* config.rs:772-789: quotes removed, then exactly two '.'-separated parts *)
Definition auto_key_ok (o : option str) : bool :=
  match o with
  | None => true
  | Some k => Nat.eqb (length (filter (fun c => c =? 46) (filter (fun ch => negb (ch =? 34)) k))) 1
  end.

(* config.rs:701-831, in order *)
Definition pool_validate (p : pool) : bool :=
  if negb (role_setting_ok (p_default_role p)) then false else
  match shard_numbers (p_shards p) with
  | None => false
  | Some nums =>
    let sorted := isortZ nums in
    if (match sorted with [] => true | _ => false end) || negb (check_enum 0 sorted) then false else
    if regex_bad (p_shard_regex p) || regex_bad (p_key_regex p) then false else
    if p_rw_split p && negb (p_parser p) then false else
    if has_plugins p && negb (p_parser p) then false else
    if negb (auto_key_ok (p_auto_key p)) then false else
    if is_some_zero (p_connect_timeout p) || is_some_zero (p_idle_timeout p)
       || is_some_zero (p_server_lifetime p) then false else
    if (match p_default_shard p with
        | DShard n => Z.of_nat (length (p_shards p)) <=? n
        | _ => false end) then false else
    if negb (forallb (fun ku => user_validate (snd ku)) (p_users p)) then false else
    if p_activity p && ((p_act_delay p =? 0) || (p_mut_ttl p =? 0) || (p_act_ttl p =? 0)) then false
    else true
  end.

(* config.rs:1150-1166 (only is_some() matters afterwards) *)
Definition fill_pool (c : config) (p : pool) : pool :=
  {| p_name := p_name p; p_default_role := p_default_role p; p_default_shard := p_default_shard p;
     p_parser := p_parser p; p_rw_split := p_rw_split p; p_plugins := p_plugins p;
     p_pool_mode := p_pool_mode p;
     p_auto_key := p_auto_key p; p_key_regex := p_key_regex p; p_shard_regex := p_shard_regex p;
     p_auth_query := p_auth_query p || g_auth_query c;
     p_auth_user := p_auth_user p || g_auth_user c;
     p_auth_password := p_auth_password p || g_auth_password c;
     p_connect_timeout := p_connect_timeout p; p_idle_timeout := p_idle_timeout p;
     p_server_lifetime := p_server_lifetime p;
     p_activity := p_activity p; p_act_delay := p_act_delay p; p_act_ttl := p_act_ttl p;
     p_mut_ttl := p_mut_ttl p; p_shards := p_shards p; p_users := p_users p |}.

Definition fill_up (c : config) : config :=
  {| g_auth_query := g_auth_query c; g_auth_user := g_auth_user c; g_auth_password := g_auth_password c;
     g_connect_timeout := g_connect_timeout c; g_idle_timeout := g_idle_timeout c;
     g_server_lifetime := g_server_lifetime c;
     g_tls_cert := g_tls_cert c; g_tls_key := g_tls_key c; g_plugins := g_plugins c;
     c_pools := map (fill_pool c) (c_pools c) |}.

(* config.rs:1544-1574 for one pool *)
Definition pool_auth_bad (p : pool) : bool :=
  (p_auth_query p && (negb (p_auth_user p) || negb (p_auth_password p)))
  || existsb (fun ku => (negb (p_auth_query p) || negb (p_auth_password p) || negb (p_auth_user p))
                        && negb (u_password (snd ku))) (p_users p).

(* config.rs:1580-1615: only looked at when tls_certificate is set; the certificate file must
   load and hold a certificate, then the key must be set, load and hold a private key; on
   success validation CONTINUES with the pools *)
Definition tls_ok (c : config) : bool :=
  match g_tls_cert c with
  | None => true
  | Some LoadSome => match g_tls_key c with Some LoadSome => true | _ => false end
  | Some _ => false
  end.

(* config.rs:1516-1622, in order *)
Definition config_validate (c : config) : bool :=
  if g_auth_query c && (negb (g_auth_user c) || negb (g_auth_password c)) then false else
  if (g_connect_timeout c =? 0) || (g_idle_timeout c =? 0) || (g_server_lifetime c =? 0) then false else
  if existsb pool_auth_bad (c_pools c) then false else
  if negb (tls_ok c) then false else
  forallb pool_validate (c_pools c).

(* config.rs:1654-1655 *)
Definition accept (c : config) : bool := config_validate (fill_up c).

(** ** from_config *)
Inductive panic :=
| PanicKeyI64          (* pool.rs:354 parse::<i64>().unwrap() *)
| PanicKeyUsize        (* pool.rs:381/400 parse::<usize>().unwrap() *)
| PanicMaxSize         (* bb8 api.rs:205 max_size > 0 *)
| PanicConnectTimeout  (* bb8 api.rs:291 *)
| PanicIdleTimeout     (* bb8 api.rs:270 *)
| PanicMaxLifetime     (* bb8 api.rs:248 *)
| PanicMinIdle         (* bb8 api.rs:352 max_size >= min_idle *)
| PanicUnreachable     (* pool.rs:558 *)
| PanicRegex           (* pool.rs:577/581 Regex::new(..).unwrap() *)
| PanicAuthQuery.      (* auth_passthrough.rs:29 pool_config.auth_query.as_ref().unwrap() *)

Inductive outcome (A : Type) := Built (x : A) | Panics (why : panic).
Arguments Built {A} x.
Arguments Panics {A} why.

Record maddr := { ma_host : str; ma_port : Z; ma_role : role; ma_index : nat;
                  ma_replica_number : Z; ma_shard : Z }.
Record address := { a_host : str; a_port : Z; a_role : role; a_shard : Z; a_index : nat;
                    a_replica_number : Z; a_mirrors : list maddr }.
(* a bb8 pool is identified by the address its manager connects to *)
Record bb8pool := { b_address : address; b_max_size : Z; b_min_idle : option Z;
                    b_connect_timeout : Z; b_idle_timeout : Z; b_max_lifetime : Z }.

Record built := {
  bp_db : str; bp_user : str;
  bp_databases : list (list bb8pool);       (* ConnectionPool.databases *)
  bp_addresses : list (list address);       (* ConnectionPool.addresses *)
  bp_banlist : list unit;                   (* one (empty) map per shard *)
  bp_settings_shards : nat;                 (* settings.shards = shard_ids.len() *)
  bp_default_shard : dshard;
  bp_default_role : option role;
  bp_pool_size : Z;
  bp_pool_mode : mode;                      (* settings.pool_mode *)
  bp_plugins : option plug;                 (* settings.plugins *)
  bp_user_cfg : user;                       (* settings.user *)
  bp_auto_key : option str;                 (* settings.automatic_sharding_key *)
  bp_parser : bool; bp_rw_split : bool }.

Definition eff (u p : option Z) (g : Z) : Z :=
  match u with Some x => x | None => match p with Some x => x | None => g end end.

(* pool.rs:464-511 + the assertions of bb8's Builder, in call order *)
Definition builder_check (c : config) (p : pool) (u : user) : option panic :=
  if u_pool_size u =? 0 then Some PanicMaxSize else
  if eff (u_connect_timeout u) (p_connect_timeout p) (g_connect_timeout c) =? 0 then Some PanicConnectTimeout else
  if eff (u_idle_timeout u) (p_idle_timeout p) (g_idle_timeout c) =? 0 then Some PanicIdleTimeout else
  if eff (u_server_lifetime u) (p_server_lifetime p) (g_server_lifetime c) =? 0 then Some PanicMaxLifetime else
  match u_min_pool_size u with
  | Some m => if u_pool_size u <? m then Some PanicMinIdle else None
  | None => None
  end.

(* config.rs:644-648 *)
Definition is_auth_query_configured (p : pool) : bool :=
  p_auth_query p && p_auth_user p && p_auth_password p.

(* server.rs:466-469 and 538-560: what Server::startup can present when the server asks for a
   password: server_password, else the user's password, else the hash auth_query fetched *)
Definition has_secret (p : pool) (u : user) : bool :=
  u_server_password u || u_password u || is_auth_query_configured p.

(* pool.rs:415 AuthPassthrough::from_pool_config (auth_passthrough.rs:26-36): when
   is_auth_query_configured, unwrap auth_query, auth_query_user, auth_query_password *)
Definition auth_check (p : pool) : option panic :=
  if is_auth_query_configured p then
    if p_auth_query p && p_auth_user p && p_auth_password p then None else Some PanicAuthQuery
  else None.

(* per server, in this order: Address (key unwrap, in build_shard), auth passthrough, bb8 builder *)
Definition server_check (c : config) (p : pool) (u : user) : option panic :=
  match auth_check p with
  | Some w => Some w
  | None => builder_check c p u
  end.

(* pool.rs:366-390: the mirrors whose mirroring_target_index is this server's position *)
Fixpoint mirrors_for (shnum : Z) (r : role) (repl : Z) (target : nat) (midx : nat)
         (ms : list mirror_cfg) : list maddr :=
  match ms with
  | [] => []
  | m :: rest =>
      if mi_target m =? Z.of_nat target then
        {| ma_host := mi_host m; ma_port := mi_port m; ma_role := r; ma_index := midx;
           ma_replica_number := repl; ma_shard := shnum |} :: mirrors_for shnum r repl target (S midx) rest
      else mirrors_for shnum r repl target (S midx) rest
  end.

(* pool.rs:364-412: address_index = position in the shard's server list,
   shard = the NUMBER the key denotes *)
Fixpoint build_servers (shnum : Z) (ms : list mirror_cfg) (idx : nat) (repl : Z)
         (svs : list server) : list address :=
  match svs with
  | [] => []
  | sv :: rest =>
      {| a_host := sv_host sv; a_port := sv_port sv; a_role := sv_role sv; a_shard := shnum;
         a_index := idx; a_replica_number := repl;
         a_mirrors := mirrors_for shnum (sv_role sv) repl idx 0 ms |}
      :: build_servers shnum ms (S idx)
           (match sv_role sv with Replica => repl + 1 | _ => repl end) rest
  end.

Definition build_shard (chk : option panic) (k : str) (sh : shard) : outcome (list address) :=
  match sh_servers sh with
  | [] => Built []
  | _ => match parse_usize k with
         | None => Panics PanicKeyUsize
         | Some n => match chk with
                     | Some why => Panics why
                     | None => Built (build_servers n (sh_mirrors sh) 0 0 (sh_servers sh))
                     end
         end
  end.

(* pool.rs:357-526: one row per key, pushed in sorted order *)
Fixpoint build_shards (chk : option panic) (l : list (Z * (str * shard)))
  : outcome (list (list address)) :=
  match l with
  | [] => Built []
  | (_, (k, sh)) :: rest =>
      match build_shard chk k sh with
      | Panics w => Panics w
      | Built row => match build_shards chk rest with
                     | Panics w => Panics w
                     | Built rows => Built (row :: rows)
                     end
      end
  end.

(* pool.rs:354 sort_by_key(|k| k.parse::<i64>().unwrap()) *)
Fixpoint keyed (l : list (str * shard)) : option (list (Z * (str * shard))) :=
  match l with
  | [] => Some []
  | ks :: r => match parse_i64 (fst ks) with
               | None => None
               | Some z => match keyed r with Some t => Some ((z, ks) :: t) | None => None end
               end
  end.

Fixpoint insert_by {A : Type} (x : Z * A) (l : list (Z * A)) : list (Z * A) :=
  match l with
  | [] => [x]
  | y :: r => if fst x <=? fst y then x :: l else y :: insert_by x r
  end.
Fixpoint isort_by {A : Type} (l : list (Z * A)) : list (Z * A) :=
  match l with [] => [] | x :: r => insert_by x (isort_by r) end.

(* pool.rs:554-559 *)
Definition role_setting (s : str) : option (option role) :=
  if str_eqb s s_any then Some None
  else if str_eqb s s_replica then Some (Some Replica)
  else if str_eqb s s_primary then Some (Some Primary)
  else None.

(* pool.rs:464-511: user over pool over [general] for the three timeouts *)
Definition mk_pool (c : config) (p : pool) (u : user) (a : address) : bb8pool :=
  {| b_address := a; b_max_size := u_pool_size u; b_min_idle := u_min_pool_size u;
     b_connect_timeout := eff (u_connect_timeout u) (p_connect_timeout p) (g_connect_timeout c);
     b_idle_timeout := eff (u_idle_timeout u) (p_idle_timeout p) (g_idle_timeout c);
     b_max_lifetime := eff (u_server_lifetime u) (p_server_lifetime p) (g_server_lifetime c) |}.

(* config.rs:772-789: Pool::validate stores the key with its quotes removed *)
Definition unquote (k : str) : str := filter (fun ch => negb (ch =? 34)) k.

(* pool.rs:344-610 for one (pool, user) *)
Definition build_pool_user (c : config) (p : pool) (u : user) : outcome built :=
  match keyed (p_shards p) with
  | None => Panics PanicKeyI64
  | Some kl =>
      match build_shards (server_check c p u) (isort_by kl) with
      | Panics w => Panics w
      | Built rows =>
          match role_setting (p_default_role p) with
          | None => Panics PanicUnreachable
          | Some dr =>
              if regex_bad (p_key_regex p) || regex_bad (p_shard_regex p) then Panics PanicRegex else
              Built {| bp_db := p_name p; bp_user := u_name u;
                       bp_databases := map (map (mk_pool c p u)) rows;
                       bp_addresses := rows;
                       bp_banlist := map (fun _ => tt) rows;
                       bp_settings_shards := length kl;
                       bp_default_shard := p_default_shard p;
                       bp_default_role := dr;
                       bp_pool_size := u_pool_size u;
                       (* pool.rs:544-547: the user's pool_mode, else the pool's *)
                       bp_pool_mode := match u_pool_mode u with Some m => m | None => p_pool_mode p end;
                       (* pool.rs:587-590 (and 455-458 for the server manager): the pool's
                          [plugins] table as a whole, else the global one *)
                       bp_plugins := match p_plugins p with Some x => Some x | None => g_plugins c end;
                       bp_user_cfg := u;
                       bp_auto_key := option_map unquote (p_auto_key p);
                       bp_parser := p_parser p; bp_rw_split := p_rw_split p |}
          end
      end
  end.

(* new_pools.insert(PoolIdentifier::new(pool_name, &user.username), pool): replaces *)
Definition same_id (a b : built) : bool :=
  str_eqb (bp_db a) (bp_db b) && str_eqb (bp_user a) (bp_user b).
Definition insert_pool (bp : built) (m : list built) : list built :=
  filter (fun x => negb (same_id bp x)) m ++ [bp].

Fixpoint build_users (c : config) (p : pool) (us : list (str * user)) (acc : list built)
  : outcome (list built) :=
  match us with
  | [] => Built acc
  | ku :: r => match build_pool_user c p (snd ku) with
               | Panics w => Panics w
               | Built bp => build_users c p r (insert_pool bp acc)
               end
  end.

Fixpoint build_pools (c : config) (ps : list pool) (acc : list built) : outcome (list built) :=
  match ps with
  | [] => Built acc
  | p :: r => match build_users c p (p_users p) acc with
              | Panics w => Panics w
              | Built acc' => build_pools c r acc'
              end
  end.

(* from_config reads the stored (filled-up) configuration *)
Definition build (c : config) : outcome (list built) :=
  build_pools (fill_up c) (c_pools (fill_up c)) [].

(** ** Index operations of the running pooler, each as a checked lookup *)
Definition shards (bp : built) : nat := length (bp_databases bp).            (* pool.rs:1033 *)
Definition servers (bp : built) (s : nat) : option nat :=                    (* pool.rs:1064 *)
  option_map (@length address) (nth_error (bp_addresses bp) s).
Definition address_at (bp : built) (s i : nat) : option address :=           (* pool.rs:1083 *)
  match nth_error (bp_addresses bp) s with Some row => nth_error row i | None => None end.
Definition pool_state_at (bp : built) (s i : nat) : option bb8pool :=        (* pool.rs:1078 *)
  match nth_error (bp_databases bp) s with Some row => nth_error row i | None => None end.
(* get: self.databases[address.shard][address.address_index] (pool.rs:802);
   busy_connection_count: pool_state(address.shard, address.address_index) (1093) *)
Definition get_index (bp : built) (a : address) : option bb8pool :=
  pool_state_at bp (Z.to_nat (a_shard a)) (a_index a).
(* ban / unban / is_banned: guard[address.shard] (pool.rs:952, 959, 967) *)
Definition ban_index (bp : built) (a : address) : bool :=
  match nth_error (bp_banlist bp) (Z.to_nat (a_shard a)) with Some _ => true | None => false end.
(* try_unban: self.addresses[address.shard] and guard[address.shard] (pool.rs:984-1022) *)
Definition try_unban_index (bp : built) (a : address) : bool :=
  match nth_error (bp_addresses bp) (Z.to_nat (a_shard a)) with
  | Some _ => ban_index bp a
  | None => false
  end.

Definition all_addresses (bp : built) : list address := concat (bp_addresses bp).

Definition role_matches (r : option role) (x : role) : bool :=    (* config.rs:51-67 *)
  match r with None => true | Some y => role_eqb x y end.

(* pool.rs:741-755: filter by role, then retain the selected shard NUMBER
   (the shuffle / load-balancing order is not modelled: a set of candidates) *)
Definition candidates (bp : built) (sh : Z) (r : option role) : list address :=
  filter (fun a => a_shard a =? sh) (filter (fun a => role_matches r (a_role a)) (all_addresses bp)).

(* pool.rs:730-769.  None = Err(InvalidShardId) *)
Definition get_candidates (bp : built) (shard : option Z) (r : option role) : option (list address) :=
  let n := Z.of_nat (shards bp) in
  let byrole := filter (fun a => role_matches r (a_role a)) (all_addresses bp) in
  let eff_shard :=
    if n =? 1 then Some (Some 0)
    else match shard with
         | Some s => if s <? n then Some (Some s) else None
         | None => Some None
         end in
  match eff_shard with
  | None => None
  | Some (Some s) => Some (filter (fun a => a_shard a =? s) byrole)
  | Some None =>
      match bp_default_shard bp with
      | DShard d => Some (filter (fun a => a_shard a =? d) byrole)
      | _ => Some byrole
      end
  end.

(* every address reachable by the positional walks and by the address-keyed operations *)
Definition indices_ok (bp : built) : bool :=
  Nat.eqb (length (bp_addresses bp)) (shards bp) &&
  Nat.eqb (length (bp_banlist bp)) (shards bp) &&
  forallb (fun row => match row with [] => false | _ => true end) (bp_addresses bp) &&
  forallb (fun a => match get_index bp a with
                    | Some b => true
                    | None => false
                    end && ban_index bp a && try_unban_index bp a) (all_addresses bp).

Definition server_of (a : address) : server :=
  {| sv_host := a_host a; sv_port := a_port a; sv_role := a_role a |}.

(** ** What the correspondence driver prints *)
Definition maddr_t (m : maddr) := (ma_host m, ma_port m, ma_role m, ma_shard m, ma_index m, ma_replica_number m).
Definition addr_t (a : address) :=
  (a_host a, a_port a, a_role a, a_shard a, a_index a, a_replica_number a, map maddr_t (a_mirrors a)).
Definition plug_t (x : plug) := (pl_table_access x, pl_query_logger x).
Definition user_t (u : user) :=
  (u_name u, u_pool_size u, u_min_pool_size u, (u_pool_mode u, u_statement_timeout u),
   (u_connect_timeout u, u_idle_timeout u, u_server_lifetime u),
   (u_auth_type u, u_password u, u_server_username u, u_server_password u)).
Definition settings_t (bp : built) :=
  (bp_pool_mode bp, option_map plug_t (bp_plugins bp), user_t (bp_user_cfg bp),
   (bp_auto_key bp, bp_parser bp, bp_rw_split bp),
   (* the bb8 builder arguments of the first server (all servers of a (pool, user) share them) *)
   match bp_databases bp with
   | (b :: _) :: _ => Some (b_max_size b, b_min_idle b, (b_connect_timeout b, b_idle_timeout b, b_max_lifetime b))
   | _ => None
   end).
Definition built_t (bp : built) :=
  (bp_db bp, bp_user bp, (shards bp, bp_settings_shards bp, bp_pool_size bp),
   (bp_default_shard bp, bp_default_role bp, indices_ok bp),
   map (map addr_t) (bp_addresses bp), settings_t bp).

Inductive result :=
| Rejected
| AcceptedPanics (why : panic)
| AcceptedBuilt (pools : list (str * str * (nat * nat * Z) * (dshard * option role * bool)
                               * list (list (str * Z * role * Z * nat * Z * list (str * Z * role * Z * nat * Z)))
                               * (mode * option (option (bool * list str) * option bool)
                                  * (str * Z * option Z * (option mode * Z) * (option Z * option Z * option Z) * (auth * bool * bool * bool))
                                  * (option str * bool * bool)
                                  * option (Z * option Z * (Z * Z * Z))))).

Definition run (c : config) : result :=
  if accept c then
    match build c with
    | Panics w => AcceptedPanics w
    | Built pools => AcceptedBuilt (map built_t pools)
    end
  else Rejected.

(* all panics of the individual (pool, user) builds: config.pools is a HashMap, so which
   one is hit first is not determined *)
Definition all_panics (c : config) : list panic :=
  flat_map (fun p => flat_map (fun ku => match build_pool_user (fill_up c) p (snd ku) with
                                         | Panics w => [w] | Built _ => [] end) (p_users p))
           (c_pools (fill_up c)).

(* the deserialisation of the default_shard strings comes first *)
Fixpoint all_some {A : Type} (l : list (option A)) : option (list A) :=
  match l with
  | [] => Some []
  | Some x :: r => match all_some r with Some t => Some (x :: t) | None => None end
  | None :: _ => None
  end.
Definition with_default_shards {R : Type} (raws : list str) (rej : R) (k : list dshard -> R) : R :=
  match all_some (map deser_default_shard raws) with
  | None => rej
  | Some ds => k ds
  end.

Definition find_pool (pools : list built) (db usr : str) : option built :=
  find (fun bp => str_eqb (bp_db bp) db && str_eqb (bp_user bp) usr) pools.
Definition probe (c : config) (db usr : str) (shard : option Z) (r : option role)
  : option (option (list (Z * nat))) :=
  match build c with
  | Built pools => match find_pool pools db usr with
                   | Some bp => Some (option_map (map (fun a => (a_shard a, a_index a))) (get_candidates bp shard r))
                   | None => None
                   end
  | Panics _ => None
  end.
