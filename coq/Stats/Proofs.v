(** C18 — lemmas behind the property theorems (Stats/Props.v). *)
From Coq Require Import Arith Bool List Lia.
From PV Require Import Stats.Model Stats.Inv.
Import ListNotations.

Ltac opn En :=
  gd En; unfold apply, exit_client;
  try match goal with
      | |- context [match c_held (cl ?t ?c) with _ => _ end] => let Hh := fresh "Hh" in destruct (c_held (cl t c)) eqn:Hh
      end;
  cbn [cl cids sv sids creg sreg at_].

(* ------------------------------------------------------------------ every history satisfies the invariants *)

Lemma Wf_run cf ops : Wf (run cf ops).
Proof.
  induction ops as [|o ops IH] using rev_ind; [apply Wf_init|].
  rewrite run_snoc. apply Wf_step. assumption.
Qed.
Lemma RegOk_run cf ops : RegOk (run cf ops).
Proof.
  induction ops as [|o ops IH] using rev_ind; [apply RegOk_init|].
  rewrite run_snoc. apply RegOk_step; [apply Wf_run | assumption].
Qed.
Lemma Own_run cf ops : Own (run cf ops).
Proof.
  induction ops as [|o ops IH] using rev_ind; [apply Own_init|].
  rewrite run_snoc. apply Own_step; [apply Wf_run | assumption].
Qed.

(* ------------------------------------------------------------------ the registries are exact *)

Definition NP (t : st) : Prop := forall c, In c (creg t) -> c_phase (cl t c) = PHandle.

Lemma NP_step cf t o : NP t -> NP (step cf t o).
Proof.
  intros N. unfold NP in *.
  unfold step; destruct (enabled cf t o) eqn:En; [| assumption].
  destruct o; opn En.
  all: intros k; pose proof (N k) as Nk; unfold upd, set_sstate;
       rewrite ?In_reg_add, ?In_reg_del; simpl In; eqb_all; cbn; try tauto; try congruence; intuition congruence.
Qed.

Lemma NP_run cf ops : NP (run cf ops).
Proof.
  induction ops as [|o ops IH] using rev_ind; [intros c []|].
  rewrite run_snoc. apply NP_step; auto.
Qed.

Lemma registry_exact cf ops :
  let t := run cf ops in
  (forall c, In c (creg t) <-> c_phase (cl t c) = PHandle) /\
  (forall s, In s (sreg t) <-> s_live (sv t s) = true) /\
  NoDup (creg t) /\ NoDup (sreg t).
Proof.
  intros t. pose proof (RegOk_run cf ops) as R. pose proof (NP_run cf ops) as N.
  repeat split; try apply R; try apply N.
Qed.

(* ------------------------------------------------------------------ counting *)

Lemma count3 (l : list nat) (f : nat -> cstate) (g : nat -> bool) :
  length (filter (fun c => g c && is_cstate (f c) CIdle) l) +
  length (filter (fun c => g c && is_cstate (f c) CActive) l) +
  length (filter (fun c => g c && is_cstate (f c) CWaiting) l) = length (filter g l).
Proof.
  induction l as [|a l IH]; simpl; [reflexivity|].
  destruct (g a), (f a); simpl; lia.
Qed.

Lemma nodup_same_length (l1 l2 : list nat) :
  NoDup l1 -> NoDup l2 -> (forall x, In x l1 <-> In x l2) -> length l1 = length l2.
Proof.
  intros N1 N2 H. apply Nat.le_antisymm; apply NoDup_incl_length; auto; intros x Hx; apply H; assumption.
Qed.

Lemma pool_sum_reg cf t p :
  let r := show_pools cf t p in
  cl_idle r + cl_active r + cl_waiting r = length (filter (fun c => c_pool (cl t c) =? p) (creg t)).
Proof. simpl. unfold cl_count. apply count3 with (f := fun c => c_state (cl t c)) (g := fun c => c_pool (cl t c) =? p). Qed.

Lemma pool_sum cf ops p :
  let t := run cf ops in let r := show_pools cf t p in
  cl_idle r + cl_active r + cl_waiting r = length (clients_of t p).
Proof.
  intros t r. unfold r. rewrite pool_sum_reg.
  destruct (registry_exact cf ops) as [RC [_ [NC _]]]. fold t in RC, NC.
  pose proof (Wf_run cf ops) as W. fold t in W.
  apply nodup_same_length.
  - apply NoDup_filter. assumption.
  - apply NoDup_filter. apply W.
  - intros x. unfold clients_of, in_handle. rewrite !filter_In, andb_true_iff, is_phase_eq, RC, (w_cids _ W).
    split; intros [A B]; repeat split; try tauto; try congruence.
Qed.

Lemma filter_nil {A} (f : A -> bool) l : (forall x, In x l -> f x = false) -> filter f l = [].
Proof.
  induction l as [|a l IH]; intros H; simpl; [reflexivity|].
  rewrite (H a (or_introl eq_refl)). apply IH. intros x Hx. apply H. right. assumption.
Qed.

Lemma zero_when_gone cf ops :
  let t := run cf ops in
  (forall c, c_phase (cl t c) <> PHandle) ->
  creg t = [] /\ show_lists t = (0, 0, length (filter (fun k => is_sstate (s_state (sv t k)) SIdle) (sreg t)), 0) /\
  forall p, let r := show_pools cf t p in
            cl_idle r = 0 /\ cl_active r = 0 /\ cl_waiting r = 0 /\ sv_active r = 0.
Proof.
  intros t G.
  destruct (registry_exact cf ops) as [RC [RS _]]. fold t in RC, RS.
  pose proof (Own_run cf ops) as O. fold t in O.
  assert (E : creg t = []).
  { destruct (creg t) as [|c l] eqn:Ec; [reflexivity|]. exfalso. apply (G c). apply RC. left. reflexivity. }
  assert (NA : forall k, In k (sreg t) -> is_sstate (s_state (sv t k)) SActive = false).
  { intros k Hk. apply RS in Hk. destruct (is_sstate (s_state (sv t k)) SActive) eqn:Es; [|reflexivity]. exfalso.
    apply is_sstate_eq in Es. apply (o_act_s _ O k Hk) in Es.
    destruct (s_holder (sv t k)) as [c|] eqn:Eh; [|congruence].
    apply (o_s2c _ O) in Eh. apply (o_c2s _ O) in Eh. apply (G c). tauto. }
  split; [assumption|]. split.
  - unfold show_lists. rewrite E. simpl. rewrite (filter_nil (fun k => is_sstate (s_state (sv t k)) SActive)); auto.
  - intros p. simpl. unfold cl_count, sv_count. rewrite E. simpl. repeat split; try reflexivity.
    rewrite filter_nil; [reflexivity|]. intros k Hk. rewrite (NA k Hk). apply andb_false_r.
Qed.

(* ------------------------------------------------------------------ true state *)

Lemma true_state cf ops :
  let t := run cf ops in
  (forall c, c_phase (cl t c) = PHandle ->
     (c_state (cl t c) = CActive <-> exists s, c_held (cl t c) = Some s) /\
     (c_state (cl t c) = CWaiting -> c_chk (cl t c) = true)) /\
  (forall s, s_live (sv t s) = true ->
     (s_state (sv t s) = SActive <-> exists c, s_holder (sv t s) = Some c)) /\
  (forall c s, c_held (cl t c) = Some s <-> s_holder (sv t s) = Some c) /\
  (forall c s, c_held (cl t c) = Some s -> c_phase (cl t c) = PHandle /\ s_live (sv t s) = true).
Proof.
  intros t. pose proof (Own_run cf ops) as O. fold t in O. repeat split.
  - intros A. apply (o_act_c _ O c H) in A. destruct (c_held (cl t c)) as [s|]; [eauto | congruence].
  - intros [s A]. apply (o_act_c _ O c H). congruence.
  - apply (o_wait _ O c H).
  - intros A. apply (o_act_s _ O s H) in A. destruct (s_holder (sv t s)) as [c|]; [eauto | congruence].
  - intros [c A]. apply (o_act_s _ O s H). congruence.
  - intros A. apply (o_c2s _ O) in A. tauto.
  - apply (o_s2c _ O).
  - apply (o_c2s _ O) in H. tauto.
  - apply (o_c2s _ O) in H. tauto.
Qed.

(** Waiting is shown for as long as the client is blocked on a candidate inside [pool.get], and only inside
    [pool.get] (the positions inside [pool.get] but outside an iteration are not blocking points). *)
Lemma waiting_exact cf ops :
  let t := run cf ops in
  forall c, c_phase (cl t c) = PHandle ->
    (c_iter (cl t c) = true -> c_state (cl t c) = CWaiting) /\
    (c_state (cl t c) = CWaiting -> c_chk (cl t c) = true) /\
    (c_iter (cl t c) = true -> c_chk (cl t c) = true).
Proof.
  intros t c Hc. pose proof (Own_run cf ops) as O. fold t in O. repeat split.
  - intros H. apply (o_iter _ O c H).
  - apply (o_wait _ O c Hc).
  - intros H. apply (o_iter _ O c H).
Qed.

(* ------------------------------------------------------------------ totals *)

Definition Fresh (t : st) : Prop :=
  (forall c, c_phase (cl t c) = PNone -> c_xact (cl t c) = 0 /\ c_query (cl t c) = 0 /\ c_err (cl t c) = 0).

Lemma Fresh_step cf t o : Fresh t -> Fresh (step cf t o).
Proof.
  intros F. unfold Fresh in *.
  unfold step; destruct (enabled cf t o) eqn:En; [| assumption].
  destruct o; gd En; unfold apply, exit_client; cbn [cl cids sv sids creg sreg at_].
  all: intros k; pose proof (F k) as Fk; unfold upd; eqb_all; cbn; try tauto; try congruence.
  all: try (destruct ok; congruence).
Qed.
Lemma Fresh_run cf ops : Fresh (run cf ops).
Proof.
  induction ops as [|o ops IH] using rev_ind; [intros c _; simpl; auto|].
  rewrite run_snoc. apply Fresh_step. assumption.
Qed.

Definition ind (b : bool) : nat := if b then 1 else 0.

Lemma count_snoc f l o (b : bool) : count f (l ++ (if b then [o] else [])) = count f l + ind (b && f o).
Proof.
  unfold count. rewrite filter_app, app_length. destruct b; simpl; [|lia].
  destruct (f o); simpl; lia.
Qed.

Lemma client_counts_step cf t o c : Fresh t ->
  c_xact (cl (step cf t o) c) = c_xact (cl t c) + ind (enabled cf t o && txn_of_client c o) /\
  c_query (cl (step cf t o) c) = c_query (cl t c) + ind (enabled cf t o && qry_of_client c o).
Proof.
  intros F. unfold step. destruct (enabled cf t o) eqn:En; [| simpl; lia].
  destruct o; gd En; unfold apply, exit_client; cbn [cl cids sv sids creg sreg at_ andb txn_of_client qry_of_client];
    unfold upd; eqb_all; cbn; try lia.
  all: try (match goal with H : c_phase (cl _ ?x) = PNone |- _ => destruct (F x H) as [A [B _]] end; lia).
Qed.

Lemma client_counts cf ops c :
  c_xact (cl (run cf ops) c) = count (txn_of_client c) (trace cf ops) /\
  c_query (cl (run cf ops) c) = count (qry_of_client c) (trace cf ops).
Proof.
  induction ops as [|o ops IH] using rev_ind; [split; reflexivity|].
  rewrite run_snoc, trace_snoc, !count_snoc.
  destruct (client_counts_step cf (run cf ops) o c (Fresh_run cf ops)) as [A B]. lia.
Qed.

Definition FreshS (t : st) : Prop :=
  forall s, s_seen (sv t s) = false -> s_live (sv t s) = false /\ s_xact (sv t s) = 0 /\ s_query (sv t s) = 0.

Lemma FreshS_step cf t o : Own t -> FreshS t -> FreshS (step cf t o).
Proof.
  intros O F. unfold FreshS in *.
  unfold step; destruct (enabled cf t o) eqn:En; [| assumption].
  destruct o; opn En.
  all: intros k; pose proof (F k) as Fk; unfold upd, set_sstate; eqb_all; cbn; try tauto; try congruence.
  all: try (match goal with H : c_held (cl _ ?c) = Some ?s |- _ => apply (o_c2s _ O) in H end); intuition congruence.
Qed.
Lemma FreshS_run cf ops : FreshS (run cf ops).
Proof.
  induction ops as [|o ops IH] using rev_ind; [intros c _; simpl; auto|].
  rewrite run_snoc. apply FreshS_step; [apply Own_run | assumption].
Qed.

Lemma server_counts_step' cf t o s : FreshS t ->
  s_xact (sv (step cf t o) s) = s_xact (sv t s) + ind (enabled cf t o && txn_of_server s o) /\
  s_query (sv (step cf t o) s) = s_query (sv t s) + ind (enabled cf t o && qry_of_server s o).
Proof.
  intros F. unfold step. destruct (enabled cf t o) eqn:En; [| simpl; lia].
  destruct o; gd En; unfold apply, exit_client;
    try match goal with
        | |- context [match c_held (cl ?t ?c) with _ => _ end] => let Hh := fresh "Hh" in destruct (c_held (cl t c)) eqn:Hh
        end;
    cbn [cl cids sv sids creg sreg at_ andb txn_of_server qry_of_server];
    unfold upd, set_sstate; eqb_all; cbn; try lia.
  all: try (match goal with H : s_seen (sv _ ?x) = false |- _ => destruct (F x H) as [A [B C]] end; lia).
Qed.

Lemma server_counts cf ops s :
  s_xact (sv (run cf ops) s) = count (txn_of_server s) (trace cf ops) /\
  s_query (sv (run cf ops) s) = count (qry_of_server s) (trace cf ops).
Proof.
  induction ops as [|o ops IH] using rev_ind; [split; reflexivity|].
  rewrite run_snoc, trace_snoc, !count_snoc.
  destruct (server_counts_step' cf (run cf ops) o s (FreshS_run cf ops)) as [A B]. lia.
Qed.

(* ------------------------------------------------------------------ address totals = sum over all its connections *)

Lemma sumf_ext f g l : (forall x, In x l -> f x = g x) -> sumf f l = sumf g l.
Proof.
  induction l as [|a l IH]; intros H; simpl; [reflexivity|].
  rewrite (H a (or_introl eq_refl)), IH; [reflexivity|]. intros x Hx. apply H. right. assumption.
Qed.

Lemma sumf_upd f g l k : NoDup l -> In k l -> (forall x, x <> k -> g x = f x) ->
  sumf g l + f k = sumf f l + g k.
Proof.
  induction l as [|a l IH]; intros ND Hin H; simpl; [destruct Hin|].
  inversion ND as [|? ? Hn ND']; subst.
  destruct (Nat.eq_dec a k) as [->|Hne].
  - rewrite (sumf_ext g f l); [lia|]. intros x Hx. apply H. intros ->. contradiction.
  - destruct Hin as [->|Hin]; [congruence|]. specialize (IH ND' Hin H). rewrite (H a Hne). lia.
Qed.

Definition term (proj : server -> nat) (y : server) (a : nat) : nat := if s_addr y =? a then proj y else 0.

Lemma srv_sum_upd proj t t' k a :
  sids t' = sids t -> NoDup (sids t) -> In k (sids t) -> (forall x, x <> k -> sv t' x = sv t x) ->
  srv_sum proj t' a + term proj (sv t k) a = srv_sum proj t a + term proj (sv t' k) a.
Proof.
  intros E ND Hin H. unfold srv_sum. rewrite E.
  apply (sumf_upd (fun s => term proj (sv t s) a) (fun s => term proj (sv t' s) a)); auto.
  intros x Hx. rewrite (H x Hx). reflexivity.
Qed.

Lemma srv_sum_same proj t t' a :
  sids t' = sids t -> (forall x, In x (sids t) -> sv t' x = sv t x) -> srv_sum proj t' a = srv_sum proj t a.
Proof. intros E H. unfold srv_sum. rewrite E. apply sumf_ext. intros x Hx. rewrite (H x Hx). reflexivity. Qed.

Lemma srv_sum_new proj t t' k a :
  sids t' = k :: sids t -> ~ In k (sids t) -> (forall x, x <> k -> sv t' x = sv t x) ->
  srv_sum proj t' a = term proj (sv t' k) a + srv_sum proj t a.
Proof.
  intros E Hn H. unfold srv_sum. rewrite E. simpl. unfold term. f_equal.
  apply sumf_ext. intros x Hx. rewrite (H x); [reflexivity|]. intros ->. contradiction.
Qed.

Lemma srv_sum_eq proj t t' a : sids t' = sids t -> sv t' = sv t -> srv_sum proj t' a = srv_sum proj t a.
Proof. intros E H. unfold srv_sum. rewrite E, H. reflexivity. Qed.

Definition Tot (t : st) : Prop := forall a,
  a_xact (at_ t a) = srv_sum s_xact t a /\ a_query (at_ t a) = srv_sum s_query t a /\
  a_sent (at_ t a) = srv_sum s_sent t a /\ a_recv (at_ t a) = srv_sum s_recv t a.

Lemma Tot_init : Tot init.
Proof. intros a. repeat split. Qed.

(** The step touches server [k] only (and keeps the id list). *)
Ltac touch a W :=
  unfold set_sstate;
  match goal with
  | |- context [mkSt ?x1 ?x2 (upd (sv ?t0) ?k ?y) (sids ?t0) ?x3 ?x4 ?atf] =>
      let t' := fresh "t'" in
      set (t' := mkSt x1 x2 (upd (sv t0) k y) (sids t0) x3 x4 atf);
      let Hin := fresh "Hin" in
      assert (Hin : In k (sids t0)) by (apply (w_sids _ W); apply (w_live _ W); assumption);
      assert (E1 : sv t' k = y) by (unfold t'; cbn [sv]; apply upd_same);
      assert (E2 : forall x, x <> k -> sv t' x = sv t0 x) by (intros x Hx; unfold t'; cbn [sv]; apply upd_other; assumption);
      pose proof (srv_sum_upd s_xact t0 t' k a eq_refl (w_nd_s _ W) Hin E2) as U1;
      pose proof (srv_sum_upd s_query t0 t' k a eq_refl (w_nd_s _ W) Hin E2) as U2;
      pose proof (srv_sum_upd s_sent t0 t' k a eq_refl (w_nd_s _ W) Hin E2) as U3;
      pose proof (srv_sum_upd s_recv t0 t' k a eq_refl (w_nd_s _ W) Hin E2) as U4;
      rewrite E1 in U1, U2, U3, U4;
      unfold term in U1, U2, U3, U4; cbn [s_addr s_xact s_query s_sent s_recv] in U1, U2, U3, U4;
      change (at_ t') with atf; unfold upd, a_add; eqb_all; cbn [a_xact a_query a_sent a_recv]; repeat split; lia
  end.

Lemma Tot_step cf t o : Wf t -> Own t -> Tot t -> Tot (step cf t o).
Proof.
  intros W O T a. specialize (T a). destruct T as [T1 [T2 [T3 T4]]].
  unfold step. destruct (enabled cf t o) eqn:En; [| tauto].
  destruct o; gd En; unfold apply, exit_client; cbv zeta;
    try match goal with
        | |- context [match c_held (cl ?t ?c) with _ => _ end] =>
            let Hh := fresh "Hh" in destruct (c_held (cl t c)) eqn:Hh; [apply (o_c2s _ O) in Hh; destruct Hh as [_ [_ Hlive]] |]
        end.
  all: try match goal with H : c_held (cl _ ?c) = Some ?s |- _ => pose proof (proj2 (proj2 (o_c2s _ O _ _ H))) end.
  all: try (touch a W).
  all: try (unfold srv_sum in *; cbn [sv sids at_]; unfold upd, a_add; eqb_all;
            cbn [a_xact a_query a_sent a_recv]; repeat split; lia).
  (* PeriodEnd: totals untouched *)
  all: try (unfold srv_sum in *; cbn [sv sids at_]; destruct (has_server t a); unfold period_end;
            cbn [a_xact a_query a_sent a_recv]; repeat split; assumption).
  (* ServerConnect *)
  assert (Hn : ~ In s (sids t)) by (rewrite (w_sids _ W); congruence).
  match goal with |- context [mkSt ?x1 ?x2 ?svf ?l ?x3 ?x4 ?atf] => set (t' := mkSt x1 x2 svf l x3 x4 atf) end.
  assert (E2 : forall x, x <> s -> sv t' x = sv t x) by (intros x Hx; unfold t'; cbn [sv]; apply upd_other; assumption).
  assert (E1 : sv t' s = mkS a0 true true None SLogin 0 0 0 0) by (unfold t'; cbn [sv]; apply upd_same).
  rewrite !(srv_sum_new _ t t' s a eq_refl Hn E2). rewrite E1. unfold term. cbn. destruct (a0 =? a); repeat split; lia.
Qed.

Lemma Tot_run cf ops : Tot (run cf ops).
Proof.
  induction ops as [|o ops IH] using rev_ind; [apply Tot_init|].
  rewrite run_snoc. apply Tot_step; auto using Wf_run, Own_run.
Qed.

(* ------------------------------------------------------------------ conservation: clients' side = servers' side = history *)

Definition cl_sum (proj : client -> nat) (t : st) : nat := sumf (fun c => proj (cl t c)) (cids t).
Definition sv_sum (proj : server -> nat) (t : st) : nat := sumf (fun s => proj (sv t s)) (sids t).

Lemma sumf_upd_notin {A} (proj : A -> nat) (f : nat -> A) k y l :
  ~ In k l -> sumf (fun x => proj (upd f k y x)) l = sumf (fun x => proj (f x)) l.
Proof.
  intros Hn. apply sumf_ext. intros x Hx. rewrite upd_other; [reflexivity|]. intros ->. contradiction.
Qed.

Lemma cl_sum_upd proj t t' k :
  cids t' = cids t -> NoDup (cids t) -> In k (cids t) -> (forall x, x <> k -> cl t' x = cl t x) ->
  cl_sum proj t' + proj (cl t k) = cl_sum proj t + proj (cl t' k).
Proof.
  intros E ND Hin H. unfold cl_sum. rewrite E.
  apply (sumf_upd (fun c => proj (cl t c)) (fun c => proj (cl t' c))); auto.
  intros x Hx. rewrite (H x Hx). reflexivity.
Qed.
Lemma sv_sum_upd proj t t' k :
  sids t' = sids t -> NoDup (sids t) -> In k (sids t) -> (forall x, x <> k -> sv t' x = sv t x) ->
  sv_sum proj t' + proj (sv t k) = sv_sum proj t + proj (sv t' k).
Proof.
  intros E ND Hin H. unfold sv_sum. rewrite E.
  apply (sumf_upd (fun c => proj (sv t c)) (fun c => proj (sv t' c))); auto.
  intros x Hx. rewrite (H x Hx). reflexivity.
Qed.

Lemma cl_sum_step cf t o : Wf t ->
  cl_sum c_xact (step cf t o) = cl_sum c_xact t + ind (enabled cf t o && is_txn o) /\
  cl_sum c_query (step cf t o) = cl_sum c_query t + ind (enabled cf t o && is_qry o).
Proof.
  intros W. unfold step. destruct (enabled cf t o) eqn:En; [| simpl; lia].
  destruct o; gd En; unfold apply, exit_client; cbv zeta; cbn [andb is_txn is_qry ind].
  (* Login: a new id with zero counters *)
  { assert (Hn : ~ In c (cids t)) by (rewrite (w_cids _ W); tauto).
    unfold cl_sum. cbn [cl cids]. simpl sumf. rewrite upd_same. cbn [c_xact c_query].
    rewrite !sumf_upd_notin by assumption. lia. }
  all: try (unfold cl_sum; cbn [cl cids]; lia).
  all: match goal with
       | |- context [mkSt (upd (cl ?t0) ?k ?y) (cids ?t0) ?x1 ?x2 ?x3 ?x4 ?x5] =>
           set (t' := mkSt (upd (cl t0) k y) (cids t0) x1 x2 x3 x4 x5);
           assert (Hin : In k (cids t0)) by (apply (w_cids _ W); congruence);
           assert (E1 : cl t' k = y) by (unfold t'; cbn [cl]; apply upd_same);
           assert (E2 : forall x, x <> k -> cl t' x = cl t0 x) by (intros x Hx; unfold t'; cbn [cl]; apply upd_other; assumption);
           pose proof (cl_sum_upd c_xact t0 t' k eq_refl (w_nd_c _ W) Hin E2) as U1;
           pose proof (cl_sum_upd c_query t0 t' k eq_refl (w_nd_c _ W) Hin E2) as U2;
           rewrite E1 in U1, U2; cbn [c_xact c_query] in U1, U2; lia
       end.
Qed.

Lemma sv_sum_step cf t o : Wf t -> Own t ->
  sv_sum s_xact (step cf t o) = sv_sum s_xact t + ind (enabled cf t o && is_txn o) /\
  sv_sum s_query (step cf t o) = sv_sum s_query t + ind (enabled cf t o && is_qry o).
Proof.
  intros W O. unfold step. destruct (enabled cf t o) eqn:En; [| simpl; lia].
  destruct o; gd En; unfold apply, exit_client, set_sstate; cbv zeta; cbn [andb is_txn is_qry ind];
    try match goal with
        | |- context [match c_held (cl ?t ?c) with _ => _ end] =>
            let Hh := fresh "Hh" in destruct (c_held (cl t c)) eqn:Hh
        end.
  all: try match goal with H : c_held (cl _ ?c) = Some ?s |- _ => pose proof (proj2 (proj2 (o_c2s _ O _ _ H))) end.
  all: try (unfold sv_sum; cbn [sv sids]; lia).
  all: try match goal with
       | |- context [mkSt ?x1 ?x2 (upd (sv ?t0) ?k ?y) (sids ?t0) ?x3 ?x4 ?x5] =>
           set (t' := mkSt x1 x2 (upd (sv t0) k y) (sids t0) x3 x4 x5);
           assert (Hin : In k (sids t0)) by (apply (w_sids _ W); apply (w_live _ W); assumption);
           assert (E1 : sv t' k = y) by (unfold t'; cbn [sv]; apply upd_same);
           assert (E2 : forall x, x <> k -> sv t' x = sv t0 x) by (intros x Hx; unfold t'; cbn [sv]; apply upd_other; assumption);
           pose proof (sv_sum_upd s_xact t0 t' k eq_refl (w_nd_s _ W) Hin E2) as U1;
           pose proof (sv_sum_upd s_query t0 t' k eq_refl (w_nd_s _ W) Hin E2) as U2;
           rewrite E1 in U1, U2; cbn [s_xact s_query] in U1, U2; lia
       end.
  (* PeriodEnd: totals untouched *)
  all: try (unfold srv_sum in *; cbn [sv sids at_]; destruct (has_server t a); unfold period_end;
            cbn [a_xact a_query a_sent a_recv]; repeat split; assumption).
  (* ServerConnect *)
  assert (Hn : ~ In s (sids t)) by (rewrite (w_sids _ W); congruence).
  unfold sv_sum. cbn [sv sids]. simpl sumf. rewrite upd_same. cbn [s_xact s_query].
  rewrite !sumf_upd_notin by assumption. lia.
Qed.

Lemma conservation cf ops :
  let t := run cf ops in
  cl_sum c_xact t = count is_txn (trace cf ops) /\ sv_sum s_xact t = count is_txn (trace cf ops) /\
  cl_sum c_query t = count is_qry (trace cf ops) /\ sv_sum s_query t = count is_qry (trace cf ops).
Proof.
  induction ops as [|o ops IH] using rev_ind; [repeat split|].
  cbv zeta in *. rewrite run_snoc, trace_snoc, !count_snoc.
  destruct (cl_sum_step cf (run cf ops) o (Wf_run cf ops)) as [A B].
  destruct (sv_sum_step cf (run cf ops) o (Wf_run cf ops) (Own_run cf ops)) as [C D]. lia.
Qed.

(* ------------------------------------------------------------------ monotonicity *)

Lemma atot_le_refl x : atot_le x x.
Proof. unfold atot_le. lia. Qed.
Lemma atot_le_trans x y z : atot_le x y -> atot_le y z -> atot_le x z.
Proof. unfold atot_le. lia. Qed.

Lemma at_mono_step cf t o a : atot_le (at_ t a) (at_ (step cf t o) a).
Proof.
  unfold step. destruct (enabled cf t o); [| apply atot_le_refl].
  destruct o; unfold apply, exit_client; cbv zeta;
    try match goal with
        | |- context [match c_held (cl ?t ?c) with _ => _ end] => destruct (c_held (cl t c))
        end;
    cbn [at_]; unfold upd, a_add, atot_le, period_end;
    try match goal with |- context [has_server ?t ?a] => destruct (has_server t a) end;
    eqb_all; cbn [a_xact a_query a_sent a_recv a_err]; lia.
Qed.

Lemma at_mono cf ops more a : atot_le (at_ (run cf ops) a) (at_ (run cf (ops ++ more)) a).
Proof.
  induction more as [|o more IH] using rev_ind.
  - rewrite app_nil_r. apply atot_le_refl.
  - rewrite app_assoc, run_snoc. eapply atot_le_trans; [apply IH | apply at_mono_step].
Qed.

(** Rows: a client (server) row that exists keeps growing; ids are never re-used. *)
Lemma crow_mono_step cf t o c : c_phase (cl t c) <> PNone -> crow_le (cl t c) (cl (step cf t o) c).
Proof.
  intros Hc. unfold step. destruct (enabled cf t o) eqn:En; [| unfold crow_le; lia].
  destruct o; gd En; unfold apply, exit_client; cbv zeta; cbn [cl]; unfold upd, crow_le; eqb_all;
    cbn [c_xact c_query c_err]; try lia; congruence.
Qed.
Lemma srow_mono_step cf t o s : s_seen (sv t s) = true -> srow_le (sv t s) (sv (step cf t o) s).
Proof.
  intros Hc. unfold step. destruct (enabled cf t o) eqn:En; [| unfold srow_le; lia].
  destruct o; gd En; unfold apply, exit_client, set_sstate; cbv zeta;
    try match goal with
        | |- context [match c_held (cl ?t ?c) with _ => _ end] => destruct (c_held (cl t c))
        end;
    cbn [sv]; unfold upd, srow_le; eqb_all; cbn [s_xact s_query s_sent s_recv]; try lia; congruence.
Qed.

Lemma phase_sticky cf t o c : c_phase (cl t c) <> PNone -> c_phase (cl (step cf t o) c) <> PNone.
Proof.
  intros Hc. unfold step. destruct (enabled cf t o) eqn:En; [| assumption].
  destruct o; gd En; unfold apply, exit_client; cbv zeta; cbn [cl]; unfold upd; eqb_all; cbn [c_phase];
    try assumption; try congruence.
Qed.
Lemma seen_sticky cf t o s : s_seen (sv t s) = true -> s_seen (sv (step cf t o) s) = true.
Proof.
  intros Hc. unfold step. destruct (enabled cf t o) eqn:En; [| assumption].
  destruct o; gd En; unfold apply, exit_client, set_sstate; cbv zeta;
    try match goal with
        | |- context [match c_held (cl ?t ?c) with _ => _ end] => destruct (c_held (cl t c))
        end;
    cbn [sv]; unfold upd; eqb_all; cbn [s_seen]; try assumption; try congruence.
Qed.

Lemma phase_sticky_run cf ops more c :
  c_phase (cl (run cf ops) c) <> PNone -> c_phase (cl (run cf (ops ++ more)) c) <> PNone.
Proof.
  intros H. induction more as [|o more IH] using rev_ind; [rewrite app_nil_r; assumption|].
  rewrite app_assoc, run_snoc. apply phase_sticky. assumption.
Qed.
Lemma seen_sticky_run cf ops more s :
  s_seen (sv (run cf ops) s) = true -> s_seen (sv (run cf (ops ++ more)) s) = true.
Proof.
  intros H. induction more as [|o more IH] using rev_ind; [rewrite app_nil_r; assumption|].
  rewrite app_assoc, run_snoc. apply seen_sticky. assumption.
Qed.

Lemma rows_mono cf ops more :
  (forall c, c_phase (cl (run cf ops) c) <> PNone -> crow_le (cl (run cf ops) c) (cl (run cf (ops ++ more)) c)) /\
  (forall s, s_seen (sv (run cf ops) s) = true -> srow_le (sv (run cf ops) s) (sv (run cf (ops ++ more)) s)).
Proof.
  induction more as [|o more IH] using rev_ind.
  - rewrite app_nil_r. split; intros; [unfold crow_le | unfold srow_le]; lia.
  - rewrite app_assoc, run_snoc. destruct IH as [IC IS]. split.
    + intros c Hc. specialize (IC c Hc).
      pose proof (crow_mono_step cf (run cf (ops ++ more)) o c (phase_sticky_run cf ops more c Hc)).
      unfold crow_le in *. lia.
    + intros s Hs. specialize (IS s Hs).
      pose proof (srow_mono_step cf (run cf (ops ++ more)) o s (seen_sticky_run cf ops more s Hs)).
      unfold srow_le in *. lia.
Qed.

(* ------------------------------------------------------------------ assembled statements and witnesses *)

Lemma totals cf ops :
  let t := run cf ops in
  (forall c, c_xact (cl t c) = count (txn_of_client c) (trace cf ops) /\
             c_query (cl t c) = count (qry_of_client c) (trace cf ops)) /\
  (forall s, s_xact (sv t s) = count (txn_of_server s) (trace cf ops) /\
             s_query (sv t s) = count (qry_of_server s) (trace cf ops)) /\
  (forall a, a_xact (at_ t a) = srv_sum s_xact t a /\ a_query (at_ t a) = srv_sum s_query t a /\
             a_sent (at_ t a) = srv_sum s_sent t a /\ a_recv (at_ t a) = srv_sum s_recv t a) /\
  (cl_sum c_xact t = count is_txn (trace cf ops) /\ sv_sum s_xact t = count is_txn (trace cf ops) /\
   cl_sum c_query t = count is_qry (trace cf ops) /\ sv_sum s_query t = count is_qry (trace cf ops)).
Proof.
  intros t. split; [intros c; apply client_counts|]. split; [intros s; apply server_counts|].
  split; [apply Tot_run | apply conservation].
Qed.

Lemma monotone cf ops more :
  (forall a, atot_le (at_ (run cf ops) a) (at_ (run cf (ops ++ more)) a)) /\
  (forall c, c_phase (cl (run cf ops) c) <> PNone -> crow_le (cl (run cf ops) c) (cl (run cf (ops ++ more)) c)) /\
  (forall s, s_seen (sv (run cf ops) s) = true -> srow_le (sv (run cf ops) s) (sv (run cf (ops ++ more)) s)).
Proof. split; [intros a; apply at_mono | apply rows_mono]. Qed.

Definition cf_w : cfg := [(1, false); (1, true)].   (* address 0: primary of pool 1, address 1: replica of pool 1 *)
Definition panic_w : list op := [Login 1 1 true; HandleStart 1; ExitPanic 1].
Definition retry_w : list op :=
  [Login 1 1 true; HandleStart 1; CheckoutStart 1; CandidateTry 1; CandidateFail 1 1 false; CandidateTry 1].

(** Regression witnesses: what the repaired call sites do, and what the code did before. *)
Lemma panic_row_removed :
  let t := run cf_w panic_w in
  creg t = [] /\ c_phase (cl t 1) = PGone /\ cl_idle (show_pools cf_w t 1) = 0 /\ trace cf_w panic_w = panic_w.
Proof. vm_compute. repeat split. Qed.

Lemma old_panic_leaked_row :
  let t := exit_panic_old (run cf_w [Login 1 1 true; HandleStart 1]) 1 in
  In 1 (creg t) /\ c_phase (cl t 1) = PGone /\ cl_idle (show_pools cf_w t 1) = 1 /\ length (clients_of t 1) = 0.
Proof. vm_compute. repeat split. left. reflexivity. Qed.

Lemma retry_is_waiting :
  let t := run cf_w retry_w in
  c_iter (cl t 1) = true /\ c_state (cl t 1) = CWaiting /\ c_err (cl t 1) = 1 /\
  cl_waiting (show_pools cf_w t 1) = 1 /\ cl_idle (show_pools cf_w t 1) = 0 /\ trace cf_w retry_w = retry_w.
Proof. vm_compute. repeat split. Qed.

Lemma old_retry_shown_idle :
  let t := candidate_try_old (run cf_w (firstn 5 retry_w)) 1 in
  c_iter (cl t 1) = true /\ c_state (cl t 1) = CIdle /\
  cl_waiting (show_pools cf_w t 1) = 0 /\ cl_idle (show_pools cf_w t 1) = 1.
Proof. vm_compute. repeat split. Qed.

(* ------------------------------------------------------------------ CancelRequest connections touch nothing *)

Lemma reg_del_notin k l : ~ In k l -> reg_del k l = l.
Proof.
  induction l as [|x l IH]; intros H; simpl; [reflexivity|].
  destruct (Nat.eqb_spec x k) as [->|Hne]; simpl.
  - exfalso. apply H. left. reflexivity.
  - rewrite IH; [reflexivity|]. intros Hi. apply H. right. assumption.
Qed.

Lemma cancel_inert cf ops pid :
  let t := run cf ops in let t' := step cf t (CancelConn pid) in
  creg t' = creg t /\ sreg t' = sreg t /\ cids t' = cids t /\ sids t' = sids t /\
  (forall c, cl t' c = cl t c) /\ (forall s, sv t' s = sv t s) /\ (forall a, at_ t' a = at_ t a) /\
  (forall p, show_pools cf t' p = show_pools cf t p) /\ show_lists t' = show_lists t.
Proof.
  intros t t'.
  assert (E : creg t' = creg t).
  { unfold t', step. simpl. apply reg_del_notin. intros H.
    apply (NP_run cf ops) in H. fold t in H. pose proof (w_zero _ (Wf_run cf ops)) as Z. fold t in Z. congruence. }
  repeat split; try assumption; try reflexivity.
  - intros p. unfold show_pools, cl_count, sv_count. rewrite E. reflexivity.
  - unfold show_lists. rewrite E. reflexivity.
Qed.

(** The seeded defect: a pseudo-client carrying the id it was asked to cancel unregisters a connected client. *)
Lemma cancel_bad_removes_target :
  let t := cancel_conn_bad (run cf_w [Login 1 1 true; HandleStart 1]) 1 in
  creg t = [] /\ c_phase (cl t 1) = PHandle /\ cl_idle (show_pools cf_w t 1) = 0 /\ length (clients_of t 1) = 1.
Proof. vm_compute. repeat split. Qed.

(* ------------------------------------------------------------------ the end of a statistics period *)

Lemma period_end_keeps_totals cf ops :
  let t := run cf ops in let t' := step cf t PeriodEnd in
  (forall a, a_xact (at_ t' a) = a_xact (at_ t a) /\ a_query (at_ t' a) = a_query (at_ t a) /\
             a_sent (at_ t' a) = a_sent (at_ t a) /\ a_recv (at_ t' a) = a_recv (at_ t a) /\
             a_err (at_ t' a) = a_err (at_ t a)) /\
  creg t' = creg t /\ sreg t' = sreg t /\ (forall c, cl t' c = cl t c) /\ (forall s, sv t' s = sv t s).
Proof.
  intros t t'. split; [|repeat split].
  intros a. unfold t', step. simpl. destruct (has_server t a); simpl; repeat split.
Qed.

Definition errs_w : list op :=
  [Login 1 1 true; HandleStart 1; ServerConnect 7 1; ServerReady 7; CheckoutStart 1; CandidateTry 1; CandidateFail 1 1 false;
   CheckoutGiveUp 1].

(** Regression witnesses: errors counted before a period end survive it; the seeded [period_end_bad] loses them. *)
Lemma period_end_witness :
  let t := run cf_w errs_w in let t' := step cf_w t PeriodEnd in
  a_err (at_ t 1) = 2 /\ a_err (at_ t' 1) = 2 /\ c_err_ (at_ t 1) = 2 /\ c_err_ (at_ t' 1) = 0 /\
  a_err (period_end_bad (at_ t 1)) = 0 /\ ~ atot_le (at_ t 1) (period_end_bad (at_ t 1)).
Proof. vm_compute. repeat split. intros [_ [_ [_ [_ H]]]]. inversion H. Qed.
