(** C18 — admin statistics count every client, server connection and transaction once.

    Executable model of pgcat's statistics registries and of the call sites that feed them.
    Definitions only; lemmas are in Proofs.v, the property theorems in Props.v.

    Code modelled (read line by line; line numbers as of /repo commit dae4e52 — later fixes shift them by a few
    lines, the call sites are identified by the quoted expressions):

    src/stats.rs:26-32      [CLIENT_STATS], [SERVER_STATS] : id (random i32) -> Arc<..Stats>      = [creg], [sreg]
    src/stats.rs:52-59      [client_register]: already present => warn and IGNORE, else insert     = [reg_add]
    src/stats.rs:62-64      [client_disconnecting]: remove (idempotent)                            = [reg_del]
    src/stats.rs:68-74      [server_register] insert / [server_disconnecting] remove
    src/stats/client.rs     [ClientStats]: state Idle|Waiting|Active, transaction/query/error counters;
                            [register] (insert + Idle), [disconnect], [idle], [waiting], [active],
                            [checkout_error] (Idle), [ban_error] (Idle, error_count+1), [query], [transaction]
    src/stats/server.rs     [ServerStats]: state Login|Active|Tested|Idle, counters, bytes; every counter update is
                            mirrored into the AddressStats of the connection's address ([address.stats])
    src/stats/address.rs    [AddressStats.total.*]: fetch_add only; [current.*], [averages.*]        = [atot]
    src/stats.rs:86-116     [Collector::collect]: every 15 s (first tick immediately) per address that has a
                            registered server: [update_averages()], [reset_current_counts()]         = [PeriodEnd]
    src/stats/pool.rs:42-95 [PoolStats::construct_pool_lookup]: one pass over the client registry and one over the
                            server registry, bucketed by (pool_name, username)                    = [show_pools]
    src/admin.rs:149-248    [show_lists]: free/used clients = registry rows Idle/Active, same for servers = [show_lists]
    src/admin.rs:635-686    [show_stats]: one row per address from [address.stats]                  = [at]
    src/client.rs:771-777   startup OK => [ClientStats::new(process_id, ..)], nothing registered yet = [Login c p true]
                            (wrong password, unknown pool, pool down: [startup] returns Err, no ClientStats)
                                                                                                    = [Login c p false]
    src/client.rs           [Client::cancel]: CancelRequest connection, stats = [ClientStats::default()]; [handle()]
                            looks the key up in the client/server map, forwards via [Server::cancel] (a bare TCP
                            connection, no Server object, no stats) and returns before [register]      = [CancelConn pid]
    src/client.rs:879       [self.stats.register(..)] first thing in [handle()]                     = [HandleStart]
    src/client.rs           [self.stats.waiting()] right before [pool.get]                           = [CheckoutStart]
    src/pool.rs (b38aae6)   [while !candidates.is_empty() { client_stats.waiting(); ...]: waiting() runs at the
                            START OF EVERY ITERATION of the candidate loop (=> Waiting)               = [CandidateTry]
                            a banned candidate that is not unbanned: [continue] (after that waiting()) = [CandidateSkip]
    src/pool.rs:810-819     bb8 [get] fails for a candidate: [ban(FailedCheckout)] (replica only: [ban_error],
                            [address.stats.error()]), [address.stats.error()], [checkout_error()] (=> Idle),
                            then [continue]: the next iteration (if any) starts with [CandidateTry]   = [CandidateFail c a false]
    src/pool.rs:875         health check: [server.stats().tested()]                                 = [TestServer]
    src/pool.rs:914-918     failed health check: [mark_bad], [ban(FailedHealthCheck)]                = [CandidateFail c a true]
    src/pool.rs:835-840,849-854, src/client.rs:1172  checkout success: client Active, server Active = [CheckoutOk]
    src/pool.rs:861, src/client.rs:1103  after the loop: [checkout_error()] (=> Idle), [self.stats.idle()] = [CheckoutGiveUp]
    src/client.rs:2087-2091 [client_stats.query()], [server.stats().query(..)] after each request cycle
                            ([send_and_receive_loop]: every 'Q', every 'S' that reaches the server)  = [QueryDone]
    src/client.rs:1308-1313,1572-1577,1648-1653  [!server.in_transaction()] after a cycle:
                            [self.stats.transaction()], [server.stats().transaction(..)]             = [TxnDone]
    src/server.rs:883,1114  [data_sent(len)] in [send], [data_received(len)] in [recv] (also for the pooler's own
                            traffic: health check, ROLLBACK, RESET, parameter sync)                 = [Data]
    src/client.rs:1672-1681 end of the transaction loop: [checkin_cleanup], [server.stats().idle()],
                            [self.stats.idle()]                                                      = [Release]
    src/client.rs:926,941,1146,1328  [self.stats.disconnect()] then [return Ok(())]                  = [ExitOk]
    src/client.rs:290-292   [if result.is_err() { client.stats.disconnect(); }] (also 181-183, 233-235, 319-321; 1216)          = [ExitErr c srvfail]
                            [srvfail]: the error came from the server side ([pool.ban(.., Some(client_stats))] in
                            send_server_message / receive_server_message: replica => [address.stats.error()])
    (no line)               a panic inside [handle()] unwinds through [client_entrypoint]: neither of those
                            [disconnect()] calls runs; tokio drops the task's future                = [ExitPanic]
    src/client.rs (ca5e3a4) [Drop for Client] (runs on every exit, panic included): [self.stats.disconnect()]
                            (idempotent), then, if [connected_to_server], the last server's stats are set Idle
    src/pool.rs:1203-1208   [ServerPool::connect]: [ServerStats::new], [register] (=> Login)          = [ServerConnect]
    src/pool.rs:1237        startup done: [stats.idle()]                                             = [ServerReady]
    src/pool.rs:1241, src/server.rs:1547-1555  startup failed / [Drop for Server]: [stats.disconnect()] = [ServerDrop]

    Granularity: one op = one of the call-site groups above, executed atomically.  This is the message
    granularity of DESIGN.md §3: the registries are behind an RwLock, every row field is an atomic, a
    checked-out [Server] is owned by exactly one client task.  Between two ops the pooler is at a point
    where it blocks on a client socket, on bb8 or on a server — the quiescent points of the property.

    Identifiers: clients and server connections are named by natural numbers; the model requires a FRESH
    id for [Login] and [ServerConnect].  The code draws a random i32 ([rand::random()], client.rs:497,
    stats/server.rs:89); a collision (probability 2^-32 per pair) makes [client_register] ignore the second
    client and is assumed away (trusted base).

    Ground truth vs. registry: per client the record holds what is TRUE ([c_phase]: is its task inside
    [handle()]; [c_chk]: is it inside [pool.get]; [c_iter]: is it blocked on one candidate there; [c_held]: which server it owns) next to the contents of
    its [ClientStats] object ([c_state], counters); [creg] is the key set of CLIENT_STATS.  Likewise for
    servers ([s_live]: the [Server] object exists; [s_holder]) and [sreg].  Rows of dropped server
    connections stay in [sv] (as a ledger) but leave [sreg]. *)
From Coq Require Import Arith Bool List.
Import ListNotations.

Inductive cstate : Type := CIdle | CWaiting | CActive.
Inductive sstate : Type := SLogin | SActive | STested | SIdle.
(** Where the client's task is: no such client yet / startup done, [handle()] not entered /
    inside [handle()] / ended (or never got past startup). *)
Inductive phase : Type := PNone | PLogged | PHandle | PGone.

Record client : Type := mkC {
  c_pool : nat;            (* 0 = admin database (pgcat/pgbouncer): never a configured pool *)
  c_phase : phase;
  c_chk : bool;            (* inside pool.get (between CheckoutStart and CheckoutOk/GiveUp) *)
  c_iter : bool;           (* inside one iteration of pool.get's candidate loop: blocked on that candidate *)
  c_held : option nat;     (* the server connection it owns *)
  c_state : cstate;        (* ClientStats.state *)
  c_xact : nat; c_query : nat; c_err : nat }.

Record server : Type := mkS {
  s_addr : nat;
  s_seen : bool;           (* id already used *)
  s_live : bool;           (* the Server object exists *)
  s_holder : option nat;
  s_state : sstate;
  s_xact : nat; s_query : nat; s_sent : nat; s_recv : nat }.

(** AddressStats.total (the count-valued fields). *)
Record atot : Type := mkA {
  a_xact : nat; a_query : nat; a_sent : nat; a_recv : nat; a_err : nat;        (* AddressStats.total: SHOW STATS total_* *)
  c_xact_ : nat; c_query_ : nat; c_sent_ : nat; c_recv_ : nat; c_err_ : nat;   (* AddressStats.current: this period so far *)
  v_xact : nat; v_query : nat; v_sent : nat; v_recv : nat; v_err : nat }.      (* AddressStats.averages: SHOW STATS avg_* *)

(** Static configuration: address id -> (pool id, is replica).  Pool ids start at 1. *)
Definition cfg : Type := list (nat * bool).
Definition apool (cf : cfg) (a : nat) : nat := fst (nth a cf (0, false)).
Definition areplica (cf : cfg) (a : nat) : bool := snd (nth a cf (0, false)).

Record st : Type := mkSt {
  cl : nat -> client; cids : list nat;     (* every client id ever used, newest first *)
  sv : nat -> server; sids : list nat;
  creg : list nat;                          (* keys of CLIENT_STATS *)
  sreg : list nat;                          (* keys of SERVER_STATS *)
  at_ : nat -> atot }.

Definition c0 : client := mkC 0 PNone false false None CIdle 0 0 0.
Definition s0 : server := mkS 0 false false None SLogin 0 0 0 0.
Definition a0 : atot := mkA 0 0 0 0 0 0 0 0 0 0 0 0 0 0 0.
Definition init : st := mkSt (fun _ => c0) [] (fun _ => s0) [] [] [] (fun _ => a0).

Definition upd {A} (f : nat -> A) (k : nat) (v : A) : nat -> A := fun x => if x =? k then v else f x.

Fixpoint mem (k : nat) (l : list nat) : bool :=
  match l with [] => false | x :: r => (x =? k) || mem k r end.
(** stats.rs:52-59: double registration is ignored. *)
Definition reg_add (k : nat) (l : list nat) : list nat := if mem k l then l else k :: l.
Definition reg_del (k : nat) (l : list nat) : list nat := filter (fun x => negb (x =? k)) l.

(** A CancelRequest connection is a pseudo-client built by [Client::cancel] (client.rs): its stats are
    [ClientStats::default()], whose client_id is 0 — NOT the process id the request names.  [handle()] returns
    before [register] ([cancel_mode]); [Drop for Client] (and the entrypoint, on Err) call [disconnect()] on that
    id.  A real client's id is a random i32; the value 0 (2^-32) is assumed away like collisions: [Login]
    requires an id different from it. *)
Definition cancel_stats_id : nat := 0.

Inductive op : Type :=
| Login (c p : nat) (ok : bool)
| CancelConn (pid : nat)
| PeriodEnd
| HandleStart (c : nat)
| CheckoutStart (c : nat)
| CandidateTry (c : nat)
| CandidateSkip (c : nat)
| TestServer (s : nat)
| CandidateFail (c a : nat) (healthcheck : bool)
| CheckoutOk (c s : nat)
| CheckoutGiveUp (c : nat)
| QueryDone (c s : nat)
| TxnDone (c s : nat)
| Data (s sent recv : nat)
| Release (c s : nat)
| ExitOk (c : nat)
| ExitErr (c : nat) (srvfail : bool)
| ExitPanic (c : nat)
| ServerConnect (s a : nat)
| ServerReady (s : nat)
| ServerDrop (s : nat).

Definition is_phase (p q : phase) : bool :=
  match p, q with PNone, PNone | PLogged, PLogged | PHandle, PHandle | PGone, PGone => true | _, _ => false end.
Definition is_none {A} (o : option A) : bool := match o with None => true | Some _ => false end.
Definition holds (o : option nat) (k : nat) : bool := match o with Some x => x =? k | None => false end.
Definition is_login (s : sstate) : bool := match s with SLogin => true | _ => false end.

(** When can the call site be reached. *)
Definition enabled (cf : cfg) (t : st) (o : op) : bool :=
  match o with
  | Login c _ _ => is_phase (c_phase (cl t c)) PNone && negb (c =? cancel_stats_id)
  | CancelConn _ => true
  | PeriodEnd => true
  | HandleStart c => is_phase (c_phase (cl t c)) PLogged
  | CheckoutStart c => let x := cl t c in
      is_phase (c_phase x) PHandle && negb (c_chk x) && is_none (c_held x) && negb (c_pool x =? 0)
  | TestServer s => let y := sv t s in s_live y && is_none (s_holder y) && negb (is_login (s_state y))
  | CandidateTry c => let x := cl t c in is_phase (c_phase x) PHandle && c_chk x && negb (c_iter x)
  | CandidateSkip c => let x := cl t c in is_phase (c_phase x) PHandle && c_chk x && c_iter x
  | CandidateFail c a _ => let x := cl t c in is_phase (c_phase x) PHandle && c_chk x && c_iter x
  | CheckoutOk c s => let x := cl t c in let y := sv t s in
      is_phase (c_phase x) PHandle && c_chk x && c_iter x && is_none (c_held x) &&
      s_live y && is_none (s_holder y) && negb (is_login (s_state y)) && (apool cf (s_addr y) =? c_pool x)
  | CheckoutGiveUp c => let x := cl t c in is_phase (c_phase x) PHandle && c_chk x && negb (c_iter x)
  | QueryDone c s | TxnDone c s | Release c s =>
      is_phase (c_phase (cl t c)) PHandle && holds (c_held (cl t c)) s
  | Data s _ _ => s_live (sv t s)
  | ExitOk c | ExitErr c _ | ExitPanic c => is_phase (c_phase (cl t c)) PHandle
  | ServerConnect s _ => negb (s_seen (sv t s))
  | ServerReady s => s_live (sv t s) && is_login (s_state (sv t s))
  | ServerDrop s => s_live (sv t s) && is_none (s_holder (sv t s))
  end.

Definition set_cstate (x : client) (s : cstate) : client :=
  mkC (c_pool x) (c_phase x) (c_chk x) (c_iter x) (c_held x) s (c_xact x) (c_query x) (c_err x).
Definition set_sstate (y : server) (s : sstate) (h : option nat) : server :=
  mkS (s_addr y) (s_seen y) (s_live y) h s (s_xact y) (s_query y) (s_sent y) (s_recv y).

(** address.rs: every [*_add] / [error()] does [total.fetch_add] and [current.fetch_add]. *)
Definition a_add (x : atot) (dx dq ds dr de : nat) : atot :=
  mkA (a_xact x + dx) (a_query x + dq) (a_sent x + ds) (a_recv x + dr) (a_err x + de)
      (c_xact_ x + dx) (c_query_ x + dq) (c_sent_ x + ds) (c_recv_ x + dr) (c_err_ x + de)
      (v_xact x) (v_query x) (v_sent x) (v_recv x) (v_err x).

(** End of a statistics period for one address (stats.rs Collector, every STAT_PERIOD = 15 s, the first tick at
    once): [update_averages()] (average = current / 15 for the count-valued fields) and [reset_current_counts()]
    (current := 0).  The totals are not touched. *)
Definition stat_period_s : nat := 15.
Definition period_end (x : atot) : atot :=
  mkA (a_xact x) (a_query x) (a_sent x) (a_recv x) (a_err x) 0 0 0 0 0
      (c_xact_ x / stat_period_s) (c_query_ x / stat_period_s) (c_sent_ x / stat_period_s)
      (c_recv_ x / stat_period_s) (c_err_ x / stat_period_s).
Definition b2n (b : bool) : nat := if b then 1 else 0.

(** The task of client [c] ends ([Drop for Client] runs in all three cases): it leaves [handle()],
    gives up its server, whose stats are set Idle.  [unreg]: whether [stats.disconnect()] ran — since
    ca5e3a4 it always does (Drop for Client); [false] is the code before that repair ([exit_panic_old]). *)
Definition exit_client (t : st) (c : nat) (unreg : bool) (aerr : nat) : st :=
  let x := cl t c in
  let x' := mkC (c_pool x) PGone false false None (c_state x) (c_xact x) (c_query x) (c_err x) in
  let sv' := match c_held x with
             | Some s => upd (sv t) s (set_sstate (sv t s) SIdle None)
             | None => sv t end in
  let at' := match c_held x with
             | Some s => upd (at_ t) (s_addr (sv t s)) (a_add (at_ t (s_addr (sv t s))) 0 0 0 0 aerr)
             | None => at_ t end in
  mkSt (upd (cl t) c x') (cids t) sv' (sids t) (if unreg then reg_del c (creg t) else creg t) (sreg t) at'.

Definition has_server (t : st) (a : nat) : bool := existsb (fun s => s_addr (sv t s) =? a) (sreg t).

Definition apply (cf : cfg) (t : st) (o : op) : st :=
  match o with
  | Login c p ok =>
      mkSt (upd (cl t) c (mkC p (if ok then PLogged else PGone) false false None CIdle 0 0 0)) (c :: cids t)
           (sv t) (sids t) (creg t) (sreg t) (at_ t)
  | CancelConn pid =>
      (* no register; every exit runs Drop for Client: disconnect() of the pseudo-client's OWN stats id *)
      mkSt (cl t) (cids t) (sv t) (sids t) (reg_del cancel_stats_id (creg t)) (sreg t) (at_ t)
  | PeriodEnd =>
      (* the Collector walks SERVER_STATS: only addresses that have a registered server connection are updated *)
      mkSt (cl t) (cids t) (sv t) (sids t) (creg t) (sreg t)
           (fun a => if has_server t a then period_end (at_ t a) else at_ t a)
  | HandleStart c =>
      let x := cl t c in
      mkSt (upd (cl t) c (mkC (c_pool x) PHandle false false None CIdle (c_xact x) (c_query x) (c_err x))) (cids t)
           (sv t) (sids t) (reg_add c (creg t)) (sreg t) (at_ t)
  | CheckoutStart c =>
      let x := cl t c in
      mkSt (upd (cl t) c (mkC (c_pool x) (c_phase x) true false (c_held x) CWaiting (c_xact x) (c_query x) (c_err x)))
           (cids t) (sv t) (sids t) (creg t) (sreg t) (at_ t)
  | CandidateTry c =>
      let x := cl t c in
      mkSt (upd (cl t) c (mkC (c_pool x) (c_phase x) (c_chk x) true (c_held x) CWaiting (c_xact x) (c_query x) (c_err x)))
           (cids t) (sv t) (sids t) (creg t) (sreg t) (at_ t)
  | CandidateSkip c =>
      let x := cl t c in
      mkSt (upd (cl t) c (mkC (c_pool x) (c_phase x) (c_chk x) false (c_held x) (c_state x) (c_xact x) (c_query x) (c_err x)))
           (cids t) (sv t) (sids t) (creg t) (sreg t) (at_ t)
  | TestServer s =>
      mkSt (cl t) (cids t) (upd (sv t) s (set_sstate (sv t s) STested None)) (sids t) (creg t) (sreg t) (at_ t)
  | CandidateFail c a hc =>
      let x := cl t c in
      let r := areplica cf a in
      let stt := if hc && negb r then c_state x else CIdle in
      mkSt (upd (cl t) c (mkC (c_pool x) (c_phase x) (c_chk x) false (c_held x) stt (c_xact x) (c_query x) (c_err x + b2n r)))
           (cids t) (sv t) (sids t) (creg t) (sreg t)
           (upd (at_ t) a (a_add (at_ t a) 0 0 0 0 (b2n (negb hc) + b2n r)))
  | CheckoutOk c s =>
      let x := cl t c in
      mkSt (upd (cl t) c (mkC (c_pool x) (c_phase x) false false (Some s) CActive (c_xact x) (c_query x) (c_err x)))
           (cids t) (upd (sv t) s (set_sstate (sv t s) SActive (Some c))) (sids t) (creg t) (sreg t) (at_ t)
  | CheckoutGiveUp c =>
      let x := cl t c in
      mkSt (upd (cl t) c (mkC (c_pool x) (c_phase x) false false (c_held x) CIdle (c_xact x) (c_query x) (c_err x)))
           (cids t) (sv t) (sids t) (creg t) (sreg t) (at_ t)
  | QueryDone c s =>
      let x := cl t c in let y := sv t s in
      mkSt (upd (cl t) c (mkC (c_pool x) (c_phase x) (c_chk x) (c_iter x) (c_held x) (c_state x) (c_xact x) (S (c_query x)) (c_err x)))
           (cids t)
           (upd (sv t) s (mkS (s_addr y) (s_seen y) (s_live y) (s_holder y) (s_state y) (s_xact y) (S (s_query y)) (s_sent y) (s_recv y)))
           (sids t) (creg t) (sreg t) (upd (at_ t) (s_addr y) (a_add (at_ t (s_addr y)) 0 1 0 0 0))
  | TxnDone c s =>
      let x := cl t c in let y := sv t s in
      mkSt (upd (cl t) c (mkC (c_pool x) (c_phase x) (c_chk x) (c_iter x) (c_held x) (c_state x) (S (c_xact x)) (c_query x) (c_err x)))
           (cids t)
           (upd (sv t) s (mkS (s_addr y) (s_seen y) (s_live y) (s_holder y) (s_state y) (S (s_xact y)) (s_query y) (s_sent y) (s_recv y)))
           (sids t) (creg t) (sreg t) (upd (at_ t) (s_addr y) (a_add (at_ t (s_addr y)) 1 0 0 0 0))
  | Data s n m =>
      let y := sv t s in
      mkSt (cl t) (cids t)
           (upd (sv t) s (mkS (s_addr y) (s_seen y) (s_live y) (s_holder y) (s_state y) (s_xact y) (s_query y) (s_sent y + n) (s_recv y + m)))
           (sids t) (creg t) (sreg t) (upd (at_ t) (s_addr y) (a_add (at_ t (s_addr y)) 0 0 n m 0))
  | Release c s =>
      let x := cl t c in
      mkSt (upd (cl t) c (mkC (c_pool x) (c_phase x) (c_chk x) (c_iter x) None CIdle (c_xact x) (c_query x) (c_err x)))
           (cids t) (upd (sv t) s (set_sstate (sv t s) SIdle None)) (sids t) (creg t) (sreg t) (at_ t)
  | ExitOk c => exit_client t c true 0
  | ExitErr c srvfail =>
      exit_client t c true
        (match c_held (cl t c) with
         | Some s => b2n (srvfail && areplica cf (s_addr (sv t s)))
         | None => 0 end)
  | ExitPanic c => exit_client t c true 0
  | ServerConnect s a =>
      mkSt (cl t) (cids t) (upd (sv t) s (mkS a true true None SLogin 0 0 0 0)) (s :: sids t)
           (creg t) (s :: reg_del s (sreg t)) (at_ t)
  | ServerReady s =>
      mkSt (cl t) (cids t) (upd (sv t) s (set_sstate (sv t s) SIdle (s_holder (sv t s)))) (sids t) (creg t) (sreg t) (at_ t)
  | ServerDrop s =>
      let y := sv t s in
      mkSt (cl t) (cids t)
           (upd (sv t) s (mkS (s_addr y) (s_seen y) false None (s_state y) (s_xact y) (s_query y) (s_sent y) (s_recv y)))
           (sids t) (creg t) (reg_del s (sreg t)) (at_ t)
  end.

(** An op whose call site cannot be reached in the current state does nothing. *)
Definition step (cf : cfg) (t : st) (o : op) : st := if enabled cf t o then apply cf t o else t.
Definition run_from (cf : cfg) (t : st) (ops : list op) : st := fold_left (step cf) ops t.
Definition run (cf : cfg) (ops : list op) : st := run_from cf init ops.

(** The ops that were actually executed (the history as the code lived it). *)
Fixpoint trace_from (cf : cfg) (t : st) (ops : list op) : list op :=
  match ops with
  | [] => []
  | o :: r => if enabled cf t o then o :: trace_from cf (step cf t o) r else trace_from cf (step cf t o) r
  end.
Definition trace (cf : cfg) (ops : list op) : list op := trace_from cf init ops.

(* ---------------------------------------------------------------- what the admin console shows *)

Definition is_cstate (a b : cstate) : bool :=
  match a, b with CIdle, CIdle | CWaiting, CWaiting | CActive, CActive => true | _, _ => false end.
Definition is_sstate (a b : sstate) : bool :=
  match a, b with SLogin, SLogin | SActive, SActive | STested, STested | SIdle, SIdle => true | _, _ => false end.

(** PoolStats::construct_pool_lookup for pool [p]: the client registry bucketed by the client's pool
    and state, the server registry by the pool of the server's address and state. *)
Definition cl_count (t : st) (p : nat) (s : cstate) : nat :=
  length (filter (fun c => (c_pool (cl t c) =? p) && is_cstate (c_state (cl t c)) s) (creg t)).
Definition sv_count (cf : cfg) (t : st) (p : nat) (s : sstate) : nat :=
  length (filter (fun k => (apool cf (s_addr (sv t k)) =? p) && is_sstate (s_state (sv t k)) s) (sreg t)).

Record pool_row : Type := mkP { cl_idle : nat; cl_active : nat; cl_waiting : nat;
                                sv_active : nat; sv_idle : nat; sv_tested : nat; sv_login : nat }.
Definition show_pools (cf : cfg) (t : st) (p : nat) : pool_row :=
  mkP (cl_count t p CIdle) (cl_count t p CActive) (cl_count t p CWaiting)
      (sv_count cf t p SActive) (sv_count cf t p SIdle) (sv_count cf t p STested) (sv_count cf t p SLogin).

(** SHOW LISTS: free_clients, used_clients, free_servers, used_servers (all pools, admin clients included). *)
Definition show_lists (t : st) : nat * nat * nat * nat :=
  (length (filter (fun c => is_cstate (c_state (cl t c)) CIdle) (creg t)),
   length (filter (fun c => is_cstate (c_state (cl t c)) CActive) (creg t)),
   length (filter (fun k => is_sstate (s_state (sv t k)) SIdle) (sreg t)),
   length (filter (fun k => is_sstate (s_state (sv t k)) SActive) (sreg t))).

(** The clients that are really connected to pool [p] (their task is inside [handle()]). *)
Definition in_handle (t : st) (c : nat) : bool := is_phase (c_phase (cl t c)) PHandle.
Definition clients_of (t : st) (p : nat) : list nat :=
  filter (fun c => in_handle t c && (c_pool (cl t c) =? p)) (cids t).

(* ---------------------------------------------------------------- observation for the harness *)

Definition cstate_n (s : cstate) : nat := match s with CIdle => 0 | CWaiting => 1 | CActive => 2 end.
Definition sstate_n (s : sstate) : nat := match s with SLogin => 0 | SActive => 1 | STested => 2 | SIdle => 3 end.
Definition opt_n (o : option nat) : nat := match o with Some x => S x | None => 0 end.

(** SHOW CLIENTS rows: (id, pool, state, xact, query, errors); SHOW SERVERS rows: (id, address, state,
    holder+1 or 0, xact, query, sent, recv); SHOW POOLS for pools 1..np; SHOW LISTS; SHOW STATS for
    addresses 0..|cf|-1: (xact, query, sent, recv, errors) totals, then the same five averages. *)
Definition obs_clients (t : st) : list (list nat) :=
  map (fun c => let x := cl t c in [c; c_pool x; cstate_n (c_state x); c_xact x; c_query x; c_err x]) (creg t).
Definition obs_servers (t : st) : list (list nat) :=
  map (fun k => let y := sv t k in
                [k; s_addr y; sstate_n (s_state y); opt_n (s_holder y); s_xact y; s_query y; s_sent y; s_recv y]) (sreg t).
Definition obs_pools (cf : cfg) (t : st) (np : nat) : list (list nat) :=
  map (fun p => let r := show_pools cf t p in
                [p; cl_idle r; cl_active r; cl_waiting r; sv_active r; sv_idle r; sv_tested r; sv_login r]) (seq 1 np).
Definition obs_lists (t : st) : list nat :=
  match show_lists t with (a, b, c, d) => [a; b; c; d] end.
Definition obs_stats (cf : cfg) (t : st) : list (list nat) :=
  map (fun a => let x := at_ t a in [a; a_xact x; a_query x; a_sent x; a_recv x; a_err x;
                                     v_xact x; v_query x; v_sent x; v_recv x; v_err x]) (seq 0 (length cf)).
Definition observe (cf : cfg) (np : nat) (t : st) :=
  (obs_clients t, obs_servers t, obs_pools cf t np, obs_lists t, obs_stats cf t).

(** Run the segments of a history one after the other and observe after each (the quiescent points
    at which the harness samples). *)
Fixpoint run_samples (cf : cfg) (np : nat) (t : st) (segs : list (list op)) :=
  match segs with
  | [] => []
  | ops :: r => let t' := run_from cf t ops in observe cf np t' :: run_samples cf np t' r
  end.

(* ---------------------------------------------------------------- the code before its repairs (regression) *)

(** Before /repo ca5e3a4 a panic skipped every [stats.disconnect()]: the row stayed. *)
Definition exit_panic_old (t : st) (c : nat) : st := exit_client t c false 0.
(** Seeded defect class (never in /repo's history): [Client::cancel] building the pseudo-client's stats with the
    process id it was asked to cancel: dropping it unregisters the TARGET. *)
Definition cancel_conn_bad (t : st) (pid : nat) : st :=
  mkSt (cl t) (cids t) (sv t) (sids t) (reg_del pid (creg t)) (sreg t) (at_ t).
(** Seeded defect class: [reset_current_counts()] storing 0 into a TOTAL instead of the current counter. *)
Definition period_end_bad (x : atot) : atot :=
  mkA (a_xact x) (a_query x) (a_sent x) (a_recv x) 0 0 0 0 0 (c_err_ x)
      (c_xact_ x / stat_period_s) (c_query_ x / stat_period_s) (c_sent_ x / stat_period_s)
      (c_recv_ x / stat_period_s) (c_err_ x / stat_period_s).
(** Before /repo b38aae6 [waiting()] ran once, before the candidate loop: a later iteration started in
    whatever state the failed candidate had left. *)
Definition candidate_try_old (t : st) (c : nat) : st :=
  let x := cl t c in
  mkSt (upd (cl t) c (mkC (c_pool x) (c_phase x) (c_chk x) true (c_held x) (c_state x) (c_xact x) (c_query x) (c_err x)))
       (cids t) (sv t) (sids t) (creg t) (sreg t) (at_ t).

(* ---------------------------------------------------------------- specification vocabulary *)

Definition count (f : op -> bool) (l : list op) : nat := length (filter f l).
Definition txn_of_client (c : nat) (o : op) : bool := match o with TxnDone c' _ => c' =? c | _ => false end.
Definition txn_of_server (s : nat) (o : op) : bool := match o with TxnDone _ s' => s' =? s | _ => false end.
Definition qry_of_client (c : nat) (o : op) : bool := match o with QueryDone c' _ => c' =? c | _ => false end.
Definition qry_of_server (s : nat) (o : op) : bool := match o with QueryDone _ s' => s' =? s | _ => false end.
Definition is_txn (o : op) : bool := match o with TxnDone _ _ => true | _ => false end.
Definition is_qry (o : op) : bool := match o with QueryDone _ _ => true | _ => false end.

Definition sumf (f : nat -> nat) (l : list nat) : nat := fold_right (fun x acc => f x + acc) 0 l.
(** Sum of a counter over every server connection the address ever had (live or dropped). *)
Definition srv_sum (proj : server -> nat) (t : st) (a : nat) : nat :=
  sumf (fun s => if s_addr (sv t s) =? a then proj (sv t s) else 0) (sids t).

Definition atot_le (x y : atot) : Prop :=
  a_xact x <= a_xact y /\ a_query x <= a_query y /\ a_sent x <= a_sent y /\ a_recv x <= a_recv y /\ a_err x <= a_err y.
Definition crow_le (x y : client) : Prop := c_xact x <= c_xact y /\ c_query x <= c_query y /\ c_err x <= c_err y.
Definition srow_le (x y : server) : Prop :=
  s_xact x <= s_xact y /\ s_query x <= s_query y /\ s_sent x <= s_sent y /\ s_recv x <= s_recv y.
