(** C18 — admin statistics count every client, server connection and transaction once.
    Property theorems only: each is closed by [exact <lemma>] and audited with [Print Assumptions].
    All of them quantify over EVERY history ([ops : list op], any length, any number of clients,
    server connections, pools and addresses) and over every static configuration [cf]; an op whose
    call site is not reachable in the current state is a no-op, so no well-formedness hypothesis on
    [ops] is needed. *)
From Coq Require Import Arith Bool List.
From PV Require Import Stats.Model Stats.Inv Stats.Proofs.
Import ListNotations.

(** SHOW CLIENTS / SHOW SERVERS list exactly the clients whose task is inside [handle()] and exactly
    the live server connections, each once — in EVERY history, however the clients left (clean exit,
    error, panic: since /repo ca5e3a4 [Drop for Client] unregisters). *)
Theorem c18_registry_exact : forall cf ops,
  let t := run cf ops in
  (forall c, In c (creg t) <-> c_phase (cl t c) = PHandle) /\
  (forall s, In s (sreg t) <-> s_live (sv t s) = true) /\
  NoDup (creg t) /\ NoDup (sreg t).
Proof. exact registry_exact. Qed.
Print Assumptions c18_registry_exact.

(** SHOW POOLS: idle + active + waiting = number of clients connected to the pool. *)
Theorem c18_pool_sum : forall cf ops p,
  let t := run cf ops in let r := show_pools cf t p in
  cl_idle r + cl_active r + cl_waiting r = length (clients_of t p).
Proof. exact pool_sum. Qed.
Print Assumptions c18_pool_sum.

(** True state (every history): a connected client is shown active exactly while it owns a server
    connection, waiting only while it is inside [pool.get]; a live server connection is shown active
    exactly while a client owns it; ownership is exclusive and mutual. *)
Theorem c18_true_state : forall cf ops,
  let t := run cf ops in
  (forall c, c_phase (cl t c) = PHandle ->
     (c_state (cl t c) = CActive <-> exists s, c_held (cl t c) = Some s) /\
     (c_state (cl t c) = CWaiting -> c_chk (cl t c) = true)) /\
  (forall s, s_live (sv t s) = true ->
     (s_state (sv t s) = SActive <-> exists c, s_holder (sv t s) = Some c)) /\
  (forall c s, c_held (cl t c) = Some s <-> s_holder (sv t s) = Some c) /\
  (forall c s, c_held (cl t c) = Some s -> c_phase (cl t c) = PHandle /\ s_live (sv t s) = true).
Proof. exact true_state. Qed.
Print Assumptions c18_true_state.

(** ... and waiting is shown for as long as the client is blocked on a candidate server inside
    [pool.get] ([c_iter]: since /repo b38aae6 every iteration of the candidate loop starts with
    [waiting()]), and never outside [pool.get].  The positions inside [pool.get] but outside an
    iteration (between a failed candidate and the next [waiting()], or the final [checkout_error()])
    are not blocking points. *)
Theorem c18_waiting_exact : forall cf ops,
  let t := run cf ops in
  forall c, c_phase (cl t c) = PHandle ->
    (c_iter (cl t c) = true -> c_state (cl t c) = CWaiting) /\
    (c_state (cl t c) = CWaiting -> c_chk (cl t c) = true) /\
    (c_iter (cl t c) = true -> c_chk (cl t c) = true).
Proof. exact waiting_exact. Qed.
Print Assumptions c18_waiting_exact.

(** When every client has gone — however it left — nothing is left: no client row, zero clients in
    every pool, no active server. *)
Theorem c18_zero_when_gone : forall cf ops,
  let t := run cf ops in
  (forall c, c_phase (cl t c) <> PHandle) ->
  creg t = [] /\
  show_lists t = (0, 0, length (filter (fun k => is_sstate (s_state (sv t k)) SIdle) (sreg t)), 0) /\
  forall p, let r := show_pools cf t p in
            cl_idle r = 0 /\ cl_active r = 0 /\ cl_waiting r = 0 /\ sv_active r = 0.
Proof. exact zero_when_gone. Qed.
Print Assumptions c18_zero_when_gone.

(** Totals (every history).  A row's transaction / query counter is the number of transactions /
    request cycles the history executed for that client, resp. on that server connection; the totals
    of an address (SHOW STATS) are the sums over every connection the address ever had, dropped ones
    included; summed over all clients and over all server connections both sides equal the number of
    transactions / request cycles in the history. *)
Theorem c18_totals : forall cf ops,
  let t := run cf ops in
  (forall c, c_xact (cl t c) = count (txn_of_client c) (trace cf ops) /\
             c_query (cl t c) = count (qry_of_client c) (trace cf ops)) /\
  (forall s, s_xact (sv t s) = count (txn_of_server s) (trace cf ops) /\
             s_query (sv t s) = count (qry_of_server s) (trace cf ops)) /\
  (forall a, a_xact (at_ t a) = srv_sum s_xact t a /\ a_query (at_ t a) = srv_sum s_query t a /\
             a_sent (at_ t a) = srv_sum s_sent t a /\ a_recv (at_ t a) = srv_sum s_recv t a) /\
  (cl_sum c_xact t = count is_txn (trace cf ops) /\ sv_sum s_xact t = count is_txn (trace cf ops) /\
   cl_sum c_query t = count is_qry (trace cf ops) /\ sv_sum s_query t = count is_qry (trace cf ops)).
Proof. exact totals. Qed.
Print Assumptions c18_totals.

(** No total ever decreases (the Collector's period end [PeriodEnd] is one of the ops): the per-address totals (transactions, queries, bytes sent and received,
    errors) along any continuation of any history; likewise the counters of a client / server row for
    as long as the row exists (ids are not re-used).  Per-connection rows DISAPPEAR with their
    connection: "totals" in the property are the per-address totals of SHOW STATS. *)
Theorem c18_monotone : forall cf ops more,
  (forall a, atot_le (at_ (run cf ops) a) (at_ (run cf (ops ++ more)) a)) /\
  (forall c, c_phase (cl (run cf ops) c) <> PNone -> crow_le (cl (run cf ops) c) (cl (run cf (ops ++ more)) c)) /\
  (forall s, s_seen (sv (run cf ops) s) = true -> srow_le (sv (run cf ops) s) (sv (run cf (ops ++ more)) s)).
Proof. exact monotone. Qed.
Print Assumptions c18_monotone.

(** The end of a statistics period ([PeriodEnd]: the Collector's tick — averages := current / 15, current := 0,
    for every address that has a registered server connection) leaves every total, every row and both registries
    as they are; [c18_monotone] above covers it like every other op. *)
Theorem c18_period_end_keeps_totals : forall cf ops,
  let t := run cf ops in let t' := step cf t PeriodEnd in
  (forall a, a_xact (at_ t' a) = a_xact (at_ t a) /\ a_query (at_ t' a) = a_query (at_ t a) /\
             a_sent (at_ t' a) = a_sent (at_ t a) /\ a_recv (at_ t' a) = a_recv (at_ t a) /\
             a_err (at_ t' a) = a_err (at_ t a)) /\
  creg t' = creg t /\ sreg t' = sreg t /\ (forall c, cl t' c = cl t c) /\ (forall s, sv t' s = sv t s).
Proof. exact period_end_keeps_totals. Qed.
Print Assumptions c18_period_end_keeps_totals.

(** Non-vacuity and regression: two errors counted on the replica before a period end are still there after it
    (the current counter is what goes back to 0); a period end that zeroed the total instead ([period_end_bad],
    a seeded change of [reset_current_counts]) would make total_errors decrease. *)
Theorem c18_period_end_witness :
  let t := run cf_w errs_w in let t' := step cf_w t PeriodEnd in
  a_err (at_ t 1) = 2 /\ a_err (at_ t' 1) = 2 /\ c_err_ (at_ t 1) = 2 /\ c_err_ (at_ t' 1) = 0 /\
  a_err (period_end_bad (at_ t 1)) = 0 /\ ~ atot_le (at_ t 1) (period_end_bad (at_ t 1)).
Proof. exact period_end_witness. Qed.
Print Assumptions c18_period_end_witness.

(** A CancelRequest connection — whatever process id it names (a connected client's, with the right or a
    wrong secret key, or nobody's) and at any point of any history — changes nothing the admin console shows:
    not the client registry, not a row, not a pool count.  ([c18_registry_exact] etc. hold for histories that
    contain [CancelConn] like for all others: the op is part of the alphabet.) *)
Theorem c18_cancel_inert : forall cf ops pid,
  let t := run cf ops in let t' := step cf t (CancelConn pid) in
  creg t' = creg t /\ sreg t' = sreg t /\ cids t' = cids t /\ sids t' = sids t /\
  (forall c, cl t' c = cl t c) /\ (forall s, sv t' s = sv t s) /\ (forall a, at_ t' a = at_ t a) /\
  (forall p, show_pools cf t' p = show_pools cf t p) /\ show_lists t' = show_lists t.
Proof. exact cancel_inert. Qed.
Print Assumptions c18_cancel_inert.

(** ... whereas a pseudo-client that carried the id it was asked to cancel ([cancel_conn_bad], a seeded change of
    [Client::cancel]) would unregister its still-connected target when dropped. *)
Theorem c18_cancel_with_target_id_removes_target :
  let t := cancel_conn_bad (run cf_w [Login 1 1 true; HandleStart 1]) 1 in
  creg t = [] /\ c_phase (cl t 1) = PHandle /\ cl_idle (show_pools cf_w t 1) = 0 /\ length (clients_of t 1) = 1.
Proof. exact cancel_bad_removes_target. Qed.
Print Assumptions c18_cancel_with_target_id_removes_target.

(** Regression (former defect F31, repaired by /repo ca5e3a4): a client task that panics is removed
    from the registry like any other exit ... *)
Theorem c18_panic_row_removed :
  let t := run cf_w panic_w in
  creg t = [] /\ c_phase (cl t 1) = PGone /\ cl_idle (show_pools cf_w t 1) = 0 /\ trace cf_w panic_w = panic_w.
Proof. exact panic_row_removed. Qed.
Print Assumptions c18_panic_row_removed.

(** ... whereas the code before the repair ([exit_panic_old]: no [disconnect()] on a panic) kept the row and
    over-counted the pool for ever: the wire tie tells the two apart on every panic history. *)
Theorem c18_old_panic_leaked_row :
  let t := exit_panic_old (run cf_w [Login 1 1 true; HandleStart 1]) 1 in
  In 1 (creg t) /\ c_phase (cl t 1) = PGone /\ cl_idle (show_pools cf_w t 1) = 1 /\ length (clients_of t 1) = 0.
Proof. exact old_panic_leaked_row. Qed.
Print Assumptions c18_old_panic_leaked_row.

(** Regression (former defect F32, repaired by /repo b38aae6): after a failed candidate the client that
    tries its next candidate is shown waiting (and carries the replica's ban error) ... *)
Theorem c18_retry_is_waiting :
  let t := run cf_w retry_w in
  c_iter (cl t 1) = true /\ c_state (cl t 1) = CWaiting /\ c_err (cl t 1) = 1 /\
  cl_waiting (show_pools cf_w t 1) = 1 /\ cl_idle (show_pools cf_w t 1) = 0 /\ trace cf_w retry_w = retry_w.
Proof. exact retry_is_waiting. Qed.
Print Assumptions c18_retry_is_waiting.

(** ... whereas the code before the repair ([candidate_try_old]: no [waiting()] inside the loop) showed it idle. *)
Theorem c18_old_retry_shown_idle :
  let t := candidate_try_old (run cf_w (firstn 5 retry_w)) 1 in
  c_iter (cl t 1) = true /\ c_state (cl t 1) = CIdle /\
  cl_waiting (show_pools cf_w t 1) = 0 /\ cl_idle (show_pools cf_w t 1) = 1.
Proof. exact old_retry_shown_idle. Qed.
Print Assumptions c18_old_retry_shown_idle.

(* ------------------------------------------------------------------ non-vacuity / model validation *)

(** Two clients of pool 1 on one address; client 1 runs BEGIN .. COMMIT (three request cycles, one
    transaction) on server connection 7, client 2 one autocommit query on the same connection
    afterwards, then both leave (one cleanly, one by closing the socket). *)
Definition demo : list op :=
  [Login 1 1 true; HandleStart 1; Login 2 1 true; HandleStart 2;
   CheckoutStart 1; ServerConnect 7 0; ServerReady 7; CandidateTry 1; CheckoutOk 1 7;
   QueryDone 1 7; QueryDone 1 7; QueryDone 1 7; TxnDone 1 7; Release 1 7;
   CheckoutStart 2; CandidateTry 2; CheckoutOk 2 7; QueryDone 2 7; TxnDone 2 7; Release 2 7;
   ExitOk 1; ExitErr 2 false].

Example demo_mid :
  observe cf_w 1 (run cf_w (firstn 10 demo)) =
  ([[2; 1; 0; 0; 0; 0]; [1; 1; 2; 0; 1; 0]], [[7; 0; 1; 2; 0; 1; 0; 0]], [[1; 1; 1; 0; 1; 0; 0; 0]], [1; 1; 0; 1],
   [[0; 0; 1; 0; 0; 0; 0; 0; 0; 0; 0]; [1; 0; 0; 0; 0; 0; 0; 0; 0; 0; 0]]).
Proof. vm_compute. reflexivity. Qed.

Example demo_end :
  observe cf_w 1 (run cf_w demo) =
  ([], [[7; 0; 3; 0; 2; 4; 0; 0]], [[1; 0; 0; 0; 0; 1; 0; 0]], [0; 0; 1; 0], [[0; 2; 4; 0; 0; 0; 0; 0; 0; 0; 0]; [1; 0; 0; 0; 0; 0; 0; 0; 0; 0; 0]])
  /\ trace cf_w demo = demo.
Proof. vm_compute. repeat split. Qed.

(** Ops whose call site is not reachable are ignored (a second HandleStart, a query without a server,
    a CheckoutOk outside a loop iteration, a drop of a held connection). *)
Example disabled_ops_ignored :
  trace cf_w [Login 1 1 true; HandleStart 1; HandleStart 1; QueryDone 1 7; ServerConnect 7 0; ServerReady 7;
              CheckoutStart 1; CheckoutOk 1 7; CandidateTry 1; CheckoutOk 1 7; ServerDrop 7; Login 1 1 true] =
  [Login 1 1 true; HandleStart 1; ServerConnect 7 0; ServerReady 7; CheckoutStart 1; CandidateTry 1; CheckoutOk 1 7].
Proof. vm_compute. reflexivity. Qed.

(** A checkout that [pool.get] refuses before its candidate loop (Err(InvalidShardId): the router names a shard the
    pool does not have): [waiting()] in client.rs, then the Err arm's [idle()] — no candidate is ever tried, the
    client stays connected and is shown idle. *)
Example refusal_is_idle :
  let ops := [Login 1 1 true; HandleStart 1; CheckoutStart 1; CheckoutGiveUp 1] in
  let t := run cf_w ops in
  trace cf_w ops = ops /\ c_state (cl t 1) = CIdle /\ c_chk (cl t 1) = false /\
  show_pools cf_w t 1 = mkP 1 0 0 0 0 0 0 /\
  c_state (cl (run cf_w (firstn 3 ops)) 1) = CWaiting.
Proof. vm_compute. repeat split. Qed.
