(** C18 — admin statistics count every client, server connection and transaction once.
    Property theorems only: each is closed by [exact <lemma>] and audited with [Print Assumptions].
    All of them quantify over EVERY history ([ops : list op], any length, any number of clients,
    server connections, pools and addresses) and over every static configuration [cf]; an op whose
    call site is not reachable in the current state is a no-op, so no well-formedness hypothesis on
    [ops] is needed. *)
From Coq Require Import Arith Bool List.
From PV Require Import Stats.Model Stats.Inv Stats.Proofs.
Import ListNotations.

(** SHOW CLIENTS / SHOW SERVERS list exactly the clients whose task is inside [handle()] and exactly
    the live server connections, each once — in every history in which no client task panicked. *)
Theorem c18_registry_exact : forall cf ops, known_c18 ops = false ->
  let t := run cf ops in
  (forall c, In c (creg t) <-> c_phase (cl t c) = PHandle) /\
  (forall s, In s (sreg t) <-> s_live (sv t s) = true) /\
  NoDup (creg t) /\ NoDup (sreg t).
Proof. exact registry_exact. Qed.
Print Assumptions c18_registry_exact.

(** The server half, the "each once" half and "every connected client is listed" hold in every
    history, panics included. *)
Theorem c18_servers_exact : forall cf ops,
  let t := run cf ops in
  (forall s, In s (sreg t) <-> s_live (sv t s) = true) /\ NoDup (sreg t) /\ NoDup (creg t) /\
  (forall c, c_phase (cl t c) = PHandle -> In c (creg t)).
Proof. exact servers_exact. Qed.
Print Assumptions c18_servers_exact.

(** SHOW POOLS: idle + active + waiting = number of clients connected to the pool. *)
Theorem c18_pool_sum : forall cf ops p, known_c18 ops = false ->
  let t := run cf ops in let r := show_pools cf t p in
  cl_idle r + cl_active r + cl_waiting r = length (clients_of t p).
Proof. exact pool_sum. Qed.
Print Assumptions c18_pool_sum.

(** True state (every history): a connected client is shown active exactly while it owns a server
    connection, waiting only while it is inside [pool.get]; a live server connection is shown active
    exactly while a client owns it; ownership is exclusive and mutual. *)
Theorem c18_true_state : forall cf ops,
  let t := run cf ops in
  (forall c, c_phase (cl t c) = PHandle ->
     (c_state (cl t c) = CActive <-> exists s, c_held (cl t c) = Some s) /\
     (c_state (cl t c) = CWaiting -> c_chk (cl t c) = true)) /\
  (forall s, s_live (sv t s) = true ->
     (s_state (sv t s) = SActive <-> exists c, s_holder (sv t s) = Some c)) /\
  (forall c s, c_held (cl t c) = Some s <-> s_holder (sv t s) = Some c) /\
  (forall c s, c_held (cl t c) = Some s -> c_phase (cl t c) = PHandle /\ s_live (sv t s) = true).
Proof. exact true_state. Qed.
Print Assumptions c18_true_state.

(** ... and waiting is shown for the WHOLE checkout unless a candidate failure reset the state. *)
Theorem c18_waiting_exact : forall cf ops, known_c18_wait cf ops = false ->
  let t := run cf ops in
  forall c, c_phase (cl t c) = PHandle -> (c_state (cl t c) = CWaiting <-> c_chk (cl t c) = true).
Proof. exact waiting_exact. Qed.
Print Assumptions c18_waiting_exact.

(** When every client has gone — however it left, short of a panic — nothing is left: no client row,
    zero clients in every pool, no active server. *)
Theorem c18_zero_when_gone : forall cf ops, known_c18 ops = false ->
  let t := run cf ops in
  (forall c, c_phase (cl t c) <> PHandle) ->
  creg t = [] /\
  show_lists t = (0, 0, length (filter (fun k => is_sstate (s_state (sv t k)) SIdle) (sreg t)), 0) /\
  forall p, let r := show_pools cf t p in
            cl_idle r = 0 /\ cl_active r = 0 /\ cl_waiting r = 0 /\ sv_active r = 0.
Proof. exact zero_when_gone. Qed.
Print Assumptions c18_zero_when_gone.

(** Totals (every history).  A row's transaction / query counter is the number of transactions /
    request cycles the history executed for that client, resp. on that server connection; the totals
    of an address (SHOW STATS) are the sums over every connection the address ever had, dropped ones
    included; summed over all clients and over all server connections both sides equal the number of
    transactions / request cycles in the history. *)
Theorem c18_totals : forall cf ops,
  let t := run cf ops in
  (forall c, c_xact (cl t c) = count (txn_of_client c) (trace cf ops) /\
             c_query (cl t c) = count (qry_of_client c) (trace cf ops)) /\
  (forall s, s_xact (sv t s) = count (txn_of_server s) (trace cf ops) /\
             s_query (sv t s) = count (qry_of_server s) (trace cf ops)) /\
  (forall a, a_xact (at_ t a) = srv_sum s_xact t a /\ a_query (at_ t a) = srv_sum s_query t a /\
             a_sent (at_ t a) = srv_sum s_sent t a /\ a_recv (at_ t a) = srv_sum s_recv t a) /\
  (cl_sum c_xact t = count is_txn (trace cf ops) /\ sv_sum s_xact t = count is_txn (trace cf ops) /\
   cl_sum c_query t = count is_qry (trace cf ops) /\ sv_sum s_query t = count is_qry (trace cf ops)).
Proof. exact totals. Qed.
Print Assumptions c18_totals.

(** No total ever decreases: the per-address totals (transactions, queries, bytes sent and received,
    errors) along any continuation of any history; likewise the counters of a client / server row for
    as long as the row exists (ids are not re-used).  Per-connection rows DISAPPEAR with their
    connection: "totals" in the property are the per-address totals of SHOW STATS. *)
Theorem c18_monotone : forall cf ops more,
  (forall a, atot_le (at_ (run cf ops) a) (at_ (run cf (ops ++ more)) a)) /\
  (forall c, c_phase (cl (run cf ops) c) <> PNone -> crow_le (cl (run cf ops) c) (cl (run cf (ops ++ more)) c)) /\
  (forall s, s_seen (sv (run cf ops) s) = true -> srow_le (sv (run cf ops) s) (sv (run cf (ops ++ more)) s)).
Proof. exact monotone. Qed.
Print Assumptions c18_monotone.

(** The only way a client row outlives its client is a panic of that client's task. *)
Theorem c18_only_panic_leaks : forall cf ops c,
  In c (creg (run cf ops)) -> c_phase (cl (run cf ops) c) <> PHandle -> In (ExitPanic c) (trace cf ops).
Proof. exact only_panic_leaks. Qed.
Print Assumptions c18_only_panic_leaks.

(** Known defect class [known_c18]: a client task that panics never unregisters; its row stays, the
    pool's client count is off by one for ever. *)
Theorem c18_panic_leaks_row_refuted :
  exists cf ops, known_c18 ops = true /\
    let t := run cf ops in
    exists c, In c (creg t) /\ c_phase (cl t c) = PGone /\
              cl_idle (show_pools cf t 1) = 1 /\ length (clients_of t 1) = 0.
Proof. exact panic_leaks_row. Qed.
Print Assumptions c18_panic_leaks_row_refuted.

(** Known defect class [known_c18_wait]: after a candidate server failed (bb8 checkout error, or a
    replica's failed health check) the client is shown idle while it goes on waiting for the next
    candidate. *)
Theorem c18_waiting_shown_idle_refuted :
  exists cf ops, known_c18_wait cf ops = true /\ known_c18 ops = false /\
    let t := run cf ops in
    exists c, c_phase (cl t c) = PHandle /\ c_chk (cl t c) = true /\ c_state (cl t c) = CIdle /\
              cl_waiting (show_pools cf t 1) = 0 /\ cl_idle (show_pools cf t 1) = 1.
Proof. exact waiting_shown_idle. Qed.
Print Assumptions c18_waiting_shown_idle_refuted.

(* ------------------------------------------------------------------ non-vacuity / model validation *)

(** Two clients of pool 1 on one address; client 1 runs BEGIN .. COMMIT (three request cycles, one
    transaction) on server connection 7, client 2 one autocommit query on the same connection
    afterwards, then both leave (one cleanly, one by closing the socket). *)
Definition demo : list op :=
  [Login 1 1 true; HandleStart 1; Login 2 1 true; HandleStart 2;
   CheckoutStart 1; ServerConnect 7 0; ServerReady 7; CheckoutOk 1 7;
   QueryDone 1 7; QueryDone 1 7; QueryDone 1 7; TxnDone 1 7; Release 1 7;
   CheckoutStart 2; CheckoutOk 2 7; QueryDone 2 7; TxnDone 2 7; Release 2 7;
   ExitOk 1; ExitErr 2 false].

Example demo_mid :
  observe cf_w 1 (run cf_w (firstn 9 demo)) =
  ([[2; 1; 0; 0; 0; 0]; [1; 1; 2; 0; 1; 0]], [[7; 0; 1; 2; 0; 1; 0; 0]], [[1; 1; 1; 0; 1; 0; 0; 0]], [1; 1; 0; 1],
   [[0; 0; 1; 0; 0; 0]; [1; 0; 0; 0; 0; 0]]).
Proof. vm_compute. reflexivity. Qed.

Example demo_end :
  observe cf_w 1 (run cf_w demo) =
  ([], [[7; 0; 3; 0; 2; 4; 0; 0]], [[1; 0; 0; 0; 0; 1; 0; 0]], [0; 0; 1; 0], [[0; 2; 4; 0; 0; 0]; [1; 0; 0; 0; 0; 0]])
  /\ trace cf_w demo = demo /\ known_c18 demo = false /\ known_c18_wait cf_w demo = false.
Proof. vm_compute. repeat split. Qed.

(** Ops whose call site is not reachable are ignored (a second HandleStart, a query without a server,
    a drop of a held connection). *)
Example disabled_ops_ignored :
  trace cf_w [Login 1 1 true; HandleStart 1; HandleStart 1; QueryDone 1 7; ServerConnect 7 0; ServerReady 7;
              CheckoutStart 1; CheckoutOk 1 7; ServerDrop 7; Login 1 1 true] =
  [Login 1 1 true; HandleStart 1; ServerConnect 7 0; ServerReady 7; CheckoutStart 1; CheckoutOk 1 7].
Proof. vm_compute. reflexivity. Qed.
