(** C18 — invariants of the statistics model (Stats/Model.v): identifiers, registries, ownership. *)
From Coq Require Import Arith Bool List Lia.
From PV Require Import Stats.Model.
Import ListNotations.

(* ------------------------------------------------------------------ generic tools *)

Lemma run_from_snoc cf t ops o : run_from cf t (ops ++ [o]) = step cf (run_from cf t ops) o.
Proof. unfold run_from. rewrite fold_left_app. reflexivity. Qed.

Lemma trace_from_snoc cf ops : forall t o,
  trace_from cf t (ops ++ [o]) = trace_from cf t ops ++ (if enabled cf (run_from cf t ops) o then [o] else []).
Proof.
  induction ops as [|a ops IH]; intros t o; simpl.
  - destruct (enabled cf t o); reflexivity.
  - destruct (enabled cf t a); simpl; rewrite IH; reflexivity.
Qed.

Lemma run_snoc cf ops o : run cf (ops ++ [o]) = step cf (run cf ops) o.
Proof. apply run_from_snoc. Qed.
Lemma trace_snoc cf ops o :
  trace cf (ops ++ [o]) = trace cf ops ++ (if enabled cf (run cf ops) o then [o] else []).
Proof. apply trace_from_snoc. Qed.

Lemma upd_same {A} (f : nat -> A) k v : upd f k v k = v.
Proof. unfold upd. rewrite Nat.eqb_refl. reflexivity. Qed.
Lemma upd_other {A} (f : nat -> A) k v x : x <> k -> upd f k v x = f x.
Proof. intros H. unfold upd. destruct (Nat.eqb_spec x k); [contradiction | reflexivity]. Qed.

Lemma mem_In k l : mem k l = true <-> In k l.
Proof.
  induction l as [|x l IH]; simpl; [split; [discriminate | tauto]|].
  rewrite orb_true_iff, IH, Nat.eqb_eq. tauto.
Qed.
Lemma In_reg_add x k l : In x (reg_add k l) <-> x = k \/ In x l.
Proof.
  unfold reg_add. destruct (mem k l) eqn:E; simpl.
  - apply mem_In in E. split; [tauto | intros [->|]; assumption].
  - split; intros [|]; auto.
Qed.
Lemma NoDup_reg_add k l : NoDup l -> NoDup (reg_add k l).
Proof.
  intros H. unfold reg_add. destruct (mem k l) eqn:E; [assumption|].
  constructor; [|assumption]. intros HI. apply mem_In in HI. congruence.
Qed.
Lemma In_reg_del x k l : In x (reg_del k l) <-> In x l /\ x <> k.
Proof.
  unfold reg_del. rewrite filter_In, negb_true_iff, Nat.eqb_neq. tauto.
Qed.
Lemma NoDup_reg_del k l : NoDup l -> NoDup (reg_del k l).
Proof. apply NoDup_filter. Qed.

Lemma is_phase_eq a b : is_phase a b = true <-> a = b.
Proof. destruct a, b; simpl; split; congruence. Qed.
Lemma is_none_eq {A} (o : option A) : is_none o = true <-> o = None.
Proof. destruct o; simpl; split; congruence. Qed.
Lemma holds_eq o k : holds o k = true <-> o = Some k.
Proof.
  destruct o as [x|]; simpl; [|split; congruence].
  rewrite Nat.eqb_eq. split; congruence.
Qed.
Lemma is_cstate_eq a b : is_cstate a b = true <-> a = b.
Proof. destruct a, b; simpl; split; congruence. Qed.
Lemma is_sstate_eq a b : is_sstate a b = true <-> a = b.
Proof. destruct a, b; simpl; split; congruence. Qed.

Lemma is_login_true s : is_login s = true <-> s = SLogin.
Proof. destruct s; simpl; split; congruence. Qed.
Lemma is_login_false s : is_login s = false <-> s <> SLogin.
Proof. destruct s; simpl; split; congruence. Qed.

(** Turn the boolean guard of an executed op into equations. *)
Ltac gd En :=
  cbn [enabled] in En;
  repeat match goal with
         | H : _ && _ = true |- _ => apply andb_prop in H; destruct H
         end;
  repeat match goal with
         | H : is_phase _ _ = true |- _ => apply is_phase_eq in H
         | H : is_none _ = true |- _ => apply is_none_eq in H
         | H : holds _ _ = true |- _ => apply holds_eq in H
         | H : negb _ = true |- _ => apply negb_true_iff in H
         | H : is_login _ = true |- _ => apply is_login_true in H
         | H : is_login _ = false |- _ => apply is_login_false in H
         | H : (_ =? _) = true |- _ => apply Nat.eqb_eq in H
         | H : (_ =? _) = false |- _ => apply Nat.eqb_neq in H
         end.

(** Case split on every [x =? k] produced by [upd]. *)
Ltac eqb_all :=
  repeat match goal with
         | |- context [?a =? ?b] => destruct (Nat.eqb_spec a b); subst
         | H : context [?a =? ?b] |- _ => destruct (Nat.eqb_spec a b); subst
         end.

Ltac open_step cf t o En :=
  unfold step; destruct (enabled cf t o) eqn:En; [| try assumption];
  [destruct o; gd En; unfold apply, exit_client;
   try match goal with
       | |- context [match c_held (cl ?t ?c) with _ => _ end] => let Hh := fresh "Hh" in destruct (c_held (cl t c)) eqn:Hh
       end;
   try match goal with ok : bool |- _ => destruct ok end;
   try match goal with |- context [areplica ?cf ?a] => destruct (areplica cf a) end;
   cbn [cl cids sv sids creg sreg at_] |].

(* ------------------------------------------------------------------ G1: identifiers *)

Record Wf (t : st) : Prop := {
  w_nd_c : NoDup (cids t);
  w_nd_s : NoDup (sids t);
  w_cids : forall c, In c (cids t) <-> c_phase (cl t c) <> PNone;
  w_sids : forall s, In s (sids t) <-> s_seen (sv t s) = true;
  w_live : forall s, s_live (sv t s) = true -> s_seen (sv t s) = true;
  w_zero : c_phase (cl t cancel_stats_id) = PNone }.

Lemma Wf_init : Wf init.
Proof.
  constructor; simpl; try constructor; try tauto; try congruence; try discriminate.
Qed.

Lemma Wf_step cf t o : Wf t -> Wf (step cf t o).
Proof.
  intros W. destruct W as [N1 N2 IC IS LV Z0].
  open_step cf t o En; (constructor; cbn [cl cids sv sids creg sreg at_]).
  all: try assumption.
  all: try (constructor; [rewrite ?IC, ?IS; congruence | assumption]).
  all: try (unfold upd; eqb_all; cbn; congruence).
  all: try (intros k; unfold upd; simpl In; eqb_all; cbn; rewrite ?IC, ?IS in *; try tauto; try congruence; try (apply LV; assumption); intuition congruence).
Qed.

(* ------------------------------------------------------------------ G2: the registries *)

Record RegOk (t : st) : Prop := {
  r_nd_c : NoDup (creg t);
  r_nd_s : NoDup (sreg t);
  r_handle : forall c, c_phase (cl t c) = PHandle -> In c (creg t);
  r_sub : forall c, In c (creg t) -> c_phase (cl t c) = PHandle \/ c_phase (cl t c) = PGone;
  r_srv : forall s, In s (sreg t) <-> s_live (sv t s) = true }.

Lemma RegOk_init : RegOk init.
Proof. constructor; simpl; try constructor; try tauto; try congruence; try discriminate. Qed.

Lemma RegOk_step cf t o : Wf t -> RegOk t -> RegOk (step cf t o).
Proof.
  intros [_ _ _ _ _ Z0] W. destruct W as [N1 N2 RH RS SR].
  open_step cf t o En; (constructor; cbn [cl cids sv sids creg sreg at_]).
  all: try assumption.
  all: try (apply NoDup_reg_add; assumption).
  all: try (apply NoDup_reg_del; assumption).
  all: try (intros k; pose proof (RH k) as RHk; pose proof (RS k) as RSk; pose proof (SR k) as SRk;
            unfold upd, set_sstate; rewrite ?In_reg_add, ?In_reg_del; simpl In; rewrite ?In_reg_del; eqb_all; cbn;
            try tauto; try congruence; intuition congruence).
  constructor; [rewrite In_reg_del; tauto | apply NoDup_reg_del; assumption].
Qed.

Inductive Mk1 (n : nat) : Prop := mk1.
Inductive Mk2 (n : nat) : Prop := mk2.
Ltac each_nat tac :=
  repeat match goal with
         | x : nat |- _ => lazymatch goal with | _ : Mk1 x |- _ => fail | _ => pose proof (mk1 x); tac x end
         end;
  repeat match goal with H : Mk1 _ |- _ => clear H end.
Ltac each_nat2 tac :=
  repeat match goal with
         | x : nat |- _ => lazymatch goal with | _ : Mk2 x |- _ => fail | _ => pose proof (mk2 x); tac x end
         end;
  repeat match goal with H : Mk2 _ |- _ => clear H end.

(* ------------------------------------------------------------------ G3: ownership and true state *)

Record Own (t : st) : Prop := {
  o_c2s : forall c s, c_held (cl t c) = Some s ->
            s_holder (sv t s) = Some c /\ c_phase (cl t c) = PHandle /\ s_live (sv t s) = true;
  o_s2c : forall c s, s_holder (sv t s) = Some c -> c_held (cl t c) = Some s;
  o_act_c : forall c, c_phase (cl t c) = PHandle -> (c_state (cl t c) = CActive <-> c_held (cl t c) <> None);
  o_act_s : forall s, s_live (sv t s) = true -> (s_state (sv t s) = SActive <-> s_holder (sv t s) <> None);
  o_chk : forall c, c_chk (cl t c) = true -> c_phase (cl t c) = PHandle /\ c_held (cl t c) = None;
  o_wait : forall c, c_phase (cl t c) = PHandle -> c_state (cl t c) = CWaiting -> c_chk (cl t c) = true;
  o_iter : forall c, c_iter (cl t c) = true -> c_chk (cl t c) = true /\ c_state (cl t c) = CWaiting }.

Lemma Own_init : Own init.
Proof. constructor; simpl; intros; try congruence; try discriminate. Qed.

Lemma Own_step cf t o : Wf t -> Own t -> Own (step cf t o).
Proof.
  intros [_ _ _ _ LV _] W. destruct W as [CS SC AC AS CK WT IT].
  open_step cf t o En; (constructor; cbn [cl cids sv sids creg sreg at_]).
  all: try assumption.
  all: intros;
       each_nat ltac:(fun x => pose proof (AC x); pose proof (AS x); pose proof (CK x); pose proof (WT x); pose proof (IT x); pose proof (LV x);
                               each_nat2 ltac:(fun y => pose proof (CS x y); pose proof (SC x y)));
       clear CS SC AC AS CK WT IT LV;
       unfold upd, set_sstate in *; eqb_all; cbn in *; try congruence; try tauto;
       intuition congruence.
Qed.
