(** C14 — lemmas about Reload/Model.v.  Property theorems are restated in Props.v. *)
From Coq Require Import Arith Bool List Lia.
From PV Require Import Reload.Model.
Import ListNotations.

(** ------------------------------------------------------------------ association lists *)

Lemma key_eqb_eq : forall a b, key_eqb a b = true <-> a = b.
Proof.
  intros [a1 a2] [b1 b2]. unfold key_eqb. cbn [fst snd]. rewrite andb_true_iff, !Nat.eqb_eq.
  split; [intros [-> ->]; reflexivity | intros H; inversion H; auto].
Qed.

Lemma key_eqb_refl : forall a, key_eqb a a = true.
Proof. intros. apply key_eqb_eq. reflexivity. Qed.

Lemma key_eqb_neq : forall a b, key_eqb a b = false <-> a <> b.
Proof.
  intros. split.
  - intros H E. apply key_eqb_eq in E. congruence.
  - intros H. destruct (key_eqb a b) eqn:E; auto. apply key_eqb_eq in E. contradiction.
Qed.

Lemma plookup_pupsert : forall k k' v l,
  plookup k (pupsert k' v l) = if key_eqb k k' then Some v else plookup k l.
Proof.
  induction l as [|[k0 v0] t IH]; intros.
  - cbn. destruct (key_eqb k k'); reflexivity.
  - cbn [pupsert]. destruct (key_eqb k' k0) eqn:E0.
    + apply key_eqb_eq in E0. subst k0. cbn [plookup]. destruct (key_eqb k k'); reflexivity.
    + cbn [plookup]. destruct (key_eqb k k0) eqn:E1.
      * destruct (key_eqb k k') eqn:E2; auto.
        apply key_eqb_eq in E1. apply key_eqb_eq in E2. subst. rewrite key_eqb_refl in E0. discriminate.
      * apply IH.
Qed.

Lemma plookup_In : forall k v l, plookup k l = Some v -> In (k, v) l.
Proof.
  induction l as [|[k0 v0] t IH]; cbn; intros H; [discriminate|].
  destruct (key_eqb k k0) eqn:E.
  - apply key_eqb_eq in E. inversion H. subst. auto.
  - auto.
Qed.

Lemma clookup_In : forall d v l, clookup d l = Some v -> In (d, v) l.
Proof.
  induction l as [|[d0 v0] t IH]; cbn; intros H; [discriminate|].
  destruct (d =? d0) eqn:E.
  - apply Nat.eqb_eq in E. inversion H. subst. auto.
  - auto.
Qed.

Lemma clookup_None : forall d l, clookup d l = None -> forall v, ~ In (d, v) l.
Proof.
  induction l as [|[d0 v0] t IH]; cbn; intros H v; [tauto|].
  destruct (d =? d0) eqn:E; [discriminate|].
  intros [X|X]; [inversion X; subst; rewrite Nat.eqb_refl in E; discriminate | eapply IH; eauto].
Qed.

Lemma clookup_NoDup : forall d v l, NoDup (map fst l) -> In (d, v) l -> clookup d l = Some v.
Proof.
  induction l as [|[d0 v0] t IH]; cbn; intros ND H; [tauto|].
  inversion ND as [|? ? Hn ND']; subst.
  destruct H as [H|H].
  - inversion H; subst. rewrite Nat.eqb_refl. reflexivity.
  - destruct (d =? d0) eqn:E.
    + apply Nat.eqb_eq in E. subst. exfalso. apply Hn. apply in_map_iff. exists (d0, v). auto.
    + auto.
Qed.

Lemma users_eqb_eq : forall a b, users_eqb a b = true <-> a = b.
Proof.
  induction a as [|x a IH]; destruct b as [|y b]; cbn; split; intros H; try discriminate; auto.
  - apply andb_true_iff in H. destruct H as [H1 H2]. apply Nat.eqb_eq in H1. apply IH in H2. subst. reflexivity.
  - inversion H; subst. rewrite Nat.eqb_refl. cbn. apply IH. reflexivity.
Qed.

Lemma entry_eqb_eq : forall a b, entry_eqb a b = true <-> a = b.
Proof.
  intros [a1 a2] [b1 b2]. unfold entry_eqb. cbn [fst snd]. rewrite andb_true_iff, Nat.eqb_eq, users_eqb_eq.
  split; [intros [-> ->]; reflexivity | intros H; inversion H; auto].
Qed.

Lemma mem_In : forall u us, mem u us = true <-> In u us.
Proof.
  intros. unfold mem. rewrite existsb_exists. split.
  - intros [x [H1 H2]]. apply Nat.eqb_eq in H2. subst. assumption.
  - intros H. exists u. split; auto. apply Nat.eqb_refl.
Qed.

Lemma mem_false : forall u us, mem u us = false <-> ~ In u us.
Proof.
  intros. split.
  - intros H X. apply mem_In in X. congruence.
  - intros H. destruct (mem u us) eqn:E; auto. apply mem_In in E. contradiction.
Qed.

Lemma in_flat : forall c d pd u,
  In (d, pd, u) (flat c) <-> exists us, In (d, (pd, us)) (cpools c) /\ In u us.
Proof.
  intros. unfold flat. rewrite in_flat_map. split.
  - intros [[d0 [pd0 us0]] [H1 H2]]. cbn [fst snd] in H2. apply in_map_iff in H2.
    destruct H2 as [u0 [E H2]]. inversion E; subst. exists us0. auto.
  - intros [us [H1 H2]]. exists (d, (pd, us)). split; auto. cbn [fst snd]. apply in_map_iff. exists u. auto.
Qed.

(** ------------------------------------------------------------------ Config equality *)

Lemma sub_cfg_lookup : forall a b d v,
  sub_cfg a b = true -> clookup d a = Some v -> clookup d b = Some v.
Proof.
  intros a b d v H L. unfold sub_cfg in H. rewrite forallb_forall in H.
  specialize (H (d, v) (clookup_In _ _ _ L)). cbn [fst snd] in H.
  destruct (clookup d b) as [v'|]; [|discriminate]. apply entry_eqb_eq in H. subst. reflexivity.
Qed.

Lemma cfg_eqb_lookup : forall a b d, cfg_eqb a b = true -> clookup d (cpools a) = clookup d (cpools b).
Proof.
  intros a b d H. unfold cfg_eqb in H. apply andb_true_iff in H. destruct H as [H H2].
  apply andb_true_iff in H. destruct H as [_ H1].
  destruct (clookup d (cpools a)) as [v|] eqn:La.
  - symmetry. eapply sub_cfg_lookup; eauto.
  - destruct (clookup d (cpools b)) as [v|] eqn:Lb; auto.
    pose proof (sub_cfg_lookup _ _ _ _ H2 Lb) as X. congruence.
Qed.

Lemma sub_cfg_refl : forall l, NoDup (map fst l) -> sub_cfg l l = true.
Proof.
  intros l ND. unfold sub_cfg. apply forallb_forall. intros [d v] H. cbn [fst snd].
  rewrite (clookup_NoDup d v l ND H). apply entry_eqb_eq. reflexivity.
Qed.

Lemma cfg_eqb_refl : forall c, wf_cfg c -> cfg_eqb c c = true.
Proof.
  intros c W. unfold cfg_eqb. rewrite !Nat.eqb_refl, (sub_cfg_refl _ W). reflexivity.
Qed.

(** ------------------------------------------------------------------ from_config *)

Section WithHash.
Variable hashf : pdef -> hash.

Lemma fc_step_stuck : forall old bo a x, a_st a <> FcOk -> fc_step hashf old bo a x = a.
Proof.
  intros old bo a [[d pd] u] H. unfold fc_step. destruct (a_st a); congruence.
Qed.

Lemma fc_step_ok_inv : forall old bo a x, a_st (fc_step hashf old bo a x) = FcOk -> a_st a = FcOk.
Proof.
  intros old bo a x H. destruct (a_st a) eqn:E; auto; rewrite fc_step_stuck in H by congruence; congruence.
Qed.

Definition fc_init (n0 : pool_id) : fcacc := {| a_np := []; a_next := n0; a_new := []; a_st := FcOk |}.

(** the reuse decision of pool.rs:326-337 failed for key [k] and definition [pd] *)
Definition no_reuse (old : pools_t) (k : key) (pd : pdef) : Prop :=
  match plookup k old with Some (h0, _) => h0 <> hashf pd | None => True end.

Record fc_inv (old : pools_t) (n0 : pool_id) (pre : list (db * pdef * user)) (a : fcacc) : Prop := {
  fi_next : n0 <= a_next a;
  fi_np : forall k h pid, plookup k (a_np a) = Some (h, pid) ->
          exists pd, In (fst k, pd, snd k) pre /\ h = hashf pd /\
                     (plookup k old = Some (h, pid) \/
                      (no_reuse old k pd /\ n0 <= pid < a_next a /\ In (pid, (k, pd)) (a_new a)));
  fi_all : forall d pd u, In (d, pd, u) pre -> exists v, plookup (d, u) (a_np a) = Some v;
  fi_new : forall pid x, In (pid, x) (a_new a) -> n0 <= pid < a_next a;
  fi_nodup : NoDup (map fst (a_new a))
}.

Lemma fc_inv_fold : forall old bo n0 l,
  let a := fold_left (fc_step hashf old bo) l (fc_init n0) in
  a_st a = FcOk -> fc_inv old n0 l a.
Proof.
  intros old bo n0 l. induction l as [|x l IH] using rev_ind; intros a Hok.
  - subst a. cbn. constructor; cbn; intros; try tauto; try discriminate; try lia. constructor.
  - subst a. rewrite fold_left_app in *. cbn [fold_left] in *.
    set (a0 := fold_left (fc_step hashf old bo) l (fc_init n0)) in *.
    pose proof (fc_step_ok_inv _ _ _ _ Hok) as Hok0. specialize (IH Hok0).
    destruct IH as [I1 I2 I3 I4 I5].
    destruct x as [[d pd] u]. unfold fc_step in *. rewrite Hok0 in *.
    destruct (plookup (d, u) old) as [[h0 pid0]|] eqn:Lold.
    + destruct (h0 =? hashf pd) eqn:Eh.
      * (* reused *)
        apply Nat.eqb_eq in Eh. subst h0. constructor; cbn [a_np a_next a_new a_st].
        -- assumption.
        -- intros k h pid L. rewrite plookup_pupsert in L. destruct (key_eqb k (d, u)) eqn:Ek.
           ++ apply key_eqb_eq in Ek. subst k. inversion L; subst. exists pd. cbn [fst snd].
              split; [apply in_or_app; right; left; reflexivity|]. split; auto.
           ++ destruct (I2 _ _ _ L) as [pd' [A [B C]]]. exists pd'. split; [apply in_or_app; auto|]. auto.
        -- intros d' pd' u' Hin. apply in_app_or in Hin. rewrite plookup_pupsert.
           destruct (key_eqb (d', u') (d, u)) eqn:Ek; [eauto|].
           destruct Hin as [Hin|[Hin|[]]]; [eauto|]. inversion Hin; subst. rewrite key_eqb_refl in Ek. discriminate.
        -- assumption.
        -- assumption.
      * (* hash changed: build *)
        destruct (bo d u) eqn:Eb; cbn [a_st] in Hok; try discriminate.
        apply Nat.eqb_neq in Eh.
        constructor; cbn [a_np a_next a_new a_st].
        -- lia.
        -- intros k h pid L. rewrite plookup_pupsert in L. destruct (key_eqb k (d, u)) eqn:Ek.
           ++ apply key_eqb_eq in Ek. subst k. inversion L; subst. exists pd. cbn [fst snd].
              split; [apply in_or_app; right; left; reflexivity|]. split; auto. right.
              split; [unfold no_reuse; rewrite Lold; assumption|]. split; [lia|]. left. reflexivity.
           ++ destruct (I2 _ _ _ L) as [pd' [A [B C]]]. exists pd'. split; [apply in_or_app; auto|]. split; auto.
              destruct C as [C|[C0 [C1 C2]]]; [left; assumption|]. right. split; auto. split; [lia|]. right. assumption.
        -- intros d' pd' u' Hin. apply in_app_or in Hin. rewrite plookup_pupsert.
           destruct (key_eqb (d', u') (d, u)) eqn:Ek; [eauto|].
           destruct Hin as [Hin|[Hin|[]]]; [eauto|]. inversion Hin; subst. rewrite key_eqb_refl in Ek. discriminate.
        -- intros pid x [Hx|Hx]; [inversion Hx; subst; lia|]. specialize (I4 _ _ Hx). lia.
        -- cbn. constructor; auto. intros Hin. apply in_map_iff in Hin. destruct Hin as [[p x] [E Hin]].
           cbn in E. subst p. specialize (I4 _ _ Hin). lia.
    + (* no old pool: build *)
      destruct (bo d u) eqn:Eb; cbn [a_st] in Hok; try discriminate.
      constructor; cbn [a_np a_next a_new a_st].
      -- lia.
      -- intros k h pid L. rewrite plookup_pupsert in L. destruct (key_eqb k (d, u)) eqn:Ek.
         ++ apply key_eqb_eq in Ek. subst k. inversion L; subst. exists pd. cbn [fst snd].
            split; [apply in_or_app; right; left; reflexivity|]. split; auto. right.
            split; [unfold no_reuse; rewrite Lold; exact I|]. split; [lia|]. left. reflexivity.
         ++ destruct (I2 _ _ _ L) as [pd' [A [B C]]]. exists pd'. split; [apply in_or_app; auto|]. split; auto.
            destruct C as [C|[C0 [C1 C2]]]; [left; assumption|]. right. split; auto. split; [lia|]. right. assumption.
      -- intros d' pd' u' Hin. apply in_app_or in Hin. rewrite plookup_pupsert.
         destruct (key_eqb (d', u') (d, u)) eqn:Ek; [eauto|].
         destruct Hin as [Hin|[Hin|[]]]; [eauto|]. inversion Hin; subst. rewrite key_eqb_refl in Ek. discriminate.
      -- intros pid x [Hx|Hx]; [inversion Hx; subst; lia|]. specialize (I4 _ _ Hx). lia.
      -- cbn. constructor; auto. intros Hin. apply in_map_iff in Hin. destruct Hin as [[p x] [E Hin]].
         cbn in E. subst p. specialize (I4 _ _ Hin). lia.
Qed.

Lemma from_config_inv : forall old c bo n0,
  a_st (from_config hashf old c bo n0) = FcOk -> fc_inv old n0 (flat c) (from_config hashf old c bo n0).
Proof. intros. apply (fc_inv_fold old bo n0 (flat c)). assumption. Qed.

(** with a well-formed configuration the definition of a pool name is unique *)
Lemma flat_def_unique : forall c d pd u pd' us,
  wf_cfg c -> In (d, pd, u) (flat c) -> clookup d (cpools c) = Some (pd', us) -> pd = pd' /\ In u us.
Proof.
  intros c d pd u pd' us W H L. apply in_flat in H. destruct H as [us0 [H1 H2]].
  rewrite (clookup_NoDup _ _ _ W H1) in L. inversion L; subst. auto.
Qed.

(** What POOLS holds after a successful from_config, per (pool, user) of the NEW configuration. *)
Lemma from_config_spec : forall old c bo n0,
  wf_cfg c -> let a := from_config hashf old c bo n0 in a_st a = FcOk ->
  forall d u,
    match clookup d (cpools c) with
    | Some (pd, us) =>
        if mem u us
        then exists pid, plookup (d, u) (a_np a) = Some (hashf pd, pid) /\
               (plookup (d, u) old = Some (hashf pd, pid) \/
                (no_reuse old (d, u) pd /\ n0 <= pid < a_next a /\ In (pid, ((d, u), pd)) (a_new a)))
        else plookup (d, u) (a_np a) = None
    | None => plookup (d, u) (a_np a) = None
    end.
Proof.
  intros old c bo n0 W a Hok d u. pose proof (from_config_inv _ _ _ _ Hok) as [I1 I2 I3 I4 I5]. fold a in I1, I2, I3, I4, I5.
  destruct (clookup d (cpools c)) as [[pd us]|] eqn:L.
  - destruct (mem u us) eqn:M.
    + apply mem_In in M. assert (Hin : In (d, pd, u) (flat c)) by (apply in_flat; exists us; split; auto; apply clookup_In; assumption).
      destruct (I3 _ _ _ Hin) as [[h pid] Lk]. destruct (I2 _ _ _ Lk) as [pd' [A [B C]]]. cbn [fst snd] in A.
      destruct (flat_def_unique _ _ _ _ _ _ W A L) as [-> _]. subst h. exists pid. split; auto.
    + destruct (plookup (d, u) (a_np a)) as [[h pid]|] eqn:Lk; auto.
      destruct (I2 _ _ _ Lk) as [pd' [A _]]. cbn [fst snd] in A.
      destruct (flat_def_unique _ _ _ _ _ _ W A L) as [_ X]. apply mem_false in M. contradiction.
  - destruct (plookup (d, u) (a_np a)) as [[h pid]|] eqn:Lk; auto.
    destruct (I2 _ _ _ Lk) as [pd' [A _]]. cbn [fst snd] in A. apply in_flat in A. destruct A as [us [A _]].
    exfalso. eapply clookup_None; eauto.
Qed.

Lemma all_built_ok : forall old c bo n0, all_built c bo = true -> a_st (from_config hashf old c bo n0) = FcOk.
Proof.
  intros old c bo n0 H. unfold from_config, all_built in *. rewrite forallb_forall in H.
  change {| a_np := []; a_next := n0; a_new := []; a_st := FcOk |} with (fc_init n0).
  assert (G : forall l a, (forall x, In x l -> match bo (fst (fst x)) (snd x) with Built => true | _ => false end = true) ->
              a_st a = FcOk -> a_st (fold_left (fc_step hashf old bo) l a) = FcOk).
  { induction l as [|x l IH]; intros a Hl Ha; cbn; auto. apply IH; [intros; apply Hl; right; assumption|].
    specialize (Hl x (or_introl eq_refl)). destruct x as [[d pd] u]. cbn [fst snd] in Hl. unfold fc_step. rewrite Ha.
    destruct (plookup (d, u) old) as [[h0 p0]|]; [destruct (h0 =? hashf pd)|]; cbn; auto;
    destruct (bo d u); cbn; auto; discriminate. }
  apply G; auto.
Qed.

(** ------------------------------------------------------------------ reload, store level *)

Definition invalid (fo : file_outcome) : Prop :=
  match fo with Valid _ _ => False | _ => True end.

Lemma invalid_noop : forall s fo n, invalid fo -> reload hashf s fo n = (s, RErr, n, []).
Proof. intros s [| |w|c bo] n H; cbn in *; tauto. Qed.

(** POOLS after ANY reload with a readable, valid file, per key that had a pool with the hash of its new definition *)
Lemma unchanged_kept : forall s c bo n s' r n' new d u h pid pd us,
  wf_cfg c ->
  reload hashf s (Valid c bo) n = (s', r, n', new) ->
  plookup (d, u) (pools s) = Some (h, pid) ->
  clookup d (cpools c) = Some (pd, us) -> In u us -> hashf pd = h ->
  plookup (d, u) (pools s') = Some (h, pid).
Proof.
  intros s c bo n s' r n' new d u h pid pd us W R Lo Lc Hu Hh. cbn [reload] in R.
  destruct (cfg_eqb (config s) c).
  - inversion R; subst. assumption.
  - destruct (a_st (from_config hashf (pools s) c bo n)) eqn:Hst; inversion R; subst; cbn [pools]; auto.
    pose proof (from_config_spec (pools s) c bo n W Hst d u) as S. cbv zeta in S. rewrite Lc in S.
    apply mem_In in Hu. rewrite Hu in S. destruct S as [pid' [A [B|[B _]]]].
    + rewrite Lo in B. inversion B; subst. assumption.
    + unfold no_reuse in B. rewrite Lo in B. congruence.
Qed.

Definition store_ok (ob : objs_t) (p : pools_t) : Prop :=
  forall k h pid, plookup k p = Some (h, pid) -> exists pd, In (pid, (k, pd)) ob /\ h = hashf pd.

Lemma in_effect_objs_mono : forall ob ob' c p, (forall x, In x ob -> In x ob') -> in_effect hashf ob c p -> in_effect hashf ob' c p.
Proof.
  intros ob ob' c p Hsub H d u. specialize (H d u). destruct (clookup d (cpools c)) as [[pd us]|]; auto.
  destruct (mem u us); auto. destruct H as [pid [pd' [A [B C]]]]. exists pid, pd'. auto.
Qed.

Lemma in_effect_cfg_eq : forall ob a b p, cfg_eqb a b = true -> in_effect hashf ob a p -> in_effect hashf ob b p.
Proof.
  intros ob a b p E H d u. specialize (H d u). rewrite <- (cfg_eqb_lookup a b d E). assumption.
Qed.

(** a changed or added definition is served by an object built by THIS reload from exactly that definition *)
Definition rebuilt (n n' : pool_id) (new : objs_t) (old : pools_t) (c : cfg) (p : pools_t) : Prop :=
  forall d u pd us, clookup d (cpools c) = Some (pd, us) -> In u us -> no_reuse old (d, u) pd ->
  exists pid, plookup (d, u) p = Some (hashf pd, pid) /\ n <= pid < n' /\ In (pid, ((d, u), pd)) new.

Lemma no_panic_status : forall old c bo n0, no_panic c bo = true -> a_st (from_config hashf old c bo n0) <> FcPanic.
Proof.
  intros old c bo n0 H. unfold from_config, no_panic in *. rewrite forallb_forall in H.
  assert (G : forall l a, (forall x, In x l -> match bo (fst (fst x)) (snd x) with BuildPanics => false | _ => true end = true) ->
              a_st a <> FcPanic -> a_st (fold_left (fc_step hashf old bo) l a) <> FcPanic).
  { induction l as [|x l IH]; intros a Hl Ha; cbn; auto. apply IH; [intros; apply Hl; right; assumption|].
    specialize (Hl x (or_introl eq_refl)). destruct x as [[d pd] u]. cbn [fst snd] in Hl. unfold fc_step.
    destruct (a_st a) eqn:E; try congruence.
    destruct (plookup (d, u) old) as [[h0 p0]|]; [destruct (h0 =? hashf pd)|]; cbn; try congruence;
    destruct (bo d u); cbn; congruence. }
  apply G; auto. cbn. congruence.
Qed.

(** [reload] answered Ok(true): CONFIG is the new file and POOLS is exactly what it describes *)
Lemma reload_built : forall ob s c bo n s' n' new,
  wf_cfg c -> store_ok ob (pools s) ->
  reload hashf s (Valid c bo) n = (s', ROk true, n', new) ->
  cfg_eqb (config s) c = false /\ config s' = c /\ in_effect hashf (new ++ ob) c (pools s') /\ rebuilt n n' new (pools s) c (pools s').
Proof.
  intros ob s c bo n s' n' new W SO R. cbn [reload] in R.
  destruct (cfg_eqb (config s) c) eqn:NE; [inversion R|]. split; auto.
  destruct (a_st (from_config hashf (pools s) c bo n)) eqn:Hst; inversion R; subst. clear R.
  split; auto. cbn [pools].
  pose proof (from_config_spec (pools s) c bo n W Hst) as S. cbv zeta in S. split.
  - intros d u. specialize (S d u). destruct (clookup d (cpools c)) as [[pd us]|]; auto.
    destruct (mem u us); auto. destruct S as [pid [A [B|[_ [B1 B2]]]]].
    + destruct (SO _ _ _ B) as [pd' [X Y]]. exists pid, pd'. split; auto. split; [apply in_or_app; auto|auto].
    + exists pid, pd. split; auto. split; [apply in_or_app; auto|auto].
  - intros d u pd us L Hu NR. specialize (S d u). rewrite L in S. apply mem_In in Hu. rewrite Hu in S.
    destruct S as [pid [A [B|[_ [B1 B2]]]]].
    + unfold no_reuse in NR. rewrite B in NR. congruence.
    + exists pid. auto.
Qed.

(** the results a reload with a valid, changed file can have *)
Lemma reload_result : forall s c bo n s' r n' new,
  cfg_eqb (config s) c = false -> reload hashf s (Valid c bo) n = (s', r, n', new) ->
  match a_st (from_config hashf (pools s) c bo n) with
  | FcOk => r = ROk true
  | FcErr => r = RErr /\ s' = s /\ n' = n /\ new = []
  | FcPanic => r = RPanic /\ s' = {| config := c; pools := pools s |} /\ n' = n /\ new = []
  end.
Proof.
  intros s c bo n s' r n' new NE R. cbn [reload] in R. rewrite NE in R.
  destruct (a_st (from_config hashf (pools s) c bo n)); inversion R; subst; auto.
Qed.

(** repaired F12: a build that FAILS leaves CONFIG, POOLS, the id supply and the objects as they were *)
Lemma failed_build_noop : forall s c bo n,
  cfg_eqb (config s) c = false -> a_st (from_config hashf (pools s) c bo n) = FcErr ->
  reload hashf s (Valid c bo) n = (s, RErr, n, []).
Proof. intros s c bo n NE Hst. cbn [reload]. rewrite NE, Hst. reflexivity. Qed.

(** ... so the next reload of the same file is not "unchanged": with the server back it builds *)
Lemma retry_rebuilds : forall ob s c bo bo' n,
  wf_cfg c -> store_ok ob (pools s) -> cfg_eqb (config s) c = false ->
  a_st (from_config hashf (pools s) c bo n) = FcErr -> all_built c bo' = true ->
  exists s1 r1 n1 new1 s2 n2 new2,
    reload hashf s (Valid c bo) n = (s1, r1, n1, new1) /\ r1 = RErr /\
    reload hashf s1 (Valid c bo') n1 = (s2, ROk true, n2, new2) /\
    config s2 = c /\ in_effect hashf (new2 ++ ob) c (pools s2).
Proof.
  intros ob s c bo bo' n W SO NE Hst AB.
  destruct (reload hashf s (Valid c bo') n) as [[[s2 r2] n2] new2] eqn:R2.
  pose proof (reload_result _ _ _ _ _ _ _ _ NE R2) as X. rewrite (all_built_ok (pools s) c bo' n AB) in X. subst r2.
  destruct (reload_built _ _ _ _ _ _ _ _ W SO R2) as [_ [A [B _]]].
  exists s, RErr, n, [], s2, n2, new2. rewrite (failed_build_noop _ _ _ _ NE Hst). auto.
Qed.

(** the remaining class: a PANIC in from_config after CONFIG was replaced — and the same file is "unchanged" from then on *)
Lemma partial_state : forall s c bo n,
  wf_cfg c -> cfg_eqb (config s) c = false -> a_st (from_config hashf (pools s) c bo n) = FcPanic ->
  let s1 := {| config := c; pools := pools s |} in
  reload hashf s (Valid c bo) n = (s1, RPanic, n, []) /\
  forall bo' n', reload hashf s1 (Valid c bo') n' = (s1, ROk false, n', []).
Proof.
  intros s c bo n W NE Hst s1. split.
  - cbn [reload]. rewrite NE, Hst. reflexivity.
  - intros bo' n'. cbn [reload]. subst s1. cbn [config pools]. rewrite (cfg_eqb_refl c W). reflexivity.
Qed.

(** ------------------------------------------------------------------ worlds *)

Lemma cl_lookup_remove_other : forall c d l, c <> d -> cl_lookup c (cl_remove d l) = cl_lookup c l.
Proof.
  induction l as [|[c0 x] t IH]; intros H; cbn; auto.
  destruct (c0 =? d) eqn:E; cbn.
  - apply Nat.eqb_eq in E. subst c0. destruct (c =? d) eqn:E2; [apply Nat.eqb_eq in E2; contradiction|]. auto.
  - destruct (c =? c0); auto.
Qed.

Lemma cl_lookup_remove_same : forall c l, cl_lookup c (cl_remove c l) = None.
Proof.
  induction l as [|[c0 x] t IH]; cbn; auto.
  destruct (c0 =? c) eqn:E; cbn; auto. rewrite Nat.eqb_sym in E. rewrite E. assumption.
Qed.

Lemma cl_lookup_set_other : forall c d x l, c <> d -> cl_lookup c (cl_set d x l) = cl_lookup c l.
Proof.
  intros. unfold cl_set. cbn. destruct (c =? d) eqn:E; [apply Nat.eqb_eq in E; contradiction|].
  apply cl_lookup_remove_other. assumption.
Qed.

Lemma cl_lookup_set_same : forall c x l, cl_lookup c (cl_set c x l) = Some x.
Proof. intros. unfold cl_set. cbn. rewrite Nat.eqb_refl. reflexivity. Qed.

Lemma cl_lookup_In : forall c x l, cl_lookup c l = Some x -> In (c, x) l.
Proof.
  induction l as [|[c0 y] t IH]; cbn; intros H; [discriminate|].
  destruct (c =? c0) eqn:E; [apply Nat.eqb_eq in E; inversion H; subst; auto|auto].
Qed.

Lemma gc_idem : forall w, gc (gc w) = gc w.
Proof.
  intros w. unfold gc. cbn. f_equal.
  induction (servers w) as [|x l IH]; cbn; auto.
  destruct (alive (st w) (clients w) (spool x) || is_held x) eqn:E; cbn; [rewrite E|]; congruence.
Qed.

Definition settled (w : world) : Prop := gc w = w.

Lemma step_settled : forall w o, settled (fst (step hashf w o)).
Proof. intros. unfold step, settled. destruct (step0 hashf w o) as [w' ob]. cbn. apply gc_idem. Qed.

Lemma gc_st : forall w, st (gc w) = st w. Proof. reflexivity. Qed.
Lemma gc_clients : forall w, clients (gc w) = clients w. Proof. reflexivity. Qed.
Lemma gc_objs : forall w, objs (gc w) = objs w. Proof. reflexivity. Qed.

Lemma gc_keeps_held : forall w x, In x (servers w) -> is_held x = true -> In x (servers (gc w)).
Proof. intros. cbn. apply filter_In. split; auto. rewrite H0. apply orb_true_r. Qed.

Lemma gc_keeps_store_pool : forall w x k h, In x (servers w) -> plookup k (pools (st w)) = Some (h, spool x) -> In x (servers (gc w)).
Proof.
  intros w x k h Hin L. cbn. apply filter_In. split; auto. apply orb_true_iff. left. unfold alive.
  apply orb_true_iff. left. apply existsb_exists. exists (k, (h, spool x)). split; [apply plookup_In; assumption|].
  cbn. apply Nat.eqb_refl.
Qed.

Lemma gc_sub : forall w x, In x (servers (gc w)) -> In x (servers w).
Proof. intros w x H. cbn in H. apply filter_In in H. tauto. Qed.

Lemma take_idle_keeps_held : forall p c l s l' x,
  take_idle p c l = Some (s, l') -> In x l -> is_held x = true -> In x l'.
Proof.
  induction l as [|y t IH]; cbn; intros s l' x H Hin Hh; [discriminate|].
  destruct (idle_of p y) eqn:E.
  - inversion H; subst. destruct Hin as [->|Hin]; [|right; assumption].
    unfold idle_of in E. rewrite Hh in E. cbn in E. rewrite andb_false_r in E. discriminate.
  - destruct (take_idle p c t) as [[s0 t0]|] eqn:T; [|discriminate]. inversion H; subst.
    destruct Hin as [->|Hin]; [left; reflexivity|right; eapply IH; eauto].
Qed.

Lemma take_idle_result : forall p c l s l',
  take_idle p c l = Some (s, l') -> In {| sid := s; spool := p; sholder := Some c |} l'.
Proof.
  induction l as [|y t IH]; cbn; intros s l' H; [discriminate|].
  destruct (idle_of p y) eqn:E.
  - inversion H; subst. left. unfold idle_of in E. apply andb_true_iff in E. destruct E as [E _].
    apply Nat.eqb_eq in E. rewrite E. reflexivity.
  - destruct (take_idle p c t) as [[s0 t0]|] eqn:T; [|discriminate]. inversion H; subst. right. eapply IH; eauto.
Qed.

Lemma release_keeps_other : forall c l x, In x l -> held_by c x = false -> In x (release c l).
Proof.
  intros. unfold release. apply in_or_app. left. apply filter_In. split; auto. rewrite H0. reflexivity.
Qed.

Lemma do_begin_others : forall w c0 y w1 ob c,
  do_begin w c0 y = (w1, ob) -> c <> c0 ->
  cl_lookup c (clients w1) = cl_lookup c (clients w) /\
  (forall srv, In srv (servers w) -> is_held srv = true -> In srv (servers w1)) /\
  st w1 = st w /\ objs w1 = objs w /\ next_pool w1 = next_pool w /\ paused w1 = paused w.
Proof.
  intros w c0 y w1 ob c D Hne. unfold do_begin in D.
  destruct (plookup (cdb y, cuser y) (pools (st w))) as [[h p]|].
  - destruct (take_idle p c0 (servers w)) as [[s l']|] eqn:T; inversion D; subst; cbn [clients servers st objs next_pool paused];
      rewrite cl_lookup_set_other by assumption; repeat split; auto.
    + intros srv Hin Hh. eapply take_idle_keeps_held; eauto.
    + intros srv Hin Hh. right. assumption.
  - inversion D; subst. cbn [clients servers with_clients st objs next_pool paused]. rewrite cl_lookup_remove_other by assumption. repeat split; auto.
Qed.

(** In-flight work: a step that is not the client's own leaves the client, its clone and the server it holds alone. *)
Lemma inflight_step : forall w o w' ob c x srv,
  step hashf w o = (w', ob) -> actor o <> Some c ->
  cl_lookup c (clients w) = Some x -> In srv (servers w) -> sholder srv = Some c ->
  cl_lookup c (clients w') = Some x /\ In srv (servers w').
Proof.
  intros w o w' ob c x srv S A L Hin Hh. unfold step in S. destruct (step0 hashf w o) as [w1 ob1] eqn:S0.
  inversion S; subst. clear S. rewrite gc_clients.
  assert (Hheld : is_held srv = true) by (unfold is_held; rewrite Hh; reflexivity).
  assert (G : cl_lookup c (clients w1) = Some x /\ In srv (servers w1)).
  { destruct o as [fo|c0 d u|c0|c0|c0|c0 ms|k|k|c0|k bi]; cbn [step0 actor] in *.
    - destruct (reload hashf (st w) fo (next_pool w)) as [[[s' r] n'] new]. inversion S0; subst. cbn. auto.
    - assert (c <> c0) by congruence.
      destruct (cl_lookup c0 (clients w)); [inversion S0; subst; auto|].
      destruct (plookup (d, u) (pools (st w))) as [[h p]|]; [|inversion S0; subst; auto].
      destruct (existsb (Nat.eqb p) (validated w)); inversion S0; subst;
        cbn [clients servers with_clients]; rewrite cl_lookup_set_other by assumption; split; auto.
      right. assumption.
    - assert (c <> c0) by congruence.
      destruct (cl_lookup c0 (clients w)) as [y|]; [|inversion S0; subst; auto].
      destruct (cheld y); [inversion S0; subst; auto|].
      destruct (existsb (Nat.eqb c0) (waiting w)); [inversion S0; subst; auto|].
      destruct (existsb (key_eqb (cdb y, cuser y)) (paused w)).
      { inversion S0; subst. cbn [clients servers]. split; auto.
        destruct (plookup (cdb y, cuser y) (pools (st w))) as [[h p]|]; auto. rewrite cl_lookup_set_other by assumption. assumption. }
      destruct (plookup (cdb y, cuser y) (pools (st w))) as [[h p]|].
      + destruct (take_idle p c0 (servers w)) as [[s l']|] eqn:T; inversion S0; subst; cbn [clients servers with_clients];
          rewrite cl_lookup_set_other by assumption; split; auto.
        * eapply take_idle_keeps_held; eauto.
        * right. assumption.
      + inversion S0; subst. cbn [clients servers with_clients]. rewrite cl_lookup_remove_other by assumption. auto.
    - assert (c <> c0) by congruence.
      destruct (cl_lookup c0 (clients w)) as [y|]; [|inversion S0; subst; auto].
      destruct (cheld y); inversion S0; subst; auto. cbn [clients servers with_clients]. rewrite cl_lookup_set_other by assumption. split; auto.
      apply release_keeps_other; auto. unfold held_by. rewrite Hh. apply Nat.eqb_neq. assumption.
    - assert (c <> c0) by congruence.
      destruct (cl_lookup c0 (clients w)) as [y|]; inversion S0; subst; auto. cbn [clients servers with_clients].
      rewrite cl_lookup_remove_other by assumption. split; auto.
      apply release_keeps_other; auto. unfold held_by. rewrite Hh. apply Nat.eqb_neq. assumption.
    - assert (c <> c0) by congruence.
      destruct (cl_lookup c0 (clients w)) as [y|]; [|inversion S0; subst; auto].
      destruct (cheld y); [|inversion S0; subst; auto].
      destruct (negb (ctmo y =? 0) && (ctmo y <=? ms)); inversion S0; subst; auto.
      cbn [clients servers with_clients]. rewrite cl_lookup_set_other by assumption. split; auto.
      apply release_keeps_other; auto. unfold held_by. rewrite Hh. apply Nat.eqb_neq. assumption.
    - destruct (has_pool (st w) k); inversion S0; subst; auto.
    - destruct (has_pool (st w) k); inversion S0; subst; auto.
    - assert (c <> c0) by congruence.
      destruct (cl_lookup c0 (clients w)) as [y|]; [|inversion S0; subst; auto].
      destruct (negb (existsb (Nat.eqb c0) (waiting w))); [inversion S0; subst; auto|].
      destruct (existsb (key_eqb (cdb y, cuser y)) (paused w)); [inversion S0; subst; auto|].
      destruct (do_begin_others _ _ _ _ _ c S0 H) as [E1 [E2 _]]. cbn [unwait clients servers] in E1, E2.
      rewrite E1. split; auto.
    - destruct (plookup k (pools (st w))) as [[h p]|]; inversion S0; subst; auto. }
  destruct G as [G1 G2]. split; auto. apply gc_keeps_held; assumption.
Qed.

Lemma inflight_run : forall l w w' obs c x srv,
  run hashf w l = (w', obs) -> Forall (fun o => actor o <> Some c) l ->
  cl_lookup c (clients w) = Some x -> In srv (servers w) -> sholder srv = Some c ->
  cl_lookup c (clients w') = Some x /\ In srv (servers w').
Proof.
  induction l as [|o t IH]; intros w w' obs c x srv R F L Hin Hh; cbn in R.
  - inversion R; subst. auto.
  - destruct (step hashf w o) as [w1 ob] eqn:S. destruct (run hashf w1 t) as [w2 obs2] eqn:R2. inversion R; subst.
    inversion F; subst. destruct (inflight_step _ _ _ _ _ _ _ S H1 L Hin Hh) as [A B].
    eapply IH; eauto.
Qed.

(** ... and the transaction then ends normally: the server goes back, idle, to the pool object it came from. *)
Lemma inflight_end : forall w c x s srv,
  cl_lookup c (clients w) = Some x -> cheld x = Some s -> In srv (servers w) -> sholder srv = Some c ->
  exists w', step hashf w (OEnd c) = (w', ObEnded) /\
             cl_lookup c (clients w') = Some {| cdb := cdb x; cuser := cuser x; cclone := cclone x; cheld := None; ctmo := ctmo x; cset := cset x |} /\
             (spool srv = cclone x -> In {| sid := sid srv; spool := spool srv; sholder := None |} (servers w')).
Proof.
  intros w c x s srv L Hh Hin Hs. unfold step. cbn [step0]. rewrite L, Hh. eexists. split; [reflexivity|].
  rewrite gc_clients. cbn [clients]. rewrite cl_lookup_set_same. split; auto.
  intros Hp. cbn. apply filter_In. split.
  - unfold release. apply in_or_app. right. apply in_map_iff. exists srv. split; auto. apply filter_In. split; auto.
    unfold held_by. rewrite Hs. apply Nat.eqb_refl.
  - cbn [spool]. apply orb_true_iff. left. unfold alive. apply orb_true_iff. right. apply existsb_exists.
    eexists. split; [left; reflexivity|]. cbn. rewrite Hp. apply Nat.eqb_refl.
Qed.

(** client steps never touch CONFIG, POOLS or the registry *)
Lemma client_step_store : forall w o w' ob, step hashf w o = (w', ob) -> actor o <> None ->
  st w' = st w /\ objs w' = objs w /\ next_pool w' = next_pool w /\ paused w' = paused w.
Proof.
  intros w o w' ob S A. unfold step in S. destruct (step0 hashf w o) as [w1 ob1] eqn:S0. inversion S; subst. clear S.
  rewrite gc_st, gc_objs. change (next_pool (gc w1)) with (next_pool w1). change (paused (gc w1)) with (paused w1).
  destruct o as [fo|c0 d u|c0|c0|c0|c0 ms|k|k|c0|k bi]; cbn [step0 actor] in *; try congruence.
  - destruct (cl_lookup c0 (clients w)); [inversion S0; subst; auto|].
    destruct (plookup (d, u) (pools (st w))) as [[h p]|]; [|inversion S0; subst; auto].
    destruct (existsb (Nat.eqb p) (validated w)); inversion S0; subst; auto.
  - destruct (cl_lookup c0 (clients w)) as [y|]; [|inversion S0; subst; auto].
    destruct (cheld y); [inversion S0; subst; auto|].
    destruct (existsb (Nat.eqb c0) (waiting w)); [inversion S0; subst; auto|].
    destruct (existsb (key_eqb (cdb y, cuser y)) (paused w)); [inversion S0; subst; auto|].
    destruct (plookup (cdb y, cuser y) (pools (st w))) as [[h p]|]; [|inversion S0; subst; auto].
    destruct (take_idle p c0 (servers w)) as [[s l']|]; inversion S0; subst; auto.
  - destruct (cl_lookup c0 (clients w)) as [y|]; [|inversion S0; subst; auto].
    destruct (cheld y); inversion S0; subst; auto.
  - destruct (cl_lookup c0 (clients w)) as [y|]; inversion S0; subst; auto.
  - destruct (cl_lookup c0 (clients w)) as [y|]; [|inversion S0; subst; auto].
    destruct (cheld y); [|inversion S0; subst; auto].
    destruct (negb (ctmo y =? 0) && (ctmo y <=? ms)); inversion S0; subst; auto.
  - destruct (cl_lookup c0 (clients w)) as [y|]; [|inversion S0; subst; auto].
    destruct (negb (existsb (Nat.eqb c0) (waiting w))); [inversion S0; subst; auto|].
    destruct (existsb (key_eqb (cdb y, cuser y)) (paused w)); [inversion S0; subst; auto|].
    destruct (do_begin_others _ _ _ _ _ (S c0) S0 (Nat.neq_succ_diag_l c0)) as [_ [_ [E1 [E2 [E3 E4]]]]]. auto.
Qed.

Lemma client_run_store : forall l w w' obs, run hashf w l = (w', obs) -> Forall (fun o => actor o <> None) l ->
  st w' = st w /\ objs w' = objs w /\ next_pool w' = next_pool w /\ paused w' = paused w.
Proof.
  induction l as [|o t IH]; intros w w' obs R F; cbn in R.
  - inversion R; subst. auto.
  - destruct (step hashf w o) as [w1 ob] eqn:S. destruct (run hashf w1 t) as [w2 obs2] eqn:R2. inversion R; subst.
    inversion F; subst. destruct (client_step_store _ _ _ _ S H1) as [A [B [C D]]].
    destruct (IH _ _ _ R2 H2) as [A' [B' [C' D']]]. repeat split; congruence.
Qed.

(** What OBegin does, as a function of POOLS at that moment. *)
Lemma begin_resolves : forall w c x,
  cl_lookup c (clients w) = Some x -> cheld x = None ->
  existsb (key_eqb (cdb x, cuser x)) (paused w) = false -> existsb (Nat.eqb c) (waiting w) = false ->
  match begin_txn (st w) (cdb x) (cuser x) with
  | Some p => exists w' s f, step hashf w (OBegin c) = (w', ObBegun p s f) /\
                cl_lookup c (clients w') = Some {| cdb := cdb x; cuser := cuser x; cclone := p; cheld := Some s; ctmo := cidle (config (st w)); cset := p |} /\
                In {| sid := s; spool := p; sholder := Some c |} (servers w')
  | None => exists w', step hashf w (OBegin c) = (w', ObNoPool) /\ cl_lookup c (clients w') = None /\
                st w' = st w /\ (forall y, In y (servers w') -> In y (servers w))
  end.
Proof.
  intros w c x L Hh Np Nw. unfold begin_txn, step. cbn [step0]. rewrite L, Hh, Nw, Np.
  destruct (plookup (cdb x, cuser x) (pools (st w))) as [[h p]|].
  - destruct (take_idle p c (servers w)) as [[s l']|] eqn:T.
    + eexists _, s, false. split; [reflexivity|]. rewrite gc_clients. cbn [clients]. rewrite cl_lookup_set_same. split; auto.
      apply gc_keeps_held; [|reflexivity]. cbn [servers]. eapply take_idle_result; eauto.
    + eexists _, (next_srv w), true. split; [reflexivity|]. rewrite gc_clients. cbn [clients]. rewrite cl_lookup_set_same. split; auto.
      apply gc_keeps_held; [|reflexivity]. cbn [servers]. left. reflexivity.
  - eexists. split; [reflexivity|]. rewrite gc_clients, gc_st. cbn [clients st with_clients]. rewrite cl_lookup_remove_same.
    split; auto. split; auto. intros y Hy. apply gc_sub in Hy. exact Hy.
Qed.

(** ------------------------------------------------------------------ invariants of every run *)

Definition objs_ok (ob : objs_t) (n : pool_id) : Prop :=
  (forall p x, In (p, x) ob -> p < n) /\ NoDup (map fst ob).

Definition clients_ok (ob : objs_t) (cl : list (cid * client)) : Prop :=
  forall c x, cl_lookup c cl = Some x -> exists pd, In (cclone x, ((cdb x, cuser x), pd)) ob.

Definition winv (w : world) : Prop :=
  store_ok (objs w) (pools (st w)) /\ objs_ok (objs w) (next_pool w) /\ clients_ok (objs w) (clients w).

Lemma from_config_np : forall old c bo n0, let a := from_config hashf old c bo n0 in a_st a = FcOk ->
  (forall k h pid, plookup k (a_np a) = Some (h, pid) ->
     exists pd, h = hashf pd /\ (plookup k old = Some (h, pid) \/ In (pid, (k, pd)) (a_new a))) /\
  (forall pid x, In (pid, x) (a_new a) -> n0 <= pid < a_next a) /\ NoDup (map fst (a_new a)) /\ n0 <= a_next a.
Proof.
  intros old c bo n0 a Hok. pose proof (from_config_inv _ _ _ _ Hok) as [I1 I2 I3 I4 I5]. fold a in I1, I2, I3, I4, I5.
  repeat split; auto; try (apply I4 in H; lia).
  intros k h pid L. destruct (I2 _ _ _ L) as [pd [_ [B C]]]. exists pd. split; auto. destruct C as [C|[_ [_ C]]]; auto.
Qed.

Lemma reload_fresh : forall s fo n s' r n' new, reload hashf s fo n = (s', r, n', new) ->
  n <= n' /\ (forall pid x, In (pid, x) new -> n <= pid < n') /\ NoDup (map fst new) /\
  (forall k h pid, plookup k (pools s') = Some (h, pid) ->
     plookup k (pools s) = Some (h, pid) \/ exists pd, h = hashf pd /\ In (pid, (k, pd)) new).
Proof.
  intros s fo n s' r n' new R. destruct fo as [| |w|c bo]; cbn [reload] in R;
    try (inversion R; subst; repeat split; auto; try (intros; cbn in *; tauto); constructor).
  destruct (cfg_eqb (config s) c).
  - inversion R; subst. repeat split; auto; try (intros; cbn in *; tauto). constructor.
  - destruct (a_st (from_config hashf (pools s) c bo n)) eqn:Hst; inversion R; subst;
      try (repeat split; auto; try (intros; cbn in *; tauto); constructor).
    destruct (from_config_np (pools s) c bo n Hst) as [A [B [C D]]]. repeat split; auto; try (apply B in H; lia).
    cbn [pools]. intros k h pid L. destruct (A _ _ _ L) as [pd [E [F|F]]]; [left; assumption|right; exists pd; auto].
Qed.

Lemma nodup_app : forall (a b : list nat), NoDup a -> NoDup b -> (forall x, In x a -> In x b -> False) -> NoDup (a ++ b).
Proof.
  induction a as [|x a IH]; intros b Ha Hb H; cbn; auto.
  inversion Ha; subst. constructor.
  - intros X. apply in_app_or in X. destruct X as [X|X]; [contradiction|]. apply (H x); [left; reflexivity|assumption].
  - apply IH; auto. intros y Y1 Y2. apply (H y); [right; assumption|assumption].
Qed.

Lemma do_begin_winv : forall w c0 y w1 ob,
  store_ok (objs w) (pools (st w)) -> clients_ok (objs w) (clients w) ->
  (exists pd, In (cclone y, ((cdb y, cuser y), pd)) (objs w)) ->
  do_begin w c0 y = (w1, ob) ->
  st w1 = st w /\ objs w1 = objs w /\ next_pool w1 = next_pool w /\ clients_ok (objs w) (clients w1).
Proof.
  intros w c0 y w1 ob SO CO _ D. unfold do_begin in D.
  destruct (plookup (cdb y, cuser y) (pools (st w))) as [[h p]|] eqn:Lp.
  - assert (G : forall s t, clients_ok (objs w) (cl_set c0 {| cdb := cdb y; cuser := cuser y; cclone := p; cheld := s; ctmo := t; cset := p |} (clients w))).
    { intros s t c x L. destruct (Nat.eq_dec c c0) as [->|Hne].
      - rewrite cl_lookup_set_same in L. inversion L; subst. cbn. destruct (SO _ _ _ Lp) as [pd [A _]]. eauto.
      - rewrite cl_lookup_set_other in L by assumption. eauto. }
    destruct (take_idle p c0 (servers w)) as [[s l']|]; inversion D; subst; cbn; repeat split; auto.
  - inversion D; subst. cbn. repeat split; auto. intros c x L. destruct (Nat.eq_dec c c0) as [->|Hne].
    + rewrite cl_lookup_remove_same in L. discriminate.
    + rewrite cl_lookup_remove_other in L by assumption. eauto.
Qed.

Lemma winv_step : forall w o w' ob, winv w -> step hashf w o = (w', ob) -> winv w'.
Proof.
  intros w o w' ob [SO [[OK1 OK2] CO]] S. unfold step in S. destruct (step0 hashf w o) as [w1 ob1] eqn:S0.
  inversion S; subst. clear S. unfold winv. rewrite gc_st, gc_objs, gc_clients. change (next_pool (gc w1)) with (next_pool w1).
  destruct o as [fo|c0 d u|c0|c0|c0|c0 ms|k|k|c0|k bi]; cbn [step0] in S0.
  - destruct (reload hashf (st w) fo (next_pool w)) as [[[s' r] n'] new] eqn:R. inversion S0; subst. cbn.
    destruct (reload_fresh _ _ _ _ _ _ _ R) as [F1 [F2 [F3 F4]]]. repeat split.
    + intros k h pid L. destruct (F4 _ _ _ L) as [X|[pd [X Y]]].
      * destruct (SO _ _ _ X) as [pd [A B]]. exists pd. split; auto. apply in_or_app. auto.
      * exists pd. split; auto. apply in_or_app. auto.
    + intros p x Hin. apply in_app_or in Hin. destruct Hin as [Hin|Hin]; [apply F2 in Hin; lia|apply OK1 in Hin; lia].
    + rewrite map_app. apply nodup_app; auto. intros p H1 H2. apply in_map_iff in H1. apply in_map_iff in H2.
      destruct H1 as [[p1 x1] [E1 H1]]. destruct H2 as [[p2 x2] [E2 H2]]. cbn in E1, E2. subst.
      apply F2 in H1. apply OK1 in H2. lia.
    + intros c x L. destruct (CO _ _ L) as [pd A]. exists pd. apply in_or_app. auto.
  - destruct (cl_lookup c0 (clients w)) eqn:L0; [inversion S0; subst; repeat split; auto|].
    destruct (plookup (d, u) (pools (st w))) as [[h p]|] eqn:Lp; [|inversion S0; subst; repeat split; auto].
    assert (G : clients_ok (objs w) (cl_set c0 {| cdb := d; cuser := u; cclone := p; cheld := None; ctmo := 0; cset := p |} (clients w))).
    { intros c x L. destruct (Nat.eq_dec c c0) as [->|Hne].
      - rewrite cl_lookup_set_same in L. inversion L; subst. cbn. destruct (SO _ _ _ Lp) as [pd [A _]]. eauto.
      - rewrite cl_lookup_set_other in L by assumption. eauto. }
    destruct (existsb (Nat.eqb p) (validated w)); inversion S0; subst; cbn; repeat split; auto.
  - destruct (cl_lookup c0 (clients w)) as [y|] eqn:L0; [|inversion S0; subst; repeat split; auto].
    destruct (cheld y); [inversion S0; subst; repeat split; auto|].
    destruct (existsb (Nat.eqb c0) (waiting w)); [inversion S0; subst; repeat split; auto|].
    destruct (existsb (key_eqb (cdb y, cuser y)) (paused w)).
    { inversion S0; subst. cbn. repeat split; auto.
      destruct (plookup (cdb y, cuser y) (pools (st w))) as [[h p]|] eqn:Lp; auto.
      intros c x L. destruct (Nat.eq_dec c c0) as [->|Hne].
      - rewrite cl_lookup_set_same in L. inversion L; subst. cbn. destruct (SO _ _ _ Lp) as [pd [A _]]. eauto.
      - rewrite cl_lookup_set_other in L by assumption. eauto. }
    destruct (do_begin_winv w c0 y _ _ SO CO (CO _ _ L0) S0) as [E1 [E2 [E3 E4]]]. rewrite E1, E2, E3. repeat split; auto.
  - destruct (cl_lookup c0 (clients w)) as [y|] eqn:L0; [|inversion S0; subst; repeat split; auto].
    destruct (cheld y); inversion S0; subst; repeat split; auto. cbn.
    intros c x L. destruct (Nat.eq_dec c c0) as [->|Hne].
    + rewrite cl_lookup_set_same in L. inversion L; subst. cbn. apply (CO _ _ L0).
    + rewrite cl_lookup_set_other in L by assumption. eauto.
  - destruct (cl_lookup c0 (clients w)) as [y|] eqn:L0; inversion S0; subst; repeat split; auto. cbn.
    intros c x L. destruct (Nat.eq_dec c c0) as [->|Hne].
    + rewrite cl_lookup_remove_same in L. discriminate.
    + rewrite cl_lookup_remove_other in L by assumption. eauto.
  - destruct (cl_lookup c0 (clients w)) as [y|] eqn:L0; [|inversion S0; subst; repeat split; auto].
    destruct (cheld y); [|inversion S0; subst; repeat split; auto].
    destruct (negb (ctmo y =? 0) && (ctmo y <=? ms)); inversion S0; subst; repeat split; auto. cbn.
    intros c x L. destruct (Nat.eq_dec c c0) as [->|Hne].
    + rewrite cl_lookup_set_same in L. inversion L; subst. cbn. apply (CO _ _ L0).
    + rewrite cl_lookup_set_other in L by assumption. eauto.
  - destruct (has_pool (st w) k); inversion S0; subst; repeat split; auto.
  - destruct (has_pool (st w) k); inversion S0; subst; repeat split; auto.
  - destruct (cl_lookup c0 (clients w)) as [y|] eqn:L0; [|inversion S0; subst; repeat split; auto].
    destruct (negb (existsb (Nat.eqb c0) (waiting w))); [inversion S0; subst; repeat split; auto|].
    destruct (existsb (key_eqb (cdb y, cuser y)) (paused w)); [inversion S0; subst; repeat split; auto|].
    destruct (do_begin_winv (unwait w c0) _ _ _ _ SO CO (CO _ _ L0) S0) as [E1 [E2 [E3 E4]]]. rewrite E1, E2, E3. repeat split; auto.
  - destruct (plookup k (pools (st w))) as [[h p]|]; inversion S0; subst; repeat split; auto.
Qed.

Lemma winv_empty : winv empty_world.
Proof.
  unfold winv, empty_world, store_ok, objs_ok, clients_ok. cbn. repeat split; intros; try discriminate; try tauto. constructor.
Qed.

Lemma winv_run : forall l w w' obs, winv w -> run hashf w l = (w', obs) -> winv w'.
Proof.
  induction l as [|o t IH]; intros w w' obs I R; cbn in R.
  - inversion R; subst. assumption.
  - destruct (step hashf w o) as [w1 ob] eqn:S. destruct (run hashf w1 t) as [w2 obs2] eqn:R2. inversion R; subst.
    apply (IH w1 w' obs2); [eapply winv_step; eauto|assumption].
Qed.

Lemma objs_functional : forall (l : objs_t) p a b, NoDup (map fst l) -> In (p, a) l -> In (p, b) l -> a = b.
Proof.
  induction l as [|[q v] t IH]; intros p a b ND Ha Hb; [destruct Ha|].
  cbn in ND. inversion ND as [|? ? Hn ND']; subst. destruct Ha as [Ha|Ha]; destruct Hb as [Hb|Hb].
  - inversion Ha; inversion Hb; subst. reflexivity.
  - inversion Ha; subst. exfalso. apply Hn. apply in_map_iff. exists (p, b). auto.
  - inversion Hb; subst. exfalso. apply Hn. apply in_map_iff. exists (p, a). auto.
  - eapply IH; eauto.
Qed.

(** A transaction never runs on a pool object built for another (database, user). *)
Lemma no_foreign_pool : forall w c x w' p s f,
  winv w -> cl_lookup c (clients w) = Some x -> step hashf w (OBegin c) = (w', ObBegun p s f) ->
  (exists pd, In (p, ((cdb x, cuser x), pd)) (objs w)) /\
  (forall k pd, In (p, (k, pd)) (objs w) -> k = (cdb x, cuser x)) /\
  In {| sid := s; spool := p; sholder := Some c |} (servers w').
Proof.
  intros w c x w' p s f [SO [[OK1 OK2] CO]] L S.
  assert (Hh : cheld x = None).
  { unfold step in S. cbn [step0] in S. rewrite L in S. destruct (cheld x); [inversion S|reflexivity]. }
  assert (Np : existsb (key_eqb (cdb x, cuser x)) (paused w) = false).
  { unfold step in S. cbn [step0] in S. rewrite L, Hh in S.
    destruct (existsb (Nat.eqb c) (waiting w)); [inversion S|].
    destruct (existsb (key_eqb (cdb x, cuser x)) (paused w)); [inversion S|reflexivity]. }
  assert (Nw : existsb (Nat.eqb c) (waiting w) = false).
  { unfold step in S. cbn [step0] in S. rewrite L, Hh in S.
    destruct (existsb (Nat.eqb c) (waiting w)); [inversion S|reflexivity]. }
  pose proof (begin_resolves w c x L Hh Np Nw) as B. unfold begin_txn in B.
  destruct (plookup (cdb x, cuser x) (pools (st w))) as [[h p0]|] eqn:Lp.
  - destruct B as [w2 [s2 [f2 [B1 [B2 B3]]]]]. rewrite S in B1. inversion B1; subst.
    destruct (SO _ _ _ Lp) as [pd [A _]]. split; [eauto|]. split; auto.
    intros k pd' Hin.
    assert (E : (k, pd') = ((cdb x, cuser x), pd)) by (eapply objs_functional; eauto).
    inversion E. reflexivity.
  - destruct B as [w2 [B1 _]]. rewrite S in B1. inversion B1.
Qed.

(** CONFIG and POOLS agree after every run in which no build failed. *)
Definition agree (w : world) : Prop := in_effect hashf (objs w) (config (st w)) (pools (st w)).

Lemma agree_step : forall w o w' ob, winv w -> agree w -> op_wf o -> op_known_panic o = false ->
  step hashf w o = (w', ob) -> agree w'.
Proof.
  intros w o w' ob I A W K S. destruct (actor o) eqn:Ac.
  - assert (actor o <> None) by congruence. destruct (client_step_store _ _ _ _ S H) as [E1 [E2 _]].
    unfold agree. rewrite E1, E2. exact A.
  - destruct o as [fo| | | | | |k|k| |k bi]; cbn in Ac; try discriminate.
    2,3: (unfold step in S; cbn [step0] in S; destruct (has_pool (st w) k); inversion S; subst; exact A).
    2: (unfold step in S; cbn [step0] in S; destruct (plookup k (pools (st w))) as [[h p]|]; inversion S; subst; exact A).
    unfold step in S. cbn [step0] in S.
    destruct (reload hashf (st w) fo (next_pool w)) as [[[s' r] n'] new] eqn:R. inversion S; subst. clear S.
    unfold agree. rewrite gc_st, gc_objs. cbn [st objs].
    destruct fo as [| |wy|c bo].
    + cbn in R. inversion R; subst. exact A.
    + cbn in R. inversion R; subst. exact A.
    + cbn in R. inversion R; subst. exact A.
    + cbn in W, K. apply negb_false_iff in K. destruct (cfg_eqb (config (st w)) c) eqn:E.
      * cbn [reload] in R. rewrite E in R. inversion R; subst. cbn. eapply in_effect_cfg_eq; eauto.
      * destruct I as [SO _]. pose proof (reload_result _ _ _ _ _ _ _ _ E R) as X.
        pose proof (no_panic_status (pools (st w)) c bo (next_pool w) K) as NP.
        destruct (a_st (from_config hashf (pools (st w)) c bo (next_pool w))); try congruence.
        -- subst r. destruct (reload_built _ _ _ _ _ _ _ _ W SO R) as [_ [Ec [Y _]]]. rewrite Ec. exact Y.
        -- destruct X as [_ [-> [_ ->]]]. exact A.
Qed.

Lemma agree_run : forall l w w' obs, winv w -> agree w -> Forall op_wf l -> existsb op_known_panic l = false ->
  run hashf w l = (w', obs) -> agree w'.
Proof.
  induction l as [|o t IH]; intros w w' obs I A W K R; cbn in R.
  - inversion R; subst. assumption.
  - destruct (step hashf w o) as [w1 ob] eqn:S. destruct (run hashf w1 t) as [w2 obs2] eqn:R2. inversion R; subst.
    cbn in K. apply orb_false_iff in K. destruct K as [K1 K2]. inversion W; subst.
    apply (IH w1 w' obs2); auto; [eapply winv_step; eauto|eapply agree_step; eauto].
Qed.

Lemma agree_empty : agree empty_world.
Proof. intros d u. cbn. reflexivity. Qed.


(** ------------------------------------------------------------------ world-level forms *)

Lemma world_eta : forall w, {| st := st w; objs := objs w; next_pool := next_pool w; clients := clients w;
                               servers := servers w; next_srv := next_srv w; validated := validated w; bans := bans w; waiting := waiting w; paused := paused w |} = w.
Proof. destruct w; reflexivity. Qed.

Lemma invalid_noop_world : forall w fo, settled w -> invalid fo -> step hashf w (OReload fo) = (w, ObReload RErr).
Proof.
  intros w fo Hs Hi. unfold step. cbn [step0]. rewrite (invalid_noop _ _ _ Hi). cbn [app]. rewrite world_eta. rewrite Hs. reflexivity.
Qed.

Lemma run_settled : forall l w w' obs, settled w -> run hashf w l = (w', obs) -> settled w'.
Proof.
  induction l as [|o t IH]; intros w w' obs Hs R; cbn in R.
  - inversion R; subst. assumption.
  - destruct (step hashf w o) as [w1 ob] eqn:S. destruct (run hashf w1 t) as [w2 obs2] eqn:R2. inversion R; subst.
    apply (IH w1 w' obs2); [|assumption]. pose proof (step_settled w o) as X. rewrite S in X. exact X.
Qed.

Lemma settled_empty : settled empty_world.
Proof. reflexivity. Qed.

Lemma unchanged_kept_world : forall w c bo w' ob d u h pid pd us,
  wf_cfg c -> step hashf w (OReload (Valid c bo)) = (w', ob) ->
  plookup (d, u) (pools (st w)) = Some (h, pid) ->
  clookup d (cpools c) = Some (pd, us) -> In u us -> hashf pd = h ->
  plookup (d, u) (pools (st w')) = Some (h, pid) /\
  clients w' = clients w /\
  (forall x, In x (servers w) -> spool x = pid -> In x (servers w')).
Proof.
  intros w c bo w' ob d u h pid pd us W S Lo Lc Hu Hh. unfold step in S. cbn [step0] in S.
  destruct (reload hashf (st w) (Valid c bo) (next_pool w)) as [[[s' r] n'] new] eqn:R. inversion S; subst. clear S.
  pose proof (unchanged_kept _ _ _ _ _ _ _ _ _ _ _ _ _ _ W R Lo Lc Hu eq_refl) as K.
  rewrite gc_st, gc_clients. cbn [st clients]. split; auto. split; auto.
  intros x Hin Hp. eapply gc_keeps_store_pool with (k := (d, u)) (h := hashf pd); [exact Hin|]. cbn [st]. rewrite Hp. exact K.
Qed.

(** only registered pools are paused: PAUSE needs the pool, a reload that removes a pool resumes it *)
Definition pinv (w : world) : Prop := forall k, In k (paused w) -> has_pool (st w) k = true.

Lemma reload_keeps_pools : forall s fo n s' r n' new, reload hashf s fo n = (s', r, n', new) -> r <> ROk true -> pools s' = pools s.
Proof.
  intros s fo n s' r n' new R NR. destruct fo as [| |wy|c bo]; cbn [reload] in R; try (inversion R; subst; reflexivity).
  destruct (cfg_eqb (config s) c); [inversion R; subst; reflexivity|].
  destruct (a_st (from_config hashf (pools s) c bo n)); inversion R; subst; auto. congruence.
Qed.

Lemma pinv_step : forall w o w' ob, pinv w -> step hashf w o = (w', ob) -> pinv w'.
Proof.
  intros w o w' ob P S. destruct (actor o) eqn:Ac.
  - assert (Hc : actor o <> None) by congruence. destruct (client_step_store _ _ _ _ S Hc) as [E [_ [_ Ep]]].
    intros k Hk. rewrite Ep in Hk. unfold has_pool. rewrite E. apply P. assumption.
  - unfold step in S. destruct (step0 hashf w o) as [w1 ob1] eqn:S0. inversion S; subst. clear S.
    intros k Hk. change (paused (gc w1)) with (paused w1) in Hk. rewrite gc_st.
    destruct o as [fo| | | | | |k0|k0| |k0 bi]; cbn [step0 actor] in *; try discriminate.
    + destruct (reload hashf (st w) fo (next_pool w)) as [[[s' r] n'] new] eqn:R. inversion S0; subst. cbn [st paused] in *.
      destruct r as [|[|]|].
      * unfold has_pool. rewrite (reload_keeps_pools _ _ _ _ _ _ _ R) by congruence. apply P. assumption.
      * apply filter_In in Hk. tauto.
      * unfold has_pool. rewrite (reload_keeps_pools _ _ _ _ _ _ _ R) by congruence. apply P. assumption.
      * unfold has_pool. rewrite (reload_keeps_pools _ _ _ _ _ _ _ R) by congruence. apply P. assumption.
    + destruct (has_pool (st w) k0) eqn:H0; inversion S0; subst; cbn [st paused] in *; [|auto].
      destruct Hk as [<-|Hk]; auto.
    + destruct (has_pool (st w) k0) eqn:H0; inversion S0; subst; cbn [st paused] in *; [|auto].
      apply filter_In in Hk. apply P. tauto.
    + destruct (plookup k0 (pools (st w))) as [[h p]|]; inversion S0; subst; cbn [st paused] in *; auto.
Qed.

Lemma pinv_run : forall l w w' obs, pinv w -> run hashf w l = (w', obs) -> pinv w'.
Proof.
  induction l as [|o t IH]; intros w w' obs I R; cbn in R.
  - inversion R; subst. assumption.
  - destruct (step hashf w o) as [w1 ob] eqn:S. destruct (run hashf w1 t) as [w2 obs2] eqn:R2. inversion R; subst.
    apply (IH w1 w' obs2); [eapply pinv_step; eauto|assumption].
Qed.

Lemma pinv_empty : pinv empty_world.
Proof. intros k []. Qed.

Lemma pinv_not_paused : forall w k, pinv w -> has_pool (st w) k = false -> existsb (key_eqb k) (paused w) = false.
Proof.
  intros w k P H. destruct (existsb (key_eqb k) (paused w)) eqn:E; auto.
  apply existsb_exists in E. destruct E as [k' [Hin Hk]]. apply key_eqb_eq in Hk. subst k'.
  rewrite (P _ Hin) in H. discriminate.
Qed.

(** ------------------------------------------------------------------ transactions held by PAUSE *)

Definition is_reload (o : op) : bool := match o with OReload _ => true | _ => false end.
Definition is_waiting (w : world) (c : cid) : bool := existsb (Nat.eqb c) (waiting w).
(** how the next transaction of a client starts: a client parked in wait_paused() goes on, any other begins *)
Definition start_op (w : world) (c : cid) : op := if is_waiting w c then OWake c else OBegin c.

Lemma quiet_step_store : forall w o w' ob, step hashf w o = (w', ob) -> is_reload o = false ->
  st w' = st w /\ objs w' = objs w /\ next_pool w' = next_pool w.
Proof.
  intros w o w' ob S Q. destruct (actor o) eqn:Ac.
  - assert (Hc : actor o <> None) by congruence. destruct (client_step_store _ _ _ _ S Hc) as [A [B [C _]]]. auto.
  - unfold step in S. destruct (step0 hashf w o) as [w1 ob1] eqn:S0. inversion S; subst. clear S.
    rewrite gc_st, gc_objs. change (next_pool (gc w1)) with (next_pool w1).
    destruct o as [fo| | | | | |k|k| |k bi]; cbn in Ac, Q; try discriminate; cbn [step0] in S0;
      [destruct (has_pool (st w) k)|destruct (has_pool (st w) k)|destruct (plookup k (pools (st w))) as [[h p]|]]; inversion S0; subst; auto.
Qed.

Lemma quiet_run_store : forall l w w' obs, run hashf w l = (w', obs) -> Forall (fun o => is_reload o = false) l ->
  st w' = st w /\ objs w' = objs w /\ next_pool w' = next_pool w.
Proof.
  induction l as [|o t IH]; intros w w' obs R F; cbn in R.
  - inversion R; subst. auto.
  - destruct (step hashf w o) as [w1 ob] eqn:S. destruct (run hashf w1 t) as [w2 obs2] eqn:R2. inversion R; subst.
    inversion F; subst. destruct (quiet_step_store _ _ _ _ S H1) as [A [B C]].
    destruct (IH _ _ _ R2 H2) as [A' [B' C']]. repeat split; congruence.
Qed.

Lemma do_begin_resolves : forall w c x,
  match begin_txn (st w) (cdb x) (cuser x) with
  | Some p => exists w' s f, do_begin w c x = (w', ObBegun p s f) /\
                cl_lookup c (clients w') = Some {| cdb := cdb x; cuser := cuser x; cclone := p; cheld := Some s; ctmo := cidle (config (st w)); cset := p |} /\
                In {| sid := s; spool := p; sholder := Some c |} (servers w')
  | None => exists w', do_begin w c x = (w', ObNoPool) /\ cl_lookup c (clients w') = None /\
                st w' = st w /\ servers w' = servers w
  end.
Proof.
  intros w c x. unfold begin_txn, do_begin.
  destruct (plookup (cdb x, cuser x) (pools (st w))) as [[h p]|].
  - destruct (take_idle p c (servers w)) as [[s l']|] eqn:T.
    + eexists _, s, false. split; [reflexivity|]. cbn [clients servers]. rewrite cl_lookup_set_same. split; auto.
      eapply take_idle_result; eauto.
    + eexists _, (next_srv w), true. split; [reflexivity|]. cbn [clients servers]. rewrite cl_lookup_set_same. split; auto.
      left. reflexivity.
  - eexists. split; [reflexivity|]. cbn [clients st servers with_clients]. rewrite cl_lookup_remove_same. auto.
Qed.

(** A transaction that was held by PAUSE reads POOLS and CONFIG when it actually starts ([OWake]), not when its
    first statement arrived: the outcome is a function of the store at that moment. *)
Lemma wake_resolves : forall w c x,
  cl_lookup c (clients w) = Some x -> is_waiting w c = true ->
  existsb (key_eqb (cdb x, cuser x)) (paused w) = false ->
  match begin_txn (st w) (cdb x) (cuser x) with
  | Some p => exists w' s f, step hashf w (OWake c) = (w', ObBegun p s f) /\
                cl_lookup c (clients w') = Some {| cdb := cdb x; cuser := cuser x; cclone := p; cheld := Some s; ctmo := cidle (config (st w)); cset := p |} /\
                In {| sid := s; spool := p; sholder := Some c |} (servers w')
  | None => exists w', step hashf w (OWake c) = (w', ObNoPool) /\ cl_lookup c (clients w') = None /\
                st w' = st w /\ (forall y, In y (servers w') -> In y (servers w))
  end.
Proof.
  intros w c x L Wt Np. unfold step. cbn [step0]. unfold is_waiting in Wt. rewrite L, Wt, Np. cbn [negb].
  pose proof (do_begin_resolves (unwait w c) c x) as D. cbn [unwait st] in D.
  destruct (begin_txn (st w) (cdb x) (cuser x)).
  - destruct D as [w' [s [f [D1 [D2 D3]]]]]. rewrite D1. eexists _, s, f. split; [reflexivity|].
    rewrite gc_clients. split; auto. apply gc_keeps_held; [assumption|reflexivity].
  - destruct D as [w' [D1 [D2 [D3 D4]]]]. rewrite D1. eexists. split; [reflexivity|]. rewrite gc_clients, gc_st.
    split; auto. split; auto. intros y Hy. apply gc_sub in Hy. rewrite D4 in Hy. exact Hy.
Qed.

Lemma start_resolves : forall w c x,
  cl_lookup c (clients w) = Some x -> cheld x = None ->
  existsb (key_eqb (cdb x, cuser x)) (paused w) = false ->
  match begin_txn (st w) (cdb x) (cuser x) with
  | Some p => exists w' s f, step hashf w (start_op w c) = (w', ObBegun p s f) /\
                cl_lookup c (clients w') = Some {| cdb := cdb x; cuser := cuser x; cclone := p; cheld := Some s; ctmo := cidle (config (st w)); cset := p |} /\
                In {| sid := s; spool := p; sholder := Some c |} (servers w')
  | None => exists w', step hashf w (start_op w c) = (w', ObNoPool) /\ cl_lookup c (clients w') = None /\
                st w' = st w /\ (forall y, In y (servers w') -> In y (servers w))
  end.
Proof.
  intros w c x L Hh Np. unfold start_op. destruct (is_waiting w c) eqn:Wt.
  - apply wake_resolves; assumption.
  - apply begin_resolves; assumption.
Qed.

Lemma later_begin : forall w1 ops w2 obs cl x,
  Forall (fun o => is_reload o = false) ops -> run hashf w1 ops = (w2, obs) ->
  cl_lookup cl (clients w2) = Some x -> cheld x = None ->
  existsb (key_eqb (cdb x, cuser x)) (paused w2) = false ->
  match begin_txn (st w1) (cdb x) (cuser x) with
  | Some p => exists w3 s f, step hashf w2 (start_op w2 cl) = (w3, ObBegun p s f) /\
                cl_lookup cl (clients w3) = Some {| cdb := cdb x; cuser := cuser x; cclone := p; cheld := Some s; ctmo := cidle (config (st w1)); cset := p |} /\
                In {| sid := s; spool := p; sholder := Some cl |} (servers w3)
  | None => exists w3, step hashf w2 (start_op w2 cl) = (w3, ObNoPool) /\ cl_lookup cl (clients w3) = None /\
                st w3 = st w2 /\ (forall y, In y (servers w3) -> In y (servers w2))
  end.
Proof.
  intros w1 ops w2 obs cl x F R L Hh Np. destruct (quiet_run_store _ _ _ _ R F) as [E _]. rewrite <- E.
  exact (start_resolves w2 cl x L Hh Np).
Qed.

(** After a reload whose builds all succeed, per (pool, user): what [get_pool] resolves to. *)
Lemma changed_in_effect : forall w c bo w1,
  winv w -> wf_cfg c ->
  step hashf w (OReload (Valid c bo)) = (w1, ObReload (ROk true)) ->
  config (st w1) = c /\
  forall d u,
    match clookup d (cpools c) with
    | Some (pd, us) =>
        if mem u us
        then exists p pd', begin_txn (st w1) d u = Some p /\ In (p, ((d, u), pd')) (objs w1) /\ hashf pd' = hashf pd /\
               (no_reuse (pools (st w)) (d, u) pd -> next_pool w <= p /\ pd' = pd)
        else begin_txn (st w1) d u = None
    | None => begin_txn (st w1) d u = None
    end.
Proof.
  intros w c bo w1 I W S. pose proof (winv_step _ _ _ _ I S) as I1. unfold step in S. cbn [step0] in S.
  destruct (reload hashf (st w) (Valid c bo) (next_pool w)) as [[[s' r] n'] new] eqn:R. inversion S; subst. clear S.
  destruct I as [SO I']. destruct (reload_built _ _ _ _ _ _ _ _ W SO R) as [_ [Ec [IE RB]]].
  rewrite gc_st. cbn [st]. split; auto. intros d u. specialize (IE d u). unfold begin_txn.
  destruct (clookup d (cpools c)) as [[pd us]|] eqn:L.
  - destruct (mem u us) eqn:M.
    + destruct IE as [pid [pd' [A [B C]]]]. exists pid, pd'. rewrite A. rewrite gc_objs. cbn [objs]. repeat split; auto;
        destruct (RB d u pd us L (proj1 (mem_In _ _) M) H) as [pid2 [A2 [B2 C2]]]; rewrite A in A2; inversion A2; subst; [lia|].
      destruct I1 as [_ [[_ ND] _]]. rewrite gc_objs in ND. cbn [objs] in ND.
      assert (X : ((d, u), pd') = ((d, u), pd)) by (eapply objs_functional; [exact ND|exact B|apply in_or_app; left; exact C2]).
      inversion X. reflexivity.
    + rewrite IE. reflexivity.
  - rewrite IE. reflexivity.
Qed.

Lemma removed_pool_error : forall w c bo w1 ops w2 obs cl x,
  winv w -> pinv w -> wf_cfg c ->
  step hashf w (OReload (Valid c bo)) = (w1, ObReload (ROk true)) ->
  Forall (fun o => is_reload o = false) ops -> run hashf w1 ops = (w2, obs) ->
  cl_lookup cl (clients w2) = Some x -> cheld x = None ->
  (match clookup (cdb x) (cpools c) with Some (_, us) => ~ In (cuser x) us | None => True end) ->
  exists w3, step hashf w2 (start_op w2 cl) = (w3, ObNoPool) /\ cl_lookup cl (clients w3) = None /\
             st w3 = st w2 /\ (forall y, In y (servers w3) -> In y (servers w2)).
Proof.
  intros w c bo w1 ops w2 obs cl x I P W S F R L Hh Rm.
  destruct (changed_in_effect _ _ _ _ I W S) as [_ CE]. specialize (CE (cdb x) (cuser x)).
  assert (N : begin_txn (st w1) (cdb x) (cuser x) = None).
  { destruct (clookup (cdb x) (cpools c)) as [[pd us]|]; [apply mem_false in Rm; rewrite Rm in CE|]; exact CE. }
  assert (Np : existsb (key_eqb (cdb x, cuser x)) (paused w2) = false).
  { apply pinv_not_paused; [eapply pinv_run; [eapply pinv_step; eauto|eauto]|].
    destruct (quiet_run_store _ _ _ _ R F) as [E _]. unfold has_pool. rewrite E. unfold begin_txn in N.
    destruct (plookup (cdb x, cuser x) (pools (st w1))) as [[h p]|]; [discriminate|reflexivity]. }
  pose proof (later_begin _ _ _ _ _ _ F R L Hh Np) as LB. rewrite N in LB. exact LB.
Qed.

Lemma changed_in_effect_txn : forall w c bo w1 ops w2 obs cl x pd us,
  winv w -> wf_cfg c ->
  step hashf w (OReload (Valid c bo)) = (w1, ObReload (ROk true)) ->
  Forall (fun o => is_reload o = false) ops -> run hashf w1 ops = (w2, obs) ->
  cl_lookup cl (clients w2) = Some x -> cheld x = None ->
  existsb (key_eqb (cdb x, cuser x)) (paused w2) = false ->
  clookup (cdb x) (cpools c) = Some (pd, us) -> In (cuser x) us ->
  exists w3 p s f pd' y, step hashf w2 (start_op w2 cl) = (w3, ObBegun p s f) /\
    In {| sid := s; spool := p; sholder := Some cl |} (servers w3) /\
    In (p, ((cdb x, cuser x), pd')) (objs w2) /\ hashf pd' = hashf pd /\
    (no_reuse (pools (st w)) (cdb x, cuser x) pd -> next_pool w <= p /\ pd' = pd) /\
    cl_lookup cl (clients w3) = Some y /\ cclone y = p /\ cset y = p /\ ctmo y = cidle c.
Proof.
  intros w c bo w1 ops w2 obs cl x pd us I W S F R L Hh Np Lc Hu.
  destruct (changed_in_effect _ _ _ _ I W S) as [Ec CE]. specialize (CE (cdb x) (cuser x)).
  pose proof (later_begin _ _ _ _ _ _ F R L Hh Np) as LB. rewrite Lc in CE. apply mem_In in Hu. rewrite Hu in CE.
  destruct CE as [p [pd' [A [B [C D]]]]]. rewrite A in LB. destruct LB as [w3 [s [f [X [Y Z]]]]].
  destruct (quiet_run_store _ _ _ _ R F) as [_ [Eo _]].
  eexists w3, p, s, f, pd', _. rewrite Eo. rewrite Ec in Y. repeat split; eauto; try (apply D; assumption).
Qed.

(** ------------------------------------------------------------------ settings a transaction started with *)

(** Whether an open transaction times out after [ms] of silence is decided by the value its client read when the
    server was checked out ([ctmo]) — not by CONFIG at the time of the silence. *)
Lemma idle_outcome : forall w c x s ms,
  cl_lookup c (clients w) = Some x -> cheld x = Some s ->
  snd (step hashf w (OIdle c ms)) = if negb (ctmo x =? 0) && (ctmo x <=? ms) then ObTimedOut else ObIdled.
Proof.
  intros w c x s ms L Hh. unfold step. cbn [step0]. rewrite L, Hh.
  destruct (negb (ctmo x =? 0) && (ctmo x <=? ms)); reflexivity.
Qed.

(** ... hence no reload (and nothing else that is not the client's own step) changes it. *)
Lemma inflight_timeout_fixed : forall l w w' obs c x s srv ms,
  run hashf w l = (w', obs) -> Forall (fun o => actor o <> Some c) l ->
  cl_lookup c (clients w) = Some x -> cheld x = Some s -> In srv (servers w) -> sholder srv = Some c ->
  snd (step hashf w' (OIdle c ms)) = snd (step hashf w (OIdle c ms)).
Proof.
  intros l w w' obs c x s srv ms R F L Hh Hin Hs.
  destruct (inflight_run _ _ _ _ _ _ _ R F L Hin Hs) as [L' _].
  rewrite (idle_outcome w' c x s ms L' Hh), (idle_outcome w c x s ms L Hh). reflexivity.
Qed.

(** a silence shorter than the timeout the transaction started with, or any silence when it started with none,
    leaves the client and its server as they are *)
Lemma idle_within_is_noop : forall w c x s ms, settled w ->
  cl_lookup c (clients w) = Some x -> cheld x = Some s -> (ctmo x = 0 \/ ms < ctmo x) ->
  step hashf w (OIdle c ms) = (w, ObIdled).
Proof.
  intros w c x s ms Hs L Hh H. unfold step. cbn [step0]. rewrite L, Hh.
  assert (E : negb (ctmo x =? 0) && (ctmo x <=? ms) = false).
  { destruct H as [H|H]; [rewrite H; reflexivity|]. apply andb_false_iff. right. apply Nat.leb_gt. assumption. }
  rewrite E. rewrite Hs. reflexivity.
Qed.

(** new transactions read the value of the configuration in force when they start *)
Lemma begin_reads_timeout : forall w c x w' p s f,
  cl_lookup c (clients w) = Some x -> step hashf w (OBegin c) = (w', ObBegun p s f) ->
  exists y, cl_lookup c (clients w') = Some y /\ ctmo y = cidle (config (st w)) /\ cheld y = Some s.
Proof.
  intros w c x w' p s f L S. unfold step in S. cbn [step0] in S. rewrite L in S.
  destruct (cheld x); [inversion S|].
  destruct (existsb (Nat.eqb c) (waiting w)); [inversion S|].
  destruct (existsb (key_eqb (cdb x, cuser x)) (paused w)); [inversion S|].
  destruct (plookup (cdb x, cuser x) (pools (st w))) as [[h p0]|]; [|inversion S].
  destruct (take_idle p0 c (servers w)) as [[s0 l']|]; inversion S; subst; rewrite gc_clients; cbn [clients];
    rewrite cl_lookup_set_same; eexists; split; try reflexivity; auto.
Qed.

(** ------------------------------------------------------------------ removal does not look at the pause flag *)

(** what a reload step reads and writes of the world: the store and the id supply — not the pause flags *)
Lemma reload_step_store : forall w fo w' ob, step hashf w (OReload fo) = (w', ob) ->
  exists s' r n' new, reload hashf (st w) fo (next_pool w) = (s', r, n', new) /\ st w' = s' /\ ob = ObReload r /\ next_pool w' = n'.
Proof.
  intros w fo w' ob S. unfold step in S. cbn [step0] in S.
  destruct (reload hashf (st w) fo (next_pool w)) as [[[s' r] n'] new]. inversion S; subst. exists s', r, n', new. auto.
Qed.

(** after a reload that answered Ok(true) no unregistered pool is paused: the pools it removed were resumed,
    whatever their flag was (no hypothesis on [paused w]) *)
Lemma removed_are_resumed : forall w fo w1, step hashf w (OReload fo) = (w1, ObReload (ROk true)) ->
  forall k, has_pool (st w1) k = false -> ~ In k (paused w1).
Proof.
  intros w fo w1 S k H Hin. unfold step in S. cbn [step0] in S.
  destruct (reload hashf (st w) fo (next_pool w)) as [[[s' r] n'] new]. inversion S; subst.
  change (paused (gc ?x)) with (paused x) in Hin. rewrite gc_st in H. cbn [st paused] in *.
  apply filter_In in Hin. destruct Hin as [_ Hin]. congruence.
Qed.

(** ------------------------------------------------------------------ what else a reload leaves alone *)

(** a reload that does not answer Ok(true) — unreadable, invalid, unchanged, build failed, build panicked — leaves the
    registered pools, the pause flags, the ban lists, the clients and the waiters exactly as they were *)
Lemma refused_reload_keeps_flags : forall w fo w' r, step hashf w (OReload fo) = (w', ObReload r) -> r <> ROk true ->
  pools (st w') = pools (st w) /\ paused w' = paused w /\ bans w' = bans w /\ clients w' = clients w /\ waiting w' = waiting w.
Proof.
  intros w fo w' r S NR. unfold step in S. cbn [step0] in S.
  destruct (reload hashf (st w) fo (next_pool w)) as [[[s' r0] n'] new] eqn:R. inversion S; subst. clear S.
  rewrite gc_st, gc_clients. cbn. split; [eapply reload_keeps_pools; eauto|].
  destruct r as [|[|]|]; try congruence; auto.
Qed.

(** ban lists belong to pool objects: no reload, whatever its result, touches them ... *)
Lemma reload_keeps_bans : forall w fo w' ob, step hashf w (OReload fo) = (w', ob) -> bans w' = bans w.
Proof.
  intros w fo w' ob S. unfold step in S. cbn [step0] in S.
  destruct (reload hashf (st w) fo (next_pool w)) as [[[s' r] n'] new]. inversion S; subst. reflexivity.
Qed.

Definition binv (w : world) : Prop := forall p i, In (p, i) (bans w) -> p < next_pool w.

Lemma binv_step : forall w o w' ob, winv w -> binv w -> step hashf w o = (w', ob) -> binv w'.
Proof.
  intros w o w' ob I B S. destruct (is_reload o) eqn:Q.
  - destruct o as [fo| | | | | | | | |]; try discriminate. intros p i Hin. rewrite (reload_keeps_bans _ _ _ _ S) in Hin.
    unfold step in S. cbn [step0] in S. destruct (reload hashf (st w) fo (next_pool w)) as [[[s' r] n'] new] eqn:R. inversion S; subst.
    destruct (reload_fresh _ _ _ _ _ _ _ R) as [F1 _]. change (next_pool (gc ?x)) with (next_pool x). cbn. specialize (B _ _ Hin). lia.
  - destruct (quiet_step_store _ _ _ _ S Q) as [_ [_ En]]. intros p i Hin. rewrite En.
    unfold step in S. destruct (step0 hashf w o) as [w1 ob1] eqn:S0. inversion S; subst. change (bans (gc w1)) with (bans w1) in Hin.
    unfold binv in B.
    destruct o as [fo|c0 d u|c0|c0|c0|c0 ms|k|k|c0|k bi]; try discriminate; cbn [step0] in S0.
    + destruct (cl_lookup c0 (clients w)); [inversion S0; subst; eauto|].
      destruct (plookup (d, u) (pools (st w))) as [[h q]|]; [|inversion S0; subst; eauto].
      destruct (existsb (Nat.eqb q) (validated w)); inversion S0; subst; eauto.
    + destruct (cl_lookup c0 (clients w)) as [y|]; [|inversion S0; subst; eauto].
      destruct (cheld y); [inversion S0; subst; eauto|].
      destruct (existsb (Nat.eqb c0) (waiting w)); [inversion S0; subst; eauto|].
      destruct (existsb (key_eqb (cdb y, cuser y)) (paused w)); [inversion S0; subst; eauto|].
      destruct (plookup (cdb y, cuser y) (pools (st w))) as [[h q]|]; [|inversion S0; subst; eauto].
      destruct (take_idle q c0 (servers w)) as [[s l']|]; inversion S0; subst; eauto.
    + destruct (cl_lookup c0 (clients w)) as [y|]; [|inversion S0; subst; eauto].
      destruct (cheld y); inversion S0; subst; eauto.
    + destruct (cl_lookup c0 (clients w)) as [y|]; inversion S0; subst; eauto.
    + destruct (cl_lookup c0 (clients w)) as [y|]; [|inversion S0; subst; eauto].
      destruct (cheld y); [|inversion S0; subst; eauto].
      destruct (negb (ctmo y =? 0) && (ctmo y <=? ms)); inversion S0; subst; eauto.
    + destruct (has_pool (st w) k); inversion S0; subst; eauto.
    + destruct (has_pool (st w) k); inversion S0; subst; eauto.
    + destruct (cl_lookup c0 (clients w)) as [y|]; [|inversion S0; subst; eauto].
      destruct (negb (existsb (Nat.eqb c0) (waiting w))); [inversion S0; subst; eauto|].
      destruct (existsb (key_eqb (cdb y, cuser y)) (paused w)); [inversion S0; subst; eauto|].
      unfold do_begin in S0. cbn [unwait st servers] in S0.
      destruct (plookup (cdb y, cuser y) (pools (st w))) as [[h q]|]; [|inversion S0; subst; eauto].
      destruct (take_idle q c0 (servers w)) as [[s l']|]; inversion S0; subst; eauto.
    + destruct (plookup k (pools (st w))) as [[h q]|] eqn:L; inversion S0; subst; eauto. cbn in Hin.
      destruct Hin as [E|Hin]; eauto. inversion E; subst.
      destruct I as [SO [[OK1 _] _]]. destruct (SO _ _ _ L) as [pd [A _]]. eapply OK1; eauto.
Qed.

Lemma binv_run : forall l w w' obs, winv w -> binv w -> run hashf w l = (w', obs) -> binv w'.
Proof.
  induction l as [|o t IH]; intros w w' obs I B R; cbn in R.
  - inversion R; subst. assumption.
  - destruct (step hashf w o) as [w1 ob] eqn:S. destruct (run hashf w1 t) as [w2 obs2] eqn:R2. inversion R; subst.
    apply (IH w1 w' obs2); [eapply winv_step; eauto|eapply binv_step; eauto|assumption].
Qed.

(** ... and an object built by a reload starts with an empty list: per (pool, user) after ANY reload, either the
    registered object is the one that was registered before (its bans stay), or it has no ban at all *)
Lemma rebuilt_pool_no_bans : forall w fo w' ob k h p,
  binv w -> step hashf w (OReload fo) = (w', ob) -> plookup k (pools (st w')) = Some (h, p) ->
  plookup k (pools (st w)) = Some (h, p) \/ (forall i, ~ In (p, i) (bans w')).
Proof.
  intros w fo w' ob k h p B S L. rewrite (reload_keeps_bans _ _ _ _ S).
  unfold step in S. cbn [step0] in S. destruct (reload hashf (st w) fo (next_pool w)) as [[[s' r] n'] new] eqn:R. inversion S; subst.
  rewrite gc_st in L. cbn [st] in L. destruct (reload_fresh _ _ _ _ _ _ _ R) as [_ [F2 [_ F4]]].
  destruct (F4 _ _ _ L) as [X|[pd [_ Y]]]; [left; assumption|right].
  intros i Hin. apply F2 in Y. apply B in Hin. lia.
Qed.

End WithHash.

(** ------------------------------------------------------------------ witnesses (hash = identity) *)

Definition f12_old : cfg := {| cgen := 1; cidle := 0; cpools := [(0, (10, [0]))] |}.
Definition f12_new : cfg := {| cgen := 1; cidle := 0; cpools := [(0, (11, [0]))] |}.
(** start with f12_old; a client of (0,0) connects; the file becomes f12_new while the build of pool (0,0)
    fails; the same file is reloaded once more, now with every build succeeding; the client begins. *)
Definition f12_ops : list op :=
  [OReload (Valid f12_old (bo_of [] [])); OConnect 0 0 0;
   OReload (Valid f12_new (bo_of [(0, 0)] [])); OReload (Valid f12_new (bo_of [] [])); OBegin 0].
(** the same with a build that panics *)
Definition panic_ops : list op :=
  [OReload (Valid f12_old (bo_of [] [])); OConnect 0 0 0;
   OReload (Valid f12_new (bo_of [] [(0, 0)])); OReload (Valid f12_new (bo_of [] [])); OBegin 0].

(** F12 as repaired: the failed reload changes nothing, the retry rebuilds, the client runs on the new object *)
Lemma f12_regression :
  exists w, run idh empty_world f12_ops =
              (w, [ObReload (ROk true); ObConnected 0; ObReload RErr; ObReload (ROk true); ObBegun 1 1 true]) /\
            config (st w) = f12_new /\ pools (st w) = [((0, 0), (11, 1))] /\ agree idh w /\
            fst (run idh empty_world (firstn 3 f12_ops)) = fst (run idh empty_world (firstn 2 f12_ops)).
Proof.
  eexists. split; [vm_compute; reflexivity|]. cbn [st config pools]. repeat split; auto.
  intros d u. destruct d as [|[|d]]; destruct u as [|u]; vm_compute; eauto.
  exists 1, 11. auto.
Qed.

Lemma panic_partial_refuted :
  Forall op_wf panic_ops /\
  exists w, run idh empty_world panic_ops =
              (w, [ObReload (ROk true); ObConnected 0; ObReload RPanic; ObReload (ROk false); ObBegun 0 0 false]) /\
            config (st w) = f12_new /\ pools (st w) = [((0, 0), (10, 0))] /\ objs w = [(0, ((0, 0), 10))] /\
            ~ agree idh w.
Proof.
  split.
  - unfold panic_ops. repeat constructor; cbn; intros []; contradiction.
  - eexists. split; [vm_compute; reflexivity|]. cbn. repeat split; auto.
    intros A. specialize (A 0 0). vm_compute in A. destruct A as [pid [pd' [E _]]]. discriminate.
Qed.

(** ------------------------------------------------------------------ forms over runs from start-up *)

Lemma every_run_settled : forall hashf l w obs, run hashf empty_world l = (w, obs) -> settled w.
Proof. intros hashf l w obs. apply run_settled. exact settled_empty. Qed.

Lemma winv_every_run : forall hashf ops w obs, run hashf empty_world ops = (w, obs) -> winv hashf w.
Proof. intros hashf ops w obs R. eapply winv_run; eauto. apply winv_empty. Qed.

Lemma pinv_every_run : forall hashf ops w obs, run hashf empty_world ops = (w, obs) -> pinv w.
Proof. intros hashf ops w obs R. eapply pinv_run; eauto. apply pinv_empty. Qed.

Lemma binv_every_run : forall hashf ops w obs, run hashf empty_world ops = (w, obs) -> binv w.
Proof. intros hashf ops w obs R. eapply binv_run; eauto. apply winv_empty. intros p i []. Qed.

Lemma config_pools_agree : forall hashf ops w obs,
  Forall op_wf ops -> existsb op_known_panic ops = false ->
  run hashf empty_world ops = (w, obs) -> agree hashf w.
Proof.
  intros hashf ops w obs W K R. eapply agree_run; eauto. apply winv_empty. apply agree_empty.
Qed.

Lemma in_effect_exact : forall hashf ob c p, hash_inj hashf -> in_effect hashf ob c p ->
  forall d u pd us, clookup d (cpools c) = Some (pd, us) -> In u us ->
  exists pid, plookup (d, u) p = Some (hashf pd, pid) /\ In (pid, ((d, u), pd)) ob.
Proof.
  intros hashf ob c p Inj H d u pd us L Hu. specialize (H d u). rewrite L in H.
  apply mem_In in Hu. rewrite Hu in H. destruct H as [pid [pd' [A [B C]]]]. apply Inj in C. subst. eauto.
Qed.

Lemma no_foreign_pool_run : forall hashf ops w obs c x w' p s f,
  run hashf empty_world ops = (w, obs) ->
  cl_lookup c (clients w) = Some x -> step hashf w (OBegin c) = (w', ObBegun p s f) ->
  (exists pd, In (p, ((cdb x, cuser x), pd)) (objs w)) /\
  (forall k pd, In (p, (k, pd)) (objs w) -> k = (cdb x, cuser x)) /\
  In {| sid := s; spool := p; sholder := Some c |} (servers w').
Proof.
  intros hashf ops w obs c x w' p s f R. apply no_foreign_pool. eapply winv_every_run; eauto.
Qed.
