(** C14 — live reload is safe: valid configs take effect, invalid ones change nothing.

    Executable model (definitions only) of the two process globals a reload touches
    ([CONFIG], [POOLS]), of the client tasks at the granularity "resolve my pool / hold a
    server connection for one transaction", and of the server connections owned by each
    ConnectionPool object.  Proofs: Proofs.v; property theorems: Props.v.

    The code modelled (/repo/src):

    config.rs:1614-1649  parse(path): File::open / read_to_string        (error => Err)  = [Unreadable]
                         toml::from_str                                   (error => Err)  = [TomlError]
                         fill_up_auth_query_config(); validate()?         (error => Err)  = [Invalid why]
                         config.path = path; CONFIG.store(Arc::new(config))  -- BEFORE any pool is built
                                                                                          = [Valid c _]
    config.rs:1651-1684  reload_config: old_config = get_config(); parse(&old_config.path) (Err => return
                         Err(BadConfig), nothing stored); new_config = get_config();
                         [if old_config != new_config] { if let Err(err) = ConnectionPool::from_config(..).await
                           { CONFIG.store(Arc::new(old_config)); return Err(err) }  Ok(true) }
                         else { Ok(false) }                                               = [reload]
                         (until commit 0510794 the Err branch was [from_config(..).await?]: CONFIG stayed new,
                          POOLS old, every later reload of the same file said "unchanged" — finding F12; that
                          version is kept as the mutant [reload_store_first] in Mutants.v.  Between parse()
                          and the restore CONFIG holds the new file for the duration of the failed build:
                          a reload is one atomic step in this model.)
                         Config: #[derive(PartialEq)] over path, general, plugins and the HashMap of
                         pools (order-independent)                                        = [cfg_eqb]
    config.rs:638-642    Pool::hash_value: DefaultHasher over the [pools.<name>] section only (its
                         users and shards included, nothing of [general])                 = [hashf pd]
    pool.rs:312-620      from_config: config = get_config(); for (pool_name, pool_config) in &config.pools
                         { for user in pool_config.users.values() {
                             old_pool_ref = get_pool(pool_name, &user.username)   -- reads POOLS (the OLD map)
                             if old.config_hash == new_pool_hash_value { new_pools.insert(id, old.clone()); continue }
                             ... build one bb8 pool per server:
                                 if validate_config { pool.build(manager).await? } else { build_unchecked }
                                 (bb8 api.rs:367-370 build = start_connections: with min_idle > 0 it connects
                                  and returns the manager's error after connection_timeout)  = [BuildFails]
                                 (bb8 builder assertions, Regex::new(..).unwrap(), unreachable!(): excluded
                                  today by Config::validate, kept as an outcome)             = [BuildPanics]
                             new_pools.insert(id, pool) } }
                         POOLS.store(Arc::new(new_pools))   -- once, at the end          = [from_config]
    pool.rs:1258-1263    get_pool(db, user) = POOLS.load().get(&PoolIdentifier::new(db, user)).cloned()
                                                                                          = [plookup]
    client.rs:575-592    startup: get_pool(pool_name, username); None => "No pool configured" error
    client.rs:893-898    handle(): [let mut pool = self.get_pool().await?] — the task owns one clone of its
                         ConnectionPool from here on                                      = [OConnect]
    client.rs:1081       before every checkout: [pool = self.get_pool().await?] — the new clone replaces
                         (and thereby drops) the one of the previous transaction          = [OBegin]
    client.rs:1686-1707  get_pool: None => error_response "No pool configured for database .." and Err:
                         handle() returns, the task ends, its clone is dropped            = [ObNoPool]
    client.rs:1139-1628  the checked-out server (a bb8 PooledConnection) is a local of the transaction
                         loop: returned to ITS pool object at the end of the transaction  = [OEnd]
    admin.rs:566-588     RELOAD = reload_config(..).await? (an Err ends the admin session)
    main.rs:217-223      SIGHUP arm = reload_config(..); main.rs:172-186 autoreload = the same call.

    Environment (assumed, exercised by props/c14.py over the wire harness):
    - a ConnectionPool is a bundle of Arcs: its bb8 pools (and their idle server connections) live
      exactly as long as one clone exists ([alive]); dropping the last clone closes the idle
      connections ([gc]); a checked-out connection is owned by its borrower.
    - pools are built with validate_config = false in the tie (build_unchecked, no connection is opened by
      from_config); the first client of a pool object then validates it (client.rs:738-755 -> pool.rs:628-670):
      one connection per server is opened and goes back idle.  The model has ONE server address per pool.
    - bb8 hands out the idle connection that was returned first (Fifo, pool.rs:493-496 with
      server_round_robin = true, the value serde fills in when the key is absent: config.rs:453)
      and opens a new one when none is idle; pool_size is not modelled (C04): the tie keeps the
      number of concurrent transactions below it.
    - [hashf] is a parameter; theorems that need "different definitions have different hashes"
      say so ([hash_inj]): 64-bit SipHash collisions are not excluded by the code. *)
From Coq Require Import Arith Bool List.
Import ListNotations.

Definition db := nat.          (* pool name = the database a client asks for *)
Definition user := nat.
Definition pdef := nat.        (* a [pools.<name>] section (users, shards, modes...): what hash_value hashes *)
Definition gen := nat.         (* everything else in the file: [general], [plugins] *)
Definition hash := nat.
Definition pool_id := nat.     (* identity of a ConnectionPool object = its bb8 pools = its server connections *)
Definition server_id := nat.   (* one server connection *)
Definition cid := nat.         (* one client task *)
Definition key := (db * user)%type.   (* PoolIdentifier *)

(** [cidle] = general.idle_client_in_transaction_timeout in ms (0 = none): the one setting of [general] a client
    task reads from CONFIG itself (config.rs:1632); everything else of [general] is abstract in [cgen]. *)
Record cfg := { cgen : gen; cidle : nat; cpools : list (db * (pdef * list user)) }.

Definition pools_t := list (key * (hash * pool_id)).
Record store := { config : cfg; pools : pools_t }.

(** ghost: the definition every pool object was built from (never read by the model's decisions) *)
Definition objs_t := list (pool_id * (key * pdef)).

Definition key_eqb (a b : key) : bool := (fst a =? fst b) && (snd a =? snd b).

Fixpoint plookup (k : key) (l : pools_t) : option (hash * pool_id) :=
  match l with
  | [] => None
  | (k', v) :: t => if key_eqb k k' then Some v else plookup k t
  end.

(** HashMap::insert *)
Fixpoint pupsert (k : key) (v : hash * pool_id) (l : pools_t) : pools_t :=
  match l with
  | [] => [(k, v)]
  | (k', v') :: t => if key_eqb k k' then (k, v) :: t else (k', v') :: pupsert k v t
  end.

Fixpoint clookup (d : db) (l : list (db * (pdef * list user))) : option (pdef * list user) :=
  match l with
  | [] => None
  | (d', v) :: t => if d =? d' then Some v else clookup d t
  end.

Definition mem (u : user) (us : list user) : bool := existsb (Nat.eqb u) us.

Fixpoint users_eqb (a b : list user) : bool :=
  match a, b with
  | [], [] => true
  | x :: a', y :: b' => (x =? y) && users_eqb a' b'
  | _, _ => false
  end.

Definition entry_eqb (a b : pdef * list user) : bool := (fst a =? fst b) && users_eqb (snd a) (snd b).

Definition sub_cfg (a b : list (db * (pdef * list user))) : bool :=
  forallb (fun e => match clookup (fst e) b with Some v => entry_eqb (snd e) v | None => false end) a.

(** [old_config != new_config] (config.rs:1669), negated *)
Definition cfg_eqb (a b : cfg) : bool :=
  (cgen a =? cgen b) && (cidle a =? cidle b) && sub_cfg (cpools a) (cpools b) && sub_cfg (cpools b) (cpools a).

(** pool names are the keys of a HashMap *)
Definition wf_cfg (c : cfg) : Prop := NoDup (map fst (cpools c)).

(** the (pool, user) pairs in the order from_config visits them *)
Definition flat (c : cfg) : list (db * pdef * user) :=
  flat_map (fun e => map (fun u => (fst e, fst (snd e), u)) (snd (snd e))) (cpools c).

Inductive build_outcome := Built | BuildFails | BuildPanics.
Inductive file_outcome :=
| Unreadable
| TomlError
| Invalid (why : nat)
| Valid (c : cfg) (bo : db -> user -> build_outcome).
Inductive result := RErr | ROk (changed : bool) | RPanic.
Inductive fc_status := FcOk | FcErr | FcPanic.

Record fcacc := { a_np : pools_t; a_next : pool_id; a_new : objs_t; a_st : fc_status }.

Section WithHash.
Variable hashf : pdef -> hash.

(** one (pool, user) of the new configuration: pool.rs:322-615 *)
Definition fc_step (old : pools_t) (bo : db -> user -> build_outcome) (a : fcacc) (x : db * pdef * user) : fcacc :=
  let '(d, pd, u) := x in
  match a_st a with
  | FcOk =>
      let reuse := match plookup (d, u) old with
                   | Some (h, pid) => if h =? hashf pd then Some (h, pid) else None   (* pool.rs:329 *)
                   | None => None
                   end in
      match reuse with
      | Some v => {| a_np := pupsert (d, u) v (a_np a); a_next := a_next a; a_new := a_new a; a_st := FcOk |}
      | None =>
          match bo d u with
          | Built => {| a_np := pupsert (d, u) (hashf pd, a_next a) (a_np a); a_next := S (a_next a);
                        a_new := (a_next a, ((d, u), pd)) :: a_new a; a_st := FcOk |}
          | BuildFails => {| a_np := a_np a; a_next := a_next a; a_new := a_new a; a_st := FcErr |}     (* pool.rs:514 [?] *)
          | BuildPanics => {| a_np := a_np a; a_next := a_next a; a_new := a_new a; a_st := FcPanic |}
          end
      end
  | _ => a
  end.

Definition from_config (old : pools_t) (c : cfg) (bo : db -> user -> build_outcome) (next : pool_id) : fcacc :=
  fold_left (fc_step old bo) (flat c) {| a_np := []; a_next := next; a_new := []; a_st := FcOk |}.

(** reload_config.  [next] = first unused pool id; returns the new store, the result, the next
    unused id and the pool objects built (and kept) by this call. *)
Definition reload (s : store) (fo : file_outcome) (next : pool_id) : store * result * pool_id * objs_t :=
  match fo with
  | Unreadable | TomlError | Invalid _ => (s, RErr, next, [])
  | Valid c bo =>
      let s1 := {| config := c; pools := pools s |} in                 (* parse(): CONFIG.store, config.rs:1646 *)
      if cfg_eqb (config s) c then (s1, ROk false, next, [])          (* config.rs:1669/1673 *)
      else
        let a := from_config (pools s) c bo next in
        match a_st a with
        | FcOk => ({| config := c; pools := a_np a |}, ROk true, a_next a, a_new a)   (* POOLS.store, pool.rs:618 *)
        | FcErr => (s, RErr, next, [])          (* config.rs:1669-1680 (repair 0510794): [if let Err(err) = from_config ..
                                                   { CONFIG.store(Arc::new(old_config)); return Err(err) }] *)
        | FcPanic => (s1, RPanic, next, [])     (* a panic unwinds through reload_config: nothing restores CONFIG *)
        end
  end.

(** ------------------------------------------------------------------ clients and servers *)

(** [ctmo]: the idle-in-transaction timeout this client's CURRENT transaction runs under — read once, when the
    server is checked out (client.rs:1208-1211), not while the transaction is open *)
Record client := { cdb : db; cuser : user; cclone : pool_id; cheld : option server_id; ctmo : nat;
                   cset : pool_id   (* the pool object whose settings the client's query router works with (plugins, parser
                                       flags, sharding function and shard count, default role): query_router.update_pool_settings,
                                       client.rs: at start-up, when a message
                                       arrives in the idle state (c3cef0c; in this model the first message of a transaction IS its [OBegin]) and in the
                                       refresh block of every checkout.  NOT covered by [cset]: the session's active role, copied from default_role at
                                       connect only (finding D4) *) }.
Record server := { sid : server_id; spool : pool_id; sholder : option cid }.

Record world := {
  st : store;
  objs : objs_t;
  next_pool : pool_id;
  clients : list (cid * client);
  servers : list server;       (* open server connections; idle ones of a pool in hand-out order *)
  next_srv : server_id;
  validated : list pool_id;    (* pool objects whose [validated] flag is set (shared by all clones) *)
  bans : list (pool_id * nat); (* banned servers: the ban list is a field of the pool OBJECT (pool.rs: [banlist: Arc::new(RwLock::new(
                                  one empty map per shard of THIS definition))] in from_config), keyed here by (object, address index) *)
  waiting : list cid;          (* clients held in pool.wait_paused() at the start of a transaction (client.rs:1099-1100) *)
  paused : list key            (* PAUSEd pools.  The flag is an Arc shared by every clone and handed on to the object a
                                  reload builds for the same key (pool.rs from_config, dae4e52): one flag per key *)
}.

Fixpoint cl_lookup (c : cid) (l : list (cid * client)) : option client :=
  match l with
  | [] => None
  | (c', x) :: t => if c =? c' then Some x else cl_lookup c t
  end.

Definition cl_remove (c : cid) (l : list (cid * client)) : list (cid * client) :=
  filter (fun e => negb (fst e =? c)) l.

Definition cl_set (c : cid) (x : client) (l : list (cid * client)) : list (cid * client) :=
  (c, x) :: cl_remove c l.

(** a pool object lives while POOLS or a client task holds a clone of it *)
Definition alive (s : store) (cl : list (cid * client)) (p : pool_id) : bool :=
  existsb (fun e => snd (snd e) =? p) (pools s) || existsb (fun e => cclone (snd e) =? p) cl.

Definition is_held (x : server) : bool := match sholder x with Some _ => true | None => false end.

(** dropping the last clone of a pool object closes its idle server connections *)
Definition gc (w : world) : world :=
  {| st := st w; objs := objs w; next_pool := next_pool w; clients := clients w;
     servers := filter (fun x => alive (st w) (clients w) (spool x) || is_held x) (servers w);
     next_srv := next_srv w; validated := validated w; bans := bans w; waiting := waiting w; paused := paused w |}.

Definition idle_of (p : pool_id) (x : server) : bool :=
  (spool x =? p) && negb (is_held x).

Fixpoint take_idle (p : pool_id) (c : cid) (l : list server) : option (server_id * list server) :=
  match l with
  | [] => None
  | x :: t =>
      if idle_of p x then Some (sid x, {| sid := sid x; spool := spool x; sholder := Some c |} :: t)
      else match take_idle p c t with
           | Some (s, t') => Some (s, x :: t')
           | None => None
           end
  end.

Definition held_by (c : cid) (x : server) : bool :=
  match sholder x with Some c' => c' =? c | None => false end.

(** the servers held by [c] go back to the BACK of the idle queue, [take_idle] takes from the front
    (bb8 Fifo: internals.rs:106 push_back, :241 pop_front) *)
Definition release (c : cid) (l : list server) : list server :=
  filter (fun x => negb (held_by c x)) l
  ++ map (fun x => {| sid := sid x; spool := spool x; sholder := None |}) (filter (held_by c) l).

Inductive op :=
| OReload (fo : file_outcome)
| OConnect (c : cid) (d : db) (u : user)
| OBegin (c : cid)
| OEnd (c : cid)
| ODisconnect (c : cid)
| OIdle (c : cid) (ms : nat)        (* the client sends nothing for [ms] inside its open transaction *)
| OPause (k : key)                  (* admin: PAUSE db,user *)
| OResume (k : key)                 (* admin: RESUME db,user *)
| OWake (c : cid)                   (* a client held by PAUSE goes on after the notification *)
| OBan (k : key) (i : nat).         (* server [i] of the pool registered for [k] is banned (admin BAN or a failed checkout) *)

Inductive obs :=
| ObReload (r : result)
| ObConnected (p : pool_id)
| ObNoPool
| ObBegun (p : pool_id) (s : server_id) (fresh : bool)
| ObEnded
| ObGone
| ObNop
| ObIdled                           (* nothing happened *)
| ObTimedOut                        (* "idle transaction timeout": the transaction is over, the server went back *)
| ObBlocked                         (* the pool is paused: the client waits in wait_paused() *)
| ObAdmin (ok : bool).

Definition actor (o : op) : option cid :=
  match o with
  | OReload _ | OPause _ | OResume _ | OBan _ _ => None
  | OConnect c _ _ | OBegin c | OEnd c | ODisconnect c | OIdle c _ | OWake c => Some c
  end.

Definition has_pool (s : store) (k : key) : bool :=
  match plookup k (pools s) with Some _ => true | None => false end.

Definition with_clients (w : world) (cl : list (cid * client)) : world :=
  {| st := st w; objs := objs w; next_pool := next_pool w; clients := cl; servers := servers w; next_srv := next_srv w;
     validated := validated w; bans := bans w; waiting := waiting w; paused := paused w |}.

(** the part of a transaction start behind the pause gate (client.rs:1102-1215): [pool = self.get_pool().await?], settings
    refresh, checkout, idle timeout — everything is read NOW *)
Definition do_begin (w : world) (c : cid) (x : client) : world * obs :=
  match plookup (cdb x, cuser x) (pools (st w)) with
  | None => (with_clients w (cl_remove c (clients w)), ObNoPool)
  | Some (_, p) =>
      match take_idle p c (servers w) with
      | Some (s, l') =>
          ({| st := st w; objs := objs w; next_pool := next_pool w;
              clients := cl_set c {| cdb := cdb x; cuser := cuser x; cclone := p; cheld := Some s; ctmo := cidle (config (st w)); cset := p |} (clients w);
              servers := l'; next_srv := next_srv w; validated := validated w; bans := bans w; waiting := waiting w; paused := paused w |}, ObBegun p s false)
      | None =>
          let s := next_srv w in
          ({| st := st w; objs := objs w; next_pool := next_pool w;
              clients := cl_set c {| cdb := cdb x; cuser := cuser x; cclone := p; cheld := Some s; ctmo := cidle (config (st w)); cset := p |} (clients w);
              servers := {| sid := s; spool := p; sholder := Some c |} :: servers w;
              next_srv := S s; validated := validated w; bans := bans w; waiting := waiting w; paused := paused w |}, ObBegun p s true)
      end
  end.

Definition unwait (w : world) (c : cid) : world :=
  {| st := st w; objs := objs w; next_pool := next_pool w; clients := clients w; servers := servers w; next_srv := next_srv w;
     validated := validated w; bans := bans w; waiting := filter (fun c' => negb (c' =? c)) (waiting w); paused := paused w |}.

Definition step0 (w : world) (o : op) : world * obs :=
  match o with
  | OReload fo =>
      let '(s', r, n', new) := reload (st w) fo (next_pool w) in
      ({| st := s'; objs := new ++ objs w; next_pool := n'; clients := clients w; servers := servers w;
          next_srv := next_srv w; validated := validated w; bans := bans w; waiting := waiting w;
          (* pool.rs from_config (2ecc068): the pools that are no longer registered are resumed, whatever their flag *)
          paused := match r with ROk true => filter (has_pool s') (paused w) | _ => paused w end |}, ObReload r)
  | OConnect c d u =>
      match cl_lookup c (clients w) with
      | Some _ => (w, ObNop)
      | None =>
          match plookup (d, u) (pools (st w)) with
          | None => (w, ObNoPool)                                                      (* client.rs:575-592 *)
          | Some (_, p) =>
              let cl := cl_set c {| cdb := d; cuser := u; cclone := p; cheld := None; ctmo := 0; cset := p |} (clients w) in   (* client.rs:893-898 *)
              if existsb (Nat.eqb p) (validated w) then (with_clients w cl, ObConnected p)
              else
                (* client.rs:740-741: the first client of a pool object that was built without validate_config
                   runs pool.validate(): one server connection is opened, its parameters are read, it goes back idle *)
                ({| st := st w; objs := objs w; next_pool := next_pool w; clients := cl;
                    servers := {| sid := next_srv w; spool := p; sholder := None |} :: servers w;
                    next_srv := S (next_srv w); validated := p :: validated w; bans := bans w; waiting := waiting w; paused := paused w |}, ObConnected p)
          end
      end
  | OBegin c =>
      match cl_lookup c (clients w) with
      | None => (w, ObNop)
      | Some x =>
          match cheld x with
          | Some _ => (w, ObNop)
          | None =>
              if existsb (Nat.eqb c) (waiting w) then (w, ObNop) else
              if existsb (key_eqb (cdb x, cuser x)) (paused w)
              then
                (* client.rs:1099-1100: [pool = self.get_pool().await?; pool.wait_paused().await]: the client swaps its clone for the
                   registered object and parks.  What it runs on is decided when it goes on ([OWake]), not now. *)
                ({| st := st w; objs := objs w; next_pool := next_pool w;
                    clients := match plookup (cdb x, cuser x) (pools (st w)) with
                               | Some (_, p) => cl_set c {| cdb := cdb x; cuser := cuser x; cclone := p; cheld := None; ctmo := ctmo x; cset := cset x |} (clients w)
                               | None => clients w
                               end;
                    servers := servers w; next_srv := next_srv w; validated := validated w;
                    bans := bans w; waiting := c :: waiting w; paused := paused w |}, ObBlocked)
              else
              match plookup (cdb x, cuser x) (pools (st w)) with
              | None => (with_clients w (cl_remove c (clients w)), ObNoPool)           (* client.rs:1081, 1686-1707 *)
              | Some (_, p) =>
                  match take_idle p c (servers w) with
                  | Some (s, l') =>
                      ({| st := st w; objs := objs w; next_pool := next_pool w;
                          clients := cl_set c {| cdb := cdb x; cuser := cuser x; cclone := p; cheld := Some s; ctmo := cidle (config (st w)); cset := p |} (clients w);
                          servers := l'; next_srv := next_srv w; validated := validated w; bans := bans w; waiting := waiting w; paused := paused w |}, ObBegun p s false)
                  | None =>
                      let s := next_srv w in
                      ({| st := st w; objs := objs w; next_pool := next_pool w;
                          clients := cl_set c {| cdb := cdb x; cuser := cuser x; cclone := p; cheld := Some s; ctmo := cidle (config (st w)); cset := p |} (clients w);
                          servers := {| sid := s; spool := p; sholder := Some c |} :: servers w;
                          next_srv := S s; validated := validated w; bans := bans w; waiting := waiting w; paused := paused w |}, ObBegun p s true)
                  end
              end
          end
      end
  | OEnd c =>
      match cl_lookup c (clients w) with
      | None => (w, ObNop)
      | Some x =>
          match cheld x with
          | None => (w, ObNop)
          | Some _ =>
              ({| st := st w; objs := objs w; next_pool := next_pool w;
                  clients := cl_set c {| cdb := cdb x; cuser := cuser x; cclone := cclone x; cheld := None; ctmo := ctmo x; cset := cset x |} (clients w);
                  servers := release c (servers w); next_srv := next_srv w; validated := validated w; bans := bans w; waiting := waiting w; paused := paused w |}, ObEnded)
          end
      end
  | ODisconnect c =>
      match cl_lookup c (clients w) with
      | None => (w, ObNop)
      | Some _ =>
          ({| st := st w; objs := objs w; next_pool := next_pool w; clients := cl_remove c (clients w);
              servers := release c (servers w); next_srv := next_srv w; validated := validated w; bans := bans w; waiting := waiting w; paused := paused w |}, ObGone)
      end
  | OIdle c ms =>
      match cl_lookup c (clients w) with
      | None => (w, ObNop)
      | Some x =>
          match cheld x with
          | None => (w, ObNop)
          | Some _ =>
              (* client.rs:1227-1259: timeout(idle_client_timeout_duration, read_message) with the duration computed
                 BEFORE the transaction loop; Err => "idle transaction timeout", break: checkin_cleanup, server released *)
              if negb (ctmo x =? 0) && (ctmo x <=? ms)
              then ({| st := st w; objs := objs w; next_pool := next_pool w;
                       clients := cl_set c {| cdb := cdb x; cuser := cuser x; cclone := cclone x; cheld := None; ctmo := ctmo x; cset := cset x |} (clients w);
                       servers := release c (servers w); next_srv := next_srv w; validated := validated w; bans := bans w; waiting := waiting w; paused := paused w |}, ObTimedOut)
              else (w, ObIdled)
          end
      end
  | OPause k =>                                                                        (* admin.rs:845-875 *)
      if has_pool (st w) k
      then ({| st := st w; objs := objs w; next_pool := next_pool w; clients := clients w; servers := servers w;
               next_srv := next_srv w; validated := validated w; bans := bans w; waiting := waiting w; paused := k :: paused w |}, ObAdmin true)
      else (w, ObAdmin false)
  | OResume k =>
      if has_pool (st w) k
      then ({| st := st w; objs := objs w; next_pool := next_pool w; clients := clients w; servers := servers w;
               next_srv := next_srv w; validated := validated w; bans := bans w; waiting := waiting w; paused := filter (fun k' => negb (key_eqb k' k)) (paused w) |}, ObAdmin true)
      else (w, ObAdmin false)
  | OWake c =>
      match cl_lookup c (clients w) with
      | None => (w, ObNop)
      | Some x =>
          if negb (existsb (Nat.eqb c) (waiting w)) then (w, ObNop)
          else if existsb (key_eqb (cdb x, cuser x)) (paused w) then (w, ObBlocked)    (* still paused: keeps waiting *)
          else do_begin (unwait w c) c x
      end
  | OBan k i =>
      match plookup k (pools (st w)) with
      | Some (_, p) =>
          ({| st := st w; objs := objs w; next_pool := next_pool w; clients := clients w; servers := servers w;
              next_srv := next_srv w; validated := validated w; bans := (p, i) :: bans w; waiting := waiting w; paused := paused w |}, ObAdmin true)
      | None => (w, ObAdmin false)
      end
  end.

Definition step (w : world) (o : op) : world * obs :=
  let '(w', ob) := step0 w o in (gc w', ob).

Fixpoint run (w : world) (l : list op) : world * list obs :=
  match l with
  | [] => (w, [])
  | o :: t => let '(w1, ob) := step w o in let '(w2, obs) := run w1 t in (w2, ob :: obs)
  end.

(** the pool a transaction of (d,u) starting now would run on *)
Definition begin_txn (s : store) (d : db) (u : user) : option pool_id :=
  match plookup (d, u) (pools s) with Some (_, p) => Some p | None => None end.

(** CONFIG and POOLS agree: POOLS holds exactly the (pool, user) pairs of CONFIG, each served by an
    object built from a definition with the hash of the configured one *)
Definition in_effect (ob : objs_t) (c : cfg) (p : pools_t) : Prop :=
  forall d u,
    match clookup d (cpools c) with
    | Some (pd, us) =>
        if mem u us
        then exists pid pd', plookup (d, u) p = Some (hashf pd, pid) /\ In (pid, ((d, u), pd')) ob /\ hashf pd' = hashf pd
        else plookup (d, u) p = None
    | None => plookup (d, u) p = None
    end.

Definition hash_inj : Prop := forall a b, hashf a = hashf b -> a = b.

(** every build of the new configuration succeeds *)
Definition all_built (c : cfg) (bo : db -> user -> build_outcome) : bool :=
  forallb (fun x => match bo (fst (fst x)) (snd x) with Built => true | _ => false end) (flat c).

(** no build of the new configuration panics (failing with an error is allowed) *)
Definition no_panic (c : cfg) (bo : db -> user -> build_outcome) : bool :=
  forallb (fun x => match bo (fst (fst x)) (snd x) with BuildPanics => false | _ => true end) (flat c).

(** the remaining class: a PANIC inside from_config (no input known: Config::validate excludes the
    bb8 assertions and unwraps, C15) still leaves CONFIG new and POOLS old *)
Definition known_panic (fo : file_outcome) : bool :=
  match fo with Valid c bo => negb (no_panic c bo) | _ => false end.

Definition op_known_panic (o : op) : bool := match o with OReload fo => known_panic fo | _ => false end.

Definition fo_wf (fo : file_outcome) : Prop := match fo with Valid c _ => wf_cfg c | _ => True end.
Definition op_wf (o : op) : Prop := match o with OReload fo => fo_wf fo | _ => True end.

End WithHash.

Definition empty_cfg : cfg := {| cgen := 0; cidle := 0; cpools := [] |}.
Definition empty_world : world :=
  {| st := {| config := empty_cfg; pools := [] |}; objs := []; next_pool := 0; clients := []; servers := []; next_srv := 0;
     validated := []; bans := []; waiting := []; paused := [] |}.

(** -------------------------------------------------------------- printable views for the tie *)

Definition result_code (r : result) : nat :=
  match r with RErr => 0 | ROk false => 1 | ROk true => 2 | RPanic => 3 end.

(** (kind, a, b, c): 0 reload(result) | 1 connected(pool) | 2 no pool | 3 begun(pool, server, fresh) | 4 ended | 5 gone | 6 nop |
    7 idled | 8 idle transaction timeout | 9 blocked (paused) | 10 admin(ok) *)
Definition obs_code (o : obs) : nat * nat * nat * nat :=
  match o with
  | ObReload r => (0, result_code r, 0, 0)
  | ObConnected p => (1, p, 0, 0)
  | ObNoPool => (2, 0, 0, 0)
  | ObBegun p s f => (3, p, s, if f then 1 else 0)
  | ObEnded => (4, 0, 0, 0)
  | ObGone => (5, 0, 0, 0)
  | ObNop => (6, 0, 0, 0)
  | ObIdled => (7, 0, 0, 0)
  | ObTimedOut => (8, 0, 0, 0)
  | ObBlocked => (9, 0, 0, 0)
  | ObAdmin b => (10, if b then 1 else 0, 0, 0)
  end.

Definition view_server (x : server) : nat * nat * nat :=
  (sid x, spool x, match sholder x with Some c => S c | None => 0 end).

(** what the harness can see of a world: CONFIG (general id, per pool: name, def id, users), POOLS
    (db, user, hash, object), the open server connections *)
Definition view (w : world) :=
  (cgen (config (st w)), cpools (config (st w)),
   map (fun e => (fst (fst e), snd (fst e), fst (snd e), snd (snd e))) (pools (st w)),
   map view_server (servers w)).

(** number of live clones of pool object [p]: one for POOLS (if it is in the map) + one per client task *)
Definition clones (w : world) (p : pool_id) : nat :=
  length (filter (fun e => snd (snd e) =? p) (pools (st w))) + length (filter (fun e => cclone (snd e) =? p) (clients w)).

(** every pool object ever built (oldest first) with its clone count; 0 = dropped *)
Definition view_objs (w : world) : list (pool_id * nat) :=
  map (fun e => (fst e, clones w (fst e))) (rev (objs w)).

(** per-step trace: the observation and the view after the step *)
Fixpoint trace (hashf : pdef -> hash) (w : world) (l : list op) :=
  match l with
  | [] => []
  | o :: t => let '(w1, ob) := step hashf w o in (obs_code ob, view w1) :: trace hashf w1 t
  end.

(** compact trace for the tie: CONFIG/POOLS are printed after reloads only *)
Fixpoint trace2 (hashf : pdef -> hash) (w : world) (l : list op) :=
  match l with
  | [] => []
  | o :: t =>
      let '(w1, ob) := step hashf w o in
      let v := match o with
               | OReload _ => view w1
               | _ => (0, [], [], map view_server (servers w1))   (* client steps do not touch CONFIG/POOLS (client_step_store) *)
               end in
      (obs_code ob, v, view_objs w1, (cidle (config (st w1)), paused w1, bans w1)) :: trace2 hashf w1 t
  end.

(** build outcomes as data: the listed (pool, user) pairs fail / panic, all others are built *)
Definition bo_of (fails panics : list key) : db -> user -> build_outcome :=
  fun d u => if existsb (key_eqb (d, u)) panics then BuildPanics
             else if existsb (key_eqb (d, u)) fails then BuildFails else Built.

(** the hash used when the model is executed (tie, witnesses): definitions are numbered injectively *)
Definition idh (x : pdef) : hash := x.
