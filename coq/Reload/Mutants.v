(** C14 — the code before commit 0510794 as a mutant of the model, with its refutation.

    reload_config used to run [ConnectionPool::from_config(..).await?] after parse() had stored the new
    CONFIG: an Err from a build left CONFIG new and POOLS old, and every later reload of the same file
    compared it with the stored copy and answered Ok(false) (finding F12, confirmed on the
    implementation before the repair).  [reload_store_first] differs from [reload] in the FcErr
    branch only. *)
From Coq Require Import Arith Bool List.
From PV Require Import Reload.Model Reload.Proofs.
Import ListNotations.

Definition reload_store_first (hashf : pdef -> hash) (s : store) (fo : file_outcome) (next : pool_id)
  : store * result * pool_id * objs_t :=
  match fo with
  | Unreadable | TomlError | Invalid _ => (s, RErr, next, [])
  | Valid c bo =>
      let s1 := {| config := c; pools := pools s |} in
      if cfg_eqb (config s) c then (s1, ROk false, next, [])
      else
        let a := from_config hashf (pools s) c bo next in
        match a_st a with
        | FcOk => ({| config := c; pools := a_np a |}, ROk true, a_next a, a_new a)
        | FcErr => (s1, RErr, next, [])           (* the mutation: CONFIG is not restored *)
        | FcPanic => (s1, RPanic, next, [])
        end
  end.

Definition mut_s0 : store := {| config := f12_old; pools := [((0, 0), (10, 0))] |}.
Definition mut_objs : objs_t := [(0, ((0, 0), 10))].

(** The mutant: the build of the redefined pool fails -> Err with CONFIG = new file, POOLS = old pools; the
    retry with every build succeeding -> Ok(false), nothing built: CONFIG and POOLS disagree for good. *)
Lemma store_first_refuted :
  in_effect idh mut_objs (config mut_s0) (pools mut_s0) /\
  exists s1 s2,
    reload_store_first idh mut_s0 (Valid f12_new (bo_of [(0, 0)] [])) 1 = (s1, RErr, 1, []) /\
    reload_store_first idh s1 (Valid f12_new (bo_of [] [])) 1 = (s2, ROk false, 1, []) /\
    config s2 = f12_new /\ pools s2 = pools mut_s0 /\
    ~ in_effect idh mut_objs (config s2) (pools s2).
Proof.
  split.
  - intros d u. destruct d as [|d]; destruct u as [|u]; vm_compute; eauto. exists 0, 10. auto.
  - eexists. eexists. split; [vm_compute; reflexivity|]. split; [vm_compute; reflexivity|].
    cbn. repeat split; auto. intros A. specialize (A 0 0). vm_compute in A.
    destruct A as [pid [pd' [E _]]]. discriminate.
Qed.

(** The model of the repaired code on the same input: the failed reload is a no-op, the retry rebuilds. *)
Lemma repaired_on_the_same_input :
  exists s2 new,
    reload idh mut_s0 (Valid f12_new (bo_of [(0, 0)] [])) 1 = (mut_s0, RErr, 1, []) /\
    reload idh mut_s0 (Valid f12_new (bo_of [] [])) 1 = (s2, ROk true, 2, new) /\
    config s2 = f12_new /\ pools s2 = [((0, 0), (11, 1))] /\ new = [(1, ((0, 0), 11))].
Proof. eexists. eexists. split; [vm_compute; reflexivity|]. split; [vm_compute; reflexivity|]. auto. Qed.


(** ---------------------------------------------------------------------------------------------------------
    Mutant 2: the idle-in-transaction timeout is looked up in CONFIG at every wait of the transaction loop
    instead of once per checkout.  [idle_live] is [OIdle]'s decision with the live value. *)
Definition idle_live (w : world) (c : cid) (ms : nat) : obs :=
  match cl_lookup c (clients w) with
  | Some x => match cheld x with
              | Some _ => let t := cidle (config (st w)) in
                          if negb (t =? 0) && (t <=? ms) then ObTimedOut else ObIdled
              | None => ObNop
              end
  | None => ObNop
  end.

Definition idle_new : cfg := {| cgen := 1; cidle := 150; cpools := [(0, (10, [0]))] |}.   (* f12_old + a 150 ms timeout *)
(** start without a timeout; the client opens a transaction; a valid reload sets the timeout to 150 ms *)
Definition idle_ops : list op :=
  [OReload (Valid f12_old (bo_of [] [])); OConnect 0 0 0; OBegin 0; OReload (Valid idle_new (bo_of [] []))].

(** the open transaction is silent for 400 ms: the model (snapshot) lets it go on, the mutant breaks it;
    the NEXT transaction times out in both *)
Lemma idle_live_refuted :
  exists w, fst (run idh empty_world idle_ops) = w /\
            snd (run idh empty_world idle_ops) = [ObReload (ROk true); ObConnected 0; ObBegun 0 0 false; ObReload (ROk true)] /\
            snd (step idh w (OIdle 0 400)) = ObIdled /\ idle_live w 0 400 = ObTimedOut /\
            snd (run idh w [OEnd 0; OBegin 0; OIdle 0 400]) = [ObEnded; ObBegun 0 0 false; ObTimedOut].
Proof. eexists. split; [reflexivity|]. vm_compute. auto. Qed.

(** ---------------------------------------------------------------------------------------------------------
    Mutant 3: a reload keeps a paused pool registered although the new file no longer has it. *)
Definition keep_paused (paused : list key) (old new : pools_t) : pools_t :=
  new ++ filter (fun e => existsb (key_eqb (fst e)) paused && match plookup (fst e) new with Some _ => false | None => true end) old.

Definition two_pools : cfg := {| cgen := 1; cidle := 0; cpools := [(0, (10, [0])); (1, (20, [0]))] |}.
Definition one_pool : cfg := {| cgen := 1; cidle := 0; cpools := [(1, (20, [0]))] |}.               (* pool 0 removed *)
Definition pause_ops : list op :=
  [OReload (Valid two_pools (bo_of [] [])); OConnect 0 0 0; OPause (0, 0); OReload (Valid one_pool (bo_of [] [])); OBegin 0; OConnect 1 0 0].

(** the model: the paused pool is removed and resumed, its client is told "No pool configured" (not blocked,
    not served), a new login is refused; under the mutant POOLS still resolves (0,0) *)
Lemma keep_paused_refuted :
  exists w, run idh empty_world pause_ops =
              (w, [ObReload (ROk true); ObConnected 0; ObAdmin true; ObReload (ROk true); ObNoPool; ObNoPool]) /\
            paused w = [] /\ begin_txn (st w) 0 0 = None /\
            plookup (0, 0) (keep_paused [(0, 0)] [((0, 0), (10, 0)); ((1, 0), (20, 1))] (pools (st w))) = Some (10, 0) /\
            clookup 0 (cpools (config (st w))) = None.
Proof. eexists. split; [vm_compute; reflexivity|]. vm_compute. auto. Qed.

(** ---------------------------------------------------------------------------------------------------------
    Mutant 4: the lookup AFTER wait_paused() is dropped: a transaction that was held by PAUSE runs on the pool
    object its client looked up BEFORE waiting ([cclone] at the time it parked). *)
Definition held_new : cfg := {| cgen := 1; cidle := 0; cpools := [(0, (11, [0])); (1, (20, [0]))] |}.   (* pool 0 redefined *)
Definition held_ops : list op :=
  [OReload (Valid two_pools (bo_of [] [])); OConnect 0 0 0; OPause (0, 0); OBegin 0;
   OReload (Valid held_new (bo_of [] [])); OResume (0, 0)].

(** the first statement is held; the reload rebuilds the pool (object 2) while the client waits with a clone of
    object 0; after RESUME the model starts the transaction on object 2 — the mutant would use object 0 *)
Lemma wake_stale_refuted :
  exists w x, run idh empty_world held_ops =
                (w, [ObReload (ROk true); ObConnected 0; ObAdmin true; ObBlocked; ObReload (ROk true); ObAdmin true]) /\
              cl_lookup 0 (clients w) = Some x /\ cclone x = 0 /\ is_waiting w 0 = true /\
              begin_txn (st w) 0 0 = Some 2 /\ In (2, ((0, 0), 11)) (objs w) /\ In (0, ((0, 0), 10)) (objs w) /\
              exists w' s, step idh w (OWake 0) = (w', ObBegun 2 s true).
Proof. eexists. eexists. split; [vm_compute; reflexivity|]. vm_compute. repeat split; auto. eexists. eexists. reflexivity. Qed.

(** ---------------------------------------------------------------------------------------------------------
    Mutant 5: a rebuilt pool inherits the ban list of its predecessor (by analogy with the pause flag).  In the code
    the list has one map per shard of the definition it was built for: with an inherited list a transaction routed to
    an ADDED shard indexes past its end (panic).  In the model: bans are keyed by object, a new object has none. *)
Definition inherit_bans (old new : pools_t) (b : list (pool_id * nat)) : list (pool_id * nat) :=
  b ++ flat_map (fun e => match plookup (fst e) old with
                          | Some (_, p0) => map (fun x => (snd (snd e), snd x)) (filter (fun x => fst x =? p0) b)
                          | None => []
                          end) new.

Definition ban_ops : list op :=
  [OReload (Valid two_pools (bo_of [] [])); OBan (0, 0) 1; OBan (1, 0) 1; OReload (Valid held_new (bo_of [] []))].

(** pool 0 is rebuilt (object 2), pool 1 is kept (object 1): the model has the ban of object 1 still there, none for
    object 2; the mutant would carry (0,1) over to (2,1) *)
Lemma inherit_bans_refuted :
  exists w, run idh empty_world ban_ops = (w, [ObReload (ROk true); ObAdmin true; ObAdmin true; ObReload (ROk true)]) /\
            pools (st w) = [((0, 0), (11, 2)); ((1, 0), (20, 1))] /\ bans w = [(1, 1); (0, 1)] /\
            (forall i, ~ In (2, i) (bans w)) /\
            In (2, 1) (inherit_bans [((0, 0), (10, 0)); ((1, 0), (20, 1))] (pools (st w)) (bans w)).
Proof.
  eexists. split; [vm_compute; reflexivity|]. cbn [st pools bans]. repeat split; auto.
  - intros i [H|[H|[]]]; discriminate.
  - vm_compute. auto.
Qed.

(** ---------------------------------------------------------------------------------------------------------
    Mutant 6: [query_router.update_pool_settings] dropped from the refresh block (or done only when the hash differs
    from a re-read made a moment earlier): a session that was connected before the reload runs its next transaction
    on the NEW pool object with the router settings (plugins, parser flags, shard count, default role) of the OLD one. *)
Definition session_ops : list op :=
  [OReload (Valid two_pools (bo_of [] [])); OConnect 0 0 0; OReload (Valid held_new (bo_of [] [])); OBegin 0].

Lemma stale_router_refuted :
  exists w x, run idh empty_world session_ops = (w, [ObReload (ROk true); ObConnected 0; ObReload (ROk true); ObBegun 2 1 true]) /\
              cl_lookup 0 (clients w) = Some x /\ cclone x = 2 /\ cset x = 2 /\
              (* before the transaction started the router still had the settings of object 0 *)
              exists w0 x0, fst (run idh empty_world (firstn 3 session_ops)) = w0 /\ cl_lookup 0 (clients w0) = Some x0 /\ cset x0 = 0.
Proof. eexists. eexists. split; [vm_compute; reflexivity|]. vm_compute. repeat split; auto. eexists. eexists. repeat split; reflexivity. Qed.

(** ---------------------------------------------------------------------------------------------------------
    Mutant 7: the pools that the NEW file drops are resumed at the TOP of from_config, before anything is built: when
    the build then fails the reload is refused, the pool is still registered — and no longer paused. *)
Definition drop_and_fail : cfg := {| cgen := 1; cidle := 0; cpools := [(1, (21, [0]))] |}.      (* pool 0 dropped, pool 1 redefined *)
Definition early_resume (c : cfg) (paused : list key) : list key :=
  filter (fun k => match clookup (fst k) (cpools c) with Some (_, us) => mem (snd k) us | None => false end) paused.
Definition refuse_ops : list op :=
  [OReload (Valid two_pools (bo_of [] [])); OPause (0, 0); OReload (Valid drop_and_fail (bo_of [(1, 0)] []))].

Lemma early_resume_refuted :
  exists w, run idh empty_world refuse_ops = (w, [ObReload (ROk true); ObAdmin true; ObReload RErr]) /\
            config (st w) = two_pools /\ has_pool (st w) (0, 0) = true /\ paused w = [(0, 0)] /\
            early_resume drop_and_fail (paused w) = [].
Proof. eexists. split; [vm_compute; reflexivity|]. vm_compute. auto. Qed.
