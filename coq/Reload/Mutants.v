(** C14 — the code before commit 0510794 as a mutant of the model, with its refutation.

    reload_config used to run [ConnectionPool::from_config(..).await?] after parse() had stored the new
    CONFIG: an Err from a build left CONFIG new and POOLS old, and every later reload of the same file
    compared it with the stored copy and answered Ok(false) (finding F12, confirmed on the
    implementation before the repair).  [reload_store_first] differs from [reload] in the FcErr
    branch only. *)
From Coq Require Import Arith Bool List.
From PV Require Import Reload.Model Reload.Proofs.
Import ListNotations.

Definition reload_store_first (hashf : pdef -> hash) (s : store) (fo : file_outcome) (next : pool_id)
  : store * result * pool_id * objs_t :=
  match fo with
  | Unreadable | TomlError | Invalid _ => (s, RErr, next, [])
  | Valid c bo =>
      let s1 := {| config := c; pools := pools s |} in
      if cfg_eqb (config s) c then (s1, ROk false, next, [])
      else
        let a := from_config hashf (pools s) c bo next in
        match a_st a with
        | FcOk => ({| config := c; pools := a_np a |}, ROk true, a_next a, a_new a)
        | FcErr => (s1, RErr, next, [])           (* the mutation: CONFIG is not restored *)
        | FcPanic => (s1, RPanic, next, [])
        end
  end.

Definition mut_s0 : store := {| config := f12_old; pools := [((0, 0), (10, 0))] |}.
Definition mut_objs : objs_t := [(0, ((0, 0), 10))].

(** The mutant: the build of the redefined pool fails -> Err with CONFIG = new file, POOLS = old pools; the
    retry with every build succeeding -> Ok(false), nothing built: CONFIG and POOLS disagree for good. *)
Lemma store_first_refuted :
  in_effect idh mut_objs (config mut_s0) (pools mut_s0) /\
  exists s1 s2,
    reload_store_first idh mut_s0 (Valid f12_new (bo_of [(0, 0)] [])) 1 = (s1, RErr, 1, []) /\
    reload_store_first idh s1 (Valid f12_new (bo_of [] [])) 1 = (s2, ROk false, 1, []) /\
    config s2 = f12_new /\ pools s2 = pools mut_s0 /\
    ~ in_effect idh mut_objs (config s2) (pools s2).
Proof.
  split.
  - intros d u. destruct d as [|d]; destruct u as [|u]; vm_compute; eauto. exists 0, 10. auto.
  - eexists. eexists. split; [vm_compute; reflexivity|]. split; [vm_compute; reflexivity|].
    cbn. repeat split; auto. intros A. specialize (A 0 0). vm_compute in A.
    destruct A as [pid [pd' [E _]]]. discriminate.
Qed.

(** The model of the repaired code on the same input: the failed reload is a no-op, the retry rebuilds. *)
Lemma repaired_on_the_same_input :
  exists s2 new,
    reload idh mut_s0 (Valid f12_new (bo_of [(0, 0)] [])) 1 = (mut_s0, RErr, 1, []) /\
    reload idh mut_s0 (Valid f12_new (bo_of [] [])) 1 = (s2, ROk true, 2, new) /\
    config s2 = f12_new /\ pools s2 = [((0, 0), (11, 1))] /\ new = [(1, ((0, 0), 11))].
Proof. eexists. eexists. split; [vm_compute; reflexivity|]. split; [vm_compute; reflexivity|]. auto. Qed.
