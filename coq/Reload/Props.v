(** C14 — property theorems only.  Each is closed by [exact <lemma>] and audited with
    [Print Assumptions]; [Example]s show non-vacuity and pin the model's behaviour on the
    situations the property text talks about.  [hashf] (Pool::hash_value) is universally quantified;
    theorems that need collision-freedom carry [hash_inj hashf] as an explicit premise. *)
From Coq Require Import Arith Bool List.
From PV Require Import Reload.Model Reload.Proofs Reload.Mutants.
Import ListNotations.

(** "A RELOAD or SIGHUP with an invalid file leaves configuration, pools and server connections as
    they were": an unreadable file, a TOML error and every validate() failure return Err with the
    store (CONFIG, POOLS), the id supply and the set of pool objects untouched ... *)
Theorem c14_invalid_noop : forall hashf s fo n, invalid fo -> reload hashf s fo n = (s, RErr, n, []).
Proof. exact invalid_noop. Qed.
Print Assumptions c14_invalid_noop.

(** ... and the whole world (clients, their clones, every open server connection) is identical. *)
Theorem c14_invalid_noop_world : forall hashf w fo, settled w -> invalid fo ->
  step hashf w (OReload fo) = (w, ObReload RErr).
Proof. exact invalid_noop_world. Qed.
Print Assumptions c14_invalid_noop_world.

Theorem c14_every_run_settled : forall hashf l w obs, run hashf empty_world l = (w, obs) -> settled w.
Proof. exact every_run_settled. Qed.
Print Assumptions c14_every_run_settled.

(** "pools whose definition did not change keep their server connections": for EVERY outcome of a
    reload with a valid file (unchanged / rebuilt / build failed / build panicked), a (pool, user)
    whose new definition has the hash of the existing pool object keeps that very object ... *)
Theorem c14_unchanged_kept : forall hashf s c bo n s' r n' new d u h pid pd us,
  wf_cfg c ->
  reload hashf s (Valid c bo) n = (s', r, n', new) ->
  plookup (d, u) (pools s) = Some (h, pid) ->
  clookup d (cpools c) = Some (pd, us) -> In u us -> hashf pd = h ->
  plookup (d, u) (pools s') = Some (h, pid).
Proof. exact unchanged_kept. Qed.
Print Assumptions c14_unchanged_kept.

(** ... and every server connection of that object, idle or checked out, is still open with the same
    holder; no client is touched. *)
Theorem c14_unchanged_kept_world : forall hashf w c bo w' ob d u h pid pd us,
  wf_cfg c -> step hashf w (OReload (Valid c bo)) = (w', ob) ->
  plookup (d, u) (pools (st w)) = Some (h, pid) ->
  clookup d (cpools c) = Some (pd, us) -> In u us -> hashf pd = h ->
  plookup (d, u) (pools (st w')) = Some (h, pid) /\
  clients w' = clients w /\
  (forall x, In x (servers w) -> spool x = pid -> In x (servers w')).
Proof. exact unchanged_kept_world. Qed.
Print Assumptions c14_unchanged_kept_world.

(** A file that is valid but whose pools cannot be built (bb8 build() returns an error: validate_config,
    min_pool_size >= 1, server unreachable) behaves like an invalid one since commit 0510794: Err, and
    CONFIG, POOLS, the id supply and the pool objects are as they were ... *)
Theorem c14_failed_build_noop : forall hashf s c bo n,
  cfg_eqb (config s) c = false -> a_st (from_config hashf (pools s) c bo n) = FcErr ->
  reload hashf s (Valid c bo) n = (s, RErr, n, []).
Proof. exact failed_build_noop. Qed.
Print Assumptions c14_failed_build_noop.

(** ... hence the next reload of the same file is NOT "unchanged": once every build succeeds it answers
    Ok(true) and the file is in effect. *)
Theorem c14_retry_rebuilds : forall hashf ob s c bo bo' n,
  wf_cfg c -> store_ok hashf ob (pools s) -> cfg_eqb (config s) c = false ->
  a_st (from_config hashf (pools s) c bo n) = FcErr -> all_built c bo' = true ->
  exists s1 r1 n1 new1 s2 n2 new2,
    reload hashf s (Valid c bo) n = (s1, r1, n1, new1) /\ r1 = RErr /\
    reload hashf s1 (Valid c bo') n1 = (s2, ROk true, n2, new2) /\
    config s2 = c /\ in_effect hashf (new2 ++ ob) c (pools s2).
Proof. exact retry_rebuilds. Qed.
Print Assumptions c14_retry_rebuilds.

(** The only results of a reload with a valid, changed file. *)
Theorem c14_reload_result : forall hashf s c bo n s' r n' new,
  cfg_eqb (config s) c = false -> reload hashf s (Valid c bo) n = (s', r, n', new) ->
  match a_st (from_config hashf (pools s) c bo n) with
  | FcOk => r = ROk true
  | FcErr => r = RErr /\ s' = s /\ n' = n /\ new = []
  | FcPanic => r = RPanic /\ s' = {| config := c; pools := pools s |} /\ n' = n /\ new = []
  end.
Proof. exact reload_result. Qed.
Print Assumptions c14_reload_result.

(** "changed, added or removed pools are in effect for every transaction that starts afterwards":
    WHENEVER a reload answers Ok(true) — no hypothesis on the builds any more.
    Store form: right after the reload, [get_pool] of every (pool, user)
    - of the new configuration resolves to an object whose definition has the configured hash
      (with [hash_inj]: IS the configured definition, see c14_in_effect_exact); if the old POOLS had
      no object with that hash (changed or added) it is an object built by this reload
      ([next_pool w <= p]) from exactly the configured definition;
    - not in the new configuration (pool or user removed) resolves to nothing. *)
Theorem c14_changed_in_effect : forall hashf w c bo w1,
  winv hashf w -> wf_cfg c ->
  step hashf w (OReload (Valid c bo)) = (w1, ObReload (ROk true)) ->
  config (st w1) = c /\
  forall d u,
    match clookup d (cpools c) with
    | Some (pd, us) =>
        if mem u us
        then exists p pd', begin_txn (st w1) d u = Some p /\ In (p, ((d, u), pd')) (objs w1) /\ hashf pd' = hashf pd /\
               (no_reuse hashf (pools (st w)) (d, u) pd -> next_pool w <= p /\ pd' = pd)
        else begin_txn (st w1) d u = None
    | None => begin_txn (st w1) d u = None
    end.
Proof. exact changed_in_effect. Qed.
Print Assumptions c14_changed_in_effect.

(** Transaction form: after the reload let anything happen that is not another reload (clients connect, begin,
    end, idle, leave; PAUSE, RESUME; held clients go on); the next transaction of a client whose (pool, user) is
    in the new configuration — whether it begins then ([OBegin]) or was HELD by PAUSE since before the reload and
    goes on now ([OWake]; [start_op] picks the one that applies) — runs on a server of such an object, with the
    client's clone AND its query router's settings ([cset]: plugins, parser flags, sharding function and shard
    count, default role) being those of that object, and the idle timeout of the new file. *)
Theorem c14_changed_in_effect_txn : forall hashf w c bo w1 ops w2 obs cl x pd us,
  winv hashf w -> wf_cfg c ->
  step hashf w (OReload (Valid c bo)) = (w1, ObReload (ROk true)) ->
  Forall (fun o => is_reload o = false) ops -> run hashf w1 ops = (w2, obs) ->
  cl_lookup cl (clients w2) = Some x -> cheld x = None ->
  existsb (key_eqb (cdb x, cuser x)) (paused w2) = false ->
  clookup (cdb x) (cpools c) = Some (pd, us) -> In (cuser x) us ->
  exists w3 p s f pd' y, step hashf w2 (start_op w2 cl) = (w3, ObBegun p s f) /\
    In {| sid := s; spool := p; sholder := Some cl |} (servers w3) /\
    In (p, ((cdb x, cuser x), pd')) (objs w2) /\ hashf pd' = hashf pd /\
    (no_reuse hashf (pools (st w)) (cdb x, cuser x) pd -> next_pool w <= p /\ pd' = pd) /\
    cl_lookup cl (clients w3) = Some y /\ cclone y = p /\ cset y = p /\ ctmo y = cidle c.
Proof. exact changed_in_effect_txn. Qed.
Print Assumptions c14_changed_in_effect_txn.

(** The invariant behind it, over every run from start-up in which no build PANICKED (builds may fail):
    CONFIG and POOLS agree ([in_effect]: POOLS holds exactly the (pool, user) pairs of CONFIG, each with an object
    built from a definition with the configured hash). *)
Theorem c14_config_pools_agree : forall hashf ops w obs,
  Forall op_wf ops -> existsb op_known_panic ops = false ->
  run hashf empty_world ops = (w, obs) -> agree hashf w.
Proof. exact config_pools_agree. Qed.
Print Assumptions c14_config_pools_agree.

Theorem c14_in_effect_exact : forall hashf ob c p, hash_inj hashf -> in_effect hashf ob c p ->
  forall d u pd us, clookup d (cpools c) = Some (pd, us) -> In u us ->
  exists pid, plookup (d, u) p = Some (hashf pd, pid) /\ In (pid, ((d, u), pd)) ob.
Proof. exact in_effect_exact. Qed.
Print Assumptions c14_in_effect_exact.

(** "No transaction in progress is broken by a reload": whatever happens that is not the client's own
    step — any reload outcome (invalid, unchanged, rebuilt, failed, panicked), other clients
    connecting, beginning, ending, leaving, in any number and order — the client still holds the
    clone of its pool object and the very server connection it checked out ... *)
Theorem c14_inflight_unbroken : forall hashf l w w' obs c x srv,
  run hashf w l = (w', obs) -> Forall (fun o => actor o <> Some c) l ->
  cl_lookup c (clients w) = Some x -> In srv (servers w) -> sholder srv = Some c ->
  cl_lookup c (clients w') = Some x /\ In srv (servers w').
Proof. exact inflight_run. Qed.
Print Assumptions c14_inflight_unbroken.

(** ... and its transaction then ends normally: the connection goes back, idle and open, to the
    (possibly replaced) pool object it was taken from, which lives on through the client's clone. *)
Theorem c14_inflight_ends : forall hashf w c x s srv,
  cl_lookup c (clients w) = Some x -> cheld x = Some s -> In srv (servers w) -> sholder srv = Some c ->
  exists w', step hashf w (OEnd c) = (w', ObEnded) /\
             cl_lookup c (clients w') = Some {| cdb := cdb x; cuser := cuser x; cclone := cclone x; cheld := None; ctmo := ctmo x; cset := cset x |} /\
             (spool srv = cclone x -> In {| sid := sid srv; spool := spool srv; sholder := None |} (servers w')).
Proof. exact inflight_end. Qed.
Print Assumptions c14_inflight_ends.

(** "clients of a removed pool get an error rather than another pool's servers": the next
    transaction of a client whose pool (or user) is not in the new configuration is answered
    "No pool configured", its task ends, and no server connection is opened or changes hands. *)
Theorem c14_removed_pool_error : forall hashf w c bo w1 ops w2 obs cl x,
  winv hashf w -> pinv w -> wf_cfg c ->
  step hashf w (OReload (Valid c bo)) = (w1, ObReload (ROk true)) ->
  Forall (fun o => is_reload o = false) ops -> run hashf w1 ops = (w2, obs) ->
  cl_lookup cl (clients w2) = Some x -> cheld x = None ->
  (match clookup (cdb x) (cpools c) with Some (_, us) => ~ In (cuser x) us | None => True end) ->
  exists w3, step hashf w2 (start_op w2 cl) = (w3, ObNoPool) /\ cl_lookup cl (clients w3) = None /\
             st w3 = st w2 /\ (forall y, In y (servers w3) -> In y (servers w2)).
Proof. exact removed_pool_error. Qed.
Print Assumptions c14_removed_pool_error.

(** Never another pool's servers, in EVERY run (failed builds included): a transaction that starts
    runs on an object that was built for the client's own (database, user) and for no other key. *)
Theorem c14_no_foreign_pool : forall hashf ops w obs c x w' p s f,
  run hashf empty_world ops = (w, obs) ->
  cl_lookup c (clients w) = Some x -> step hashf w (OBegin c) = (w', ObBegun p s f) ->
  (exists pd, In (p, ((cdb x, cuser x), pd)) (objs w)) /\
  (forall k pd, In (p, (k, pd)) (objs w) -> k = (cdb x, cuser x)) /\
  In {| sid := s; spool := p; sholder := Some c |} (servers w').
Proof. exact no_foreign_pool_run. Qed.
Print Assumptions c14_no_foreign_pool.

Theorem c14_winv_every_run : forall hashf ops w obs, run hashf empty_world ops = (w, obs) -> winv hashf w.
Proof. exact winv_every_run. Qed.
Print Assumptions c14_winv_every_run.

(** What is left of F12: parse() still stores CONFIG before from_config runs, and only an Err is
    followed by the restore.  If a build PANICS (no such input is known: Config::validate rejects what
    the bb8 assertions and unwraps would trip on, C15) the unwinding skips the restore: POOLS keeps the old
    map, CONFIG is the new file, and reloading the same file answers Ok(false) from then on. *)
Theorem c14_partial_state : forall hashf s c bo n,
  wf_cfg c -> cfg_eqb (config s) c = false -> a_st (from_config hashf (pools s) c bo n) = FcPanic ->
  let s1 := {| config := c; pools := pools s |} in
  reload hashf s (Valid c bo) n = (s1, RPanic, n, []) /\
  forall bo' n', reload hashf s1 (Valid c bo') n' = (s1, ROk false, n', []).
Proof. exact partial_state. Qed.
Print Assumptions c14_partial_state.

Theorem c14_panic_partial_refuted :
  Forall op_wf panic_ops /\
  exists w, run idh empty_world panic_ops =
              (w, [ObReload (ROk true); ObConnected 0; ObReload RPanic; ObReload (ROk false); ObBegun 0 0 false]) /\
            config (st w) = f12_new /\ pools (st w) = [((0, 0), (10, 0))] /\ objs w = [(0, ((0, 0), 10))] /\
            ~ agree idh w.
Proof. exact panic_partial_refuted. Qed.
Print Assumptions c14_panic_partial_refuted.

(** F12 regression (the scenario props/c14.py replays on the implementation): pool (0,0) is redefined
    (10 -> 11) while its build fails: Err and nothing changes (the world after 3 steps is the world after
    2); the retry with all builds succeeding answers Ok(true); the client's next transaction runs on the
    object built from definition 11. *)
Theorem c14_f12_regression :
  exists w, run idh empty_world f12_ops =
              (w, [ObReload (ROk true); ObConnected 0; ObReload RErr; ObReload (ROk true); ObBegun 1 1 true]) /\
            config (st w) = f12_new /\ pools (st w) = [((0, 0), (11, 1))] /\ agree idh w /\
            fst (run idh empty_world (firstn 3 f12_ops)) = fst (run idh empty_world (firstn 2 f12_ops)).
Proof. exact f12_regression. Qed.
Print Assumptions c14_f12_regression.

(** The code before the repair (Mutants.v: [reload_store_first], CONFIG not restored on Err) is refuted:
    from a store where CONFIG and POOLS agree, a failed build followed by a successful retry of the same
    file ends with Ok(false), CONFIG = new file, POOLS = old pools. *)
Theorem c14_mutant_store_first_refuted :
  in_effect idh mut_objs (config mut_s0) (pools mut_s0) /\
  exists s1 s2,
    reload_store_first idh mut_s0 (Valid f12_new (bo_of [(0, 0)] [])) 1 = (s1, RErr, 1, []) /\
    reload_store_first idh s1 (Valid f12_new (bo_of [] [])) 1 = (s2, ROk false, 1, []) /\
    config s2 = f12_new /\ pools s2 = pools mut_s0 /\
    ~ in_effect idh mut_objs (config s2) (pools s2).
Proof. exact store_first_refuted. Qed.
Print Assumptions c14_mutant_store_first_refuted.

(** "No transaction in progress is broken by a reload", settings included: the idle-in-transaction timeout of an
    open transaction is the value read when its server was checked out.  Whatever reloads (and other clients'
    steps) happen meanwhile, a silence of [ms] has the outcome it would have had before them ... *)
Theorem c14_inflight_timeout_fixed : forall hashf l w w' obs c x s srv ms,
  run hashf w l = (w', obs) -> Forall (fun o => actor o <> Some c) l ->
  cl_lookup c (clients w) = Some x -> cheld x = Some s -> In srv (servers w) -> sholder srv = Some c ->
  snd (step hashf w' (OIdle c ms)) = snd (step hashf w (OIdle c ms)).
Proof. exact inflight_timeout_fixed. Qed.
Print Assumptions c14_inflight_timeout_fixed.

Theorem c14_idle_outcome : forall hashf w c x s ms,
  cl_lookup c (clients w) = Some x -> cheld x = Some s ->
  snd (step hashf w (OIdle c ms)) = if negb (ctmo x =? 0) && (ctmo x <=? ms) then ObTimedOut else ObIdled.
Proof. exact idle_outcome. Qed.
Print Assumptions c14_idle_outcome.

(** ... in particular a transaction that started without a timeout, or stays below the one it started with,
    is untouched by any silence, however low the timeout of the file loaded meanwhile. *)
Theorem c14_idle_within_is_noop : forall hashf w c x s ms, settled w ->
  cl_lookup c (clients w) = Some x -> cheld x = Some s -> (ctmo x = 0 \/ ms < ctmo x) ->
  step hashf w (OIdle c ms) = (w, ObIdled).
Proof. exact idle_within_is_noop. Qed.
Print Assumptions c14_idle_within_is_noop.

(** New transactions get the new value: the one of the configuration in force when they start. *)
Theorem c14_begin_reads_timeout : forall hashf w c x w' p s f,
  cl_lookup c (clients w) = Some x -> step hashf w (OBegin c) = (w', ObBegun p s f) ->
  exists y, cl_lookup c (clients w') = Some y /\ ctmo y = cidle (config (st w)) /\ cheld y = Some s.
Proof. exact begin_reads_timeout. Qed.
Print Assumptions c14_begin_reads_timeout.

(** Removal does not depend on the pause flag: a reload step reads and writes the store and the id supply only;
    after Ok(true) every pool that is not registered any more is resumed (so its waiting clients go on to
    "No pool configured": c14_removed_pool_error, whose [pinv] premise holds in every run). *)
Theorem c14_reload_step_store : forall hashf w fo w' ob, step hashf w (OReload fo) = (w', ob) ->
  exists s' r n' new, reload hashf (st w) fo (next_pool w) = (s', r, n', new) /\ st w' = s' /\ ob = ObReload r /\ next_pool w' = n'.
Proof. exact reload_step_store. Qed.
Print Assumptions c14_reload_step_store.

Theorem c14_removed_are_resumed : forall hashf w fo w1, step hashf w (OReload fo) = (w1, ObReload (ROk true)) ->
  forall k, has_pool (st w1) k = false -> ~ In k (paused w1).
Proof. exact removed_are_resumed. Qed.
Print Assumptions c14_removed_are_resumed.

Theorem c14_pinv_every_run : forall hashf ops w obs, run hashf empty_world ops = (w, obs) -> pinv w.
Proof. exact pinv_every_run. Qed.
Print Assumptions c14_pinv_every_run.

(** Mutants 2 and 3 (Mutants.v) refuted: the timeout looked up at every wait breaks the open transaction; a paused
    pool kept registered across its removal still resolves. *)
Theorem c14_mutant_idle_live_refuted :
  exists w, fst (run idh empty_world idle_ops) = w /\
            snd (run idh empty_world idle_ops) = [ObReload (ROk true); ObConnected 0; ObBegun 0 0 false; ObReload (ROk true)] /\
            snd (step idh w (OIdle 0 400)) = ObIdled /\ idle_live w 0 400 = ObTimedOut /\
            snd (run idh w [OEnd 0; OBegin 0; OIdle 0 400]) = [ObEnded; ObBegun 0 0 false; ObTimedOut].
Proof. exact idle_live_refuted. Qed.
Print Assumptions c14_mutant_idle_live_refuted.

Theorem c14_mutant_keep_paused_refuted :
  exists w, run idh empty_world pause_ops =
              (w, [ObReload (ROk true); ObConnected 0; ObAdmin true; ObReload (ROk true); ObNoPool; ObNoPool]) /\
            paused w = [] /\ begin_txn (st w) 0 0 = None /\
            plookup (0, 0) (keep_paused [(0, 0)] [((0, 0), (10, 0)); ((1, 0), (20, 1))] (pools (st w))) = Some (10, 0) /\
            clookup 0 (cpools (config (st w))) = None.
Proof. exact keep_paused_refuted. Qed.
Print Assumptions c14_mutant_keep_paused_refuted.

(** A transaction that was held by PAUSE reads the configuration in force when it actually starts: the outcome of
    [OWake] is a function of POOLS / CONFIG at that moment (pool object, server, idle timeout), whatever the
    client had looked up before it parked. *)
Theorem c14_held_reads_at_start : forall hashf w c x,
  cl_lookup c (clients w) = Some x -> is_waiting w c = true ->
  existsb (key_eqb (cdb x, cuser x)) (paused w) = false ->
  match begin_txn (st w) (cdb x) (cuser x) with
  | Some p => exists w' s f, step hashf w (OWake c) = (w', ObBegun p s f) /\
                cl_lookup c (clients w') = Some {| cdb := cdb x; cuser := cuser x; cclone := p; cheld := Some s; ctmo := cidle (config (st w)); cset := p |} /\
                In {| sid := s; spool := p; sholder := Some c |} (servers w')
  | None => exists w', step hashf w (OWake c) = (w', ObNoPool) /\ cl_lookup c (clients w') = None /\
                st w' = st w /\ (forall y, In y (servers w') -> In y (servers w))
  end.
Proof. exact wake_resolves. Qed.
Print Assumptions c14_held_reads_at_start.

(** Mutant 4 (Mutants.v): the lookup after wait_paused() dropped — refuted: the held client parked with a clone of
    object 0, the reload built object 2 for its pool, the model starts the transaction on object 2. *)
Theorem c14_mutant_wake_stale_refuted :
  exists w x, run idh empty_world held_ops =
                (w, [ObReload (ROk true); ObConnected 0; ObAdmin true; ObBlocked; ObReload (ROk true); ObAdmin true]) /\
              cl_lookup 0 (clients w) = Some x /\ cclone x = 0 /\ is_waiting w 0 = true /\
              begin_txn (st w) 0 0 = Some 2 /\ In (2, ((0, 0), 11)) (objs w) /\ In (0, ((0, 0), 10)) (objs w) /\
              exists w' s, step idh w (OWake 0) = (w', ObBegun 2 s true).
Proof. exact wake_stale_refuted. Qed.
Print Assumptions c14_mutant_wake_stale_refuted.

(** A reload that does not answer Ok(true) — unreadable, invalid, unchanged, build failed, build panicked — leaves the
    registered pools, the PAUSE flags, the ban lists, the clients and the waiters as they were. *)
Theorem c14_refused_reload_keeps_flags : forall hashf w fo w' r, step hashf w (OReload fo) = (w', ObReload r) -> r <> ROk true ->
  pools (st w') = pools (st w) /\ paused w' = paused w /\ bans w' = bans w /\ clients w' = clients w /\ waiting w' = waiting w.
Proof. exact refused_reload_keeps_flags. Qed.
Print Assumptions c14_refused_reload_keeps_flags.

(** Ban lists belong to pool objects.  After ANY reload, per (pool, user): either the registered object is the one that
    was registered before (unchanged definition: its bans stay, c14_reload_keeps_bans), or it was built by this
    reload and has no ban at all — bans of the replaced object do not carry over, and the new object's list is
    sized by its own definition (pool.rs from_config: one empty map per shard). *)
Theorem c14_rebuilt_pool_no_bans : forall hashf w fo w' ob k h p,
  binv w -> step hashf w (OReload fo) = (w', ob) -> plookup k (pools (st w')) = Some (h, p) ->
  plookup k (pools (st w)) = Some (h, p) \/ (forall i, ~ In (p, i) (bans w')).
Proof. exact rebuilt_pool_no_bans. Qed.
Print Assumptions c14_rebuilt_pool_no_bans.

Theorem c14_reload_keeps_bans : forall hashf w fo w' ob, step hashf w (OReload fo) = (w', ob) -> bans w' = bans w.
Proof. exact reload_keeps_bans. Qed.
Print Assumptions c14_reload_keeps_bans.

Theorem c14_binv_every_run : forall hashf ops w obs, run hashf empty_world ops = (w, obs) -> binv w.
Proof. exact binv_every_run. Qed.
Print Assumptions c14_binv_every_run.

(** Mutants 5-7 (Mutants.v) refuted: inherited ban list; router settings not refreshed at the checkout; dropped pools
    resumed before the build that then fails. *)
Theorem c14_mutant_inherit_bans_refuted :
  exists w, run idh empty_world ban_ops = (w, [ObReload (ROk true); ObAdmin true; ObAdmin true; ObReload (ROk true)]) /\
            pools (st w) = [((0, 0), (11, 2)); ((1, 0), (20, 1))] /\ bans w = [(1, 1); (0, 1)] /\
            (forall i, ~ In (2, i) (bans w)) /\
            In (2, 1) (inherit_bans [((0, 0), (10, 0)); ((1, 0), (20, 1))] (pools (st w)) (bans w)).
Proof. exact inherit_bans_refuted. Qed.
Print Assumptions c14_mutant_inherit_bans_refuted.

Theorem c14_mutant_stale_router_refuted :
  exists w x, run idh empty_world session_ops = (w, [ObReload (ROk true); ObConnected 0; ObReload (ROk true); ObBegun 2 1 true]) /\
              cl_lookup 0 (clients w) = Some x /\ cclone x = 2 /\ cset x = 2 /\
              exists w0 x0, fst (run idh empty_world (firstn 3 session_ops)) = w0 /\ cl_lookup 0 (clients w0) = Some x0 /\ cset x0 = 0.
Proof. exact stale_router_refuted. Qed.
Print Assumptions c14_mutant_stale_router_refuted.

Theorem c14_mutant_early_resume_refuted :
  exists w, run idh empty_world refuse_ops = (w, [ObReload (ROk true); ObAdmin true; ObReload RErr]) /\
            config (st w) = two_pools /\ has_pool (st w) (0, 0) = true /\ paused w = [(0, 0)] /\
            early_resume drop_and_fail (paused w) = [].
Proof. exact early_resume_refuted. Qed.
Print Assumptions c14_mutant_early_resume_refuted.

(** ------------------------------------------------------------------ non-vacuity *)

Definition ex_c0 : cfg := {| cgen := 1; cidle := 0; cpools := [(0, (10, [0])); (1, (20, [0]))] |}.
Definition ex_c1 : cfg := {| cgen := 1; cidle := 0; cpools := [(0, (10, [0])); (1, (21, [0])); (2, (30, [0]))] |}.   (* 0 unchanged, 1 changed, 2 added *)
Definition ex_c2 : cfg := {| cgen := 1; cidle := 0; cpools := [(0, (10, [0])); (2, (30, [0]))] |}.                    (* 1 removed *)
Definition ex_ok := bo_of [] [].

(** wf_cfg, all_built and "changed" are satisfiable together *)
Example ex_hyps : wf_cfg ex_c1 /\ all_built ex_c1 ex_ok = true /\ cfg_eqb ex_c0 ex_c1 = false /\ cfg_eqb ex_c1 ex_c1 = true.
Proof. repeat split; try reflexivity. unfold wf_cfg. cbn. repeat constructor; cbn; intuition discriminate. Qed.

(** reordering the pools of a file is not a change (HashMap equality) *)
Example ex_reordered_equal :
  cfg_eqb ex_c0 {| cgen := 1; cidle := 0; cpools := [(1, (20, [0])); (0, (10, [0]))] |} = true.
Proof. reflexivity. Qed.

(** a change of [general] alone makes reload run from_config, which reuses every pool object *)
Example ex_general_only :
  fst (fst (fst (reload idh {| config := ex_c0; pools := [((0, 0), (10, 0)); ((1, 0), (20, 1))] |}
                        (Valid {| cgen := 2; cidle := 0; cpools := cpools ex_c0 |} ex_ok) 2)))
  = {| config := {| cgen := 2; cidle := 0; cpools := cpools ex_c0 |}; pools := [((0, 0), (10, 0)); ((1, 0), (20, 1))] |}.
Proof. reflexivity. Qed.

(** the situations of the property text in one run: two clients mid-transaction across a reload that
    keeps pool 0, changes pool 1 and adds pool 2; a TOML error; then pool 1 is removed.
    Steps: (observation code, view) — see [obs_code] / [view]. *)
Example ex_story_obs :
  map fst (trace idh empty_world
    [OReload (Valid ex_c0 ex_ok); OConnect 0 0 0; OConnect 1 1 0; OBegin 0; OBegin 1;
     OReload (Valid ex_c1 ex_ok);          (* both clients are in a transaction *)
     OEnd 0; OEnd 1; OBegin 0; OBegin 1; OEnd 0; OEnd 1; OConnect 2 2 0;
     OReload TomlError; OReload (Valid ex_c2 ex_ok); OBegin 1; OBegin 2; OReload (Valid ex_c2 ex_ok)])
  = [(0, 2, 0, 0);
     (1, 0, 0, 0); (1, 1, 0, 0);            (* each first client validates its pool: servers 0 and 1 are opened, idle *)
     (3, 0, 0, 0); (3, 1, 1, 0);
     (0, 2, 0, 0);                          (* reloaded: Ok(true) *)
     (4, 0, 0, 0); (4, 0, 0, 0);            (* both transactions end normally *)
     (3, 0, 0, 0);                          (* client 0: same object 0, same server 0 *)
     (3, 2, 2, 1);                          (* client 1: the rebuilt object 2, a new server *)
     (4, 0, 0, 0); (4, 0, 0, 0); (1, 3, 0, 0);
     (0, 0, 0, 0);                          (* TOML error: Err *)
     (0, 2, 0, 0);                          (* pool 1 removed *)
     (2, 0, 0, 0);                          (* client 1: No pool configured *)
     (3, 3, 3, 0);                          (* client 2 unaffected *)
     (0, 1, 0, 0)].                         (* same file again: Ok(false) *)
Proof. vm_compute. reflexivity. Qed.

(** ... and the open server connections after the reload in the middle of the two transactions: both
    still there, both still held (server 1 belongs to the replaced object 1) *)
Example ex_story_inflight :
  snd (snd (nth 5 (trace idh empty_world
    [OReload (Valid ex_c0 ex_ok); OConnect 0 0 0; OConnect 1 1 0; OBegin 0; OBegin 1; OReload (Valid ex_c1 ex_ok)])
    ((0, 0, 0, 0), (0, [], [], []))))
  = [(1, 1, 2); (0, 0, 1)].
Proof. vm_compute. reflexivity. Qed.

(** a build that panics leaves CONFIG new and POOLS old; one that fails leaves everything as it was *)
Example ex_panic_partial :
  reload idh {| config := f12_old; pools := [((0, 0), (10, 0))] |} (Valid f12_new (bo_of [] [(0, 0)])) 1
  = ({| config := f12_new; pools := [((0, 0), (10, 0))] |}, RPanic, 1, []).
Proof. reflexivity. Qed.

Example ex_fail_noop :
  reload idh {| config := f12_old; pools := [((0, 0), (10, 0))] |} (Valid f12_new (bo_of [(0, 0)] [])) 1
  = ({| config := f12_old; pools := [((0, 0), (10, 0))] |}, RErr, 1, []).
Proof. reflexivity. Qed.
