(** C08, layer 2 — abstract model of pgcat's prepared-statement caching and of a
    PostgreSQL backend's statement table; specification = a direct connection.

    Transcribed from (line numbers of the current /repo tree):
      client.rs  buffer_parse 1823-1864, buffer_bind 1868-1915, buffer_describe 1919-1977,
                 'C' arm 1349-1354, the 'S' arm 1403-1543, ensure_prepared_statement_is_on_server
                 1745-1784, register_parse_to_server_cache 1789-1819
      server.rs  has_prepared_statement 1119-1133, add_prepared_statement_to_cache 1135-1155,
                 register_prepared_statement 1167-1214, recv '1' 1092-1094 and 'E' 967-987,
                 checkin_cleanup DEALLOCATE ALL 1357-1363
      pool.rs    PreparedStatementCache::get_or_insert 86-103, promote 106-108
      lru-0.12.0 LruCache::{get, push, promote, pop, clear}

    Abstractions.  A statement (query text, num_params, param_types) is a [nat]: by layer 1
    [hkey] is exactly that triple, so only the hash function [hash : stmt -> nat] can confuse
    two statements (hypothesis [hash_collision_free] of the theorems).  The server-side name
    "PGCAT_<g>" is the [nat] g.  Client statement names are [nat]s (0 = the unnamed statement).
    One [Sync c s] = one pass through the 'S' arm of client [c] on the server connection [s]
    the pool handed out for this transaction (the oracle of the quantifier "every assignment of
    transactions to server connections"); exclusivity of that connection is C01, not modelled.
    Replies: only what C08 is about (ParseComplete, BindComplete, CloseComplete, the statement
    an Execute ran, the statement a Describe described, ErrorResponse, ReadyForQuery).

    Definitions only; proofs are in CacheProofs.v. *)
From Coq Require Import Arith List Bool Lia.
Import ListNotations.

(** * Configuration and verdicts of the backend *)
Inductive skind := Good | BadParse | BadExec | DeallocAll.
(* BadParse: Parse fails (syntax/permission).  BadExec: Execute fails at run time.
   DeallocAll: executing it runs DEALLOCATE ALL / DISCARD ALL on the backend. *)

Record cfg := mkCfg { hash : nat -> nat; kind : nat -> skind; cp : nat; cs : nat }.

(** * LRU caches (lists, most recently used first) *)
Fixpoint remove_nat (x : nat) (l : list nat) : list nat :=
  match l with [] => [] | y :: r => if x =? y then remove_nat x r else y :: remove_nat x r end.
Definition mem (x : nat) (l : list nat) : bool := existsb (Nat.eqb x) l.
(* LruCache::get(k).is_some() / promote(k): move to front when present *)
Definition touch (l : list nat) (x : nat) : list nat := if mem x l then x :: remove_nat x l else l.
(* LruCache::push(k) for a key that is absent: evicts the least recently used at capacity *)
Definition push (cap : nat) (l : list nat) (x : nat) : list nat * option nat :=
  if length l <? cap then (x :: l, None) else (x :: removelast l, Some (last l 0)).

(** * State *)
Inductive item :=
| IParse (g st : nat)        (* renamed Parse + metadata (Arc<Parse>, hash) *)
| IBind (g st n p : nat)     (* Bind (portal p) renamed to PGCAT_g when it was buffered; metadata Some((n, Arc<Parse>, hash)) *)
| IDesc (g st n : nat)       (* Describe('S', n) *)
| IDescP (p : nat)           (* Describe('P', p): passed through, metadata None *)
| IExec (p : nat)            (* Execute of portal p (0 = the unnamed portal) *)
| IClose (n : nat)           (* Close('S', n) *)
| IClosePortal (p : nat).    (* Close('P', p): forwarded unchanged; never touches the statement name space *)

Record client := mkClient {
  cmap : list (nat * (nat * nat));   (* prepared_statements: client name -> (PGCAT_g, statement) *)
  cbuf : list item;                  (* extended_protocol_data_buffer *)
  alive : bool }.

Inductive bmsg := BParse (g st : nat) | BBind (g p : nat) | BDesc (g : nat) | BDescP (p : nat) | BExec (p : nat)
                | BClose (g : nat) | BCloseUnnamed | BCloseP (p : nat) | BSync.

Record server := mkServer {
  lru : list nat;                    (* prepared_statement_cache: LruCache<String, ()> *)
  queue : list nat;                  (* registering_prepared_statement *)
  btab : list (nat * nat);           (* the BACKEND's prepared statements: name g -> statement *)
  slog : list bmsg }.                (* ghost: everything this backend received, in order *)

Record world := mkWorld {
  clients : nat -> client;
  servers : nat -> server;
  plru : list (nat * (nat * nat));   (* pool cache: hash -> Arc<Parse>(PGCAT_g, statement), MRU first *)
  gdef : list nat }.                 (* ghost: statement of PGCAT_g; PREPARED_STATEMENT_COUNTER = length *)

Definition upd {A} (f : nat -> A) (k : nat) (v : A) : nat -> A := fun x => if x =? k then v else f x.

Definition client0 := mkClient [] [] true.
Definition server0 := mkServer [] [] [] [].
Definition world0 := mkWorld (fun _ => client0) (fun _ => server0) [] [].

(** association lists *)
Fixpoint alookup {B} (k : nat) (l : list (nat * B)) : option B :=
  match l with [] => None | (k', v) :: r => if k =? k' then Some v else alookup k r end.
Fixpoint aremove {B} (k : nat) (l : list (nat * B)) : list (nat * B) :=
  match l with [] => [] | (k', v) :: r => if k =? k' then aremove k r else (k', v) :: aremove k r end.
Definition ainsert {B} (k : nat) (v : B) (l : list (nat * B)) := (k, v) :: aremove k l.

(** * The backend (PostgreSQL as seen on the wire; environment model)
    Extended protocol: after an error everything up to the next Sync is skipped. *)
Inductive reply := R1 | R2 | R3 | RRow (st : nat) | RDescr (st : nat) | RDescrP (st : nat) | RErr | RZ.

(* [b_portal]: the portals of the current (implicit) transaction, portal name -> statement, 0 = the
   unnamed portal; a second name space next to the statement names of [b_tab].  A Bind to an open
   portal replaces it (what the mock backend does; PostgreSQL answers 42P03 for a NAMED portal,
   which the guard excludes). *)
Record bstate := mkB { b_tab : list (nat * nat); b_portal : list (nat * nat); b_skip : bool }.

Definition bstep (K : cfg) (b : bstate) (m : bmsg) : bstate * list reply :=
  match m with
  | BSync => (mkB (b_tab b) [] false, [RZ])
  | _ =>
    if b_skip b then (b, []) else
    match m with
    | BParse g st =>
      match kind K st with
      | BadParse => (mkB (b_tab b) (b_portal b) true, [RErr])
      | _ => match alookup g (b_tab b) with
             | Some _ => (mkB (b_tab b) (b_portal b) true, [RErr])        (* 42P05 already exists *)
             | None => (mkB ((g, st) :: b_tab b) (b_portal b) false, [R1])
             end
      end
    | BBind g p =>
      match alookup g (b_tab b) with
      | Some st => (mkB (b_tab b) (ainsert p st (b_portal b)) false, [R2])
      | None => (mkB (b_tab b) (b_portal b) true, [RErr])                   (* 26000 does not exist *)
      end
    | BDesc g =>
      match alookup g (b_tab b) with
      | Some st => (b, [RDescr st])
      | None => (mkB (b_tab b) (b_portal b) true, [RErr])
      end
    | BDescP p =>
      match alookup p (b_portal b) with
      | Some st => (b, [RDescrP st])
      | None => (mkB (b_tab b) (b_portal b) true, [RErr])                   (* 34000 portal does not exist *)
      end
    | BExec p =>
      match alookup p (b_portal b) with
      | None => (mkB (b_tab b) (b_portal b) true, [RErr])                   (* 34000 portal does not exist *)
      | Some st =>
        match kind K st with
        | BadExec => (mkB (b_tab b) (b_portal b) true, [RErr])
        | DeallocAll => (mkB [] (b_portal b) false, [RRow st])
        | _ => (b, [RRow st])
        end
      end
    | BClose g => (mkB (aremove g (b_tab b)) (b_portal b) false, [R3])
    | BCloseUnnamed => (b, [R3])
    | BCloseP p => (mkB (b_tab b) (aremove p (b_portal b)) false, [R3])     (* statements untouched *)
    | BSync => (b, [])
    end
  end.

Fixpoint brun (K : cfg) (b : bstate) (ms : list bmsg) : bstate * list reply :=
  match ms with
  | [] => (b, [])
  | m :: r => let '(b1, o1) := bstep K b m in let '(b2, o2) := brun K b1 r in (b2, o1 ++ o2)
  end.

(** * Server::recv on a reply stream: '1' pops the registering queue; 'E' drains it and removes
    every drained name from the LRU (the backend skips the rest of the batch; fix f7eb935);
    CommandComplete "DEALLOCATE ALL"/"DISCARD ALL" clears the LRU (fix b2fb22f) except for the
    names registered behind it in the same batch (fix fc66d7a). *)
Fixpoint recv (K : cfg) (l q : list nat) (rs : list reply) : list nat * list nat :=
  match rs with
  | [] => (l, q)
  | R1 :: r => recv K l (tl q) r
  | RErr :: r => recv K (fold_left (fun a x => remove_nat x a) q l) [] r
  | RRow st :: r =>
    match kind K st with
    | DeallocAll =>   (* cache.clear(), then the names still being registered are pushed back (fix fc66d7a) *)
      recv K (fold_left (fun a x => if mem x a then touch a x else fst (push (cs K) a x)) q []) q r
    | _ => recv K l q r
    end
  | _ :: r => recv K l q r
  end.

(** send [ms ++ [Sync]] to server [sv]'s backend now, read to ReadyForQuery *)
Definition exchange (K : cfg) (sv : server) (ms : list bmsg) : server * list reply :=
  let '(b, rs) := brun K (mkB (btab sv) [] false) (ms ++ [BSync]) in
  let '(l, q) := recv K (lru sv) (queue sv) rs in
  (mkServer l q (b_tab b) (slog sv ++ ms ++ [BSync]), rs).

(** * The pool cache: PreparedStatementCache::get_or_insert / promote *)
Fixpoint premove (h : nat) (l : list (nat * (nat * nat))) :=
  match l with [] => [] | (h', v) :: r => if h =? h' then premove h r else (h', v) :: premove h r end.
Definition ppromote (l : list (nat * (nat * nat))) (h : nat) :=
  match alookup h l with Some v => (h, v) :: premove h l | None => l end.

Definition pool_get_or_insert (K : cfg) (w : world) (st : nat) : world * (nat * nat) :=
  let h := hash K st in
  match alookup h (plru w) with
  | Some e => (mkWorld (clients w) (servers w) (ppromote (plru w) h) (gdef w), e)
  | None =>
    let g := length (gdef w) in                           (* Parse::rewrite: PGCAT_<counter++> *)
    let l := if length (plru w) <? Nat.max 1 (cp K) then plru w else removelast (plru w) in
    (mkWorld (clients w) (servers w) ((h, (g, st)) :: l) (gdef w ++ [st]), (g, st))
  end.

(** * Server::register_prepared_statement(parse, should_send) (server.rs:1167-1214).
    Returns the server and whether the statement is in its cache afterwards. *)
Definition register (K : cfg) (sv : server) (g st : nat) (should_send : bool) : server * bool :=
  if mem g (lru sv) then (mkServer (touch (lru sv) g) (queue sv) (btab sv) (slog sv), true)   (* two cache hits *)
  else
    let '(l, ev) := push (cs K) (lru sv) g in
    (* the Close of the evicted statement goes first (fix 43119ca): a failing Parse cannot make the backend skip it *)
    let ms := (match ev with Some e => [BClose e] | None => [] end) ++ (if should_send then [BParse g st] else []) in
    (* the out-of-band exchange answers only for its own statement (fix d9d0e8b): the names registered for
       the batch that is still being assembled are set aside while it runs *)
    let sv1 := mkServer l (if should_send then [g] else []) (btab sv) (slog sv) in
    let sv2 := match ms with [] => sv1 | _ => fst (exchange K sv1 ms) end in
    let q := queue sv ++ (if should_send then [] else [g]) in      (* the client's own Parse follows with its batch *)
    (mkServer (touch (lru sv2) g) q (btab sv2) (slog sv2), mem g (lru sv2)).

(** * The 'S' arm: one pass over the buffered items.
    [acc] = (client map, server, pool lru, forwarded messages, synthesised replies). *)
Record sacc := mkAcc { a_map : list (nat * (nat * nat)); a_sv : server; a_pl : list (nat * (nat * nat));
                       a_fwd : list bmsg; a_syn : list reply }.

(* ensure_prepared_statement_is_on_server(name, parse, hash): the statement is the one the name
   referred to when the Bind/Describe was buffered (fix f56a2eb); on PreparedStatementError the
   name is forgotten unless it has been prepared anew since (Arc::ptr_eq = same PGCAT name) *)
Definition ensure (K : cfg) (a : sacc) (n g st : nat) : sacc :=
  let pl := ppromote (a_pl a) (hash K st) in
  let '(sv, ok) := register K (a_sv a) g st true in
  let m := if ok then a_map a else
             match alookup n (a_map a) with
             | Some (g', _) => if g' =? g then aremove n (a_map a) else a_map a
             | None => a_map a end in
  mkAcc m sv pl (a_fwd a) (a_syn a).

Definition sitem (K : cfg) (a : sacc) (it : item) : sacc :=
  match it with
  | IParse g st =>
    if mem g (lru (a_sv a)) then                                          (* has_prepared_statement *)
      mkAcc (a_map a) (mkServer (touch (lru (a_sv a)) g) (queue (a_sv a)) (btab (a_sv a)) (slog (a_sv a)))
            (a_pl a) (a_fwd a) (a_syn a ++ [R1])
    else
      let pl := ppromote (a_pl a) (hash K st) in
      let '(sv, _) := register K (a_sv a) g st false in
      mkAcc (a_map a) sv pl (a_fwd a ++ [BParse g st]) (a_syn a)
  | IBind g st n p => let a' := ensure K a n g st in mkAcc (a_map a') (a_sv a') (a_pl a') (a_fwd a' ++ [BBind g p]) (a_syn a')
  | IDesc g st n => let a' := ensure K a n g st in mkAcc (a_map a') (a_sv a') (a_pl a') (a_fwd a' ++ [BDesc g]) (a_syn a')
  | IDescP p => mkAcc (a_map a) (a_sv a) (a_pl a) (a_fwd a ++ [BDescP p]) (a_syn a)
  | IExec p => mkAcc (a_map a) (a_sv a) (a_pl a) (a_fwd a ++ [BExec p]) (a_syn a)
  | IClosePortal p => mkAcc (a_map a) (a_sv a) (a_pl a) (a_fwd a ++ [BCloseP p]) (a_syn a)   (* !is_prepared_statement: forwarded *)
  | IClose n =>
    if n =? 0 then mkAcc (a_map a) (a_sv a) (a_pl a) (a_fwd a ++ [BCloseUnnamed]) (a_syn a)   (* anonymous: forwarded *)
    else mkAcc (a_map a) (a_sv a) (a_pl a) (a_fwd a) (a_syn a ++ [R3])     (* the name was forgotten when the Close arrived *)
  end.

Definition sitems (K : cfg) (a : sacc) (its : list item) : sacc := fold_left (sitem K) its a.

(** * Operations and observations *)
Inductive op :=
| Parse (c n st : nat)
| Bind (c p n : nat)       (* portal p (0 = unnamed), statement n; p may equal n: two name spaces *)
| Describe (c n : nat)     (* Describe('S', n) *)
| DescribeP (c p : nat)    (* Describe('P', p) *)
| Execute (c p : nat)
| Close (c n : nat)        (* Close('S', n) *)
| CloseP (c p : nat)       (* Close('P', p) *)
| Sync (c s : nat)
| Cleanup (s : nat).      (* checkin_cleanup with needs_cleanup_prepare: DEALLOCATE ALL + cache.clear() *)

(* what client c receives for one op (only Sync and fatal errors produce anything) *)
Inductive obs := Replies (c : nat) (rs : list reply) | Killed (c : nat) (rs : list reply).

Definition set_client (w : world) (c : nat) (cl : client) := mkWorld (upd (clients w) c cl) (servers w) (plru w) (gdef w).

Definition step (K : cfg) (w : world) (o : op) : world * list obs :=
  match o with
  | Parse c n st =>
    let cl := clients w c in
    if negb (alive cl) then (w, []) else
    let '(w1, (g, st')) := pool_get_or_insert K w st in
    (set_client w1 c (mkClient (ainsert n (g, st') (cmap cl)) (cbuf cl ++ [IParse g st']) true), [])
  | Bind c p n =>
    let cl := clients w c in
    if negb (alive cl) then (w, []) else
    match alookup n (cmap cl) with
    | Some (g, st) => (set_client w c (mkClient (cmap cl) (cbuf cl ++ [IBind g st n p]) true), [])
    | None => (set_client w c (mkClient (cmap cl) [] false), [Killed c [RErr; RZ]])           (* 1900-1912: error_response = ErrorResponse + ReadyForQuery, then the task ends *)
    end
  | Describe c n =>
    let cl := clients w c in
    if negb (alive cl) then (w, []) else
    match alookup n (cmap cl) with
    | Some (g, st) => (set_client w c (mkClient (cmap cl) (cbuf cl ++ [IDesc g st n]) true), [])
    | None => (set_client w c (mkClient (cmap cl) [] false), [Killed c [RErr; RZ]])
    end
  | DescribeP c p =>
    let cl := clients w c in
    if negb (alive cl) then (w, []) else (set_client w c (mkClient (cmap cl) (cbuf cl ++ [IDescP p]) true), [])
  | Execute c p =>
    let cl := clients w c in
    if negb (alive cl) then (w, []) else (set_client w c (mkClient (cmap cl) (cbuf cl ++ [IExec p]) true), [])
  | CloseP c p =>
    let cl := clients w c in
    (* forget_closed_statement tests close.is_prepared_statement(): a portal Close leaves the map alone *)
    if negb (alive cl) then (w, []) else (set_client w c (mkClient (cmap cl) (cbuf cl ++ [IClosePortal p]) true), [])
  | Close c n =>
    let cl := clients w c in
    if negb (alive cl) then (w, []) else
    (* forget_closed_statement (fix 80b6794): the name leaves the map in message order *)
    (set_client w c (mkClient (if n =? 0 then cmap cl else aremove n (cmap cl)) (cbuf cl ++ [IClose n]) true), [])
  | Sync c s =>
    let cl := clients w c in
    if negb (alive cl) then (w, []) else
    let a := sitems K (mkAcc (cmap cl) (servers w s) (plru w) [] []) (cbuf cl) in
    match a_fwd a with
    | [] =>   (* only the Sync is left: not sent, ReadyForQuery synthesised *)
      (mkWorld (upd (clients w) c (mkClient (a_map a) [] true)) (upd (servers w) s (a_sv a)) (a_pl a) (gdef w),
       [Replies c (a_syn a ++ [RZ])])
    | fwd =>
      let '(sv, rs) := exchange K (a_sv a) fwd in
      (mkWorld (upd (clients w) c (mkClient (a_map a) [] true)) (upd (servers w) s sv) (a_pl a) (gdef w),
       [Replies c (a_syn a ++ rs)])
    end
  | Cleanup s =>
    let sv := servers w s in
    (mkWorld (clients w) (upd (servers w) s (mkServer [] (queue sv) [] (slog sv))) (plru w) (gdef w), [])
  end.

Fixpoint run (K : cfg) (w : world) (ops : list op) : world * list obs :=
  match ops with
  | [] => (w, [])
  | o :: r => let '(w1, o1) := step K w o in let '(w2, o2) := run K w1 r in (w2, o1 ++ o2)
  end.

(** * Specification: every client on its own direct connection.
    A client's table maps its names to statements; a later Parse of a name replaces the
    earlier one ("most recently prepared"; PostgreSQL itself answers 42P05 for a named
    statement that was not closed first — see [c08_reparse_without_close_is_lenient]). *)
Record sclient := mkS { s_tab : list (nat * nat); s_buf : list op; s_alive : bool }.

Record dstate := mkD { d_tab : list (nat * nat); d_portal : list (nat * nat); d_skip : bool }.

Definition dstep (K : cfg) (d : dstate) (o : op) : dstate * list reply :=
  if d_skip d then (d, []) else
  match o with
  | Parse _ n st =>
    match kind K st with
    | BadParse => (mkD (d_tab d) (d_portal d) true, [RErr])
    | _ => (mkD (ainsert n st (d_tab d)) (d_portal d) false, [R1])
    end
  | Bind _ p n => match alookup n (d_tab d) with
                  | Some st => (mkD (d_tab d) (ainsert p st (d_portal d)) false, [R2])
                  | None => (mkD (d_tab d) (d_portal d) true, [RErr]) end
  | Describe _ n => match alookup n (d_tab d) with
                    | Some st => (d, [RDescr st])
                    | None => (mkD (d_tab d) (d_portal d) true, [RErr]) end
  | DescribeP _ p => match alookup p (d_portal d) with
                     | Some st => (d, [RDescrP st])
                     | None => (mkD (d_tab d) (d_portal d) true, [RErr]) end
  | Execute _ p => match alookup p (d_portal d) with
                 | None => (mkD (d_tab d) (d_portal d) true, [RErr])
                 | Some st => match kind K st with
                              | BadExec => (mkD (d_tab d) (d_portal d) true, [RErr])
                              | DeallocAll => (mkD [] (d_portal d) false, [RRow st])
                              | _ => (d, [RRow st]) end
                 end
  | Close _ n => (mkD (aremove n (d_tab d)) (d_portal d) false, [R3])
  | CloseP _ p => (mkD (d_tab d) (aremove p (d_portal d)) false, [R3])    (* closing a portal never affects statements *)
  | _ => (d, [])
  end.

Fixpoint drun (K : cfg) (d : dstate) (os : list op) : dstate * list reply :=
  match os with
  | [] => (d, [])
  | o :: r => let '(d1, o1) := dstep K d o in let '(d2, o2) := drun K d1 r in (d2, o1 ++ o2)
  end.

Definition spec_state := nat -> sclient.
Definition sclient0 := mkS [] [] true.

Definition op_client (o : op) : option nat :=
  match o with
  | Parse c _ _ | Bind c _ _ | Describe c _ | DescribeP c _ | Execute c _ | Close c _ | CloseP c _ | Sync c _ => Some c
  | Cleanup _ => None end.

Definition spec_step (K : cfg) (S : spec_state) (o : op) : spec_state * list obs :=
  match o with
  | Cleanup _ => (S, [])
  | Sync c _ =>
    let sc := S c in
    let '(d, rs) := drun K (mkD (s_tab sc) [] false) (s_buf sc) in
    (upd S c (mkS (d_tab d) [] true), [Replies c (rs ++ [RZ])])
  | _ => match op_client o with
         | Some c => let sc := S c in (upd S c (mkS (s_tab sc) (s_buf sc ++ [o]) true), [])
         | None => (S, []) end
  end.

Fixpoint spec_run (K : cfg) (S : spec_state) (ops : list op) : spec_state * list obs :=
  match ops with
  | [] => (S, [])
  | o :: r => let '(S1, o1) := spec_step K S o in let '(S2, o2) := spec_run K S1 r in (S2, o1 ++ o2)
  end.

(** ** What is compared.  pgcat sends the replies it synthesises (ParseComplete for a cached
    Parse, CloseComplete) BEFORE the server's replies (client.rs:1513-1529, "it's possible we
    don't perfectly send things back in the same order"); the comparison is therefore on the
    data-carrying replies in order (which statement each Execute ran / each Describe described,
    errors) and on the number of each acknowledgement. *)
Definition is_data (r : reply) : bool := match r with RRow _ | RDescr _ | RDescrP _ | RErr => true | _ => false end.
Definition count_r (f : reply -> bool) (rs : list reply) : nat := length (filter f rs).
Definition norm (rs : list reply) : list reply * (nat * nat * nat * nat) :=
  (filter is_data rs,
   (count_r (fun r => match r with R1 => true | _ => false end) rs,
    count_r (fun r => match r with R2 => true | _ => false end) rs,
    count_r (fun r => match r with R3 => true | _ => false end) rs,
    count_r (fun r => match r with RZ => true | _ => false end) rs)).

Inductive nobs := NReplies (c : nat) (x : list reply * (nat * nat * nat * nat)) | NKilled (c : nat).
Definition norm_obs (o : obs) : nobs :=
  match o with Replies c rs => NReplies c (norm rs) | Killed c _ => NKilled c end.

Definition model_obs (K : cfg) (ops : list op) : list nobs := map norm_obs (snd (run K world0 ops)).
Definition spec_obs (K : cfg) (ops : list op) : list nobs := map norm_obs (snd (spec_run K (fun _ => sclient0) ops)).

(** * The guard of the refinement theorem: computable from the program and the verdicts alone
    (it runs the SPECIFICATION, never the model).  A batch = the ops of one client between
    two Syncs.  Within a batch:
      (G1) every statement parsed is [Good] and nothing the batch can execute is not [Good];
      (G3) Bind/Describe('S') name a statement that exists at that point; Execute/Describe('P') name
           a portal that is open at that point (bound in this batch and not closed since; portals do
           not survive the Sync outside a transaction); a NAMED portal is bound only while it is
           not open (PostgreSQL: 42P03); Close('S') names a named statement; Close('P') is free;
      (G4) the batch needs at most [cs] server-side statements: every Parse counts, a Bind or
           Describe counts unless its name was already parsed/bound/described in the batch
           and not closed since (one statement may be bound any number of times).
    (The former clause G2 — a name re-Parsed only before other mentions — is gone since the
    repairs 80b6794 and f56a2eb.)
    Each clause is necessary: see the [c08_gap_*] examples in Props.v. *)
Fixpoint batch_ok (K : cfg) (tab : list (nat * nat)) (known : list nat) (ptab : list (nat * nat)) (budget : nat) (os : list op) : bool :=
  match os with
  | [] => true
  | Parse _ n st :: r =>
    match kind K st with Good => true | _ => false end && (0 <? budget) &&
    batch_ok K (ainsert n st tab) (n :: known) ptab (budget - 1) r
  | Bind _ p n :: r =>
    match alookup n tab with
    | Some st =>
      ((p =? 0) || match alookup p ptab with None => true | Some _ => false end) && (mem n known || (0 <? budget)) &&
      batch_ok K tab (n :: known) (ainsert p st ptab) (if mem n known then budget else budget - 1) r
    | None => false
    end
  | Describe _ n :: r =>
    match alookup n tab with Some _ => true | None => false end && (mem n known || (0 <? budget)) &&
    batch_ok K tab (n :: known) ptab (if mem n known then budget else budget - 1) r
  | DescribeP _ p :: r => match alookup p ptab with Some _ => true | None => false end && batch_ok K tab known ptab budget r
  | Execute _ p :: r => match alookup p ptab with Some _ => true | None => false end && batch_ok K tab known ptab budget r
  | Close _ n :: r => negb (n =? 0) && batch_ok K (aremove n tab) (remove_nat n known) ptab budget r
  | CloseP _ p :: r => batch_ok K tab known (aremove p ptab) budget r
  | _ :: r => batch_ok K tab known ptab budget r
  end.

Fixpoint guard_from (K : cfg) (S : spec_state) (ops : list op) : bool :=
  match ops with
  | [] => true
  | o :: r =>
    (match op_client o with
     | Some c => batch_ok K (s_tab (S c)) [] [] (cs K) (s_buf (S c) ++ [o])   (* every prefix of a batch *)
     | None => true end) && guard_from K (fst (spec_step K S o)) r
  end.
Definition guard (K : cfg) (ops : list op) : bool := (0 <? cs K) && guard_from K (fun _ => sclient0) ops.

(** hash collisions proper: an explicit hypothesis *)
Definition stmts_of (ops : list op) : list nat :=
  flat_map (fun o => match o with Parse _ _ st => [st] | _ => [] end) ops.
Definition hash_collision_free (K : cfg) (ops : list op) : Prop :=
  forall a b, In a (stmts_of ops) -> In b (stmts_of ops) -> hash K a = hash K b -> a = b.
