(** C08, layer 1 — lemmas about the codec model (Codec.v). *)
From Coq Require Import ZArith NArith List Bool Lia.
From PV Require Import Prep.Codec.
Import ListNotations.
Open Scope Z_scope.

Ltac Zify.zify_post_hook ::= Z.div_mod_to_equations.

(** * Integers *)

Lemma byteb_lt b : byteb b = true -> (0 <= Z.of_N b < 256).
Proof. unfold byteb. intros H. apply N.ltb_lt in H. lia. Qed.

Lemma be16_i16_of a b : byteb a = true -> byteb b = true -> be16 (i16_of a b) = [a; b].
Proof.
  intros Ha Hb. apply byteb_lt in Ha. apply byteb_lt in Hb.
  unfold be16, i16_of. cbv zeta.
  destruct (Z.of_N a * 256 + Z.of_N b <? 32768) eqn:E.
  - apply Z.ltb_lt in E.
    replace ((Z.of_N a * 256 + Z.of_N b) mod 65536) with (Z.of_N a * 256 + Z.of_N b) by (symmetry; apply Z.mod_small; lia).
    f_equal; [|f_equal]; apply N2Z.inj; rewrite Z2N.id; lia.
  - apply Z.ltb_ge in E.
    replace ((Z.of_N a * 256 + Z.of_N b - 65536) mod 65536) with (Z.of_N a * 256 + Z.of_N b).
    + f_equal; [|f_equal]; apply N2Z.inj; rewrite Z2N.id; lia.
    + symmetry. rewrite <- (Z.mod_small (Z.of_N a * 256 + Z.of_N b) 65536) at 2 by lia.
      replace (Z.of_N a * 256 + Z.of_N b - 65536) with (Z.of_N a * 256 + Z.of_N b + (-1) * 65536) by lia.
      apply Z.mod_add. lia.
Qed.

Lemma i16_of_be16 z : in_i16 z = true ->
  match be16 z with [a; b] => i16_of a b = z /\ byteb a = true /\ byteb b = true | _ => False end.
Proof.
  unfold in_i16. intros H. apply andb_prop in H as [H1 H2]. apply Z.leb_le in H1. apply Z.ltb_lt in H2.
  unfold be16. cbv zeta. unfold i16_of, byteb.
  rewrite !Z2N.id by lia.
  repeat split.
  - destruct (z mod 65536 / 256 * 256 + (z mod 65536) mod 256 <? 32768) eqn:E;
      [apply Z.ltb_lt in E | apply Z.ltb_ge in E]; lia.
  - apply N.ltb_lt. lia.
  - apply N.ltb_lt. lia.
Qed.

Lemma u32_split a b c d :
  0 <= a < 256 -> 0 <= b < 256 -> 0 <= c < 256 -> 0 <= d < 256 ->
  let u := ((a * 256 + b) * 256 + c) * 256 + d in
  u / 16777216 = a /\ (u / 65536) mod 256 = b /\ (u / 256) mod 256 = c /\ u mod 256 = d /\ 0 <= u < 4294967296.
Proof. intros. cbv zeta. lia. Qed.

Lemma be32_i32_of a b c d : byteb a = true -> byteb b = true -> byteb c = true -> byteb d = true ->
  be32 (i32_of a b c d) = [a; b; c; d].
Proof.
  intros Ha Hb Hc Hd. apply byteb_lt in Ha, Hb, Hc, Hd.
  pose proof (u32_split _ _ _ _ Ha Hb Hc Hd) as H. cbv zeta in H.
  unfold be32, i32_of. cbv zeta.
  set (u := ((Z.of_N a * 256 + Z.of_N b) * 256 + Z.of_N c) * 256 + Z.of_N d) in *.
  assert (Hm : (if u <? 2147483648 then u else u - 4294967296) mod 4294967296 = u).
  { destruct (u <? 2147483648).
    - apply Z.mod_small. lia.
    - replace (u - 4294967296) with (u + (-1) * 4294967296) by lia. rewrite Z.mod_add by lia. apply Z.mod_small. lia. }
  rewrite Hm. destruct H as (H1 & H2 & H3 & H4 & _). rewrite H1, H2, H3, H4.
  rewrite !N2Z.id. reflexivity.
Qed.

Lemma i32_of_be32 z : in_i32 z = true ->
  match be32 z with [a; b; c; d] => i32_of a b c d = z /\ forallb byteb [a; b; c; d] = true | _ => False end.
Proof.
  unfold in_i32. intros H. apply andb_prop in H as [H1 H2]. apply Z.leb_le in H1. apply Z.ltb_lt in H2.
  unfold be32. cbv zeta. unfold i32_of, byteb. cbn [forallb].
  rewrite !Z2N.id by lia.
  set (u := z mod 4294967296).
  assert (Hu : 0 <= u < 4294967296) by (subst u; lia).
  assert (Hz : z = u \/ z = u - 4294967296) by (subst u; lia).
  assert (E : ((u / 16777216 * 256 + (u / 65536) mod 256) * 256 + (u / 256) mod 256) * 256 + u mod 256 = u) by lia.
  rewrite E. split.
  - destruct (u <? 2147483648) eqn:L; [apply Z.ltb_lt in L | apply Z.ltb_ge in L]; lia.
  - rewrite !andb_true_iff. repeat split; try (apply N.ltb_lt; lia).
Qed.

Lemma be32_length z : length (be32 z) = 4%nat.
Proof. reflexivity. Qed.
Lemma be16_length z : length (be16 z) = 2%nat.
Proof. reflexivity. Qed.

(** * Strings *)

Lemma beq_bytes_eq a b : beq_bytes a b = true -> a = b.
Proof.
  unfold beq_bytes. revert b. induction a as [|x a IH]; intros [|y b] H; cbn in *; try discriminate; auto.
  apply andb_prop in H as [H1 H2]. apply andb_prop in H2 as [H2 H3].
  apply N.eqb_eq in H2. subst. f_equal. apply IH. rewrite H1, H3. reflexivity.
Qed.

Lemma beq_bytes_refl a : beq_bytes a a = true.
Proof.
  unfold beq_bytes. induction a as [|x a IH]; cbn; auto.
  apply andb_prop in IH as [H1 H2]. rewrite H1, H2, N.eqb_refl. reflexivity.
Qed.

Lemma cleanb_eq s : cleanb s = true -> lossy s = s.
Proof. apply beq_bytes_eq. Qed.

Lemma lossy_ascii s : asciib s = true -> lossy s = s.
Proof.
  induction s as [|b r IH]; cbn; auto. intros H. apply andb_prop in H as [H1 H2].
  rewrite H1. f_equal. auto.
Qed.

Lemma ascii_clean s : asciib s = true -> cleanb s = true.
Proof. intros H. unfold cleanb. rewrite lossy_ascii by assumption. apply beq_bytes_refl. Qed.

Lemma split0_spec s p r : split0 s = Some (p, r) -> s = p ++ 0%N :: r /\ has0 p = false.
Proof.
  revert p r. induction s as [|c s IH]; cbn; intros p r H; try discriminate.
  destruct (c =? 0)%N eqn:E.
  - inversion H; subst. apply N.eqb_eq in E. subst. auto.
  - destruct (split0 s) as [[p' q']|]; try discriminate. inversion H; subst.
    destruct (IH _ _ eq_refl) as [-> H0]. split; auto.
    unfold has0 in *. cbn [existsb]. rewrite N.eqb_sym, E. exact H0.
Qed.

Lemma split0_app p r : has0 p = false -> split0 (p ++ 0%N :: r) = Some (p, r).
Proof.
  induction p as [|c p IH]; [reflexivity|]. unfold has0 in *. cbn [existsb app split0].
  intros H. apply orb_false_elim in H as [H1 H2].
  rewrite N.eqb_sym, H1, IH by assumption. reflexivity.
Qed.

Lemma read_string_term p r : has0 p = false -> read_string (p ++ 0%N :: r) = Ok (lossy p, r).
Proof. intros H. unfold read_string. rewrite split0_app by assumption. reflexivity. Qed.

Lemma has0_app a b : has0 (a ++ b) = has0 a || has0 b.
Proof. apply existsb_app. Qed.

Lemma blen_app a b : blen (a ++ b) = blen a + blen b.
Proof. unfold blen. rewrite app_length. lia. Qed.
Lemma blen_cons a b : blen (a :: b) = 1 + blen b.
Proof. unfold blen. cbn [length]. lia. Qed.
Lemma blen_nonneg a : 0 <= blen a.
Proof. unfold blen. lia. Qed.

(** * Counted arrays *)

Lemma get_n_i32_enc l r : forallb in_i32 l = true ->
  get_n get_i32 (length l) (flat_map be32 l ++ r) = Ok (l, r).
Proof.
  induction l as [|z l IH]; cbn [length get_n flat_map forallb]; auto.
  intros H. apply andb_prop in H as [H1 H2].
  pose proof (i32_of_be32 z H1) as Hz.
  destruct (be32 z) as [|a [|b [|c [|d [|? ?]]]]] eqn:E; try contradiction.
  destruct Hz as [Hz _]. cbn [app get_i32 bind]. rewrite Hz, IH by assumption. reflexivity.
Qed.

Lemma get_n_i16_enc l r : forallb in_i16 l = true ->
  get_n get_i16 (length l) (flat_map be16 l ++ r) = Ok (l, r).
Proof.
  induction l as [|z l IH]; cbn [length get_n flat_map forallb]; auto.
  intros H. apply andb_prop in H as [H1 H2].
  pose proof (i16_of_be16 z H1) as Hz.
  destruct (be16 z) as [|a [|b [|? ?]]] eqn:E; try contradiction.
  destruct Hz as [Hz _]. cbn [app get_i16 bind]. rewrite Hz, IH by assumption. reflexivity.
Qed.

(* decoding then re-encoding a counted array of i32 gives the same bytes back *)
Lemma get_n_i32_dec n s l r : forallb byteb s = true ->
  get_n get_i32 n s = Ok (l, r) -> s = flat_map be32 l ++ r /\ length l = n.
Proof.
  revert s l r. induction n as [|n IH]; cbn [get_n]; intros s l r Hb H.
  - inversion H; subst. auto.
  - destruct s as [|a [|b [|c [|d s]]]]; cbn in H; try discriminate.
    cbn [forallb] in Hb. rewrite !andb_true_iff in Hb. destruct Hb as (Ha & Hb' & Hc & Hd & Hs).
    destruct (get_n get_i32 n s) as [[l' r']| |] eqn:E; cbn in H; try discriminate.
    inversion H; subst. destruct (IH _ _ _ Hs E) as [-> <-].
    cbn [flat_map length]. rewrite be32_i32_of by assumption. split; reflexivity.
Qed.

Lemma get_n_exact_len n s l r : get_n get_i32 n s = Ok (l, r) -> blen s = 4 * Z.of_nat n + blen r.
Proof.
  revert s l r. induction n as [|n IH]; cbn [get_n]; intros s l r H.
  - inversion H; subst. lia.
  - destruct s as [|a [|b [|c [|d s]]]]; cbn in H; try discriminate.
    destruct (get_n get_i32 n s) as [[l' r']| |] eqn:E; cbn in H; try discriminate.
    inversion H; subst. apply IH in E. rewrite !blen_cons. lia.
Qed.

Lemma get_n_i32_total n s : blen s = 4 * Z.of_nat n -> exists l, get_n get_i32 n s = Ok (l, []).
Proof.
  revert s. induction n as [|n IH]; intros s H.
  - destruct s; [|rewrite blen_cons in H; pose proof (blen_nonneg s); lia]. exists []. reflexivity.
  - destruct s as [|a [|b [|c [|d s]]]]; rewrite ?blen_cons in H; try (unfold blen in H; cbn in H; lia).
    destruct (IH s) as [l Hl]; [lia|]. exists (i32_of a b c d :: l). cbn. rewrite Hl. reflexivity.
Qed.

Lemma forallb_app {A} (f : A -> bool) a b : forallb f (a ++ b) = forallb f a && forallb f b.
Proof. induction a; cbn; auto. rewrite IHa, andb_assoc. reflexivity. Qed.

(** * Parse: rename changes the name and the length field only *)

Lemma ck64_small chk v : 0 <= v < two64 -> ck64 chk v = Ok v.
Proof. intros H. unfold ck64. destruct (v <? two64) eqn:E; auto. apply Z.ltb_ge in E. lia. Qed.

Lemma as_usize_nonneg z : 0 <= z < two64 -> as_usize z = z.
Proof. intros. unfold as_usize. apply Z.mod_small. assumption. Qed.

Lemma i16_of_range a b : byteb a = true -> byteb b = true -> -32768 <= i16_of a b < 32768.
Proof.
  intros Ha Hb. apply byteb_lt in Ha, Hb. unfold i16_of. cbv zeta.
  destruct (Z.of_N a * 256 + Z.of_N b <? 32768) eqn:E; [apply Z.ltb_lt in E | apply Z.ltb_ge in E]; lia.
Qed.

Lemma i32_of_range a b c d : byteb a = true -> byteb b = true -> byteb c = true -> byteb d = true ->
  -2147483648 <= i32_of a b c d < 2147483648.
Proof.
  intros Ha Hb Hc Hd. apply byteb_lt in Ha, Hb, Hc, Hd. unfold i32_of. cbv zeta.
  match goal with |- context [if ?x <? ?y then _ else _] => destruct (x <? y) eqn:E end;
    [apply Z.ltb_lt in E | apply Z.ltb_ge in E]; lia.
Qed.

Theorem parse_rename_splice : forall chk b m,
  parse_canonical b = true -> has0 m = false -> blen m < 2147483648 ->
  exists p, decode_parse b = Ok p /\
            splice_name 0 0 b m = Some (match encode_parse chk (rename_parse p m) with Ok e => e | _ => [] end) /\
            (exists e, encode_parse chk (rename_parse p m) = Ok e) /\
            hkey (rename_parse p m) = hkey p.
Proof.
  intros chk b m Hc Hm Hlen.
  unfold parse_canonical in Hc.
  destruct b as [|code [|l1 [|l2 [|l3 [|l4 s2]]]]]; try discriminate.
  destruct (split0 s2) as [[nm s3]|] eqn:E2; try discriminate.
  destruct (split0 s3) as [[q s4]|] eqn:E3; try discriminate.
  destruct s4 as [|n1 [|n2 s5]]; try discriminate.
  rewrite !andb_true_iff in Hc. destruct Hc as ((((Hnp & Hs5) & Hl) & Hb) & Hcn).
  apply Z.leb_le in Hnp. apply Z.eqb_eq in Hs5. apply Z.eqb_eq in Hl.
  apply cleanb_eq in Hcn.
  destruct (split0_spec _ _ _ E2) as [-> Hn0]. destruct (split0_spec _ _ _ E3) as [-> Hq0].
  cbn [forallb] in Hb. rewrite !andb_true_iff in Hb. destruct Hb as (Hbc & Hb1 & Hb2 & Hb3 & Hb4 & Hb).
  rewrite forallb_app in Hb. cbn [forallb] in Hb. rewrite !andb_true_iff in Hb. destruct Hb as (Hbn & _ & Hb).
  rewrite forallb_app in Hb. cbn [forallb] in Hb. rewrite !andb_true_iff in Hb. destruct Hb as (Hbq & _ & Hn1 & Hn2 & Hb5).
  set (np := i16_of n1 n2) in *.
  pose proof (i16_of_range n1 n2 Hn1 Hn2) as Hr. fold np in Hr.
  destruct (get_n_i32_total (Z.to_nat np) s5) as [tys Ht]; [rewrite Z2Nat.id by lia; exact Hs5|].
  destruct (get_n_i32_dec _ _ _ _ Hb5 Ht) as [Hs5' Htl]. rewrite app_nil_r in Hs5'.
  exists (mkParse code (i32_of l1 l2 l3 l4) nm q np tys).
  assert (Hdec : decode_parse (code :: l1 :: l2 :: l3 :: l4 :: nm ++ 0%N :: q ++ 0%N :: n1 :: n2 :: s5)
                 = Ok (mkParse code (i32_of l1 l2 l3 l4) nm q np tys)).
  { unfold decode_parse, decode_parse_k. cbn [get_u8 get_i32 bind].
    rewrite read_string_term by assumption. cbn [bind].
    unfold read_query. rewrite split0_app by assumption. cbn [bind get_i16]. fold np. rewrite Ht. cbn [bind].
    rewrite Hcn. reflexivity. }
  split; [exact Hdec|].
  (* the encoder *)
  assert (Hnp64 : 0 <= np < two64) by (unfold two64; lia).
  assert (Henc : encode_parse chk (rename_parse (mkParse code (i32_of l1 l2 l3 l4) nm q np tys) m)
                 = Ok (code :: be32 (4 + (blen m + 1) + (blen q + 1) + 2 + 4 * np) ++ m ++ 0%N :: q ++ 0%N :: be16 np ++ flat_map be32 tys)).
  { unfold encode_parse, rename_parse. cbn [p_name p_query p_np p_code p_types].
    rewrite Hm, Hq0. rewrite as_usize_nonneg by assumption.
    rewrite ck64_small by (unfold two64; lia). cbn [bind].
    rewrite ck64_small; [reflexivity|].
    pose proof (i32_of_range l1 l2 l3 l4 Hb1 Hb2 Hb3 Hb4) as Hlr. rewrite Hl in Hlr.
    repeat (rewrite ?blen_cons, ?blen_app in Hlr).
    pose proof (blen_nonneg m). pose proof (blen_nonneg q). pose proof (blen_nonneg nm). pose proof (blen_nonneg s5).
    unfold two64. lia. }
  rewrite Henc. split; [|split; [eexists; reflexivity | reflexivity]].
  unfold splice_name. cbn [take_n skip_strings]. rewrite split0_app by assumption.
  cbn [app]. f_equal. f_equal. f_equal.
  - f_equal. rewrite Hl. repeat (rewrite ?blen_cons, ?blen_app). rewrite Hs5. lia.
  - unfold np. rewrite be16_i16_of by assumption. cbn [app]. rewrite <- Hs5'. reflexivity.
Qed.

(** * Describe / Close: same statement *)
Theorem describe_rename_splice : forall b m,
  describe_canonical b = true -> has0 m = false ->
  exists p, decode_describe b = Ok p /\
            splice_name 1 0 b m = Some (match encode_describe (rename_describe p m) with Ok e => e | _ => [] end) /\
            (exists e, encode_describe (rename_describe p m) = Ok e).
Proof.
  intros b m Hc Hm. unfold describe_canonical in Hc.
  destruct b as [|code [|l1 [|l2 [|l3 [|l4 [|t s3]]]]]]; try discriminate.
  destruct (split0 s3) as [[nm [|? ?]]|] eqn:E; try discriminate.
  rewrite !andb_true_iff in Hc. destruct Hc as ((Hl & Hb) & Hcn).
  apply Z.eqb_eq in Hl. apply cleanb_eq in Hcn.
  destruct (split0_spec _ _ _ E) as [-> Hn0].
  exists (mkDesc code (i32_of l1 l2 l3 l4) t nm). split.
  - unfold decode_describe, decode_describe_k. cbn [get_u8 get_i32 bind].
    rewrite read_string_term by assumption. cbn [bind]. rewrite Hcn. reflexivity.
  - unfold encode_describe, rename_describe. cbn [d_name d_code d_target]. rewrite Hm.
    split; [|eexists; reflexivity].
    unfold splice_name. cbn [take_n skip_strings]. rewrite split0_app by assumption. cbn [app].
    f_equal. f_equal. f_equal. f_equal. rewrite Hl. rewrite !blen_cons, blen_app, !blen_cons. change (blen []) with 0. lia.
Qed.

(** * Bind::rename: for ALL tails the result is the splice *)

Lemma ck32_in chk v : in_i32 v = true -> ck32 chk v = Ok v.
Proof. intros H. unfold ck32. rewrite H. reflexivity. Qed.

Lemma read_raw_term p r : has0 p = false -> read_raw (p ++ 0%N :: r) = Ok (p, r).
Proof. intros H. unfold read_raw. rewrite split0_app by assumption. reflexivity. Qed.

(* since 15e9536 no guard on the text: portal and old name may be any bytes *)
Theorem bind_rename_splice : forall chk code l1 l2 l3 l4 portal old tail m,
  has0 portal = false -> has0 old = false -> has0 m = false ->
  let len := i32_of l1 l2 l3 l4 in
  in_i32 (len + blen m) = true -> 0 <= len + blen m - blen old < 2147483648 ->
  let buf := code :: l1 :: l2 :: l3 :: l4 :: portal ++ 0%N :: old ++ 0%N :: tail in
  rename_bind chk buf m = Ok (code :: be32 (len + blen m - blen old) ++ portal ++ 0%N :: m ++ 0%N :: tail)
  /\ splice_name 0 1 buf m = Some (code :: be32 (len + blen m - blen old) ++ portal ++ 0%N :: m ++ 0%N :: tail)
  /\ bind_get_name buf = Ok (lossy old).
Proof.
  intros chk code l1 l2 l3 l4 portal old tail m Hp0 Ho0 Hm0 len H1 H2 buf.
  subst buf. repeat split.
  - unfold rename_bind. cbn [get_u8 get_i32 bind].
    rewrite read_raw_term by assumption. cbn [bind].
    rewrite read_raw_term by assumption. cbn [bind]. fold len.
    rewrite ck32_in by assumption. cbn [bind].
    rewrite ck32_in by (unfold in_i32; apply andb_true_intro; split; [apply Z.leb_le | apply Z.ltb_lt]; lia).
    cbn [bind].
    replace (len + blen m - blen old <? 0) with false by (symmetry; apply Z.ltb_ge; lia).
    cbn [andb]. rewrite Hm0. reflexivity.
  - unfold splice_name. cbn [take_n skip_strings]. rewrite split0_app by assumption.
    cbn [skip_strings]. rewrite split0_app by assumption. fold len.
    cbn [app]. rewrite <- app_assoc. reflexivity.
  - unfold bind_get_name. cbn [advance5 bind].
    rewrite read_string_term by assumption. cbn [bind].
    rewrite read_string_term by assumption. cbn [bind]. reflexivity.
Qed.

(** * Round trips *)

Lemma in_i32_bounds z : in_i32 z = true -> -2147483648 <= z < 2147483648.
Proof. unfold in_i32. intros H. apply andb_prop in H as [H1 H2]. apply Z.leb_le in H1. apply Z.ltb_lt in H2. lia. Qed.

Lemma get_i32_be32 z r : in_i32 z = true -> get_i32 (be32 z ++ r) = Ok (z, r).
Proof.
  intros H. pose proof (i32_of_be32 z H) as Hz.
  destruct (be32 z) as [|a [|b [|c [|d [|? ?]]]]]; try contradiction.
  destruct Hz as [Hz _]. cbn. rewrite Hz. reflexivity.
Qed.

Lemma get_i16_be16 z r : in_i16 z = true -> get_i16 (be16 z ++ r) = Ok (z, r).
Proof.
  intros H. pose proof (i16_of_be16 z H) as Hz.
  destruct (be16 z) as [|a [|b [|? ?]]]; try contradiction.
  destruct Hz as [Hz _]. cbn. rewrite Hz. reflexivity.
Qed.


Lemma flat_be32_len tys : blen (flat_map be32 tys) = 4 * Z.of_nat (length tys).
Proof.
  induction tys as [|z l IH]; [reflexivity|].
  cbn [flat_map]. rewrite blen_app. unfold blen at 1. rewrite be32_length. cbn [length]. rewrite Nat2Z.inj_succ. lia.
Qed.

Lemma flat_be32_bytes tys : forallb in_i32 tys = true -> forallb byteb (flat_map be32 tys) = true.
Proof.
  induction tys as [|z l IH]; [reflexivity|]. cbn [flat_map forallb]. intros H.
  apply andb_prop in H as [Hz Hl]. rewrite forallb_app, IH by assumption.
  pose proof (i32_of_be32 z Hz) as Hq. destruct (be32 z) as [|a [|b [|c [|d [|? ?]]]]]; try contradiction.
  destruct Hq as [_ Hq]. rewrite Hq. reflexivity.
Qed.

Lemma in_i16_of_range z : 0 <= z < 32768 -> in_i16 z = true.
Proof. intros. unfold in_i16. apply andb_true_intro; split; [apply Z.leb_le | apply Z.ltb_lt]; lia. Qed.

Theorem parse_roundtrip : forall chk p, parse_wf p = true ->
  exists e, encode_parse chk p = Ok e /\ decode_parse e = Ok p /\ parse_canonical e = true.
Proof.
  intros chk [code len name query np tys] H. unfold parse_wf in H. cbn [p_code p_len p_name p_query p_np p_types] in H.
  rewrite !andb_true_iff, !negb_true_iff in H.
  destruct H as ((((((((((((Hc & Hbn) & Hbq) & Hn0) & Hq0) & Hcn) & Hcq) & Hnp0) & Hnp1) & Htl) & Hti) & Hl) & Hli).
  apply Z.leb_le in Hnp0. apply Z.ltb_lt in Hnp1. apply Z.eqb_eq in Htl. apply Z.eqb_eq in Hl.
  pose proof (in_i32_bounds _ Hli) as Hlb.
  pose proof (blen_nonneg name). pose proof (blen_nonneg query).
  assert (Henc : encode_parse chk (mkParse code len name query np tys)
                 = Ok (code :: be32 len ++ name ++ 0%N :: query ++ 0%N :: be16 np ++ flat_map be32 tys)).
  { unfold encode_parse. cbn [p_code p_len p_name p_query p_np p_types]. rewrite Hn0, Hq0.
    rewrite as_usize_nonneg by (unfold two64; lia).
    rewrite ck64_small by (unfold two64; lia). cbn [bind].
    rewrite ck64_small by (unfold two64; lia). cbn [bind]. rewrite <- Hl. reflexivity. }
  eexists. split; [exact Henc|].
  assert (Hnpi : in_i16 np = true) by (apply in_i16_of_range; lia).
  split.
  - unfold decode_parse, decode_parse_k. cbn [get_u8 bind].
    rewrite get_i32_be32 by assumption. cbn [bind].
    rewrite read_string_term by assumption. cbn [bind].
    unfold read_query. rewrite split0_app by assumption.
    rewrite get_i16_be16 by assumption. cbn [bind].
    replace (Z.to_nat np) with (length tys) by lia.
    rewrite <- (app_nil_r (flat_map be32 tys)). rewrite get_n_i32_enc by assumption. cbn [bind].
    rewrite (cleanb_eq _ Hcn). reflexivity.
  - unfold parse_canonical.
    pose proof (i32_of_be32 len Hli) as Hz.
    destruct (be32 len) as [|a [|b [|c [|d [|? ?]]]]] eqn:Eb; try contradiction. destruct Hz as [Hz Hzb].
    cbn [app]. rewrite split0_app by assumption. rewrite split0_app by assumption.
    pose proof (i16_of_be16 np Hnpi) as Hy.
    destruct (be16 np) as [|n1 [|n2 [|? ?]]] eqn:En; try contradiction. destruct Hy as (Hy & Hy1 & Hy2).
    cbn [app]. rewrite Hy, Hz.
    pose proof (flat_be32_len tys) as Hfl. rewrite Htl in Hfl.
    pose proof (flat_be32_bytes tys Hti) as Hfb.
    cbn [forallb] in Hzb. rewrite !andb_true_iff in Hzb. destruct Hzb as (? & ? & ? & ? & _).
    rewrite !andb_true_iff. repeat split; try assumption.
    + apply Z.leb_le. lia.
    + apply Z.eqb_eq. exact Hfl.
    + apply Z.eqb_eq. repeat (rewrite ?blen_cons, ?blen_app). rewrite Hfl. lia.
    + cbn [forallb]. rewrite forallb_app. cbn [forallb]. rewrite forallb_app. cbn [forallb].
      rewrite Hc, Hbn, Hbq, Hy1, Hy2, Hfb. repeat (rewrite andb_true_iff; split; try assumption); reflexivity.
Qed.

Theorem describe_roundtrip : forall p, desc_wf p = true ->
  exists e, encode_describe p = Ok e /\ decode_describe e = Ok p /\ describe_canonical e = true.
Proof.
  intros [code len t name] H. unfold desc_wf in H. cbn [d_code d_len d_target d_name] in H.
  rewrite !andb_true_iff, !negb_true_iff in H.
  destruct H as ((((((Hc & Ht) & Hbn) & Hn0) & Hcn) & Hl) & Hli). apply Z.eqb_eq in Hl.
  unfold encode_describe. cbn [d_code d_len d_target d_name]. rewrite Hn0. eexists. split; [reflexivity|].
  rewrite <- Hl.
  pose proof (i32_of_be32 len Hli) as Hz.
  destruct (be32 len) as [|a [|b [|c [|d [|? ?]]]]] eqn:Eb; try contradiction. destruct Hz as [Hz Hzb].
  split.
  - unfold decode_describe, decode_describe_k. cbn [app get_u8 get_i32 bind]. rewrite Hz.
    rewrite read_string_term by assumption. cbn [bind]. rewrite (cleanb_eq _ Hcn). reflexivity.
  - unfold describe_canonical. cbn [app]. rewrite split0_app by assumption. rewrite Hz.
    cbn [forallb] in Hzb. rewrite !andb_true_iff in Hzb. destruct Hzb as (? & ? & ? & ? & _).
    rewrite !andb_true_iff. repeat split; try assumption.
    + apply Z.eqb_eq. rewrite !blen_cons, blen_app, !blen_cons. change (blen []) with 0. lia.
    + cbn [forallb]. rewrite forallb_app. cbn [forallb]. rewrite Hbn.
      repeat (rewrite andb_true_iff; split; try assumption); reflexivity.
Qed.

(** Bind *)
Lemma take_n_app v r : take_n (length v) (v ++ r) = Some (v, r).
Proof. induction v as [|c v IH]; cbn; auto. rewrite IH. reflexivity. Qed.

Lemma get_param_enc pv r : param_wf pv = true -> get_param ((be32 (fst pv) ++ snd pv) ++ r) = Ok (pv, r).
Proof.
  destruct pv as [pl v]. unfold param_wf. cbn [fst snd]. rewrite !andb_true_iff.
  intros (((H0 & Hi) & Hl) & Hb). apply Z.leb_le in H0. apply Z.eqb_eq in Hl.
  unfold get_param. rewrite <- app_assoc, get_i32_be32 by assumption. cbn [bind].
  destruct (0 <? pl) eqn:E.
  - replace (blen (v ++ r) <? pl) with false by (symmetry; apply Z.ltb_ge; rewrite blen_app; pose proof (blen_nonneg r); lia).
    replace (Z.to_nat pl) with (length v) by (unfold blen in Hl; lia). rewrite take_n_app. reflexivity.
  - apply Z.ltb_ge in E. assert (Hp : pl = 0) by lia. rewrite Hp in *. destruct v; [reflexivity|]. rewrite blen_cons in Hl.
    pose proof (blen_nonneg v). lia.
Qed.

Lemma get_n_param_enc l r : forallb param_wf l = true ->
  get_n get_param (length l) (flat_map (fun pv => be32 (fst pv) ++ snd pv) l ++ r) = Ok (l, r).
Proof.
  induction l as [|pv l IH]; cbn [length get_n flat_map forallb]; auto.
  intros H. apply andb_prop in H as [H1 H2]. rewrite <- app_assoc.
  rewrite get_param_enc by assumption. cbn [bind]. rewrite IH by assumption. reflexivity.
Qed.

Lemma add_param_lens_ok chk l acc : forallb param_wf l = true -> 0 <= acc ->
  acc + fold_right (fun pv a => 4 + fst pv + a) 0 l < two64 ->
  add_param_lens chk acc l = Ok (acc + fold_right (fun pv a => 4 + fst pv + a) 0 l).
Proof.
  revert acc. induction l as [|[pl v] l IH]; intros acc H Ha Hs; cbn [add_param_lens fold_right fst] in *.
  - f_equal. lia.
  - apply andb_prop in H as [H1 H2]. unfold param_wf in H1. cbn [fst snd] in H1. rewrite !andb_true_iff in H1.
    destruct H1 as (((H0 & Hi) & _) & _). apply Z.leb_le in H0. apply in_i32_bounds in Hi.
    assert (Hf : 0 <= fold_right (fun pv a => 4 + fst pv + a) 0 l).
    { clear - H2. induction l as [|[pl' v'] l IH]; cbn [fold_right fst forallb] in *; [lia|].
      apply andb_prop in H2 as [H1 H2]. unfold param_wf in H1. cbn [fst] in H1. rewrite !andb_true_iff in H1.
      destruct H1 as (((H0 & _) & _) & _). apply Z.leb_le in H0. specialize (IH H2). lia. }
    rewrite as_usize_nonneg by (unfold two64 in *; lia).
    rewrite ck64_small by (unfold two64 in *; lia). cbn [bind].
    rewrite ck64_small by (unfold two64 in *; lia). cbn [bind].
    rewrite IH; [f_equal; lia | assumption | lia | lia].
Qed.

Theorem bind_roundtrip : forall chk p, bind_wf p = true ->
  exists e, encode_bind chk p = Ok e /\ decode_bind e = Ok p.
Proof.
  intros chk [code len portal stmt nfc fcs npv pvs nrc rcs] H. unfold bind_wf in H.
  cbn [b_code b_len b_portal b_stmt b_nfc b_fcs b_npv b_pvs b_nrc b_rcs] in H.
  rewrite !andb_true_iff, !negb_true_iff in H.
  destruct H as ((((((((((((((((((((Hc & Hbp) & Hbs) & Hp0) & Hs0) & Hcp) & Hcs) & Hf0) & Hf1) & Hfl) & Hfi)
                   & Hv0) & Hv1) & Hvl) & Hvi) & Hr0) & Hr1) & Hrl) & Hri) & Hl) & Hli).
  apply Z.leb_le in Hf0, Hv0, Hr0. apply Z.ltb_lt in Hf1, Hv1, Hr1. apply Z.eqb_eq in Hfl, Hvl, Hrl, Hl.
  unfold bind_len in Hl. cbn [b_code b_len b_portal b_stmt b_nfc b_fcs b_npv b_pvs b_nrc b_rcs] in Hl.
  pose proof (in_i32_bounds _ Hli) as Hlb.
  pose proof (blen_nonneg portal). pose proof (blen_nonneg stmt).
  set (F := fold_right (fun pv a => 4 + fst pv + a) 0 pvs) in *.
  assert (HF : 0 <= F).
  { subst F. clear - Hvi. induction pvs as [|[pl' v'] l IH]; cbn [fold_right fst forallb] in *; [lia|].
    apply andb_prop in Hvi as [H1 H2]. unfold param_wf in H1. cbn [fst] in H1. rewrite !andb_true_iff in H1.
    destruct H1 as (((H0 & _) & _) & _). apply Z.leb_le in H0. specialize (IH H2). lia. }
  assert (Henc : encode_bind chk (mkBind code len portal stmt nfc fcs npv pvs nrc rcs)
     = Ok (code :: be32 len ++ portal ++ 0%N :: stmt ++ 0%N :: be16 nfc ++ flat_map be16 fcs
           ++ be16 npv ++ flat_map (fun pv => be32 (fst pv) ++ snd pv) pvs ++ be16 nrc ++ flat_map be16 rcs)).
  { unfold encode_bind. cbn [b_code b_len b_portal b_stmt b_nfc b_fcs b_npv b_pvs b_nrc b_rcs]. rewrite Hp0, Hs0.
    rewrite !as_usize_nonneg by (unfold two64; lia).
    rewrite ck64_small by (unfold two64; lia). cbn [bind].
    rewrite ck64_small by (unfold two64; lia). cbn [bind].
    rewrite ck64_small by (unfold two64; lia). cbn [bind].
    rewrite add_param_lens_ok by (try assumption; fold F; unfold two64; lia). cbn [bind]. fold F.
    rewrite ck64_small by (unfold two64; lia). cbn [bind].
    rewrite ck64_small by (unfold two64; lia). cbn [bind].
    rewrite ck64_small by (unfold two64; lia). cbn [bind].
    f_equal. f_equal. f_equal. f_equal. lia. }
  eexists. split; [exact Henc|].
  unfold decode_bind, decode_bind_k. cbn [get_u8 bind].
  rewrite get_i32_be32 by assumption. cbn [bind].
  rewrite read_string_term by assumption. cbn [bind].
  rewrite read_string_term by assumption. cbn [bind].
  rewrite get_i16_be16 by (apply in_i16_of_range; lia). cbn [bind].
  replace (Z.to_nat nfc) with (length fcs) by lia.
  rewrite get_n_i16_enc by assumption. cbn [bind].
  rewrite get_i16_be16 by (apply in_i16_of_range; lia). cbn [bind].
  replace (Z.to_nat npv) with (length pvs) by lia.
  rewrite get_n_param_enc by assumption. cbn [bind].
  rewrite get_i16_be16 by (apply in_i16_of_range; lia). cbn [bind].
  replace (Z.to_nat nrc) with (length rcs) by lia.
  rewrite <- (app_nil_r (flat_map be16 rcs)). rewrite get_n_i16_enc by assumption. cbn [bind].
  rewrite (cleanb_eq _ Hcp), (cleanb_eq _ Hcs). reflexivity.
Qed.

(** * Totality / classification: the four decoders and the two name readers never return
    [Err]; they answer [Ok] or [Panic] on every byte string. *)
Definition noerr {A} (r : res A) : Prop := r <> Err.

Lemma noerr_bind {A B} (r : res A) (f : A -> res B) : noerr r -> (forall a, noerr (f a)) -> noerr (bind r f).
Proof. unfold noerr. intros H1 H2. destruct r; cbn [bind]; [apply H2 | exfalso; apply H1; reflexivity | discriminate]. Qed.

Lemma noerr_get_u8 s : noerr (get_u8 s).            Proof. destruct s; discriminate. Qed.
Lemma noerr_get_i16 s : noerr (get_i16 s).          Proof. destruct s as [|? [|? ?]]; discriminate. Qed.
Lemma noerr_get_i32 s : noerr (get_i32 s).          Proof. destruct s as [|? [|? [|? [|? ?]]]]; discriminate. Qed.
Lemma noerr_read_string s : noerr (read_string s).
Proof. unfold read_string. destruct (split0 s) as [[? ?]|]; [discriminate|]. destruct s; discriminate. Qed.
Lemma noerr_advance5 s : noerr (advance5 s).
Proof. destruct s as [|? [|? [|? [|? [|? ?]]]]]; discriminate. Qed.
Lemma noerr_get_n {A} (g : bytes -> res (A * bytes)) n : (forall s, noerr (g s)) -> forall s, noerr (get_n g n s).
Proof.
  intros Hg. induction n as [|n IH]; intros s; cbn [get_n]; [discriminate|].
  apply noerr_bind; [apply Hg|]. intros [a r]. apply noerr_bind; [apply IH|]. intros [l r']. discriminate.
Qed.
Lemma noerr_get_param s : noerr (get_param s).
Proof.
  unfold get_param. apply noerr_bind; [apply noerr_get_i32|]. intros [pl r].
  destruct (0 <? pl); [|discriminate]. destruct (blen r <? pl); [discriminate|].
  destruct (take_n (Z.to_nat pl) r) as [[? ?]|]; discriminate.
Qed.

Ltac noerr_steps :=
  repeat first [ apply noerr_bind; [first [apply noerr_get_u8 | apply noerr_get_i16 | apply noerr_get_i32 | apply noerr_read_string
                                          | apply noerr_advance5
                                          | apply noerr_get_n; intros; first [apply noerr_get_i32 | apply noerr_get_i16 | apply noerr_get_param]]
                                   | intros [? ?] ]
               | discriminate ].

Lemma decode_parse_noerr b : noerr (decode_parse b).
Proof.
  unfold decode_parse, decode_parse_k. apply noerr_bind; [|intros [? ?]; discriminate].
  apply noerr_bind; [apply noerr_get_u8|]. intros [? ?]. apply noerr_bind; [apply noerr_get_i32|]. intros [? ?].
  apply noerr_bind; [apply noerr_read_string|]. intros [? ?]. destruct (read_query _) as [? ?]. noerr_steps.
Qed.
Lemma decode_bind_noerr b : noerr (decode_bind b).
Proof. unfold decode_bind, decode_bind_k. apply noerr_bind; [|intros [? ?]; discriminate]. noerr_steps. Qed.
Lemma decode_describe_noerr b : noerr (decode_describe b).
Proof. unfold decode_describe, decode_describe_k. apply noerr_bind; [|intros [? ?]; discriminate]. noerr_steps. Qed.
Lemma parse_get_name_noerr b : noerr (parse_get_name b).
Proof. unfold parse_get_name. apply noerr_bind; [apply noerr_advance5|]. intros s. noerr_steps. Qed.
Lemma bind_get_name_noerr b : noerr (bind_get_name b).
Proof. unfold bind_get_name. apply noerr_bind; [apply noerr_advance5|]. intros s. noerr_steps. Qed.

Theorem decoders_total : forall b,
  (exists p, decode_parse b = Ok p) \/ decode_parse b = Panic.
Proof. intros b. pose proof (decode_parse_noerr b) as H. unfold noerr in H. destruct (decode_parse b); eauto. contradiction. Qed.

Theorem decoders_classified : forall b,
  ((exists p, decode_parse b = Ok p) \/ decode_parse b = Panic) /\
  ((exists p, decode_bind b = Ok p) \/ decode_bind b = Panic) /\
  ((exists p, decode_describe b = Ok p) \/ decode_describe b = Panic) /\
  ((exists p, decode_close b = Ok p) \/ decode_close b = Panic) /\
  ((exists n, parse_get_name b = Ok n) \/ parse_get_name b = Panic) /\
  ((exists n, bind_get_name b = Ok n) \/ bind_get_name b = Panic).
Proof.
  intros b.
  pose proof (decode_parse_noerr b) as H1. pose proof (decode_bind_noerr b) as H2.
  pose proof (decode_describe_noerr b) as H3. pose proof (parse_get_name_noerr b) as H4.
  pose proof (bind_get_name_noerr b) as H5. unfold noerr, decode_close in *.
  repeat split.
  - destruct (decode_parse b); eauto; contradiction.
  - destruct (decode_bind b); eauto; contradiction.
  - destruct (decode_describe b); eauto; contradiction.
  - destruct (decode_describe b); eauto; contradiction.
  - destruct (parse_get_name b); eauto; contradiction.
  - destruct (bind_get_name b); eauto; contradiction.
Qed.

(* a decoder can only panic by running off the end: a frame shorter than its fixed part *)
Lemma decode_describe_ok_iff b : (exists p, decode_describe b = Ok p) <-> (7 <= length b)%nat.
Proof.
  unfold decode_describe, decode_describe_k. split.
  - intros [p H]. destruct b as [|c [|l1 [|l2 [|l3 [|l4 [|t [|x s]]]]]]]; cbn in H; try discriminate. cbn. lia.
  - intros H. destruct b as [|c [|l1 [|l2 [|l3 [|l4 [|t [|x s]]]]]]]; cbn in H; try lia.
    cbn [get_u8 get_i32 bind]. pose proof (noerr_read_string (x :: s)) as Hn. unfold noerr in Hn.
    destruct (read_string (x :: s)) as [[n r]| |] eqn:E; cbn [bind]; eauto; try contradiction.
    exfalso. unfold read_string in E. destruct (split0 (x :: s)) as [[? ?]|]; discriminate.
Qed.

(** * The hash key *)

Lemma hkey_inj (a b : parse) : hkey a = hkey b -> p_query a = p_query b /\ p_np a = p_np b /\ p_types a = p_types b.
Proof. unfold hkey. intros H. inversion H. auto. Qed.

Lemma le_go_inj k : forall u1 u2, 0 <= u1 < 256 ^ Z.of_nat k -> 0 <= u2 < 256 ^ Z.of_nat k ->
  le_go k u1 = le_go k u2 -> u1 = u2.
Proof.
  induction k as [|k IH]; intros u1 u2 H1 H2 H.
  - change (256 ^ Z.of_nat 0) with 1 in *. lia.
  - cbn [le_go] in H. inversion H as [[Hh Ht]].
    rewrite Nat2Z.inj_succ, Z.pow_succ_r in H1, H2 by lia.
    assert (u1 / 256 = u2 / 256) by (apply IH; try assumption; lia).
    assert (u1 mod 256 = u2 mod 256) by (apply Z2N.inj in Hh; lia).
    lia.
Qed.

Lemma le_go_length k u : length (le_go k u) = k.
Proof. revert u. induction k; intros; cbn; auto. Qed.

Lemma app_inj_len {A} (a1 a2 b1 b2 : list A) : length a1 = length a2 -> a1 ++ b1 = a2 ++ b2 -> a1 = a2 /\ b1 = b2.
Proof.
  revert a2. induction a1 as [|x a1 IH]; intros [|y a2] Hl H; cbn in *; try discriminate; auto.
  inversion H; subst. destruct (IH a2) as [-> ->]; auto.
Qed.

Lemma split_at_ff q1 q2 r1 r2 : ~ In 255%N q1 -> ~ In 255%N q2 ->
  q1 ++ 255%N :: r1 = q2 ++ 255%N :: r2 -> q1 = q2 /\ r1 = r2.
Proof.
  revert q2. induction q1 as [|x q1 IH]; intros [|y q2] H1 H2 H; cbn in *.
  - inversion H. auto.
  - inversion H; subst. exfalso. apply H2. auto.
  - inversion H; subst. exfalso. apply H1. auto.
  - inversion H; subst. destruct (IH q2) as [-> ->]; auto.
Qed.

Lemma flat_le4_inj t1 t2 : forallb in_i32 t1 = true -> forallb in_i32 t2 = true -> length t1 = length t2 ->
  flat_map (le_bytes 4) t1 = flat_map (le_bytes 4) t2 -> t1 = t2.
Proof.
  revert t2. induction t1 as [|x t1 IH]; intros [|y t2] H1 H2 Hl H; cbn [length] in *; try discriminate; auto.
  cbn [flat_map forallb] in *. apply andb_prop in H1 as [Hx H1]. apply andb_prop in H2 as [Hy H2].
  apply app_inj_len in H as [Ha Hb]; [|unfold le_bytes; rewrite !le_go_length; reflexivity].
  f_equal; [|apply IH; auto].
  unfold le_bytes in Ha. apply le_go_inj in Ha; try (change (256 ^ Z.of_nat 4) with 4294967296; change (2 ^ (8 * Z.of_nat 4)) with 4294967296; lia).
  change (2 ^ (8 * Z.of_nat 4)) with 4294967296 in Ha. apply in_i32_bounds in Hx, Hy. lia.
Qed.

(* the query text is length-prefixed (Vec<u8>::hash): no condition on its bytes *)
Theorem hstream_injective : forall q1 n1 t1 q2 n2 t2,
  Z.of_nat (length q1) < two64 -> Z.of_nat (length q2) < two64 -> in_i16 n1 = true -> in_i16 n2 = true ->
  forallb in_i32 t1 = true -> forallb in_i32 t2 = true ->
  Z.of_nat (length t1) < two64 -> Z.of_nat (length t2) < two64 ->
  hstream (q1, n1, t1) = hstream (q2, n2, t2) -> (q1, n1, t1) = (q2, n2, t2).
Proof.
  intros q1 n1 t1 q2 n2 t2 Hq1 Hq2 Hn1 Hn2 Ht1 Ht2 Hl1 Hl2 H. unfold hstream in H.
  apply app_inj_len in H as [Hq H]; [|unfold le_bytes; rewrite !le_go_length; reflexivity].
  unfold le_bytes in Hq.
  apply le_go_inj in Hq; try (change (256 ^ Z.of_nat 8) with two64; change (2 ^ (8 * Z.of_nat 8)) with two64; unfold two64; lia).
  change (2 ^ (8 * Z.of_nat 8)) with two64 in Hq.
  assert (Hlq : length q1 = length q2) by (unfold two64 in *; lia).
  apply app_inj_len in H as [-> H]; [|exact Hlq].
  apply app_inj_len in H as [Ha H]; [|unfold le_bytes; rewrite !le_go_length; reflexivity].
  apply app_inj_len in H as [Hb H]; [|unfold le_bytes; rewrite !le_go_length; reflexivity].
  unfold le_bytes in Ha, Hb.
  apply le_go_inj in Ha; try (change (256 ^ Z.of_nat 2) with 65536; change (2 ^ (8 * Z.of_nat 2)) with 65536; lia).
  apply le_go_inj in Hb; try (change (256 ^ Z.of_nat 8) with two64; change (2 ^ (8 * Z.of_nat 8)) with two64; unfold two64; lia).
  change (2 ^ (8 * Z.of_nat 2)) with 65536 in Ha. change (2 ^ (8 * Z.of_nat 8)) with two64 in Hb.
  unfold in_i16 in Hn1, Hn2. apply andb_prop in Hn1 as [A1 A2]. apply andb_prop in Hn2 as [B1 B2].
  apply Z.leb_le in A1, B1. apply Z.ltb_lt in A2, B2.
  assert (n1 = n2) by lia. subst.
  assert (length t1 = length t2) by (unfold two64 in *; lia).
  f_equal. apply flat_le4_inj; assumption.
Qed.
