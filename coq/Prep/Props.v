(** C08 — property theorems only.  Each is closed by [exact <lemma>] and audited with
    [Print Assumptions]; [Example]s validate the specification and record refuted
    strengthenings (with their concrete witnesses). *)
From Coq Require Import ZArith NArith List Bool.
From PV Require Import Prep.Codec Prep.CodecProofs.
Import ListNotations.
Open Scope Z_scope.

(** * Layer 1 — codec *)

(** A well-formed Parse frame [b], decoded, renamed to [m] (what [Parse::rewrite] does) and
    re-encoded (what [buffer_parse] sends on) is [b] with the name replaced and the length
    field adjusted — byte for byte, in builds with and without overflow checks — and its
    cache key is unchanged. *)
Theorem c08_parse_rename_only_name_and_len : forall chk b m,
  parse_canonical b = true -> has0 m = false -> blen m < 2147483648 ->
  exists p, decode_parse b = Ok p /\
            splice_name 0 0 b m = Some (match encode_parse chk (rename_parse p m) with Ok e => e | _ => [] end) /\
            (exists e, encode_parse chk (rename_parse p m) = Ok e) /\
            hkey (rename_parse p m) = hkey p.
Proof. exact parse_rename_splice. Qed.
Print Assumptions c08_parse_rename_only_name_and_len.

(** [Bind::rename] on a frame with a terminated portal and statement name: the result is the
    splice for EVERY tail (format codes, parameters, result formats are copied verbatim), and
    [Bind::get_name] reads the old name. Guard: portal and old name survive from_utf8_lossy. *)
Theorem c08_bind_rename_only_name_and_len : forall chk code l1 l2 l3 l4 portal old tail m,
  has0 portal = false -> has0 old = false -> has0 m = false ->
  cleanb portal = true -> cleanb old = true ->
  let len := i32_of l1 l2 l3 l4 in
  in_i32 (len + blen m) = true -> 0 <= len + blen m - blen old < 2147483648 ->
  let buf := code :: l1 :: l2 :: l3 :: l4 :: portal ++ 0%N :: old ++ 0%N :: tail in
  rename_bind chk buf m = Ok (code :: be32 (len + blen m - blen old) ++ portal ++ 0%N :: m ++ 0%N :: tail)
  /\ splice_name 0 1 buf m = Some (code :: be32 (len + blen m - blen old) ++ portal ++ 0%N :: m ++ 0%N :: tail)
  /\ bind_get_name buf = Ok old.
Proof. exact bind_rename_splice. Qed.
Print Assumptions c08_bind_rename_only_name_and_len.

Theorem c08_describe_rename_only_name_and_len : forall b m,
  describe_canonical b = true -> has0 m = false ->
  exists p, decode_describe b = Ok p /\
            splice_name 1 0 b m = Some (match encode_describe (rename_describe p m) with Ok e => e | _ => [] end) /\
            (exists e, encode_describe (rename_describe p m) = Ok e).
Proof. exact describe_rename_splice. Qed.
Print Assumptions c08_describe_rename_only_name_and_len.

(** Round trips: a well-formed value encodes to a canonical frame that decodes to itself. *)
Theorem c08_roundtrip_parse : forall chk p, parse_wf p = true ->
  exists e, encode_parse chk p = Ok e /\ decode_parse e = Ok p /\ parse_canonical e = true.
Proof. exact parse_roundtrip. Qed.
Print Assumptions c08_roundtrip_parse.

Theorem c08_roundtrip_bind : forall chk p, bind_wf p = true ->
  exists e, encode_bind chk p = Ok e /\ decode_bind e = Ok p.
Proof. exact bind_roundtrip. Qed.
Print Assumptions c08_roundtrip_bind.

(* Describe and Close share the layout ([decode_close = decode_describe]) *)
Theorem c08_roundtrip_describe_close : forall p, desc_wf p = true ->
  exists e, encode_describe p = Ok e /\ decode_describe e = Ok p /\ describe_canonical e = true.
Proof. exact describe_roundtrip. Qed.
Print Assumptions c08_roundtrip_describe_close.

(** The cache key after the repair (f0b6d0f) determines the statement: as a triple, and as
    the byte stream SipHash consumes (no 0xFF inside a Rust [str]). *)
Theorem c08_hkey_injective : forall a b : parse,
  hkey a = hkey b -> p_query a = p_query b /\ p_np a = p_np b /\ p_types a = p_types b.
Proof. exact hkey_inj. Qed.
Print Assumptions c08_hkey_injective.

Theorem c08_hstream_injective : forall q1 n1 t1 q2 n2 t2,
  ~ In 255%N q1 -> ~ In 255%N q2 -> in_i16 n1 = true -> in_i16 n2 = true ->
  forallb in_i32 t1 = true -> forallb in_i32 t2 = true ->
  Z.of_nat (length t1) < two64 -> Z.of_nat (length t2) < two64 ->
  hstream (q1, n1, t1) = hstream (q2, n2, t2) -> (q1, n1, t1) = (q2, n2, t2).
Proof. exact hstream_injective. Qed.
Print Assumptions c08_hstream_injective.

(** Every decoder / name reader answers [Ok] or [Panic] on every byte string — never [Err],
    never stuck (classification used by C11). *)
Theorem c08_decoders_total : forall b,
  ((exists p, decode_parse b = Ok p) \/ decode_parse b = Panic) /\
  ((exists p, decode_bind b = Ok p) \/ decode_bind b = Panic) /\
  ((exists p, decode_describe b = Ok p) \/ decode_describe b = Panic) /\
  ((exists p, decode_close b = Ok p) \/ decode_close b = Panic) /\
  ((exists n, parse_get_name b = Ok n) \/ parse_get_name b = Panic) /\
  ((exists n, bind_get_name b = Ok n) \/ bind_get_name b = Panic).
Proof. exact decoders_classified. Qed.
Print Assumptions c08_decoders_total.

Theorem c08_describe_close_panic_iff_short : forall b,
  (exists p, decode_describe b = Ok p) <-> (7 <= length b)%nat.
Proof. exact decode_describe_ok_iff. Qed.
Print Assumptions c08_describe_close_panic_iff_short.

(** ** Specification validation, regressions and refuted strengthenings *)

(* "SELECT $1::int AS c" *)
Definition q_c : bytes := [83;69;76;69;67;84;32;36;49;58;58;105;110;116;32;65;83;32;99]%N.

(** Regression F4: the key hashed before f0b6d0f was NOT injective —
    ("SELECT $1::int AS c1", []) and ("SELECT $1::int AS c", [0]) had the same key. *)
Example c08_old_hkey_not_injective :
  old_hkey (q_c ++ [49%N], 0, []) = old_hkey (q_c, 1, [0]) /\
  hstream (q_c ++ [49%N], 0, []) <> hstream (q_c, 1, [0]).
Proof. split; [vm_compute; reflexivity | vm_compute; discriminate]. Qed.

(** The guards of the rename theorems are needed (each is a deviation from "only the name
    and the length change", with the concrete bytes):
    F8a — a Parse with bytes after the parameter types is silently trimmed;
    F8  — query text that is not UTF-8 (any non-UTF-8 client_encoding) is rewritten;
    F8b — Bind::rename with a non-UTF-8 statement name emits a wrong length field. *)
Definition parse_a_sel1 (extra : bytes) : bytes :=   (* P, len, "a\0", "SELECT 1\0", 0 types, extra *)
  [80]%N ++ be32 (4 + 2 + 9 + 2 + blen extra) ++ [97;0; 83;69;76;69;67;84;32;49;0; 0;0]%N ++ extra.

Ltac vc := vm_compute; reflexivity.

Example c08_parse_trailing_bytes_dropped :
  let b := parse_a_sel1 [1;2;3]%N in
  exists p e sp, decode_parse b = Ok p /\ encode_parse true (rename_parse p [120%N]) = Ok e /\
              splice_name 0 0 b [120%N] = Some sp /\ beq_bytes sp e = false /\ blen sp = blen e + 3 /\ parse_canonical b = false.
Proof. cbv zeta. do 3 eexists. split; [vc|]. split; [vc|]. split; [vc|]. split; [vc|]. split; vc. Qed.

Example c08_parse_non_utf8_query_rewritten :   (* "SELECT 'é'" in LATIN1: E9 becomes EF BF BD *)
  let b := [80]%N ++ be32 18 ++ [0; 83;69;76;69;67;84;32;39;233;39;0; 0;0]%N in
  exists p, decode_parse b = Ok p /\ p_query p = [83;69;76;69;67;84;32;39;239;191;189;39]%N /\ parse_canonical b = false.
Proof. cbv zeta. eexists. split; [vc|]. split; vc. Qed.

Example c08_bind_rename_non_utf8_name_wrong_length :   (* portal "", statement name FF *)
  let b := [66]%N ++ be32 13 ++ [0; 255;0; 0;0;0;0;0;0]%N in
  let m := [80;71;67;65;84;95;49]%N in
  exists out sp, rename_bind true b m = Ok out /\ splice_name 0 1 b m = Some sp /\ beq_bytes out sp = false /\
                 blen out - 1 = 19 /\ firstn 4 (skipn 1 out) = be32 17 /\ firstn 4 (skipn 1 sp) = be32 19.
Proof. cbv zeta. do 2 eexists. split; [vc|]. split; [vc|]. split; [vc|]. split; [vc|]. split; vc. Qed.

(** Latent (the Bind encoder is not on pgcat's runtime path; the Parse encoder is):
    [as usize] of NULL's -1 or of a negative count overflows — a panic with overflow checks,
    a length field that is too small without. *)
Example c08_bind_null_param_encode :
  let b := [66]%N ++ be32 16 ++ [0; 0; 0;0; 0;1; 255;255;255;255; 0;0]%N in
  exists p e, decode_bind b = Ok p /\ encode_bind true p = Panic /\
              encode_bind false p = Ok e /\ firstn 4 (skipn 1 e) = be32 15 /\ blen e - 1 = 16.
Proof. cbv zeta. do 2 eexists. split; [vc|]. split; [vc|]. split; [vc|]. split; vc. Qed.

Example c08_parse_negative_count_encode :   (* num_params = -1 *)
  let b := [80]%N ++ be32 17 ++ [97;0; 83;69;76;69;67;84;32;49;0; 255;255]%N in
  exists p e, decode_parse b = Ok p /\ p_np p = -1 /\ encode_parse true p = Panic /\
              encode_parse false p = Ok e /\ firstn 4 (skipn 1 e) = be32 13 /\ blen e - 1 = 17.
Proof. cbv zeta. do 2 eexists. split; [vc|]. split; [vc|]. split; [vc|]. split; [vc|]. split; vc. Qed.

(** Non-vacuity: a canonical frame and a well-formed value exist and reach the theorems. *)
Example c08_canonical_nonempty : parse_canonical (parse_a_sel1 []) = true /\
  describe_canonical ([68]%N ++ be32 7 ++ [83; 97; 0]%N) = true /\
  parse_wf (mkParse 80%N 17 [97%N] [83;69;76;69;67;84;32;49]%N 0 []) = true.
Proof. vm_compute. repeat split; reflexivity. Qed.
