(** C08 — property theorems only.  Each is closed by [exact <lemma>] and audited with
    [Print Assumptions]; [Example]s validate the specification and record refuted
    strengthenings (with their concrete witnesses). *)
From Coq Require Import ZArith NArith List Bool.
From PV Require Import Prep.Codec Prep.CodecProofs Prep.Cache Prep.CacheProofs Prep.CacheObs.
Import ListNotations.
Open Scope Z_scope.

(** * Layer 1 — codec *)

(** A well-formed Parse frame [b], decoded, renamed to [m] (what [Parse::rewrite] does) and
    re-encoded (what [buffer_parse] sends on) is [b] with the name replaced and the length
    field adjusted — byte for byte, in builds with and without overflow checks — and its
    cache key is unchanged. *)
Theorem c08_parse_rename_only_name_and_len : forall chk b m,
  parse_canonical b = true -> has0 m = false -> blen m < 2147483648 ->
  exists p, decode_parse b = Ok p /\
            splice_name 0 0 b m = Some (match encode_parse chk (rename_parse p m) with Ok e => e | _ => [] end) /\
            (exists e, encode_parse chk (rename_parse p m) = Ok e) /\
            hkey (rename_parse p m) = hkey p.
Proof. exact parse_rename_splice. Qed.
Print Assumptions c08_parse_rename_only_name_and_len.

(** [Bind::rename] on a frame with a terminated portal and statement name: the result is the
    splice for EVERY tail (format codes, parameters, result formats are copied verbatim), and
    [Bind::get_name] reads the old name. Guard: portal and old name survive from_utf8_lossy. *)
Theorem c08_bind_rename_only_name_and_len : forall chk code l1 l2 l3 l4 portal old tail m,
  has0 portal = false -> has0 old = false -> has0 m = false ->
  let len := i32_of l1 l2 l3 l4 in
  in_i32 (len + blen m) = true -> 0 <= len + blen m - blen old < 2147483648 ->
  let buf := code :: l1 :: l2 :: l3 :: l4 :: portal ++ 0%N :: old ++ 0%N :: tail in
  rename_bind chk buf m = Ok (code :: be32 (len + blen m - blen old) ++ portal ++ 0%N :: m ++ 0%N :: tail)
  /\ splice_name 0 1 buf m = Some (code :: be32 (len + blen m - blen old) ++ portal ++ 0%N :: m ++ 0%N :: tail)
  /\ bind_get_name buf = Ok (lossy old).
Proof. exact bind_rename_splice. Qed.
Print Assumptions c08_bind_rename_only_name_and_len.

Theorem c08_describe_rename_only_name_and_len : forall b m,
  describe_canonical b = true -> has0 m = false ->
  exists p, decode_describe b = Ok p /\
            splice_name 1 0 b m = Some (match encode_describe (rename_describe p m) with Ok e => e | _ => [] end) /\
            (exists e, encode_describe (rename_describe p m) = Ok e).
Proof. exact describe_rename_splice. Qed.
Print Assumptions c08_describe_rename_only_name_and_len.

(** Round trips: a well-formed value encodes to a canonical frame that decodes to itself. *)
Theorem c08_roundtrip_parse : forall chk p, parse_wf p = true ->
  exists e, encode_parse chk p = Ok e /\ decode_parse e = Ok p /\ parse_canonical e = true.
Proof. exact parse_roundtrip. Qed.
Print Assumptions c08_roundtrip_parse.

Theorem c08_roundtrip_bind : forall chk p, bind_wf p = true ->
  exists e, encode_bind chk p = Ok e /\ decode_bind e = Ok p.
Proof. exact bind_roundtrip. Qed.
Print Assumptions c08_roundtrip_bind.

(* Describe and Close share the layout ([decode_close = decode_describe]) *)
Theorem c08_roundtrip_describe_close : forall p, desc_wf p = true ->
  exists e, encode_describe p = Ok e /\ decode_describe e = Ok p /\ describe_canonical e = true.
Proof. exact describe_roundtrip. Qed.
Print Assumptions c08_roundtrip_describe_close.

(** The cache key after the repair (f0b6d0f) determines the statement: as a triple, and as
    the byte stream SipHash consumes (no 0xFF inside a Rust [str]). *)
Theorem c08_hkey_injective : forall a b : parse,
  hkey a = hkey b -> p_query a = p_query b /\ p_np a = p_np b /\ p_types a = p_types b.
Proof. exact hkey_inj. Qed.
Print Assumptions c08_hkey_injective.

Theorem c08_hstream_injective : forall q1 n1 t1 q2 n2 t2,
  Z.of_nat (length q1) < two64 -> Z.of_nat (length q2) < two64 -> in_i16 n1 = true -> in_i16 n2 = true ->
  forallb in_i32 t1 = true -> forallb in_i32 t2 = true ->
  Z.of_nat (length t1) < two64 -> Z.of_nat (length t2) < two64 ->
  hstream (q1, n1, t1) = hstream (q2, n2, t2) -> (q1, n1, t1) = (q2, n2, t2).
Proof. exact hstream_injective. Qed.
Print Assumptions c08_hstream_injective.

(** Every decoder / name reader answers [Ok] or [Panic] on every byte string — never [Err],
    never stuck (classification used by C11). *)
Theorem c08_decoders_total : forall b,
  ((exists p, decode_parse b = Ok p) \/ decode_parse b = Panic) /\
  ((exists p, decode_bind b = Ok p) \/ decode_bind b = Panic) /\
  ((exists p, decode_describe b = Ok p) \/ decode_describe b = Panic) /\
  ((exists p, decode_close b = Ok p) \/ decode_close b = Panic) /\
  ((exists n, parse_get_name b = Ok n) \/ parse_get_name b = Panic) /\
  ((exists n, bind_get_name b = Ok n) \/ bind_get_name b = Panic).
Proof. exact decoders_classified. Qed.
Print Assumptions c08_decoders_total.

Theorem c08_describe_close_panic_iff_short : forall b,
  (exists p, decode_describe b = Ok p) <-> (7 <= length b)%nat.
Proof. exact decode_describe_ok_iff. Qed.
Print Assumptions c08_describe_close_panic_iff_short.

(** ** Specification validation, regressions and refuted strengthenings *)

(* "SELECT $1::int AS c" *)
Definition q_c : bytes := [83;69;76;69;67;84;32;36;49;58;58;105;110;116;32;65;83;32;99]%N.

(** Regression F4: the key hashed before f0b6d0f was NOT injective —
    ("SELECT $1::int AS c1", []) and ("SELECT $1::int AS c", [0]) had the same key. *)
Example c08_old_hkey_not_injective :
  old_hkey (q_c ++ [49%N], 0, []) = old_hkey (q_c, 1, [0]) /\
  hstream (q_c ++ [49%N], 0, []) <> hstream (q_c, 1, [0]).
Proof. split; [vm_compute; reflexivity | vm_compute; discriminate]. Qed.

(** The guards of the rename theorems are needed (each is a deviation from "only the name
    and the length change", with the concrete bytes):
    F8a — a Parse with bytes after the parameter types is silently trimmed;
    (F8 query text rewritten and F8b Bind::rename length: repaired by a7561f2 / 15e9536, see the
    regressions below; statement names are still keyed by their lossy rendering.) *)
Definition parse_a_sel1 (extra : bytes) : bytes :=   (* P, len, "a\0", "SELECT 1\0", 0 types, extra *)
  [80]%N ++ be32 (4 + 2 + 9 + 2 + blen extra) ++ [97;0; 83;69;76;69;67;84;32;49;0; 0;0]%N ++ extra.

Ltac vc := vm_compute; reflexivity.

Example c08_parse_trailing_bytes_dropped :
  let b := parse_a_sel1 [1;2;3]%N in
  exists p e sp, decode_parse b = Ok p /\ encode_parse true (rename_parse p [120%N]) = Ok e /\
              splice_name 0 0 b [120%N] = Some sp /\ beq_bytes sp e = false /\ blen sp = blen e + 3 /\ parse_canonical b = false.
Proof. cbv zeta. do 3 eexists. split; [vc|]. split; [vc|]. split; [vc|]. split; [vc|]. split; vc. Qed.

(* regression (a7561f2): query text that is not UTF-8 ("SELECT 'é'" in LATIN1) is kept byte for byte *)
Example c08_fixed_parse_non_utf8_query_kept :
  let b := [80]%N ++ be32 18 ++ [0; 83;69;76;69;67;84;32;39;233;39;0; 0;0]%N in
  exists p e, decode_parse b = Ok p /\ p_query p = [83;69;76;69;67;84;32;39;233;39]%N /\ parse_canonical b = true /\
              encode_parse true (rename_parse p [120%N]) = Ok e /\ splice_name 0 0 b [120%N] = Some e.
Proof. cbv zeta. do 2 eexists. split; [vc|]. split; [vc|]. split; [vc|]. split; vc. Qed.

(* regression (15e9536): Bind::rename with a non-UTF-8 statement name (FF) and portal (FE) is the splice *)
Example c08_fixed_bind_rename_non_utf8 :
  let b := [66]%N ++ be32 14 ++ [254;0; 255;0; 0;0;0;0;0;0]%N in
  let m := [80;71;67;65;84;95;49]%N in
  exists out, rename_bind true b m = Ok out /\ splice_name 0 1 b m = Some out /\ firstn 4 (skipn 1 out) = be32 20 /\ blen out - 1 = 20.
Proof. cbv zeta. eexists. split; [vc|]. split; [vc|]. split; vc. Qed.

(* residual (known F8-lossy-utf8): statement NAMES are still keyed by their lossy rendering — two
   different names of one client can read as the same name *)
Example c08_names_still_lossy :
  parse_get_name ([80]%N ++ be32 8 ++ [233;0; 0; 0;0]%N) = parse_get_name ([80]%N ++ be32 8 ++ [232;0; 0; 0;0]%N).
Proof. vm_compute. reflexivity. Qed.

(** Latent (the Bind encoder is not on pgcat's runtime path; the Parse encoder is):
    [as usize] of NULL's -1 or of a negative count overflows — a panic with overflow checks,
    a length field that is too small without. *)
Example c08_bind_null_param_encode :
  let b := [66]%N ++ be32 16 ++ [0; 0; 0;0; 0;1; 255;255;255;255; 0;0]%N in
  exists p e, decode_bind b = Ok p /\ encode_bind true p = Panic /\
              encode_bind false p = Ok e /\ firstn 4 (skipn 1 e) = be32 15 /\ blen e - 1 = 16.
Proof. cbv zeta. do 2 eexists. split; [vc|]. split; [vc|]. split; [vc|]. split; vc. Qed.

Example c08_parse_negative_count_encode :   (* num_params = -1 *)
  let b := [80]%N ++ be32 17 ++ [97;0; 83;69;76;69;67;84;32;49;0; 255;255]%N in
  exists p e, decode_parse b = Ok p /\ p_np p = -1 /\ encode_parse true p = Panic /\
              encode_parse false p = Ok e /\ firstn 4 (skipn 1 e) = be32 13 /\ blen e - 1 = 17.
Proof. cbv zeta. do 2 eexists. split; [vc|]. split; [vc|]. split; [vc|]. split; [vc|]. split; vc. Qed.

(** Non-vacuity: a canonical frame and a well-formed value exist and reach the theorems. *)
Example c08_canonical_nonempty : parse_canonical (parse_a_sel1 []) = true /\
  describe_canonical ([68]%N ++ be32 7 ++ [83; 97; 0]%N) = true /\
  parse_wf (mkParse 80%N 17 [97%N] [83;69;76;69;67;84;32;49]%N 0 []) = true.
Proof. vm_compute. repeat split; reflexivity. Qed.

(** * Layer 2 — the cache against a direct connection *)
Close Scope Z_scope.

(** For ALL histories (no guard, no hypothesis on the hash): a server-side name PGCAT_g denotes
    one statement on every backend, in every client map — different statements never share a
    server-side statement, and what a client calls its statements never matters server-side. *)
Theorem c08_names_determine_statement : forall K ops w, w = fst (run K world0 ops) ->
  (forall s1 s2 g st1 st2, In (g, st1) (btab (servers w s1)) -> In (g, st2) (btab (servers w s2)) -> st1 = st2) /\
  (forall c s n g st1 st2, In (n, (g, st1)) (cmap (clients w c)) -> In (g, st2) (btab (servers w s)) -> st1 = st2) /\
  (forall c1 c2 n1 n2 g st1 st2, In (n1, (g, st1)) (cmap (clients w c1)) -> In (n2, (g, st2)) (cmap (clients w c2)) -> st1 = st2).
Proof. exact names_determine_statement. Qed.
Print Assumptions c08_names_determine_statement.

(** For every multi-client program, every cache size >= 1, every assignment of transactions to
    server connections: if no two statements of the program collide under the hash and the
    program passes the (computable, specification-only) guard of Cache.v (good statements;
    Bind/Describe of existing names, Execute after Bind, Close of named statements; at most [cs]
    server-side statements needed per batch), then each client
    receives, Sync by Sync, what a direct connection would have sent: the same statement run by
    every Execute, described by every Describe, no error, the same acknowledgements. *)
Theorem c08_refines_direct : forall K ops,
  hash_collision_free K ops -> guard K ops = true -> model_obs K ops = spec_obs K ops.
Proof. exact refines_direct. Qed.
Print Assumptions c08_refines_direct.

Theorem c08_clients_independent : forall K ops c,
  hash_collision_free K ops -> guard K ops = true -> guard K (proj c ops) = true ->
  filter (fun o => obs_client o =? c) (model_obs K ops) = model_obs K (proj c ops).
Proof. exact clients_independent. Qed.
Print Assumptions c08_clients_independent.

(** Evicted statements are closed on the backend and re-prepared on demand: after a guarded
    program every server connection's cache is exactly the set of names its backend holds (at
    most [cs] of them, each with the statement the name stands for); re-preparation is the
    absence of errors in [c08_refines_direct]. *)
Theorem c08_evicted_closed_and_reprepared : forall K ops w,
  hash_collision_free K ops -> guard K ops = true -> w = fst (run K world0 ops) ->
  forall s, NoDup (lru (servers w s)) /\ length (lru (servers w s)) <= cs K /\
            (forall g, In g (lru (servers w s)) <-> alookup g (btab (servers w s)) <> None) /\
            (forall g st, In (g, st) (btab (servers w s)) -> nth_error (gdef w) g = Some st).
Proof. exact evicted_closed. Qed.
Print Assumptions c08_evicted_closed_and_reprepared.

(** Portals and statements are two name spaces (all states, no guard): a Close of a PORTAL —
    when it is buffered, in the 'S' arm, on the backend and in the specification — leaves the
    client map, the pool, every server cache and every statement table as they are (pgcat only
    forwards it); a Close of a STATEMENT leaves the backend's portals alone. *)
Theorem c08_portal_close_inert : forall K w c p a b,
  (forall c', cmap (clients (fst (step K w (CloseP c p))) c') = cmap (clients w c')) /\
  servers (fst (step K w (CloseP c p))) = servers w /\
  plru (fst (step K w (CloseP c p))) = plru w /\
  a_map (sitem K a (IClosePortal p)) = a_map a /\
  a_sv (sitem K a (IClosePortal p)) = a_sv a /\
  a_fwd (sitem K a (IClosePortal p)) = a_fwd a ++ [BCloseP p] /\
  a_syn (sitem K a (IClosePortal p)) = a_syn a /\
  b_tab (fst (bstep K b (BCloseP p))) = b_tab b /\
  b_portal (fst (bstep K b (BClose p))) = b_portal b /\
  d_tab (fst (dstep K (mkD (b_tab b) (b_portal b) (b_skip b)) (CloseP c p))) = b_tab b.
Proof. exact portal_close_inert. Qed.
Print Assumptions c08_portal_close_inert.

(** Named portals inside the guard of [c08_refines_direct]: portal and statement with the SAME
    name, Close('P') then use of the statement, Close('S') then Execute of the still-open portal,
    Describe('P'), several portals in one batch. *)
Example c08_portals_nonvacuous :
  agree (Kid 4) [Parse 0 1 10; Bind 0 1 1; Execute 0 1; CloseP 0 1; Bind 0 0 1; Execute 0 0; Sync 0 0; Bind 0 1 1; DescribeP 0 1; Execute 0 1; Sync 0 0] = (true, true) /\
  agree (Kid 4) [Parse 0 1 10; Parse 0 2 11; Bind 0 2 1; Bind 0 1 2; Close 0 1; Execute 0 2; Execute 0 1; CloseP 0 2; Sync 0 0; Bind 0 0 2; Execute 0 0; Sync 0 1] = (true, true) /\
  model_obs (Kid 4) [Parse 0 1 10; Bind 0 1 1; CloseP 0 1; Sync 0 0; Bind 0 0 1; Execute 0 0; Sync 0 0]
    = [NReplies 0 ([], (1, 1, 1, 1)); NReplies 0 ([RRow 10], (0, 1, 0, 1))] /\
  (* an Execute of a closed portal is an error on both sides (outside the guard) *)
  agree (Kid 4) [Parse 0 1 10; Bind 0 1 1; CloseP 0 1; Execute 0 1; Sync 0 0; Bind 0 0 1; Execute 0 0; Sync 0 0] = (false, true).
Proof. vm_compute. repeat split; reflexivity. Qed.

(** ** Non-vacuity: guarded programs with evictions, shared and shadowed names, several servers,
    names closed and re-prepared inside one batch, one statement bound many times with cache size 1 *)
Example c08_guard_nonvacuous :
  agree (Kid 1) [Parse 0 1 10; Sync 0 0; Parse 1 1 11; Sync 1 0; Parse 1 2 10; Bind 1 0 2; Execute 1 0; Sync 1 0; Bind 0 0 1; Execute 0 0; Sync 0 0] = (true, true) /\
  agree (Kid 4) [Parse 0 1 10; Parse 1 1 11; Sync 0 0; Sync 1 0; Bind 0 0 1; Execute 0 0; Sync 0 1; Bind 1 0 1; Execute 1 0; Sync 1 1] = (true, true) /\
  agree (Kid 2) [Parse 0 1 10; Parse 0 2 11; Sync 0 0; Bind 0 0 1; Execute 0 0; Bind 0 0 2; Execute 0 0; Sync 0 1; Close 0 1; Sync 0 1; Parse 0 1 12; Bind 0 0 1; Execute 0 0; Sync 0 0] = (true, true) /\
  agree (Kid 1) [Parse 0 1 10; Sync 0 0; Bind 0 0 1; Execute 0 0; Bind 0 0 1; Execute 0 0; Bind 0 0 1; Execute 0 0; Describe 0 1; Sync 0 0] = (true, true) /\
  model_obs (Kid 1) [Parse 0 1 10; Bind 0 0 1; Execute 0 0; Sync 0 0; Parse 0 2 11; Bind 0 0 2; Execute 0 0; Sync 0 0; Bind 0 0 1; Execute 0 0; Sync 0 0]
    = [NReplies 0 ([RRow 10], (1, 1, 0, 1)); NReplies 0 ([RRow 11], (1, 1, 0, 1)); NReplies 0 ([RRow 10], (0, 1, 0, 1))].
Proof. vm_compute. repeat split; reflexivity. Qed.

(** ** Regressions: the message sequences of the repaired defects F11a, F11b, F11c, F11d, F11f and
    the repaired half of F11g now behave like a direct connection ([agree K ops = (guard, equal)]). *)
Example c08_fixed_F11bcd_now_inside_the_guard :
  agree (Kid 8) [Parse 0 1 10; Sync 0 0; Close 0 1; Parse 0 1 11; Sync 0 0; Bind 0 0 1; Execute 0 0; Sync 0 0] = (true, true) /\
  agree (Kid 8) [Parse 0 1 10; Sync 0 0; Close 0 1; Parse 0 1 11; Bind 0 0 1; Execute 0 0; Sync 0 0; Parse 1 5 11; Bind 1 0 5; Execute 1 0; Sync 1 0] = (true, true) /\
  agree (Kid 8) [Parse 0 1 10; Sync 0 0; Bind 0 0 1; Execute 0 0; Close 0 1; Parse 0 1 11; Sync 0 1] = (true, true) /\
  agree (Kid 2) [Parse 0 0 10; Bind 0 0 0; Execute 0 0; Parse 0 0 11; Bind 0 0 0; Execute 0 0; Sync 0 0] = (true, true).
Proof. vm_compute. repeat split; reflexivity. Qed.
Example c08_fixed_F11a_F11f_F11g_agree_outside_the_guard :
  agree (Kid 8) [Parse 0 1 90; Parse 0 2 10; Sync 0 0; Parse 0 2 10; Sync 0 0; Bind 0 0 2; Execute 0 0; Sync 0 0] = (false, true) /\
  agree (Kid 8) [Parse 0 1 90; Parse 0 2 10; Sync 0 0; Parse 1 7 10; Bind 1 0 7; Execute 1 0; Sync 1 0] = (false, true) /\
  agree (Kid 4) [Parse 0 1 10; Sync 0 0; Parse 1 1 99; Bind 1 0 1; Execute 1 0; Sync 1 0; Bind 0 0 1; Execute 0 0; Sync 0 0] = (false, true) /\
  agree (Kid 2) [Parse 1 1 10; Sync 1 0; Parse 1 2 11; Sync 1 0; Parse 0 1 90; Sync 0 1; Bind 0 0 1; Execute 0 0; Sync 0 0;
                 Bind 1 0 1; Execute 1 0; Sync 1 0; Bind 1 0 1; Execute 1 0; Sync 1 0] = (false, true).
Proof. vm_compute. repeat split; reflexivity. Qed.

(** ** The hypothesis and every clause of the guard are needed: refuted strengthenings, each
    confirmed on the wire (props/c08.py WITNESSES; pgcat = this model, both differ from a direct
    connection). *)

(* without hash_collision_free: two statements with one hash share a server-side statement *)
Example c08_hash_collision_refuted :
  agree (Kcollide 4) [Parse 0 1 10; Sync 0 0; Parse 1 1 11; Bind 1 0 1; Execute 1 0; Sync 1 0] = (true, false).
Proof. vm_compute. reflexivity. Qed.

(* G4 (known F11e): a batch that needs more server-side statements than the cache holds *)
Example c08_gap_batch_larger_than_cache :
  agree (Kid 1) [Parse 0 1 10; Parse 0 2 11; Bind 0 0 1; Execute 0 0; Sync 0 0] = (false, false) /\
  agree (Kid 2) [Parse 0 1 10; Parse 0 2 11; Parse 0 3 12; Sync 0 0; Bind 0 0 1; Execute 0 0; Sync 0 0; Bind 0 0 1; Execute 0 0; Sync 0 0] = (false, false) /\
  (* the second program leaves a statement on the backend that the cache does not know *)
  (let w := fst (run (Kid 2) world0 [Parse 0 1 10; Parse 0 2 11; Parse 0 3 12; Sync 0 0]) in
   (lru (servers w 0), btab (servers w 0)) = ([2; 1], [(2, 12); (1, 11); (0, 10)])).
Proof. vm_compute. repeat split; reflexivity. Qed.

(* G1/G3 (known F11h): after an error PostgreSQL skips the rest of the batch; pgcat still applies
   it to the client map and acknowledges it.  [Close s1] after a failing Execute forgets s1 *)
Example c08_gap_rest_of_batch_not_skipped_after_error :
  agree (Kid 4) [Parse 0 1 10; Sync 0 0; Parse 0 2 95; Bind 0 0 2; Execute 0 0; Close 0 1; Sync 0 0; Bind 0 0 1; Execute 0 0; Sync 0 0] = (false, false) /\
  agree (Kid 4) [Parse 0 1 10; Sync 0 0; Parse 0 2 95; Bind 0 0 2; Execute 0 0; Parse 0 3 10; Sync 0 0; Bind 0 0 3; Execute 0 0; Sync 0 0] = (false, false).
Proof. vm_compute. split; reflexivity. Qed.

(* repaired by d9d0e8b / fc66d7a: an out-of-band error only answers for its own statement;
   statements prepared after a DEALLOCATE ALL in the same batch stay cached *)
Example c08_fixed_F11g_F11f3 :
  agree (Kid 4) [Parse 0 9 90; Sync 0 1; Parse 0 1 10; Bind 0 0 9; Execute 0 0; Sync 0 0; Parse 1 1 10; Bind 1 0 1; Execute 1 0; Sync 1 0] = (false, true) /\
  agree (Kid 4) [Parse 0 1 99; Bind 0 0 1; Execute 0 0; Parse 0 2 10; Sync 0 0; Parse 1 1 10; Bind 1 0 1; Execute 1 0; Sync 1 0] = (false, true).
Proof. vm_compute. split; reflexivity. Qed.

(* G3 and deliberate leniency: Bind of a name that does not exist answers E+Z and disconnects
   the client (a direct connection answers 26000 and carries on); Close of the unnamed statement
   is forwarded but the client map keeps it; re-Parse of a named statement without Close is
   accepted (PostgreSQL: 42P05) *)
Example c08_gap_unknown_name_disconnects :
  model_obs (Kid 4) [Bind 0 0 1; Execute 0 0; Sync 0 0; Parse 0 1 10; Sync 0 0] = [NKilled 0] /\
  spec_obs (Kid 4) [Bind 0 0 1; Execute 0 0; Sync 0 0; Parse 0 1 10; Sync 0 0] = [NReplies 0 ([RErr], (0, 0, 0, 1)); NReplies 0 ([], (1, 0, 0, 1))] /\
  agree (Kid 4) [Parse 0 1 90; Sync 0 0; Bind 0 0 1; Execute 0 0; Sync 0 0; Bind 0 0 1; Execute 0 0; Sync 0 0] = (false, false).
Proof. vm_compute. repeat split; reflexivity. Qed.
Example c08_gap_close_unnamed_kept :
  agree (Kid 4) [Parse 0 0 10; Sync 0 0; Close 0 0; Sync 0 0; Bind 0 0 0; Execute 0 0; Sync 0 0] = (false, false).
Proof. vm_compute. reflexivity. Qed.
Example c08_reparse_without_close_is_lenient :
  agree (Kid 4) [Parse 0 1 10; Sync 0 0; Parse 0 1 11; Sync 0 0; Bind 0 0 1; Execute 0 0; Sync 0 0] = (true, true).
Proof. vm_compute. reflexivity. Qed.

(** ** Investigated and fine (behave like a direct connection): (ii) pool eviction while a client
    still holds the evicted entry, (iii) one statement under two client names, (iv) a server
    whose cache was cleared by DEALLOCATE ALL at checkin, (v) cache size 1 with Parse+Bind+Execute
    in one batch. *)
Example c08_investigated_fine :
  agree (Kid 1) [Parse 0 1 10; Sync 0 0; Parse 1 1 11; Sync 1 0; Parse 1 2 10; Bind 1 0 2; Execute 1 0; Sync 1 0; Bind 0 0 1; Execute 0 0; Sync 0 0] = (true, true) /\
  agree (Kid 4) [Parse 0 1 10; Parse 0 2 10; Sync 0 0; Close 0 1; Sync 0 0; Bind 0 0 2; Execute 0 0; Sync 0 1] = (true, true) /\
  agree (Kid 4) [Parse 0 1 10; Sync 0 0; Cleanup 0; Bind 0 0 1; Execute 0 0; Sync 0 0] = (true, true) /\
  agree (Kid 1) [Parse 0 1 10; Bind 0 0 1; Execute 0 0; Sync 0 0; Parse 0 2 11; Bind 0 0 2; Execute 0 0; Sync 0 0; Bind 0 0 1; Execute 0 0; Sync 0 0] = (true, true).
Proof. vm_compute. repeat split; reflexivity. Qed.
