(** C08, layer 1 — byte-level model of the prepared-statement codecs of
    /repo/src/messages.rs: [Parse], [Bind], [Describe], [Close] decoders
    ([TryFrom<&BytesMut>]), encoders ([TryFrom<..> for BytesMut]), [Bind::rename],
    [Describe::rename], [Parse::rewrite], [Parse::get_name], [Bind::get_name],
    [Close::new], [parse_complete], [close_complete] and the item sequence
    [Parse::get_hash] feeds to the hasher.

    Definitions only (executable); lemmas are in CodecProofs.v.

    Conventions.  [byte := N] (wire bytes are < 256, stated as a guard where a
    theorem needs it), integers carried by the wire are [Z].  A decoder is a total
    function to [Ok v | Err | Panic]:
      - [Panic]: [bytes::Buf::get_u8/get_i16/get_i32/copy_to_slice/advance] past the end
        (bytes-1.4.0 buf_impl.rs:254,289,1387 assert), [buf[..buf.len() - 1]] on an empty
        [read_until] result (messages.rs:752), arithmetic overflow in a build with
        overflow checks (parameter [chk]; the harness is a dev build => [chk = true],
        pgcat's release build => [chk = false]), [Vec] capacity overflow.
      - [Err]: [CString::new] on a string with an interior NUL (messages.rs:864,...).
        The four decoders can never return [Err]: [Cursor::read_until] cannot fail. *)
From Coq Require Import ZArith NArith List Bool Lia.
Import ListNotations.
Open Scope Z_scope.

Definition byte := N.
Definition bytes := list byte.

Inductive res (A : Type) : Type := Ok (a : A) | Err | Panic.
Arguments Ok {A} a.
Arguments Err {A}.
Arguments Panic {A}.

Definition bind {A B} (r : res A) (f : A -> res B) : res B :=
  match r with Ok a => f a | Err => Err | Panic => Panic end.
Notation "' p <- e ;; k" := (bind e (fun p => k)) (at level 61, p pattern, e at next level, right associativity).
Notation "x <- e ;; k" := (bind e (fun x => k)) (at level 61, e at next level, right associativity).

Definition blen (s : bytes) : Z := Z.of_nat (length s).
Definition byteb (b : byte) : bool := (b <? 256)%N.
Definition has0 (s : bytes) : bool := existsb (N.eqb 0) s.

(** ** Big-endian integers ([Buf::get_i16/get_i32], [BufMut::put_i16/put_i32]) *)

Definition i16_of (a b : byte) : Z :=
  let u := Z.of_N a * 256 + Z.of_N b in if u <? 32768 then u else u - 65536.
Definition i32_of (a b c d : byte) : Z :=
  let u := ((Z.of_N a * 256 + Z.of_N b) * 256 + Z.of_N c) * 256 + Z.of_N d in
  if u <? 2147483648 then u else u - 4294967296.

Definition be16 (z : Z) : bytes :=
  let u := z mod 65536 in [Z.to_N (u / 256); Z.to_N (u mod 256)].
Definition be32 (z : Z) : bytes :=
  let u := z mod 4294967296 in
  [Z.to_N (u / 16777216); Z.to_N ((u / 65536) mod 256); Z.to_N ((u / 256) mod 256); Z.to_N (u mod 256)].

Definition in_i16 (z : Z) : bool := (-32768 <=? z) && (z <? 32768).
Definition in_i32 (z : Z) : bool := (-2147483648 <=? z) && (z <? 2147483648).

Definition get_u8 (s : bytes) : res (byte * bytes) :=
  match s with b :: r => Ok (b, r) | [] => Panic end.
Definition get_i16 (s : bytes) : res (Z * bytes) :=
  match s with a :: b :: r => Ok (i16_of a b, r) | _ => Panic end.
Definition get_i32 (s : bytes) : res (Z * bytes) :=
  match s with a :: b :: c :: d :: r => Ok (i32_of a b c d, r) | _ => Panic end.

(** [for _ in 0..n { v.push(g(cursor)) }] — an empty range when [n <= 0]. *)
Fixpoint get_n {A} (g : bytes -> res (A * bytes)) (n : nat) (s : bytes) : res (list A * bytes) :=
  match n with
  | O => Ok ([], s)
  | S k => '(a, r) <- g s ;; '(l, r') <- get_n g k r ;; Ok (a :: l, r')
  end.

(** ** [String::from_utf8_lossy] (core::str::lossy::Utf8Chunks): every maximal invalid
    prefix of an ill-formed sequence is replaced by U+FFFD (EF BF BD). *)

Definition cont (b : byte) : bool := ((128 <=? b) && (b <=? 191))%N.
Definition REPL : bytes := [239; 191; 189]%N.
(* second byte admissible after a 3-byte lead / 4-byte lead *)
Definition ok3 (b c : byte) : bool :=
  (if b =? 224 then (160 <=? c) && (c <=? 191)
   else if b =? 237 then (128 <=? c) && (c <=? 159)
   else (128 <=? c) && (c <=? 191))%N.
Definition ok4 (b c : byte) : bool :=
  (if b =? 240 then (144 <=? c) && (c <=? 191)
   else if b =? 244 then (128 <=? c) && (c <=? 143)
   else (128 <=? c) && (c <=? 191))%N.

Fixpoint lossy (s : bytes) : bytes :=
  match s with
  | [] => []
  | b :: r =>
    if (b <? 128)%N then b :: lossy r
    else if ((194 <=? b) && (b <=? 223))%N then
      match r with
      | c1 :: r1 => if cont c1 then b :: c1 :: lossy r1 else REPL ++ lossy r
      | [] => REPL
      end
    else if ((224 <=? b) && (b <=? 239))%N then
      match r with
      | c1 :: r1 =>
        if ok3 b c1 then
          match r1 with
          | c2 :: r2 => if cont c2 then b :: c1 :: c2 :: lossy r2 else REPL ++ lossy r1
          | [] => REPL
          end
        else REPL ++ lossy r
      | [] => REPL
      end
    else if ((240 <=? b) && (b <=? 244))%N then
      match r with
      | c1 :: r1 =>
        if ok4 b c1 then
          match r1 with
          | c2 :: r2 =>
            if cont c2 then
              match r2 with
              | c3 :: r3 => if cont c3 then b :: c1 :: c2 :: c3 :: lossy r3 else REPL ++ lossy r2
              | [] => REPL
              end
            else REPL ++ lossy r1
          | [] => REPL
          end
        else REPL ++ lossy r
      | [] => REPL
      end
    else REPL ++ lossy r
  end.

Definition beq_bytes (a b : bytes) : bool :=
  (length a =? length b)%nat && forallb (fun p => N.eqb (fst p) (snd p)) (combine a b).
(** [clean s]: the text survives [from_utf8_lossy] unchanged (it is valid UTF-8). *)
Definition cleanb (s : bytes) : bool := beq_bytes (lossy s) s.
Definition asciib (s : bytes) : bool := forallb (fun b => (b <? 128)%N) s.

(** ** [BytesMutReader for Cursor<&BytesMut>::read_string] (messages.rs:749-755).
    [read_until(0)] cannot fail on a cursor; without a terminator it returns the rest of
    the buffer, of which the LAST BYTE IS THEN CUT OFF ([buf[..buf.len()-1]]); on an
    exhausted cursor [buf.len() - 1] underflows: panic. *)
Fixpoint split0 (s : bytes) : option (bytes * bytes) :=
  match s with
  | [] => None
  | c :: r => if (c =? 0)%N then Some ([], r)
              else match split0 r with Some (p, q) => Some (c :: p, q) | None => None end
  end.

Definition read_string (s : bytes) : res (bytes * bytes) :=
  match split0 s with
  | Some (p, r) => Ok (lossy p, r)
  | None => match s with [] => Panic | _ => Ok (lossy (removelast s), []) end
  end.

(* the same without the lossy conversion: the bytes as the client sent them *)
Definition read_raw (s : bytes) : res (bytes * bytes) :=
  match split0 s with
  | Some (p, r) => Ok (p, r)
  | None => match s with [] => Panic | _ => Ok (removelast s, []) end
  end.
(* Parse's query text since a7561f2: read_until + truncate(len.saturating_sub(1)) — raw bytes, never fails *)
Definition read_query (s : bytes) : bytes * bytes :=
  match split0 s with Some (p, r) => (p, r) | None => (removelast s, []) end.

(** [cursor.advance(5)] (Parse::get_name, Bind::get_name): asserts pos <= len. *)
Definition advance5 (s : bytes) : res bytes :=
  match s with _ :: _ :: _ :: _ :: _ :: r => Ok r | _ => Panic end.

(** ** usize / i32 arithmetic with or without overflow checks *)
Definition two64 : Z := 18446744073709551616.
Definition as_usize (z : Z) : Z := z mod two64.           (* iN as usize: sign extension *)
Definition ck64 (chk : bool) (v : Z) : res Z :=
  if v <? two64 then Ok v else if chk then Panic else Ok (v mod two64).
Definition wrap32 (v : Z) : Z := let u := v mod 4294967296 in if u <? 2147483648 then u else u - 4294967296.
Definition ck32 (chk : bool) (v : Z) : res Z :=
  if in_i32 v then Ok v else if chk then Panic else Ok (wrap32 v).

(** ** Parse (messages.rs:821-933) *)
Record parse := mkParse { p_code : byte; p_len : Z; p_name : bytes; p_query : bytes;
                          p_np : Z; p_types : list Z }.

Definition decode_parse_k (b : bytes) : res (parse * bytes) :=
  '(code, s1) <- get_u8 b ;;
  '(len, s2) <- get_i32 s1 ;;
  '(name, s3) <- read_string s2 ;;
  let '(query, s4) := read_query s3 in
  '(np, s5) <- get_i16 s4 ;;
  '(tys, s6) <- get_n get_i32 (Z.to_nat np) s5 ;;
  Ok (mkParse code len name query np tys, s6).
Definition decode_parse (b : bytes) : res parse := '(p, _) <- decode_parse_k b ;; Ok p.

(* messages.rs:861-887 *)
Definition encode_parse (chk : bool) (p : parse) : res bytes :=
  if has0 (p_name p) then Err else
  if has0 (p_query p) then Err else
  m <- ck64 chk (4 * as_usize (p_np p)) ;;
  l <- ck64 chk (4 + (blen (p_name p) + 1) + (blen (p_query p) + 1) + 2 + m) ;;
  Ok (p_code p :: be32 l ++ p_name p ++ 0%N :: p_query p ++ 0%N :: be16 (p_np p) ++ flat_map be32 (p_types p)).

(* Parse::rewrite: name := "PGCAT_<n>" (m is that name) *)
Definition rename_parse (p : parse) (m : bytes) : parse :=
  mkParse (p_code p) (p_len p) m (p_query p) (p_np p) (p_types p).

Definition parse_get_name (b : bytes) : res bytes :=
  s <- advance5 b ;; '(n, _) <- read_string s ;; Ok n.

(** What [Parse::get_hash] distinguishes (after commit f0b6d0f): the three fields, fed
    separately.  [hstream] is the byte stream the hasher sees ([Vec<u8>::hash] = usize length LE
    then the bytes, since a7561f2; [i16::hash] = 2 bytes LE; [Vec<i32>::hash] = usize length LE then the elements
    LE); SipHash-1-3 of that stream is the cache key. *)
Definition hkey (p : parse) : bytes * Z * list Z := (p_query p, p_np p, p_types p).

Fixpoint le_go (k : nat) (u : Z) : bytes :=
  match k with O => [] | S k' => Z.to_N (u mod 256) :: le_go k' (u / 256) end.
Definition le_bytes (n : nat) (z : Z) : bytes := le_go n (z mod 2 ^ (8 * Z.of_nat n)).
Definition hstream (k : bytes * Z * list Z) : bytes :=
  let '(q, np, tys) := k in
  le_bytes 8 (Z.of_nat (length q)) ++ q ++ le_bytes 2 np ++ le_bytes 8 (Z.of_nat (length tys)) ++ flat_map (le_bytes 4) tys.

(** The key hashed BEFORE the repair: format!("{}{}{}", query, num_params, types.join(",")) *)
Fixpoint dec_pos (fuel : nat) (n : Z) (acc : bytes) : bytes :=
  match fuel with
  | O => acc
  | S f => let acc' := (48 + Z.to_N (n mod 10))%N :: acc in
           if n / 10 =? 0 then acc' else dec_pos f (n / 10) acc'
  end.
Definition dec (k : Z) : bytes := if k <? 0 then 45%N :: dec_pos 20 (- k) [] else dec_pos 20 k [].
Fixpoint join_comma (l : list bytes) : bytes :=
  match l with [] => [] | [x] => x | x :: r => x ++ 44%N :: join_comma r end.
Definition old_hkey (k : bytes * Z * list Z) : bytes :=
  let '(q, np, tys) := k in q ++ dec np ++ join_comma (map dec tys).

(** ** Bind (messages.rs:938-1101) *)
Record bindm := mkBind { b_code : byte; b_len : Z; b_portal : bytes; b_stmt : bytes;
                         b_nfc : Z; b_fcs : list Z; b_npv : Z; b_pvs : list (Z * bytes);
                         b_nrc : Z; b_rcs : list Z }.

Fixpoint take_n (n : nat) (s : bytes) : option (bytes * bytes) :=
  match n with
  | O => Some ([], s)
  | S k => match s with [] => None | c :: r =>
           match take_n k r with Some (p, q) => Some (c :: p, q) | None => None end end
  end.

(* messages.rs:971-988: param_len > 0 => copy that many bytes (assert remaining >= len);
   otherwise (NULL = -1, empty = 0, any other negative) an empty value.  (The real code first
   allocates and fills param_len bytes, then asserts: a time/memory cost, not a result.) *)
Definition get_param (s : bytes) : res ((Z * bytes) * bytes) :=
  '(pl, r) <- get_i32 s ;;
  if 0 <? pl then
    if blen r <? pl then Panic else
    match take_n (Z.to_nat pl) r with Some (v, r') => Ok ((pl, v), r') | None => Panic end
  else Ok ((pl, []), r).

Definition decode_bind_k (b : bytes) : res (bindm * bytes) :=
  '(code, s1) <- get_u8 b ;;
  '(len, s2) <- get_i32 s1 ;;
  '(portal, s3) <- read_string s2 ;;
  '(stmt, s4) <- read_string s3 ;;
  '(nfc, s5) <- get_i16 s4 ;;
  '(fcs, s6) <- get_n get_i16 (Z.to_nat nfc) s5 ;;
  '(npv, s7) <- get_i16 s6 ;;
  '(pvs, s8) <- get_n get_param (Z.to_nat npv) s7 ;;
  '(nrc, s9) <- get_i16 s8 ;;
  '(rcs, s10) <- get_n get_i16 (Z.to_nat nrc) s9 ;;
  Ok (mkBind code len portal stmt nfc fcs npv pvs nrc rcs, s10).
Definition decode_bind (b : bytes) : res bindm := '(p, _) <- decode_bind_k b ;; Ok p.

(* messages.rs:1024-1035: len += 4 + *param_len as usize, one checked addition per step *)
Fixpoint add_param_lens (chk : bool) (acc : Z) (pvs : list (Z * bytes)) : res Z :=
  match pvs with
  | [] => Ok acc
  | (pl, _) :: r => x <- ck64 chk (4 + as_usize pl) ;; a <- ck64 chk (acc + x) ;; add_param_lens chk a r
  end.

Definition encode_bind (chk : bool) (p : bindm) : res bytes :=
  if has0 (b_portal p) then Err else
  if has0 (b_stmt p) then Err else
  m1 <- ck64 chk (2 * as_usize (b_nfc p)) ;;
  l0 <- ck64 chk (4 + (blen (b_portal p) + 1) + (blen (b_stmt p) + 1) + 2 + m1) ;;
  l1 <- ck64 chk (l0 + 2) ;;
  l2 <- add_param_lens chk l1 (b_pvs p) ;;
  l3 <- ck64 chk (l2 + 2) ;;
  m2 <- ck64 chk (2 * as_usize (b_nrc p)) ;;
  l4 <- ck64 chk (l3 + m2) ;;
  Ok (b_code p :: be32 l4 ++ b_portal p ++ 0%N :: b_stmt p ++ 0%N :: be16 (b_nfc p) ++ flat_map be16 (b_fcs p)
      ++ be16 (b_npv p) ++ flat_map (fun pv => be32 (fst pv) ++ snd pv) (b_pvs p)
      ++ be16 (b_nrc p) ++ flat_map be16 (b_rcs p)).

Definition bind_get_name (b : bytes) : res bytes :=
  s <- advance5 b ;; '(_, s') <- read_string s ;; '(n, _) <- read_string s' ;; Ok n.

(* Bind::rename, messages.rs:1070-1096.  [BytesMut::with_capacity(new_len as usize + 1)]:
   a negative new_len is >= 2^64 - 2^31 as usize: "+ 1" overflows for -1 (checked build:
   panic; release: capacity 0), anything else exceeds isize::MAX: capacity-overflow panic. *)
Definition rename_bind (chk : bool) (buf : bytes) (m : bytes) : res bytes :=
  '(code, s1) <- get_u8 buf ;;
  '(len, s2) <- get_i32 s1 ;;
  '(portal, s3) <- read_raw s2 ;;          (* since 15e9536: the portal is copied as sent, the old name's *)
  '(old, tail) <- read_raw s3 ;;           (* length is its byte length (cursor positions), nothing lossy  *)
  t <- ck32 chk (len + blen m) ;;
  new_len <- ck32 chk (t - blen old) ;;
  if (new_len <? 0) && (chk || negb (new_len =? -1)) then Panic else
  if has0 m then Err else
  Ok (code :: be32 new_len ++ portal ++ 0%N :: m ++ 0%N :: tail).

(** ** Describe (messages.rs:1104-1168) and Close (1173-1239) *)
Record descm := mkDesc { d_code : byte; d_len : Z; d_target : byte; d_name : bytes }.

Definition decode_describe_k (b : bytes) : res (descm * bytes) :=
  '(code, s1) <- get_u8 b ;;
  '(len, s2) <- get_i32 s1 ;;
  '(target, s3) <- get_u8 s2 ;;
  '(name, s4) <- read_string s3 ;;
  Ok (mkDesc code len target name, s4).
Definition decode_describe (b : bytes) : res descm := '(p, _) <- decode_describe_k b ;; Ok p.

Definition encode_describe (p : descm) : res bytes :=
  if has0 (d_name p) then Err else
  Ok (d_code p :: be32 (4 + 1 + (blen (d_name p) + 1)) ++ d_target p :: d_name p ++ [0%N]).

Definition rename_describe (p : descm) (m : bytes) : descm := mkDesc (d_code p) (d_len p) (d_target p) m.

(* Close has the same layout; Close::new(name) = { 'C', _, 'S', name } *)
Definition decode_close := decode_describe.
Definition encode_close := encode_describe.
Definition close_new (name : bytes) : descm := mkDesc 67%N (4 + 1 + blen name + 1) 83%N name.

Definition parse_complete : bytes := [49; 0; 0; 0; 4]%N.
Definition close_complete : bytes := [51; 0; 0; 0; 4]%N.

(** ** "Only the name and the length field differ": the splice of a new name into the
    original bytes, defined on the bytes alone.  [pre] = number of bytes between the
    length field and the first C-string (0 for Parse, 1 for Describe/Close: the target),
    [skip] = number of C-strings before the statement name (0 for Parse/Describe, 1 for
    Bind: the portal). *)
Fixpoint skip_strings (n : nat) (s : bytes) : option (bytes * bytes) :=
  match n with
  | O => Some ([], s)
  | S k => match split0 s with
           | Some (p, r) => match skip_strings k r with
                            | Some (h, t) => Some (p ++ 0%N :: h, t) | None => None end
           | None => None end
  end.

Definition splice_name (pre skip : nat) (b : bytes) (m : bytes) : option bytes :=
  match b with
  | code :: l1 :: l2 :: l3 :: l4 :: s2 =>
    match take_n pre s2 with
    | Some (fixed, s2') =>
      match skip_strings skip s2' with
      | Some (before, s3) =>
        match split0 s3 with
        | Some (old, tail) =>
          Some (code :: be32 (i32_of l1 l2 l3 l4 + blen m - blen old) ++ fixed ++ before ++ m ++ 0%N :: tail)
        | None => None end
      | None => None end
    | None => None end
  | _ => None
  end.

(** Well-formed frames (what a PostgreSQL client library emits, and what PostgreSQL itself
    accepts): exact length field, both strings terminated, a non-negative count followed
    by exactly that many items and nothing else, wire bytes, valid UTF-8 text. *)
Definition parse_canonical (b : bytes) : bool :=
  match b with
  | code :: l1 :: l2 :: l3 :: l4 :: s2 =>
    match split0 s2 with
    | Some (nm, s3) =>
      match split0 s3 with
      | Some (q, s4) =>
        match s4 with
        | n1 :: n2 :: s5 =>
          (0 <=? i16_of n1 n2) && (blen s5 =? 4 * i16_of n1 n2) && (i32_of l1 l2 l3 l4 =? blen b - 1)
          && forallb byteb b && cleanb nm
        | _ => false end
      | None => false end
    | None => false end
  | _ => false
  end.

Definition describe_canonical (b : bytes) : bool :=
  match b with
  | code :: l1 :: l2 :: l3 :: l4 :: t :: s3 =>
    match split0 s3 with
    | Some (nm, []) => (i32_of l1 l2 l3 l4 =? blen b - 1) && forallb byteb b && cleanb nm
    | _ => false end
  | _ => false
  end.

(** Structured values a round trip preserves *)
Definition parse_wf (p : parse) : bool :=
  byteb (p_code p) && forallb byteb (p_name p) && forallb byteb (p_query p)
  && negb (has0 (p_name p)) && negb (has0 (p_query p)) && cleanb (p_name p) && cleanb (p_query p)
  && (0 <=? p_np p) && (p_np p <? 32768) && (Z.of_nat (length (p_types p)) =? p_np p) && forallb in_i32 (p_types p)
  && (p_len p =? 4 + (blen (p_name p) + 1) + (blen (p_query p) + 1) + 2 + 4 * p_np p) && in_i32 (p_len p).

Definition desc_wf (p : descm) : bool :=
  byteb (d_code p) && byteb (d_target p) && forallb byteb (d_name p) && negb (has0 (d_name p)) && cleanb (d_name p)
  && (d_len p =? 4 + 1 + (blen (d_name p) + 1)) && in_i32 (d_len p).

Definition param_wf (pv : Z * bytes) : bool :=
  (0 <=? fst pv) && in_i32 (fst pv) && (blen (snd pv) =? fst pv) && forallb byteb (snd pv).
Definition bind_len (p : bindm) : Z :=
  4 + (blen (b_portal p) + 1) + (blen (b_stmt p) + 1) + 2 + 2 * b_nfc p + 2
  + fold_right (fun pv a => 4 + fst pv + a) 0 (b_pvs p) + 2 + 2 * b_nrc p.
(* no NULL parameters: see [c08_bind_null_param_*] in Props.v *)
Definition bind_wf (p : bindm) : bool :=
  byteb (b_code p) && forallb byteb (b_portal p) && forallb byteb (b_stmt p)
  && negb (has0 (b_portal p)) && negb (has0 (b_stmt p)) && cleanb (b_portal p) && cleanb (b_stmt p)
  && (0 <=? b_nfc p) && (b_nfc p <? 32768) && (Z.of_nat (length (b_fcs p)) =? b_nfc p) && forallb in_i16 (b_fcs p)
  && (0 <=? b_npv p) && (b_npv p <? 32768) && (Z.of_nat (length (b_pvs p)) =? b_npv p) && forallb param_wf (b_pvs p)
  && (0 <=? b_nrc p) && (b_nrc p <? 32768) && (Z.of_nat (length (b_rcs p)) =? b_nrc p) && forallb in_i16 (b_rcs p)
  && (b_len p =? bind_len p) && in_i32 (b_len p).
