(** C08 — observation functions for the cache model (used by props/c08.py: prediction of the
    client-visible replies and of every backend's message log for a program).  No proofs. *)
From Coq Require Import Arith List Bool.
From PV Require Import Prep.Cache.
Import ListNotations.

(* verdict convention shared with the driver / the mock backend: statement ids 90..94 fail at
   Parse, 95..97 fail at Execute, 99 is DEALLOCATE ALL, everything else is fine *)
Definition kd (st : nat) : skind :=
  if 90 <=? st then (if st <=? 94 then BadParse else if st <=? 97 then BadExec else if st =? 99 then DeallocAll else Good) else Good.
Definition Kid (k : nat) : cfg := mkCfg (fun x => x) kd k k.          (* pool and server cache share one size *)
Definition Kgen (p s : nat) : cfg := mkCfg (fun x => x) kd p s.
Definition Kcollide (k : nat) : cfg := mkCfg (fun _ => 0) kd k k.     (* every statement hashes alike *)

Definition predict (K : cfg) (ns : nat) (ops : list op) :=
  let '(w, os) := run K world0 ops in
  (os, map (fun s => (slog (servers w s), lru (servers w s), queue (servers w s), btab (servers w s))) (seq 0 ns), gdef w,
   snd (spec_run K (fun _ => sclient0) ops), guard K ops).

Definition agree (K : cfg) (ops : list op) : bool * bool :=
  (guard K ops,
   (fix eqb (a b : list nobs) : bool :=
      match a, b with
      | [], [] => true
      | NKilled c :: a', NKilled c' :: b' => (c =? c') && eqb a' b'
      | NReplies c (d, (n1, n2, n3, n4)) :: a', NReplies c' (d', (m1, m2, m3, m4)) :: b' =>
        (c =? c') && (n1 =? m1) && (n2 =? m2) && (n3 =? m3) && (n4 =? m4) &&
        ((fix leq (x y : list reply) : bool :=
            match x, y with
            | [], [] => true
            | RRow s :: x', RRow t :: y' => (s =? t) && leq x' y'
            | RDescr s :: x', RDescr t :: y' => (s =? t) && leq x' y'
            | RDescrP s :: x', RDescrP t :: y' => (s =? t) && leq x' y'
            | RErr :: x', RErr :: y' => leq x' y'
            | _, _ => false end) d d') && eqb a' b'
      | _, _ => false end) (model_obs K ops) (spec_obs K ops)).

(** the pool cache alone (tied to pool.rs PreparedStatementCache at library level) *)
Inductive pop := PGet (st : nat) | PProm (st : nat).
Fixpoint pool_run (K : cfg) (w : world) (ops : list pop) : list (option nat) :=
  match ops with
  | [] => []
  | PGet st :: r => let '(w1, (g, _)) := pool_get_or_insert K w st in Some g :: pool_run K w1 r
  | PProm st :: r => None :: pool_run K (mkWorld (clients w) (servers w) (ppromote (plru w) (hash K st)) (gdef w)) r
  end.
